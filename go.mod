module verif

go 1.25.0

require (
	github.com/vektah/gqlparser/v2 v2.5.30
	github.com/wundergraph/graphql-go-tools/execution v1.4.0
	github.com/wundergraph/graphql-go-tools/v2 v2.4.4
)

require (
	github.com/buger/jsonparser v1.1.2 // indirect
	github.com/cespare/xxhash/v2 v2.3.0 // indirect
	github.com/jensneuse/byte-template v0.0.0-20231025215717-69252eb3ed56 // indirect
	github.com/pkg/errors v0.9.1 // indirect
	github.com/tidwall/gjson v1.18.0 // indirect
	github.com/tidwall/match v1.1.1 // indirect
	github.com/tidwall/pretty v1.2.1 // indirect
	github.com/tidwall/sjson v1.2.5 // indirect
	github.com/wundergraph/astjson v1.1.0 // indirect
	github.com/wundergraph/go-arena v1.3.0 // indirect
	golang.org/x/sync v0.21.0 // indirect
)

replace github.com/wundergraph/graphql-go-tools/v2 => /repo/v2

replace github.com/wundergraph/graphql-go-tools/execution => /repo/execution

replace github.com/tidwall/sjson => github.com/tidwall/sjson v1.0.4
