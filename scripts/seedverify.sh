#!/bin/bash
# scripts/seedverify.sh <seed-dir> <demo placement path relative to repo root> <go test -run pattern> <module dir of demo (v2|execution)> <pkg path of demo (./pkg/...)> [extra test packages as "mod:pkg" ...]
# Confirms in a scratch worktree: patch applies and compiles, demo FAILS with it and PASSES without it, and the given existing test packages pass with it.
dir=$(readlink -f "$1"); place=$2; pat=$3; mod=$4; pkg=$5; shift 5
export GOTOOLCHAIN=local PATH=/root/go/pkg/mod/golang.org/toolchain@v0.0.1-go1.25.0.linux-amd64/bin:$PATH
wt=$(mktemp -d /tmp/seedver-XXXXXX); rmdir "$wt"
git -C /repo worktree add -q --detach "$wt" HEAD
trap 'git -C /repo worktree remove --force "$wt" >/dev/null 2>&1' EXIT
cp "$dir/demo_test.go" "$wt/$place"
echo "== demo WITHOUT change (must pass)"
(cd "$wt/$mod" && go test -count=1 -timeout 30m -run "$pat" "$pkg" 2>&1 | tail -5); r0=${PIPESTATUS[0]}
git -C "$wt" apply --3way "$dir/patch.diff" 2>/dev/null || git -C "$wt" apply "$dir/patch.diff" || { echo "PATCH DOES NOT APPLY"; exit 3; }
echo "== demo WITH change (must fail)"
(cd "$wt/$mod" && go test -count=1 -timeout 30m -run "$pat" "$pkg" 2>&1 | tail -8)
rm "$wt/$place"
echo "== existing tests WITH change (must pass)"
for mp in "$@"; do m=${mp%%:*}; p=${mp#*:}; (cd "$wt/$m" && go test -count=1 -timeout 40m "$p" 2>&1 | tail -3); done
echo "== done"
