#!/usr/bin/env python3
"""Records the number of evaluations of each check per tier in /verif/baselines.json (read by the driver's
vacuity guard). Quick numbers come from evidence/<ID>.json (must be from a quick run on the unchanged tree),
thorough numbers from the files given on the command line (evidence copies of thorough runs)."""
import json, glob, os, sys
root = os.path.dirname(os.path.dirname(os.path.abspath(__file__)))
p = os.path.join(root, "baselines.json")
bl = json.load(open(p)) if os.path.exists(p) else {}
for f in sorted(glob.glob(os.path.join(root, "evidence", "C*.json"))) + sys.argv[1:]:
    e = json.load(open(f))
    if e.get("violations") or not e["coverage"].get("exhaustive"):
        continue
    bl.setdefault(e["property_id"], {})[e["tier"]] = e["coverage"]["evaluations"]
json.dump(bl, open(p, "w"), indent=1, sort_keys=True)
print(json.dumps(bl))
