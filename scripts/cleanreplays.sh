#!/bin/bash
# removes replay files written by seed / demo runs: untracked files are deleted, tracked ones restored
cd /verif && git ls-files --others --exclude-standard replays | xargs -r rm -f && git checkout -- replays 2>/dev/null; find replays -type d -empty -delete 2>/dev/null; true
