#!/bin/bash
# scripts/repotests.sh [outdir] - runs the repository's pinned test suite (the command of /root/.vp/BASELINE.json)
# on /repo's current tree and lists every test of BASELINE.stable_pass that did not pass.
out=${1:-/root/repotests}; mkdir -p "$out"; rm -f "$out"/*.json
export GOTOOLCHAIN=local PATH=/root/go/pkg/mod/golang.org/toolchain@v0.0.1-go1.25.0.linux-amd64/bin:$PATH
unset GOFLAGS GOWORK
. /w/out/goenv.sh
i=0
for m in $(cat /w/out/gomods.txt); do i=$((i+1)); MF=$(cd /repo/$m && gomodflag); (cd /repo/$m && go test $MF -json -vet=off -count=1 -timeout 25m ./... > "$out/run.$i.json" 2> "$out/run.$i.err"); done
python3 - "$out" <<'PY'
import json,sys,glob
out=sys.argv[1]
res={}
for f in glob.glob(out+'/run.*.json'):
    for l in open(f):
        try: e=json.loads(l)
        except Exception: continue
        if e.get('Action') in ('pass','fail','skip') and e.get('Test'):
            res[e['Package']+'::'+e['Test']]=e['Action']
base=json.load(open('/root/.vp/BASELINE.json'))
sp=base['stable_pass']
bad=[t for t in sp if res.get(t)!='pass']
print("stable_pass:",len(sp),"passed now:",len(sp)-len(bad),"not passing:",len(bad))
for t in bad[:60]: print("  ",res.get(t,'MISSING'),t)
open(out+'/summary.txt','w').write("\n".join("%s %s"%(res.get(t,'MISSING'),t) for t in bad))
PY
