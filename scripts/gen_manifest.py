#!/usr/bin/env python3
"""Regenerates /verif/MANIFEST.json from checks.json + the per-property texts below.
Properties that have no entry in checks.json are listed under not_applicable
with the reason given in PENDING (kept current by hand)."""
import json, os, sys

ROOT = os.path.dirname(os.path.dirname(os.path.abspath(__file__)))
import glob
# a check is claimed only after its output on the unchanged tree has been reviewed
ACCEPTED = set(open(os.path.join(ROOT, "accepted.txt")).read().split())
checks, TEXT = {}, {}
for f in sorted(glob.glob(os.path.join(ROOT, "checks", "*", "check.json"))):
    d = json.load(open(f))
    pid = os.path.basename(os.path.dirname(f)).upper()
    if d.get("disabled") or pid not in ACCEPTED:
        continue
    checks[pid] = d["driver"]
    m = d["manifest"]
    TEXT[pid] = (d["driver"]["level"], m["technique"], m["level_text"], m["level_note"], m.get("design_ref", "DESIGN.md section 3 " + pid))
props = [json.loads(l) for l in open(os.path.join(ROOT, "properties.jsonl"))]

PENDING = {}

manifest = {
    "version": 1,
    "setup_cmd": "./setup.sh",
    "hooks": {
        "guard": "verif-overlay",
        "enable": "no source hooks are committed to /repo: every check run generates a `go build -overlay` file from the current /repo working tree with cmd/instrument (sync and sync/atomic imports of the instrumented packages redirected to the shim packages shim/vsync and shim/vatomic, schedule points before close/send/cancel statements, controllable map iteration, added accessor files under overlay/) and builds its test binary with it; without the overlay the repository builds exactly as committed",
        "baseline_off_cmd": json.load(open("/root/.vp/BASELINE.json"))["cmd"] if os.path.exists("/root/.vp/BASELINE.json") else "",
        "source_commits": [],
        "add_only": True,
    },
    "engines": [
        {"name": "S", "path": "internal/sched", "kind_free_text": "controlled scheduler + stateless DFS explorer with iterative preemption/deviation bounding inside a testing/synctest bubble; binding to the code by build overlay (cmd/instrument, shim/)",
         "serves_properties": sorted([k for k, v in checks.items() if v.get("overlay") and v["overlay"].get("sync")])},
        {"name": "E", "path": "internal/enum", "kind_free_text": "bounded exhaustive enumeration of inputs / configurations / fault sets / histories against reference models, sharded over processes",
         "serves_properties": sorted([k for k, v in checks.items() if not (v.get("overlay") and v["overlay"].get("sync"))])},
    ],
    "checks": [],
    "not_applicable": [],
    "notes": "All checks are driven by ./check <id> <tier> (cmd/vcheck): overlay generation from the current /repo tree, build, 16 shard processes, merge, known_findings/<id>.json, evidence/<id>.json. exit 0 = held (KNOWN-FINDING lines for listed findings), 1 = VIOLATION, 2 = infrastructure failure (never a verdict).",
}

for p in props:
    pid = p["id"]
    if pid in checks and pid in TEXT:
        cat, tech, text, note, ref = TEXT[pid]
        assert cat == checks[pid]["level"], (pid, cat, checks[pid]["level"])
        manifest["checks"].append({
            "property_id": pid,
            "quick_cmd": "./check %s quick" % pid,
            "thorough_cmd": "./check %s thorough" % pid,
            "evidence_file": "/verif/evidence/%s.json" % pid,
            "replay_cmd_template": "./check %s --replay {path}" % pid,
            "engine": "S" if (checks[pid].get("overlay") or {}).get("sync") else "E",
            "level_claimed": {"category": cat, "text": text, "design_ref": ref},
            "level_note": note,
            "technique": tech,
        })
    else:
        manifest["not_applicable"].append({"property_id": pid, "reason": PENDING.get(pid, "check designed (DESIGN.md section 3 %s) but not built yet in this round; not claimed until its machinery runs clean on the unchanged tree" % pid)})

json.dump(manifest, open(os.path.join(ROOT, "MANIFEST.json"), "w"), indent=1)
print("checks:", [c["property_id"] for c in manifest["checks"]])
print("not_applicable:", [c["property_id"] for c in manifest["not_applicable"]])
