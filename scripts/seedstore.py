#!/usr/bin/env python3
"""Copies verified seeded changes from /tmp/seedout/<name>/ to /verif/seeded/<name>/ and writes meta.json.
The table below is maintained by hand: what each change needs in order to manifest and which check catches it."""
import json, os, shutil, re, sys

SEEDS = {
 # name: (property, needs, caught_by, how)
 "C01-1": ("C01", "the same nested entity field selected at one response path twice - directly on an interface-typed parent and inside a type-conditioned fragment - with the field served by another subgraph and an object of a different implementing type in the data (deduplicate_single_fetches.mergeTypeNames narrows the type scope)", "C01 quick", "caught after strengthening (S-abs Media.by on the interface, base layout with Author.name remote, decoration 'same field again under a fragment on one implementer'): clause 'gateway data equals the data of a single server'"),
 "C01-2": ("C01", "a compound key \"id sku\" whose @external member is not last, with the target subgraph reachable only through that compound key (route a -(sku)-> c -(id sku)-> b)", "C01 quick", "missed as built; caught after the S-keys family was added (per-subgraph key subsets, @external key members, implicit keys, compound keys, three subgraphs): planning failures and data differences on two-jump routes; building the family first exposed a genuine defect in the same visitor (fixed in 9022f57)"),
 "C02-1": ("C02", "an abstract plan object with exactly one possible type and a payload object without __typename at that position", "C02 quick", "caught after strengthening by the check's author (shapes I1 / U1 with a single possible type)"),
 "C02-2": ("C02", "two offending values in one payload: first a failing element of a nullable list field (absorbed), then a later position that is null / ill-typed - only the later error's path is corrupted", "C02 quick", "caught after strengthening (sibling fields k / z around the field under test, clause 'every error path is a path of the selected response shape')"),
 "C05-1": ("C05", "ParseWithLimits with MaxFields > 0 and the token sequence `...` `{` IDENT (bare untyped inline fragment starting with a field)", "C05 quick", "caught as built: limits clause, site 'field count', minimal input {...{a a}}"),
 "C05-2": ("C05", "a multi-line block description containing a whitespace-only line that is non-empty and shorter than the common indent", "C05 quick", "missed as built (descriptions were compared up to indentation / blank lines because of the known block-string findings); caught after strengthening by the check's author (textual print fixed point as an independent exact oracle, block string values compared with a spec decoder): 2 new fingerprints in quick"),
 "C07-1": ("C07", "a dependency chain of three fetches with nullable @requires inputs (a -> b @requires(a) -> c @requires(b)) and any failure of the first", "C07 quick", "caught after strengthening (S-req Item.summary @requires(volume), 4-subgraph chain layout): nulling relation, value changed"),
 "C07-2": ("C07", "two byte-identical subgraph requests in flight together (same entity through two paths) and a transport error of the single-flight leader: followers are never woken", "C07 quick", "caught after strengthening (executions gated inside a synctest bubble, curated operations with duplicate entity fetches): 'execution wedged with no request in flight'"),
 "C08-1": ("C08", "EnableMultiFetch and EnableScheduleFetches both on, two same-subgraph entity fetches below different parents; merged fetch keeps only the first member's dependencies", "C08 quick", "caught as built (part a, schedule+multi: declared dependency does not tree-precede its dependant)"),
 "C08-2": ("C08", "duplicates X (kept) and Y (removed) and a fetch D that depends on Y and comes BEFORE Y in the raw fetch list", "C08 quick", "caught as built (part a, dedup family: dangling dependency id)"),
 "C09-1": ("C09", "multi-fetch and scheduler both on, a merge group whose members share an earlier dependency and differ in a later one (two @requires fields fed by different subgraphs)", "C09 quick (and C08 quick as built)", "C08 part (a) caught it as built; C09 after strengthening (4-subgraph S-req layout, histories executed gated so a request issued before its dependency carries the wrong body deterministically)"),
 "C09-2": ("C09", "a declared or extracted variable name equal to a canonical name the mapper gives to a different variable (query($b,$a) ..., or a literal next to $a)", "C09 quick", "caught after strengthening (alphabet with colliding names, the fresh default engine is also compared with the reference executor R1)"),
 "C10-1": ("C10", "two sibling @defer fragments under one object, the lower-id one containing a non-null object field, the higher-id one answered first", "C10 quick", "caught after strengthening (S-req family with Item.spec: Spec! / parts: [Part!]!, 2 defer sites in quick, all completion orders)"),
 "C10-2": ("C10", "@defer at least one field level below a list whose field (or an ancestor) is aliased", "C10 quick", "caught after strengthening (every operation also with all fields aliased)"),
 "C11-1": ("C11", "follower of a subgraph single flight waking between the leader's close(loaded) and its later statusCode / header assignments, with a status-dependent answer", "C11 quick", "caught after strengthening (schedule points AFTER close/send statements, scenario L7 with a 503 answer and PropagateSubgraphStatusCodes)"),
 "C11-2": ("C11", "inbound single flight with a waiting follower while the leader's own client write fails (context still alive)", "C11 quick", "caught after strengthening (scenario I7: one client's writer is broken)"),
 "C14-1": ("C14", "pre-fetch authorization and one operation that resolves the same protected coordinate from two different subgraphs", "C14 quick", "caught after strengthening (layout with User.name / nick shareable in a second subgraph, curated two-root-field operations)"),
 "C14-2": ("C14", "pre-fetch authorization and a protected SUBSCRIPTION root field selected under an alias", "C14 quick", "missed as built (no subscription transport in C14); caught after fedlab learned to serve subscriptions over SSE through the real subscription client and C14 got judgeSub (clause: with pre-fetch authorization a subscription request is not sent when its root field is denied; 4 fingerprints)"),
 "C15-1": ("C15", "block string literal with a non-empty whitespace-only interior line shorter than the common indent", "C15 quick", "caught after strengthening (new spellings; block strings judged under a two-oracle rule because gqlparser itself mis-evaluates some)"),
 "C15-2": ("C15", "a variable with an operation-level default and the client sending an explicit null for it", "C15 quick", "caught after strengthening (form 'explicit null for a variable with a default')"),
 "C16-1": ("C16", "a batched entity fetch whose error-free public answer has a null in a NON-LAST position of _entities, then a later request covered by the keys written", "C16 quick", "caught after strengthening (simulator can answer null for an entity it does not know; history alphabet extended)"),
 "C16-2": ("C16", "Cache-Control with s-maxage=0 next to a positive max-age", "C16 quick", "caught after strengthening (header strings also enumerated at directive level, up to 3-4 directives and every two-line split)"),
 "C19-1": ("C19", "subscribe of a query whose execution fails, then subscribe re-using the same id: the id is never released", "C19 quick", "caught after strengthening by the check's author (re-use of an id after the server's terminal message is judged; fingerprint class carries the operation kind)"),
 "C19-2": ("C19", "graphql-transport-ws, acknowledged connection, second connection_init, observer that decodes the close code (1011 instead of 4429)", "C19 quick", "caught as built (prescribed close code 4429)"),
 "C06-1": ("C06", "a list that is the type of an INPUT OBJECT FIELD whose named type is a custom scalar and whose item type is non-null or a list, with a null / non-list item in a non-empty array", "C06 quick", "caught as built: 'every non-coercible variable value is rejected', site 'list item in input field', class 'null for non-null'"),
 "C06-2": ("C06", "a multi-step sequence on ONE VariablesValidator instance: a visitor-level rejection followed by any other call (the sticky error field is never reset)", "C06 quick", "missed as built (a fresh validator per case); caught after strengthening by the check's author (histories of calls on ONE validator instance, each answer compared with a fresh instance)"),
 "C03-1": ("C03", "a fragment on an interface (or union) spread under a field of a CONCRETE implementing type, with >= 2 directly nested inline fragments, one compatible with that type and one on a different object type (couldInline all -> any)", "C03 quick", "missed as built; caught after strengthening by the check's author (decoration 'absfrag': ... on I { id ... on A {..} ... on B {..} } under every concrete parent, inline and named, interface and union, both orders): 'normalized operation and variables are still valid'"),
 "C03-2": ("C03", "an operation variable that has a default value and whose value in the request variables is an explicit JSON null (default-value extraction treats null as absent)", "C03 quick", "caught as built"),
 "C04-1": ("C04", "a list-typed variable with a default value used at a list position with a non-null item type ($ids: [ID] = [\"1\"] at [ID!])", "C04 quick", "caught as built (variables-in-allowed-position family)"),
 "C04-2": ("C04", "an inline fragment / spread whose type condition is an ABSTRACT type inside a selection set on ANOTHER abstract type without a common possible type (UnionNodeIntersectsUnionNode compared the parent with itself)", "C04 quick", "missed as built (no two abstract types without a common member in S1/S2); caught after strengthening by the check's author (schema S3: three unions and three interfaces over five object types, every ordered abstract/abstract pair, inline and named): false accept under 5.5.2.3"),
 "C17-1": ("C17", "several __type(name:) queries of the SAME shape on ONE engine (cached plan, same Source) with different names: the introspection source caches its first answer (sync.Once in (*Source).Load)", "C17 quick", "missed as built (every lookup sat in one aliased batch, each operation shape executed once); caught after strengthening by the check's author (histories of same-shaped __type queries, inline literal and variable form): 4 new fingerprints"),
 "C17-2": ("C17", "an interface that implements another interface, converted JSON -> SDL", "C17 quick", "caught as built (it re-introduces the fixed finding 1921ce8; the fixed entry suppresses nothing)"),
 "C18-1": ("C18", "two subscriptions A, B on one WebSocket connection, idle timeout 0, cancel(A) inside its protocol-level unsubscribe write while the upstream's own complete/error for A is dispatched: removeSub runs twice for A, the 'was this the last one' test counts B", "C18 quick", "caught as built on the repaired tree (fingerprint of the fixed finding N1: 'a complete or error for one subscription ends only that one'); the original patch no longer applies after fix adf3a13 - patch_ported.diff is the same edit on the current removeSub"),
 "C18-2": ("C18", "two live subscriptions whose connection_init payloads are different JSON that render identically under %v ({\"tenant\":\"42\"} vs {\"tenant\":42})", "C18 quick", "missed as built (option tuples differed in visibly different characters only); caught after strengthening by the check's author (all 1233 ordered pairs of a collision-oriented option menu, class per collision family): 3 new fingerprints"),
 "C12-1": ("C12", "an update already inside writer.Write / Flush (slow client) at the moment of removal: done() closes `completed` without taking writeMu", "C12 quick", "missed as built (the harness writer's calls were atomic steps); caught after strengthening by the check's author (a scheduling point inside the first Write of each message and inside Flush/Complete/Error/Heartbeat; the late-write clause is also judged when a call LEAVES the writer): 2 new fingerprints"),
 "C12-2": ("C12", "a subscriber with heartbeats, a Flush slow enough to span a heartbeat tick: writeMu released before Flush", "C12 quick", "caught as built (3 new fingerprints: overlapping writer calls)"),
 "C13-1": ("C13", "the trigger detached before Source.Start returns nil (last subscriber leaves during Start, or the source reports failure from inside Start as Error(); Done(); return nil), with a Reporter configured", "C13 quick (ported patch)", "masked while the genuine defect H2 (late TriggerCountInc, same clause/site/class) was a known finding; after the H2/H3 fixes were cherry-picked the ported edit (patch_ported.diff: markTriggerInitialized trusts the captured trigger) is caught: 2 fingerprints"),
 "C13-2": ("C13", "two live subscriptions to one subgraph with byte-identical operation and headers that differ only in initial_payload (SubscriptionSource.HashTriggerInput hashes selected fields)", "C13 quick", "missed as built (the harness hashed with its own source); caught after strengthening by the check's author (part E: all 841 ordered pairs of a 29-item collision-oriented menu of subscription inputs through the REAL SubscriptionSource hashing and the real resolver): initial_payload differs / ws_sub_protocol differs"),
 "C20-1": ("C20", "ONE gRPC DataSource used for several Loads with different variables (sequential with a resolver nested in a resolver and an empty second root result, or two interleaved Loads): call dependency graph shared across Loads", "C20 quick", "missed as built (a fresh DataSource per case); caught after strengthening by the check's author (history_test.go: sequential Load histories on ONE instance compared with a fresh instance, and two gated interleaved Loads compared with their solo answers; 14 fingerprints)"),
 "C20-2": ("C20", "__typename selected under an ALIAS on an interface / union typed selection", "C20 quick", "missed as built (aliases were not applied to __typename); caught after strengthening by the check's author (reformulations aliastypename / aliascopy; 25 fingerprints, clause 'the answer has exactly the shape of the selection')"),
}

# ---- round 2 (a second, independent set of seed agents that were told what round 1 had taken);
# stored as <property>-3 / <property>-4; sources /tmp/seedout2/<property>-1|2, logs /tmp/seedlogs2
SEEDS2 = {
 "C01-3": ("C01-1", "an interface-typed field; an implementing entity whose field declared on the interface has @requires; the operation selects that field on the interface level next to a fragment on that implementer", "C01 quick", "missed as built; caught after adding the S-ireq family and the decoration 'fragment on an implementer next to an interface-level field'"),
 "C01-4": ("C01-2", "a @requires field set with a NESTED field that has ARGUMENTS (dimensions { size(unit: CM) }) and the client selecting the same nested field with another argument value", "MISSED", "not caught: fedlab's @requires selections have no arguments (limit, DESIGN 8.6)"),
 "C02-3": ("C02-1", "__typename selected on an object without PossibleTypes (copied by merge_fields) and a subgraph type name containing a quote, backslash or control character", "C02 quick", "missed as built; caught after the author added an escaping alphabet at every text position, the ifacelist context and stripped-plan shapes (this also exposed a genuine defect: Object.Copy drops type information, fixed in 8a79740)"),
 "C02-4": ("C02-2", "a non-object value at a NULLABLE object position", "C02 quick", "caught as built"),
 "C03-3": ("C03-1", "two literal arguments with byte-identical JSON at types that differ only in an inner non-null level, the looser position first", "C03 quick", "missed as built; caught after the author added the decoration 'twin' (equal literals at ten pairings of similar types, both orders)"),
 "C03-4": ("C03-2", "a variable used in an argument of a directive that survives normalization (custom executable directive), named like a canonical name or also used as a field argument", "C03 quick", "missed as built; caught after the author added a custom directive and the decoration 'tag' at every site kind with renaming-equivalent spellings"),
 "C04-3": ("C04-1", "three leaf selections with one response name: on object type A, on sibling type B (different field / argument), then on the interface identical to the first", "C04 quick", "missed as built; caught after the author added three- and four-way response-name conflicts in every order"),
 "C04-4": ("C04-2", "an aliased introspection field as the only subscription root field / a __-prefixed alias on an ordinary root field", "C04 quick", "missed as built; caught after the author added aliases at the subscription root in both directions"),
 "C05-3": ("C05-1", "the token stream ends while a list value is open ({f(a: [1, 2)", "C05 quick", "caught as built (termination oracle)"),
 "C05-4": ("C05-2", "a block string whose first non-blank content is the escape sequence followed by white space", "C05 quick", "missed as built (needs six atoms); caught after the author made the escape ONE atom, enumerated contents of <= 4 atoms in six hosts and added a literal oracle"),
 "C06-3": ("C06-1", "a variable with a default and an explicit JSON null", "C06 quick", "caught as built"),
 "C06-4": ("C06-2", "a walked list with a null item at a lower index than an item needing single-value-to-list coercion", "C06 quick", "missed as built; caught after the author added every order of {null, plain, coercion item, wrong item} and the normalized-variables clause"),
 "C07-3": ("C07-1", "a BATCH entity fetch answered with exactly zero entities", "C07 quick", "missed as built; caught after adding the fault kind entities-empty"),
 "C07-4": ("C07-2", "ValidateRequiredExternalFields, a PARTIAL failure (data plus an error pointing at a null @requires input) of an entity NESTED in the object the dependant fetch is built from, not as its last member", "C07 quick", "missed as built; partial failures on an engine with ValidateRequiredExternalFields came first (they exposed a genuine defect, fixed e709c90) but the failed entity was always the dependant's own object; caught after adding the model S-nreq (@requires(fields: \"address { zip }\") through the entity Account.address into a third subgraph)"),
 "C08-3": ("C08-1", "a chain of three nested fetches without explicit dependencies whose middle provider has an empty merge path", "C08 quick", "caught as built (part a)"),
 "C08-4": ("C08-2", "a dependency chain A -> B -> C, A fails, C has merge targets from an earlier successful fetch: skipping is not transitive", "C07 quick", "missed by C08 (its gated executions have no faults); caught as built by C07 ('new representation', 12 fingerprints)"),
 "C09-3": ("C09-1", "an entity whose keys form a diamond over four subgraphs (two equally short multi-hop routes): route order follows map iteration", "C09 quick", "missed as built; caught after adding the S-keys diamond family to the map-order part"),
 "C09-4": ("C09-2", "the same entity field at one path directly on an interface and under a fragment on one implementer (scoped + unscoped duplicate fetch)", "C09 quick (and C01 quick as built)", "C01 caught it as built; C09 after adding the shape to its alphabet (with Author.name remote)"),
 "C10-3": ("C10-1", "two sibling deferred groups and a slow Flush: the render lock is released before the frame is flushed", "C10 quick", "missed as built (request-granularity orders, synchronous writer); caught after adding one slow-flush execution per operation (all parked groups released together while a frame is flushed)"),
 "C10-4": ("C10-2", "a disabled @defer (if: false) nested inside an enabled one below a deferred object", "C10 quick", "missed as built; caught after adding disabled variants to the defer placements"),
 "C11-3": ("C11-1", "an inbound follower registering between the leader's Delete and its HasFollowers check is never woken", "C11 quick", "caught as built (deadlock in I1 at bound 2)"),
 "C11-4": ("C11-2", "two data sources with different ids and the same name, identical inputs in flight together", "C11 quick", "missed as built (one data source id); caught after adding scenario L8 (every data source has the same display name)"),
 "C12-3": ("C12-1", "the creator of a shared trigger leaves by cancellation of its own REQUEST context while another subscriber stays", "C12 quick (and C13 quick)", "missed as built; caught after the author added scenarios S24/S25 (creator cancels the context it passed to NewContext, another subscriber stays, the upstream keeps emitting)"),
 "C12-4": ("C12-2", "an IN filter with more than one value template", "C12 quick", "missed as built (single-value filters only); caught after the author added part E: the real SkipEvent on 531 filter trees x variable assignments x event values against a reference evaluation (this also exposed two genuine filter defects, fixed in 639fd70)"),
 "C13-3": ("C13-1", "synchronous entry point, a SubscriptionOnCreate hook that rewrites the input, two subscribers equal before / different after the hook", "C13 quick", "missed as built; caught after the author added part E2: input-rewriting create hooks x sync/async entry points x all ordered subscriber pairs (576 cases)"),
 "C13-4": ("C13-2", "resolver shutdown while a trigger is still in start-up", "C13 quick", "caught as built"),
 "C14-3": ("C14-1", "a protected field whose only occurrences are below a list-of-lists field, pre-fetch authorization", "C14 quick", "missed as built; caught after adding the S-shapes family (this also exposed a genuine defect: fetches below a list of lists silently skipped, fixed in c9daf15)"),
 "C14-4": ("C14-2", "subscription updates rendered from the trigger event alone, pre-fetch mode", "C14 quick", "caught as built (44 fingerprints)"),
 "C15-3": ("C15-1", "two literals of one input type in one operation, one a string whose content is the JSON spelling of the other", "C15 quick", "missed as built; caught after adding twin literal pairs"),
 "C15-4": ("C15-2", "client variables named like canonical names in non-canonical order on two fields, one of them omitted", "C15 quick", "missed as built (both variables sat on one field); caught after moving them to two aliased fields with one omitted"),
 "C16-3": ("C16-1", "a fully cached batch entity fetch with another value of an entity-field argument", "C16 quick", "missed as built (every batch contained a never-stored null entity); caught after adding fully cached batches with two argument values"),
 "C16-4": ("C16-2", "a second execution joining an in-flight entity fetch as single-flight follower, status >= 400 with a well-formed public body", "C16 quick", "missed as built (sequential histories); caught after adding part (c): pairs of operations in flight together, all completion orders"),
 "C17-3": ("C17-1", "an object type declared before an interface it implements", "C17 quick", "caught as built"),
 "C17-4": ("C17-2", "includeDeprecated supplied from a client variable", "C17 quick", "caught as built"),
 "C18-3": ("C18-1", "a next / error frame without a payload member right after a frame with a payload for another subscription", "C18 quick", "missed as built; caught after the author added an alphabet of upstream frame shapes (1496 sequences)"),
 "C18-4": ("C18-2", "the dialler's DEADLINE expires during protocol init while a waiter with a live context waits on the coalesced dial", "C18 quick", "missed as built (explicit cancels only); caught after the author added contexts that end by deadline in virtual time"),
 "C19-3": ("C19-1", "a client that sends nothing at all", "C19 quick", "caught as built"),
 "C19-4": ("C19-2", "a subscribe whose document has no determinable operation type", "C19 quick", "missed as built; caught after the author drove the operation type through the real ExecutorV2 and demanded that accepted operations are executed and answered"),
 "C20-3": ("C20-1", "an interface / union field nested in a resolver or @requires result selected without any fragment", "C20 quick", "missed as built (depth bound 3, no fragment-free abstract selections); caught after the author added a fragment-free family exempt from the depth bound and the 'members' reformulation"),
 "C20-4": ("C20-2", "a resolver nested in a resolver over an _entities fetch mixing two entity types", "C20 quick", "caught as built"),
}

# ---- round 3 (my own checks only; third independent set, told what rounds 1 and 2 had taken);
# stored as <property>-5 / <property>-6; sources /tmp/seedout3/<property>-1|2, logs /tmp/seedlogs3
SEEDS3 = {
 "C01-5": ("C01-1", "a list field selected at INTERFACE level (no fragment), an entity field of another subgraph below it, no enclosing list, >= 2 elements (planned as a single entity fetch instead of a batch)", "C01 quick", "missed as built; caught after S-ireq got a list field on the interface"),
 "C01-6": ("C01-2", "a list with a duplicate or null BEFORE an entity that occurs again later (u1 u1 u2 u3 u2): the de-duplicated batch index differs from the item index", "C01 quick", "missed as built - and the out-of-range panic it causes for other orders was SWALLOWED by the driver (a panic unwinding through the recorder's deferred Finish left a partial result that was merged as a normal shard): driver fixed; caught after S-ireq got lists with duplicates / nulls before a repeated entity"),
 "C07-5": ("C07-1", "a failure recognised only through the status fallback (non-2xx with a non-JSON body, or JSON with neither data nor errors) and a dependant with a nullable @requires input", "C07 quick", "missed as built; caught after adding the fault kinds http-502-html, http-500-json-other, http-200-json-other"),
 "C07-6": ("C07-2", "a fault at the fetch that provides a BOOLEAN field of an object that still exists (nil dereference in walkBoolean)", "C07 quick", "missed as built (no Boolean leaf in any model); caught after S-shapes got Boolean / Float / custom scalar leaves (crash = violation)"),
 "C08-5": ("C08-1", "ONE postprocess.Processor handling two plans in sequence (state leaking between plans)", "C08 quick", "missed as built (fresh Processor per plan); caught after the author added the family 'history' (every ordered pair of a 60-plan pool on ONE Processor, differential against a fresh one)"),
 "C08-6": ("C08-2", "a chain of four fetches whose ids are not in dependency order plus side branches (transitive closure only two levels deep)", "C08 quick", "missed as built (quick stopped at 4 fetches, the shape needs 6); caught after the author extended quick to all 3.78 M labelled DAGs of 6 fetches in the waves mode"),
 "C09-5": ("C09-1", "the same request TEXT twice with different normalized operations (a @skip/@include variable that flips, one document with two operation names): plan cache keyed by the raw input", "C09 quick", "missed as built; caught after adding such requests to the history alphabet"),
 "C09-6": ("C09-2", "minification on, a subgraph operation > 140 bytes with the same inline fragment three times and the abstract field first", "C09 quick", "missed as built; caught after adding minifiable operations to the S-abs alphabet"),
 "C10-5": ("C10-1", "the writer's Flush fails on an incremental frame after the first frame was committed", "C10 quick", "missed as built (the writer never failed); caught after adding executions with a writer whose k-th flush fails"),
 "C10-6": ("C10-2", "four nested @defer levels, the third merged away because its field is also selected by the second", "C10 quick", "missed as built (placements had at most 2 sites and no duplicated fields); caught after adding the nested-chain placements (fedlab.DeferChainVariants: every subset of a three-object spine deferred x every nesting of three leaves x one field selected again on another level - up to seven nested levels)"),
 "C11-5": ("C11-1", "an inbound leader whose context ends by DEADLINE (not cancel) while a follower with a live context waits", "C11 quick", "missed as built (contexts only ended by cancel); caught after adding contexts that end with DeadlineExceeded - which also exposed a genuine defect on the subgraph single flight (follower inherits the leader's deadline failure), fixed in c57fb96"),
 "C11-6": ("C11-2", "a failed subgraph single-flight item is never removed: a LATER identical fetch (not in flight together) gets the stale error", "C11 quick", "missed as built (always-failing upstreams, overlapping arrivals only); caught after adding transient failures and sequenced arrivals"),
 "C14-5": ("C14-1", "a nested @defer mounted below a denied object field whose owning frame aborts its validation walk early (a non-null sibling bubbling to the root)", "MISSED", "not caught: the defer transport has single-site variants and curated two-site operations, none with an aborting non-null sibling (limit, DESIGN 8.6)"),
 "C14-6": ("C14-2", "post-fetch authorizer, the same protected coordinate in two deferred fragments, ONE transient hard error of the authorizer for it", "C14 quick", "missed as built; caught after adding curated two-fragment operations with an authorizer that fails once"),
 "C15-5": ("C15-1", "a top-level string-like variable whose value contains a control character and neither quote nor backslash", "C15 quick", "caught as built (164 fingerprints)"),
 "C15-6": ("C15-2", "an input object literal with a field whose value is directly a variable, the client sending the empty string", "C15 quick", "caught as built"),
 "C16-5": ("C16-1", "a cache entry that comes back with a zero-length value (no error)", "C16 quick", "missed as built; caught after adding the cache faults lose-one-value / lose-all-values"),
 "C16-6": ("C16-2", "cache attached, an error-free storable 200 whose _entities list does not line up with the representations", "C16 quick", "missed as built; caught after adding the response classes entities-empty / entities-short"),
 "C02-5": ("C02-1", "a plan field carrying BOTH its own OnTypeNames and ParentOnTypeNames (mergeFields of `pet { owner{name} ... on Dog { owner { ... on Person { age } } } }`), payload where the own condition matches and the ancestor's does not", "PENDING", "missed as built; the check's author is adding the category"),
 "C02-6": ("C02-2", "ApolloCompatibilityValueCompletionInExtensions on, an invalid enum value at a nullable enum position and no other error: the print walk emits the raw string", "PENDING", "missed as built; the check's author is adding the category"),
 "C04-5": ("C04-1", "a directive whose DEFINITION declares no arguments, misused (wrong location, duplicate, unknown argument): RequiredArguments calls the walker-global SkipNode and hides it from the later rules", "PENDING", "missed as built; the check's author is adding the category"),
 "C04-6": ("C04-2", "ONE re-used OperationNormalizer: a request whose normalization aborts (undefined fragment / cycle) leaks its 'safe to delete' variable list into the next request, whose unused variable is silently deleted", "PENDING", "missed as built; the check's author is adding histories on one normalizer"),
 "C05-5": ("C05-1", "indented printing of a field with >=2 arguments where an earlier one has a description and a later one has none, after a name-like token", "C05 quick", "caught as built"),
 "C05-6": ("C05-2", "a description whose whole content is the keyword `implements` directly after a body-less object / interface definition", "C05 quick", "missed as built (the mis-parsed document is self-consistent under print/parse, and no string spelled a keyword); caught after the author added a differential oracle on every input (each string token whose content is one of the 19 grammar keywords is replaced by a neutral word: same verdict, same shape) and an enumerated family of 48 k documents (23 ways a definition can end x 18 described definitions / extensions + 13 member hosts, quoted and block forms)"),
 "C06-5": ("C06-1", "validation with a variable remap table (always used by Execute): a declared variable absent from the JSON and a JSON key spelled like its canonical name", "C06 quick", "caught as built (35 fingerprints)"),
 "C06-6": ("C06-2", "a multi-operation document whose executed operation is not the first and whose first operation declares no variables: Execute gates validation on operation 0", "C06 quick", "missed as built (single-operation documents only, Execute's own gate never run); caught after the author added every case of a small single-variable space through the real ExecutionEngine.Execute inside 8 two-operation documents, differential against the single-operation run - which exposed a genuine defect (list coercion looks variables up in the FIRST operation), fixed 67a8cae"),
 "C17-5": ("C17-1", "a renamed query root (schema { query: Root }) PLUS an ordinary type literally named Query", "C17 quick", "caught as built"),
 "C17-6": ("C17-2", "an argument / input field / directive argument whose default is the top-level literal null", "C17 quick", "caught as built"),
}

def log_summary(name, logdir="/tmp/seedlogs"):
    p = "%s/%s.log" % (logdir, name)
    if not os.path.exists(p):
        return "verification log missing"
    txt = open(p).read()
    def sect(a, b):
        i = txt.find(a)
        j = txt.find(b) if b else len(txt)
        return txt[i:j] if i >= 0 else ""
    wo = sect("== demo WITHOUT", "== demo WITH change")
    wi = sect("== demo WITH change", "== existing tests")
    ex = sect("== existing tests", "== done")
    return {
        "demo_without_change": "pass" if re.search(r"^ok\s", wo, re.M) else "NOT PASSING",
        "demo_with_change": "fail" if "FAIL" in wi else "NOT FAILING",
        "existing_tests_with_change": [l.strip() for l in ex.splitlines() if re.match(r"^(ok|FAIL|---)\s", l.strip())],
        "complete": "== done" in txt,
    }

for name, (prop, needs, caught, how) in SEEDS.items():
    src = "/tmp/seedout/" + name
    if not os.path.isdir(src) or not os.path.exists(src + "/patch.diff"):
        continue
    dst = os.path.join(os.path.dirname(os.path.dirname(os.path.abspath(__file__))), "seeded", name)
    os.makedirs(dst, exist_ok=True)
    for f in os.listdir(src):
        if f in ("patch.diff", "patch_ported.diff", "demo_test.go", "notes.md", "demo_engine_test.go"):
            shutil.copy(os.path.join(src, f), os.path.join(dst, f if f != "demo_test.go" else "demo_test.go.txt"))
    if os.path.exists(dst + "/demo_engine_test.go"):
        os.rename(dst + "/demo_engine_test.go", dst + "/demo_engine_test.go.txt")
    extra = {}
    ep = os.path.join(dst, "extra.json")
    if os.path.exists(ep):
        extra = json.load(open(ep))
    meta = {"property": prop, "breaks": prop, "needs_to_manifest": needs, "produced_by": "independent sub-agent given only the property text and a scratch worktree",
            "confirmed_by_me": log_summary(name), "check_result": {"caught_by": caught, "how": how}, "run": "scripts/seedrun.sh seeded/%s/patch.diff %s quick (patch applied in a scratch worktree and handed to the driver as build overlay; equivalent to git -C /repo apply + ./check + git checkout)" % (name, prop)}
    meta.update(extra)
    json.dump(meta, open(os.path.join(dst, "meta.json"), "w"), indent=1)
    print(name, meta["confirmed_by_me"] if isinstance(meta["confirmed_by_me"], str) else (meta["confirmed_by_me"]["demo_without_change"], meta["confirmed_by_me"]["demo_with_change"], meta["confirmed_by_me"]["complete"]))

for name, (srcname, needs, caught, how) in SEEDS2.items():
    prop = name[:3]
    src = "/tmp/seedout2/" + srcname
    if not os.path.isdir(src) or not os.path.exists(src + "/patch.diff"):
        continue
    dst = os.path.join(os.path.dirname(os.path.dirname(os.path.abspath(__file__))), "seeded", name)
    os.makedirs(dst, exist_ok=True)
    for f in os.listdir(src):
        if f in ("patch.diff", "demo_test.go", "notes.md"):
            shutil.copy(os.path.join(src, f), os.path.join(dst, f if f != "demo_test.go" else "demo_test.go.txt"))
    meta = {"property": prop, "breaks": prop, "round": 2, "needs_to_manifest": needs, "produced_by": "independent sub-agent (second round) given only the property text, a scratch worktree and a list of what round 1 had taken",
            "confirmed_by_me": log_summary(srcname, "/tmp/seedlogs2"), "check_result": {"caught_by": caught, "how": how}, "run": "scripts/seedrun.sh seeded/%s/patch.diff %s quick" % (name, caught[:3] if caught.startswith("C") else prop)}
    json.dump(meta, open(os.path.join(dst, "meta.json"), "w"), indent=1)
    print(name, meta["confirmed_by_me"] if isinstance(meta["confirmed_by_me"], str) else (meta["confirmed_by_me"]["demo_without_change"], meta["confirmed_by_me"]["demo_with_change"], meta["confirmed_by_me"]["complete"]))

for name, (srcname, needs, caught, how) in SEEDS3.items():
    prop = name[:3]
    src = "/tmp/seedout3/" + srcname
    if not os.path.isdir(src) or not os.path.exists(src + "/patch.diff"):
        continue
    dst = os.path.join(os.path.dirname(os.path.dirname(os.path.abspath(__file__))), "seeded", name)
    os.makedirs(dst, exist_ok=True)
    for f in os.listdir(src):
        if f in ("patch.diff", "demo_test.go", "notes.md"):
            shutil.copy(os.path.join(src, f), os.path.join(dst, f if f != "demo_test.go" else "demo_test.go.txt"))
    meta = {"property": prop, "breaks": prop, "round": 3, "needs_to_manifest": needs, "produced_by": "independent sub-agent (third round) given only the property text, a scratch worktree and a list of what rounds 1 and 2 had taken",
            "confirmed_by_me": log_summary(srcname, "/tmp/seedlogs3"), "check_result": {"caught_by": caught, "how": how}, "run": "scripts/seedrun.sh seeded/%s/patch.diff %s quick" % (name, caught[:3] if caught.startswith("C") else prop)}
    json.dump(meta, open(os.path.join(dst, "meta.json"), "w"), indent=1)
    print(name, meta["confirmed_by_me"] if isinstance(meta["confirmed_by_me"], str) else (meta["confirmed_by_me"]["demo_without_change"], meta["confirmed_by_me"]["demo_with_change"], meta["confirmed_by_me"]["complete"]))
