#!/usr/bin/env python3
"""Copies verified seeded changes from /tmp/seedout/<name>/ to /verif/seeded/<name>/ and writes meta.json.
The table below is maintained by hand: what each change needs in order to manifest and which check catches it."""
import json, os, shutil, re, sys

SEEDS = {
 # name: (property, needs, caught_by, how)
 "C01-1": ("C01", "the same nested entity field selected at one response path twice - directly on an interface-typed parent and inside a type-conditioned fragment - with the field served by another subgraph and an object of a different implementing type in the data (deduplicate_single_fetches.mergeTypeNames narrows the type scope)", "C01 quick", "caught after strengthening (S-abs Media.by on the interface, base layout with Author.name remote, decoration 'same field again under a fragment on one implementer'): clause 'gateway data equals the data of a single server'"),
 "C01-2": ("C01", "a compound key \"id sku\" whose @external member is not last, with the target subgraph reachable only through that compound key (route a -(sku)-> c -(id sku)-> b)", "C01 quick", "missed as built; caught after the S-keys family was added (per-subgraph key subsets, @external key members, implicit keys, compound keys, three subgraphs): planning failures and data differences on two-jump routes; building the family first exposed a genuine defect in the same visitor (fixed in 9022f57)"),
 "C02-1": ("C02", "an abstract plan object with exactly one possible type and a payload object without __typename at that position", "C02 quick", "caught after strengthening by the check's author (shapes I1 / U1 with a single possible type)"),
 "C02-2": ("C02", "two offending values in one payload: first a failing element of a nullable list field (absorbed), then a later position that is null / ill-typed - only the later error's path is corrupted", "C02 quick", "caught after strengthening (sibling fields k / z around the field under test, clause 'every error path is a path of the selected response shape')"),
 "C05-1": ("C05", "ParseWithLimits with MaxFields > 0 and the token sequence `...` `{` IDENT (bare untyped inline fragment starting with a field)", "C05 quick", "caught as built: limits clause, site 'field count', minimal input {...{a a}}"),
 "C05-2": ("C05", "a multi-line block description containing a whitespace-only line that is non-empty and shorter than the common indent", "C05 quick", "missed as built (descriptions were compared up to indentation / blank lines because of the known block-string findings); caught after strengthening by the check's author (textual print fixed point as an independent exact oracle, block string values compared with a spec decoder): 2 new fingerprints in quick"),
 "C07-1": ("C07", "a dependency chain of three fetches with nullable @requires inputs (a -> b @requires(a) -> c @requires(b)) and any failure of the first", "C07 quick", "caught after strengthening (S-req Item.summary @requires(volume), 4-subgraph chain layout): nulling relation, value changed"),
 "C07-2": ("C07", "two byte-identical subgraph requests in flight together (same entity through two paths) and a transport error of the single-flight leader: followers are never woken", "C07 quick", "caught after strengthening (executions gated inside a synctest bubble, curated operations with duplicate entity fetches): 'execution wedged with no request in flight'"),
 "C08-1": ("C08", "EnableMultiFetch and EnableScheduleFetches both on, two same-subgraph entity fetches below different parents; merged fetch keeps only the first member's dependencies", "C08 quick", "caught as built (part a, schedule+multi: declared dependency does not tree-precede its dependant)"),
 "C08-2": ("C08", "duplicates X (kept) and Y (removed) and a fetch D that depends on Y and comes BEFORE Y in the raw fetch list", "C08 quick", "caught as built (part a, dedup family: dangling dependency id)"),
 "C09-1": ("C09", "multi-fetch and scheduler both on, a merge group whose members share an earlier dependency and differ in a later one (two @requires fields fed by different subgraphs)", "C09 quick (and C08 quick as built)", "C08 part (a) caught it as built; C09 after strengthening (4-subgraph S-req layout, histories executed gated so a request issued before its dependency carries the wrong body deterministically)"),
 "C09-2": ("C09", "a declared or extracted variable name equal to a canonical name the mapper gives to a different variable (query($b,$a) ..., or a literal next to $a)", "C09 quick", "caught after strengthening (alphabet with colliding names, the fresh default engine is also compared with the reference executor R1)"),
 "C10-1": ("C10", "two sibling @defer fragments under one object, the lower-id one containing a non-null object field, the higher-id one answered first", "C10 quick", "caught after strengthening (S-req family with Item.spec: Spec! / parts: [Part!]!, 2 defer sites in quick, all completion orders)"),
 "C10-2": ("C10", "@defer at least one field level below a list whose field (or an ancestor) is aliased", "C10 quick", "caught after strengthening (every operation also with all fields aliased)"),
 "C11-1": ("C11", "follower of a subgraph single flight waking between the leader's close(loaded) and its later statusCode / header assignments, with a status-dependent answer", "C11 quick", "caught after strengthening (schedule points AFTER close/send statements, scenario L7 with a 503 answer and PropagateSubgraphStatusCodes)"),
 "C11-2": ("C11", "inbound single flight with a waiting follower while the leader's own client write fails (context still alive)", "C11 quick", "caught after strengthening (scenario I7: one client's writer is broken)"),
 "C14-1": ("C14", "pre-fetch authorization and one operation that resolves the same protected coordinate from two different subgraphs", "C14 quick", "caught after strengthening (layout with User.name / nick shareable in a second subgraph, curated two-root-field operations)"),
 "C14-2": ("C14", "pre-fetch authorization and a protected SUBSCRIPTION root field selected under an alias", "MISSED", "not caught: the subscription transport is not covered by C14 (stated limit, DESIGN.md 8.2 / 8.5)"),
 "C15-1": ("C15", "block string literal with a non-empty whitespace-only interior line shorter than the common indent", "C15 quick", "caught after strengthening (new spellings; block strings judged under a two-oracle rule because gqlparser itself mis-evaluates some)"),
 "C15-2": ("C15", "a variable with an operation-level default and the client sending an explicit null for it", "C15 quick", "caught after strengthening (form 'explicit null for a variable with a default')"),
 "C16-1": ("C16", "a batched entity fetch whose error-free public answer has a null in a NON-LAST position of _entities, then a later request covered by the keys written", "C16 quick", "caught after strengthening (simulator can answer null for an entity it does not know; history alphabet extended)"),
 "C16-2": ("C16", "Cache-Control with s-maxage=0 next to a positive max-age", "C16 quick", "caught after strengthening (header strings also enumerated at directive level, up to 3-4 directives and every two-line split)"),
 "C19-1": ("C19", "subscribe of a query whose execution fails, then subscribe re-using the same id: the id is never released", "C19 quick", "caught after strengthening by the check's author (re-use of an id after the server's terminal message is judged; fingerprint class carries the operation kind)"),
 "C19-2": ("C19", "graphql-transport-ws, acknowledged connection, second connection_init, observer that decodes the close code (1011 instead of 4429)", "C19 quick", "caught as built (prescribed close code 4429)"),
 "C06-1": ("C06", "a list that is the type of an INPUT OBJECT FIELD whose named type is a custom scalar and whose item type is non-null or a list, with a null / non-list item in a non-empty array", "C06 quick", "caught as built: 'every non-coercible variable value is rejected', site 'list item in input field', class 'null for non-null'"),
 "C06-2": ("C06", "a multi-step sequence on ONE VariablesValidator instance: a visitor-level rejection followed by any other call (the sticky error field is never reset)", "C06 quick", "missed as built (a fresh validator per case); caught after strengthening by the check's author (histories of calls on ONE validator instance, each answer compared with a fresh instance)"),
 "C03-1": ("C03", "a fragment on an interface (or union) spread under a field of a CONCRETE implementing type, with >= 2 directly nested inline fragments, one compatible with that type and one on a different object type (couldInline all -> any)", "C03 quick", "missed as built; caught after strengthening by the check's author (decoration 'absfrag': ... on I { id ... on A {..} ... on B {..} } under every concrete parent, inline and named, interface and union, both orders): 'normalized operation and variables are still valid'"),
 "C03-2": ("C03", "an operation variable that has a default value and whose value in the request variables is an explicit JSON null (default-value extraction treats null as absent)", "C03 quick", "caught as built"),
 "C04-1": ("C04", "a list-typed variable with a default value used at a list position with a non-null item type ($ids: [ID] = [\"1\"] at [ID!])", "C04 quick", "caught as built (variables-in-allowed-position family)"),
 "C04-2": ("C04", "an inline fragment / spread whose type condition is an ABSTRACT type inside a selection set on ANOTHER abstract type without a common possible type (UnionNodeIntersectsUnionNode compared the parent with itself)", "C04 quick", "missed as built (no two abstract types without a common member in S1/S2); caught after strengthening by the check's author (schema S3: three unions and three interfaces over five object types, every ordered abstract/abstract pair, inline and named): false accept under 5.5.2.3"),
 "C17-1": ("C17", "several __type(name:) queries of the SAME shape on ONE engine (cached plan, same Source) with different names: the introspection source caches its first answer (sync.Once in (*Source).Load)", "C17 quick", "missed as built (every lookup sat in one aliased batch, each operation shape executed once); caught after strengthening by the check's author (histories of same-shaped __type queries, inline literal and variable form): 4 new fingerprints"),
 "C17-2": ("C17", "an interface that implements another interface, converted JSON -> SDL", "C17 quick", "caught as built (it re-introduces the fixed finding 1921ce8; the fixed entry suppresses nothing)"),
 "C18-1": ("C18", "two subscriptions A, B on one WebSocket connection, idle timeout 0, cancel(A) inside its protocol-level unsubscribe write while the upstream's own complete/error for A is dispatched: removeSub runs twice for A, the 'was this the last one' test counts B", "C18 quick", "caught as built on the repaired tree (fingerprint of the fixed finding N1: 'a complete or error for one subscription ends only that one'); the original patch no longer applies after fix adf3a13 - patch_ported.diff is the same edit on the current removeSub"),
 "C18-2": ("C18", "two live subscriptions whose connection_init payloads are different JSON that render identically under %v ({\"tenant\":\"42\"} vs {\"tenant\":42})", "C18 quick", "missed as built (option tuples differed in visibly different characters only); caught after strengthening by the check's author (all 1233 ordered pairs of a collision-oriented option menu, class per collision family): 3 new fingerprints"),
 "C12-1": ("C12", "an update already inside writer.Write / Flush (slow client) at the moment of removal: done() closes `completed` without taking writeMu", "C12 quick", "missed as built (the harness writer's calls were atomic steps); caught after strengthening by the check's author (a scheduling point inside the first Write of each message and inside Flush/Complete/Error/Heartbeat; the late-write clause is also judged when a call LEAVES the writer): 2 new fingerprints"),
 "C12-2": ("C12", "a subscriber with heartbeats, a Flush slow enough to span a heartbeat tick: writeMu released before Flush", "C12 quick", "caught as built (3 new fingerprints: overlapping writer calls)"),
 "C13-1": ("C13", "the trigger detached before Source.Start returns nil (last subscriber leaves during Start, or the source reports failure from inside Start as Error(); Done(); return nil), with a Reporter configured", "C13 quick (ported patch)", "masked while the genuine defect H2 (late TriggerCountInc, same clause/site/class) was a known finding; after the H2/H3 fixes were cherry-picked the ported edit (patch_ported.diff: markTriggerInitialized trusts the captured trigger) is caught: 2 fingerprints"),
 "C13-2": ("C13", "two live subscriptions to one subgraph with byte-identical operation and headers that differ only in initial_payload (SubscriptionSource.HashTriggerInput hashes selected fields)", "C13 quick", "missed as built (the harness hashed with its own source); caught after strengthening by the check's author (part E: all 841 ordered pairs of a 29-item collision-oriented menu of subscription inputs through the REAL SubscriptionSource hashing and the real resolver): initial_payload differs / ws_sub_protocol differs"),
 "C20-1": ("C20", "ONE gRPC DataSource used for several Loads with different variables (sequential with a resolver nested in a resolver and an empty second root result, or two interleaved Loads): call dependency graph shared across Loads", "MISSED (author resumed)", "missed as built: a fresh DataSource per case / no Load histories on one instance"),
 "C20-2": ("C20", "__typename selected under an ALIAS on an interface / union typed selection", "MISSED (author resumed)", "missed as built: aliases are not applied to __typename"),
}

def log_summary(name):
    p = "/tmp/seedlogs/%s.log" % name
    if not os.path.exists(p):
        return "verification log missing"
    txt = open(p).read()
    def sect(a, b):
        i = txt.find(a)
        j = txt.find(b) if b else len(txt)
        return txt[i:j] if i >= 0 else ""
    wo = sect("== demo WITHOUT", "== demo WITH change")
    wi = sect("== demo WITH change", "== existing tests")
    ex = sect("== existing tests", "== done")
    return {
        "demo_without_change": "pass" if re.search(r"^ok\s", wo, re.M) else "NOT PASSING",
        "demo_with_change": "fail" if "FAIL" in wi else "NOT FAILING",
        "existing_tests_with_change": [l.strip() for l in ex.splitlines() if re.match(r"^(ok|FAIL|---)\s", l.strip())],
        "complete": "== done" in txt,
    }

for name, (prop, needs, caught, how) in SEEDS.items():
    src = "/tmp/seedout/" + name
    if not os.path.isdir(src) or not os.path.exists(src + "/patch.diff"):
        continue
    dst = os.path.join(os.path.dirname(os.path.dirname(os.path.abspath(__file__))), "seeded", name)
    os.makedirs(dst, exist_ok=True)
    for f in os.listdir(src):
        if f in ("patch.diff", "patch_ported.diff", "demo_test.go", "notes.md", "demo_engine_test.go"):
            shutil.copy(os.path.join(src, f), os.path.join(dst, f if f != "demo_test.go" else "demo_test.go.txt"))
    if os.path.exists(dst + "/demo_engine_test.go"):
        os.rename(dst + "/demo_engine_test.go", dst + "/demo_engine_test.go.txt")
    extra = {}
    ep = os.path.join(dst, "extra.json")
    if os.path.exists(ep):
        extra = json.load(open(ep))
    meta = {"property": prop, "breaks": prop, "needs_to_manifest": needs, "produced_by": "independent sub-agent given only the property text and a scratch worktree",
            "confirmed_by_me": log_summary(name), "check_result": {"caught_by": caught, "how": how}, "run": "scripts/seedrun.sh seeded/%s/patch.diff %s quick (patch applied in a scratch worktree and handed to the driver as build overlay; equivalent to git -C /repo apply + ./check + git checkout)" % (name, prop)}
    meta.update(extra)
    json.dump(meta, open(os.path.join(dst, "meta.json"), "w"), indent=1)
    print(name, meta["confirmed_by_me"] if isinstance(meta["confirmed_by_me"], str) else (meta["confirmed_by_me"]["demo_without_change"], meta["confirmed_by_me"]["demo_with_change"], meta["confirmed_by_me"]["complete"]))
