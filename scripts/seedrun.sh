#!/bin/bash
# scripts/seedrun.sh <patch.diff> <ID> [tier]  - run a check against a seeded change WITHOUT touching /repo's
# working tree: the patch is applied in a scratch worktree and handed to the driver as an overlay.
set -e
patch=$(readlink -f "$1"); id=$2; tier=${3:-quick}
wt=$(mktemp -d /tmp/seedrun-XXXXXX); rmdir "$wt"
git -C /repo worktree add -q --detach "$wt" HEAD
trap 'git -C /repo worktree remove --force "$wt" >/dev/null 2>&1; rm -f "$wt.json"' EXIT
git -C "$wt" apply --3way "$patch" 2>/dev/null || git -C "$wt" apply "$patch"
python3 - "$wt" > "$wt.json" <<'PY'
import subprocess,sys,json
wt=sys.argv[1]
files=subprocess.check_output(['git','-C',wt,'status','--porcelain']).decode().split('\n')
m={}
for l in files:
    if not l.strip(): continue
    f=l[3:].strip()
    if f.endswith('.go') and not f.endswith('_test.go'): m[f]=wt+'/'+f
print(json.dumps(m))
PY
cd /verif && VERIF_EXTRA_OVERLAY="$wt.json" ./check "$id" "$tier"
