// Package fedorders explores every completion order of the subgraph requests
// of one engine execution: the simulator's gate parks each request, a
// testing/synctest bubble provides exact quiescence, and a depth-first search
// over "which parked request answers next" covers all orders (engine S at
// request granularity, preemption bound 0).
package fedorders

import (
	"fmt"
	"runtime"
	"sort"
	"sync"
	"testing/synctest"

	"verif/internal/fedlab"
)

type gated struct {
	r  *fedlab.Request
	ch chan struct{}
}

// Exec is the record of one execution under one release order.
type Exec struct {
	Choices  []int
	Counts   []int    // number of parked requests at each choice
	Order    []string // canonical text of the requests in release order
	Stuck    bool     // not finished although nothing is parked (wedged)
	Diverged bool
	Obs      any
}

// cur is the execution in progress (RunOne is not re-entrant).
var cur struct {
	mu      *sync.Mutex
	waiting *[]*gated
}

// ReleaseParked is called from INSIDE the execution (a slow writer's Flush): it
// answers every request that is parked right now, all at once, and then yields
// the processor the given number of times so that the released work runs as far
// as it can while the caller is still inside its call. What the released work
// can do in that window is what the caller's locking permits.
func ReleaseParked(yields int) int {
	if cur.mu == nil {
		return 0
	}
	cur.mu.Lock()
	w := append([]*gated(nil), (*cur.waiting)...)
	*cur.waiting = nil
	cur.mu.Unlock()
	for _, g := range w {
		close(g.ch)
	}
	for i := 0; i < yields; i++ {
		runtime.Gosched()
	}
	return len(w)
}

// RunOne executes run() with the gate installed, releasing parked requests as
// prefix dictates (then always the first in canonical order). Must be called
// inside a synctest bubble.
func RunOne(sim *fedlab.Sim, prefix []int, run func() any) *Exec {
	x := &Exec{}
	var mu sync.Mutex
	var waiting []*gated
	sim.Gate = func(r *fedlab.Request) {
		g := &gated{r: r, ch: make(chan struct{})}
		mu.Lock()
		waiting = append(waiting, g)
		mu.Unlock()
		<-g.ch
	}
	cur.mu, cur.waiting = &mu, &waiting
	defer func() { sim.Gate = nil; cur.mu, cur.waiting = nil, nil }()
	done := make(chan struct{})
	go func() {
		defer close(done)
		x.Obs = run()
	}()
	for {
		synctest.Wait()
		select {
		case <-done:
			return x
		default:
		}
		mu.Lock()
		w := append([]*gated(nil), waiting...)
		mu.Unlock()
		if len(w) == 0 {
			x.Stuck = true
			return x
		}
		sort.SliceStable(w, func(i, j int) bool { return w[i].r.Canon() < w[j].r.Canon() })
		c := 0
		if len(x.Choices) < len(prefix) {
			c = prefix[len(x.Choices)]
			if c >= len(w) {
				x.Diverged = true
				c = 0
			}
		}
		x.Choices = append(x.Choices, c)
		x.Counts = append(x.Counts, len(w))
		g := w[c]
		x.Order = append(x.Order, g.r.Canon())
		mu.Lock()
		for i, y := range waiting {
			if y == g {
				waiting = append(waiting[:i], waiting[i+1:]...)
				break
			}
		}
		mu.Unlock()
		close(g.ch)
	}
}

// Explore visits every release order (depth-first over choice sequences) up to
// maxExec executions; it returns the number of executions, the number of choice
// points and whether the cap was hit.
func Explore(sim *fedlab.Sim, maxExec int, run func() any, visit func(x *Exec)) (execs, points int, capped bool) {
	var rec func(prefix []int)
	rec = func(prefix []int) {
		if capped {
			return
		}
		if maxExec > 0 && execs >= maxExec {
			capped = true
			return
		}
		x := RunOne(sim, prefix, run)
		execs++
		points += len(x.Choices) - len(prefix)
		visit(x)
		if x.Diverged || x.Stuck {
			return
		}
		for i := len(prefix); i < len(x.Choices); i++ {
			for alt := 1; alt < x.Counts[i]; alt++ {
				np := append(append(make([]int, 0, i+1), x.Choices[:i]...), alt)
				rec(np)
			}
		}
	}
	rec(nil)
	return
}

func (x *Exec) String() string { return fmt.Sprint(x.Choices) }
