package fedlab

import (
	"fmt"
	"strings"

	gast "github.com/vektah/gqlparser/v2/ast"

	"verif/internal/refexec"
)

type Obj = refexec.Obj

// Fn is a field value computed from the (coerced) arguments.
type Fn func(args map[string]any) any

// Universe is a consistent data universe D for one supergraph: a handful of
// objects per type built to collide (an entity referenced twice, a nullable
// field that is null, an empty list, a list with a null element, a non-null
// field that resolves to null, all members of abstract types).
type Universe struct {
	S    *Supergraph
	Objs map[string][]Obj // entity / object instances by type name
	Root map[string]Obj   // "Query", "Mutation" -> root object (field -> value or Fn)
}

// projectSel evaluates a selection-set text ("price weight", "info { a b }")
// against an object and returns the projected JSON-like value.
func projectSel(o map[string]any, sel string) (map[string]any, bool) {
	toks := strings.Fields(strings.NewReplacer("{", " { ", "}", " } ").Replace(sel))
	pos := 0
	var parse func(o map[string]any) (map[string]any, bool)
	parse = func(o map[string]any) (map[string]any, bool) {
		out := map[string]any{}
		ok := true
		for pos < len(toks) {
			t := toks[pos]
			if t == "}" {
				pos++
				return out, ok
			}
			pos++
			// a field with arguments (`size(unit:CM)`): the single server and the
			// owning subgraph hold a function and evaluate it with the field set's
			// arguments; a representation holds the plain value under the field name
			t, targs := splitSelToken(t)
			if pos < len(toks) && toks[pos] == "{" {
				pos++
				var sub map[string]any
				isNull := false
				if o != nil {
					raw, has := o[t]
					if fn, isFn := raw.(Fn); isFn {
						raw = fn(targs)
					}
					if has && raw == nil {
						isNull = true
					}
					sub, _ = raw.(map[string]any)
				}
				if sub == nil && !isNull {
					ok = false
				}
				v, ok2 := parse(sub)
				if isNull {
					out[t] = nil
					continue
				}
				if !ok2 {
					ok = false
				}
				out[t] = v
				continue
			}
			if o == nil {
				ok = false
				continue
			}
			v, has := o[t]
			if !has {
				ok = false
			}
			if fn, isFn := v.(Fn); isFn {
				v = fn(targs)
			}
			out[t] = scalarOnly(v)
		}
		return out, ok
	}
	return parse(o)
}

func scalarOnly(v any) any {
	switch x := v.(type) {
	case map[string]any:
		// nested object inside a projection without sub selection: identify by typename only
		return x["__typename"]
	case []any:
		out := make([]any, len(x))
		for i := range x {
			out[i] = scalarOnly(x[i])
		}
		return out
	}
	return v
}

// fieldValue computes the value of a model field on an object: the shared
// semantics of the monolith (R1 over D) and of every subgraph (R2).
// input supplies the value of a @requires input field (the monolith computes it
// from D, recursively for inputs that are themselves computed; a subgraph takes
// external inputs from the representation it was sent).
func (u *Universe) fieldValue(t *Type, parent Obj, fname string, args map[string]any, input func(fn string) (any, bool)) (any, error) {
	var mf *Field
	if t != nil {
		mf = t.Field(fname)
	}
	if mf != nil && mf.Requires != "" {
		from := map[string]any{}
		for _, fn := range selectionFieldNames(mf.Requires) {
			v, ok := input(fn)
			if !ok {
				return nil, fmt.Errorf("@requires inputs %q missing", mf.Requires)
			}
			from[fn] = v
		}
		proj, ok := projectSel(from, mf.Requires)
		if !ok {
			return nil, fmt.Errorf("@requires inputs %q missing", mf.Requires)
		}
		return "req:" + refexec.Canon(proj), nil
	}
	base, has := parent[fname]
	if !has {
		return nil, nil
	}
	if fn, ok := base.(Fn); ok {
		return fn(args), nil
	}
	if len(args) == 0 {
		return base, nil
	}
	switch b := base.(type) {
	case []any:
		if n, ok := args["first"]; ok && n != nil {
			k := toInt(n)
			if k < 0 {
				k = 0
			}
			if k < len(b) {
				return b[:k], nil
			}
		}
		return b, nil
	case string:
		return b + "(" + refexec.Canon(args) + ")", nil
	}
	return base, nil
}

func toInt(v any) int {
	switch x := v.(type) {
	case int:
		return x
	case int64:
		return int(x)
	case float64:
		return int(x)
	}
	var n int
	fmt.Sscan(fmt.Sprint(v), &n)
	return n
}

// Mono is the monolithic resolver: a single server owning all of D.
type Mono struct {
	U     *Universe
	Event int // subscription event index
}

func (m Mono) Resolve(pt *gast.Definition, parent Obj, f *gast.Field, args map[string]any, path []any) (any, error) {
	t := m.U.S.Type(pt.Name)
	if root, ok := m.U.Root[pt.Name]; ok && parent["__root"] == true {
		if pt.Name == "Subscription" {
			return EventValue(root, f.Name, m.Event), nil
		}
		return m.U.fieldValue(t, root, f.Name, args, m.U.monoInput(t, root))
	}
	return m.U.fieldValue(t, parent, f.Name, args, m.U.monoInput(t, parent))
}

// monoInput: the single server computes every @requires input itself.
func (u *Universe) monoInput(t *Type, obj Obj) func(fn string) (any, bool) {
	var in func(fn string) (any, bool)
	in = func(fn string) (any, bool) {
		if t != nil {
			if mf := t.Field(fn); mf != nil && mf.Requires != "" {
				v, err := u.fieldValue(t, obj, fn, nil, in)
				if err != nil {
					return nil, true // an input that failed is null
				}
				return v, true
			}
		}
		v, ok := obj[fn]
		return v, ok
	}
	return in
}

// RootObj is the root value handed to refexec for the monolith.
func RootObj(typeName string) Obj { return Obj{"__typename": typeName, "__root": true} }

// Find returns the entity of the given type matching the key projection.
func (u *Universe) Find(typeName string, rep map[string]any, keySel string) Obj {
	want, ok := projectSel(rep, keySel)
	if !ok {
		return nil
	}
	w := refexec.Canon(want)
	for _, o := range u.Objs[typeName] {
		got, ok := projectSel(o, keySel)
		if ok && refexec.Canon(got) == w {
			return o
		}
	}
	return nil
}
