package fedlab

import (
	"fmt"
	"sort"
	"strings"
)

// NewLayout builds a layout from an owner vector over s.Distributable().
func NewLayout(s *Supergraph, n int, owners []int, name string) *Layout {
	l := &Layout{S: s, N: n, Owner: map[FieldRef]int{}, Provides: map[FieldRef]bool{}, Shared: map[FieldRef][]int{}, Unresolv: map[string][]int{}, Name: name}
	for i, r := range s.Distributable() {
		l.Owner[r] = owners[i]
	}
	return l
}

// OwnerVector returns the owner vector of a layout.
func (l *Layout) OwnerVector() []int {
	d := l.S.Distributable()
	out := make([]int, len(d))
	for i, r := range d {
		out[i] = l.Owner[r]
	}
	return out
}

func (l *Layout) String() string {
	var sb strings.Builder
	sb.WriteString(fmt.Sprintf("%s/%s n=%d owners=", l.S.Name, l.Name, l.N))
	for _, o := range l.OwnerVector() {
		sb.WriteString(fmt.Sprint(o))
	}
	var pv []string
	for r, on := range l.Provides {
		if on {
			pv = append(pv, r.String())
		}
	}
	if len(pv) > 0 {
		sb.WriteString(" provides=" + strings.Join(pv, ","))
	}
	return sb.String()
}

// canonical reports whether the owner vector is the representative of its orbit
// under subgraph renaming (restricted growth string) and uses every subgraph.
func canonical(v []int, n int) bool {
	max := -1
	for _, x := range v {
		if x > max+1 {
			return false
		}
		if x > max {
			max = x
		}
	}
	return max == n-1
}

// AllLayouts enumerates every assignment of the distributable fields selected
// by free (others keep the value of base) to n subgraphs, one representative per
// orbit under renaming.
func AllLayouts(s *Supergraph, n int, base []int, free func(FieldRef) bool) []*Layout {
	d := s.Distributable()
	var idx []int
	for i, r := range d {
		if free(r) {
			idx = append(idx, i)
		}
	}
	var out []*Layout
	cur := append([]int(nil), base...)
	var rec func(k int)
	rec = func(k int) {
		if k == len(idx) {
			if canonical(cur, n) {
				out = append(out, NewLayout(s, n, append([]int(nil), cur...), fmt.Sprintf("all%d", len(out))))
			}
			return
		}
		for o := 0; o < n; o++ {
			cur[idx[k]] = o
			rec(k + 1)
		}
	}
	rec(0)
	return out
}

// NearLayouts enumerates the layouts within Hamming distance <= dist of base.
func NearLayouts(s *Supergraph, n int, base []int, dist int) []*Layout {
	var out []*Layout
	seen := map[string]bool{}
	cur := append([]int(nil), base...)
	var rec func(start, left int)
	rec = func(start, left int) {
		k := fmt.Sprint(cur)
		if !seen[k] {
			seen[k] = true
			out = append(out, NewLayout(s, n, append([]int(nil), cur...), fmt.Sprintf("near%d", len(out))))
		}
		if left == 0 {
			return
		}
		for i := start; i < len(cur); i++ {
			old := cur[i]
			for o := 0; o < n; o++ {
				if o == old {
					continue
				}
				cur[i] = o
				rec(i+1, left-1)
			}
			cur[i] = old
		}
	}
	rec(0, dist)
	return out
}

// ByType assigns every distributable field by a function of its reference.
func ByType(s *Supergraph, n int, f func(FieldRef) int, name string) *Layout {
	d := s.Distributable()
	v := make([]int, len(d))
	for i, r := range d {
		v[i] = f(r)
	}
	return NewLayout(s, n, v, name)
}

// ProvidesList names the fields whose @provides edge is switched on.
func (l *Layout) ProvidesList() []string {
	var out []string
	for r, on := range l.Provides {
		if on {
			out = append(out, r.String())
		}
	}
	sort.Strings(out)
	return out
}

// SharedMap renders the additional owners with string keys (JSON friendly).
func (l *Layout) SharedMap() map[string][]int {
	out := map[string][]int{}
	for r, v := range l.Shared {
		out[r.String()] = v
	}
	return out
}

// AutoNullEntity returns a NullEntity function for the simulator: a subgraph
// answers null ("not known here") for an entity of a single-key type when every
// non-key field of that entity which the subgraph owns in this layout is null
// in the universe - the monolith's answer is then unchanged.
func AutoNullEntity(l *Layout) func(sg int, typeName string, e Obj) bool {
	return func(sg int, typeName string, e Obj) bool {
		t := l.S.Type(typeName)
		if t == nil || len(t.Keys) != 1 {
			return false
		}
		owned := 0
		for _, f := range t.Fields {
			if f.Key || f.Requires != "" {
				if f.Requires != "" && l.owns(sg, FieldRef{typeName, f.Name}) {
					return false
				}
				continue
			}
			if !l.owns(sg, FieldRef{typeName, f.Name}) {
				continue
			}
			owned++
			if v, ok := e[f.Name]; ok && v != nil {
				return false
			}
		}
		return owned > 0
	}
}
