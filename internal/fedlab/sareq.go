package fedlab

// S-areq: @requires field sets whose fields carry ARGUMENTS, on the root level
// of the field set (`weight(unit:G)`) and nested (`dims { size(unit:CM) }`).
// When the client selects the same field with another argument value the
// planner has to fetch the required copy under an alias and the representation
// has to be built from that alias, not from the client's response key.

func SAReq() *Supergraph {
	return &Supergraph{Name: "S-areq", Types: []Type{
		{Name: "Query", Kind: "object", Fields: []Field{
			{Name: "parcels", Type: "[Parcel!]!"},
			{Name: "parcel", Type: "Parcel"},
		}},
		{Name: "Parcel", Kind: "object", Keys: []Key{{Fields: "id"}}, Fields: []Field{
			{Name: "id", Type: "ID!", Key: true},
			{Name: "dims", Type: "Dims"},
			{Name: "weight", Type: "Int", Args: []Arg{{Name: "unit", Type: "WU", Default: "KG"}}},
			{Name: "shipping", Type: "String", Requires: "dims { size(unit:CM) } weight(unit:G)"},
			{Name: "label", Type: "String", Requires: "weight(unit:G)"},
			{Name: "box", Type: "String", Requires: "dims { size(unit:INCH) kind }"},
		}},
		{Name: "Dims", Kind: "object", Fields: []Field{
			{Name: "size", Type: "Int", Args: []Arg{{Name: "unit", Type: "LU", Default: "CM"}}},
			{Name: "kind", Type: "String"},
		}},
		{Name: "LU", Kind: "enum", Values: []string{"CM", "INCH"}},
		{Name: "WU", Kind: "enum", Values: []string{"KG", "G"}},
	}}
}

func SAReqUniverse(s *Supergraph) *Universe {
	size := func(cm int) Fn {
		return func(a map[string]any) any {
			if a["unit"] == "INCH" {
				return cm * 10 / 25
			}
			return cm
		}
	}
	weight := func(kg int) Fn {
		return func(a map[string]any) any {
			if a["unit"] == "G" {
				return kg * 1000
			}
			return kg
		}
	}
	p1 := Obj{"__typename": "Parcel", "id": "p1", "dims": Obj{"__typename": "Dims", "size": size(50), "kind": "flat"}, "weight": weight(3)}
	p2 := Obj{"__typename": "Parcel", "id": "p2", "dims": nil, "weight": weight(7)}
	p3 := Obj{"__typename": "Parcel", "id": "p3", "dims": Obj{"__typename": "Dims", "size": size(125), "kind": nil}, "weight": Fn(func(map[string]any) any { return nil })}
	return &Universe{S: s,
		Objs: map[string][]Obj{"Parcel": {p1, p2, p3}},
		Root: map[string]Obj{"Query": {
			"parcels": []any{p1, p2, p3},
			"parcel":  p1,
		}}}
}
