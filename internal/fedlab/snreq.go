package fedlab

// S-nreq: a @requires input that crosses an ENTITY boundary - the required
// selection `address { zip }` goes through Account.address (an entity of its
// own) to a field that lives in yet another subgraph. The fetch that provides
// the input runs on accounts.@.address, the dependant fetch is built from
// accounts: a failed / tainted entity is NESTED inside the dependant's parent
// object, and the client may select further members after it.

func SNReq() *Supergraph {
	return &Supergraph{Name: "S-nreq", Types: []Type{
		{Name: "Query", Kind: "object", Fields: []Field{
			{Name: "accounts", Type: "[Account!]!"},
			{Name: "account", Type: "Account"},
		}},
		{Name: "Account", Kind: "object", Keys: []Key{{Fields: "id"}}, Fields: []Field{
			{Name: "id", Type: "ID!", Key: true},
			{Name: "name", Type: "String"},
			{Name: "address", Type: "Address"},
			{Name: "label", Type: "String", Requires: "address { zip }"},
			{Name: "badge", Type: "String", Requires: "address { zip city } name"},
			{Name: "note", Type: "String"},
		}},
		{Name: "Address", Kind: "object", Keys: []Key{{Fields: "id"}}, Fields: []Field{
			{Name: "id", Type: "ID!", Key: true},
			{Name: "zip", Type: "String"},
			{Name: "city", Type: "String"},
		}},
	}}
}

func SNReqUniverse(s *Supergraph) *Universe {
	d1 := Obj{"__typename": "Address", "id": "d1", "zip": "11111", "city": "Ulm"}
	d2 := Obj{"__typename": "Address", "id": "d2", "zip": "22222", "city": nil}
	d3 := Obj{"__typename": "Address", "id": "d3", "zip": nil, "city": "Bonn"}
	a1 := Obj{"__typename": "Account", "id": "a1", "name": "Ann", "address": d1, "note": "n1"}
	a2 := Obj{"__typename": "Account", "id": "a2", "name": nil, "address": d2, "note": nil}
	a3 := Obj{"__typename": "Account", "id": "a3", "name": "Cy", "address": nil, "note": "n3"}
	a4 := Obj{"__typename": "Account", "id": "a4", "name": "Di", "address": d3, "note": "n4"}
	return &Universe{S: s,
		Objs: map[string][]Obj{"Account": {a1, a2, a3, a4}, "Address": {d1, d2, d3}},
		Root: map[string]Obj{"Query": {
			"accounts": []any{a1, a2, a3, a4},
			"account":  a1,
		}}}
}
