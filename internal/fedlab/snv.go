package fedlab

// S-nv: nullability variance between a subgraph and the supergraph. The
// composed supergraph has the least restrictive type (User.id: ID); the subgraph
// that serves the union declares it stricter (ID!). An operation that is valid
// against the supergraph - different member fields of a union under ONE alias,
// both of type ID - conflicts in that subgraph (ID! vs ID), so the planner has to
// fetch the member fields under generated merge aliases.

func SNV() *Supergraph {
	return &Supergraph{Name: "S-nv", Types: []Type{
		{Name: "Query", Kind: "object", Fields: []Field{
			{Name: "things", Type: "[Thing]"},
			{Name: "thing", Type: "Thing"},
		}},
		{Name: "Thing", Kind: "union", Members: []string{"User", "Admin"}},
		{Name: "User", Kind: "object", Keys: []Key{{Fields: "id"}}, Fields: []Field{
			{Name: "id", Type: "ID", Key: true},
			{Name: "name", Type: "String"},
			{Name: "nick", Type: "String"},
		}},
		{Name: "Admin", Kind: "object", Keys: []Key{{Fields: "id"}}, Fields: []Field{
			{Name: "id", Type: "ID", Key: true},
			{Name: "code", Type: "ID"},
			{Name: "name", Type: "String"},
			{Name: "level", Type: "String"},
		}},
	}}
}

func SNVUniverse(s *Supergraph) *Universe {
	u1 := Obj{"__typename": "User", "id": "u1", "name": "Ann", "nick": "annie"}
	u2 := Obj{"__typename": "User", "id": "u2", "name": nil, "nick": nil}
	a1 := Obj{"__typename": "Admin", "id": "a1", "code": "c-1", "name": "Root", "level": "high"}
	a2 := Obj{"__typename": "Admin", "id": "a2", "code": nil, "name": "Op", "level": nil}
	return &Universe{S: s,
		Objs: map[string][]Obj{"User": {u1, u2}, "Admin": {a1, a2}},
		Root: map[string]Obj{"Query": {
			"things": []any{u1, a1, nil, a2, u2},
			"thing":  a1,
		}}}
}
