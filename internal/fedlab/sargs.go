package fedlab

// S-args: fields whose value echoes their coerced arguments, for every input
// type, once as a root field and once as an entity field reached through
// _entities (C15).

func SArgs() *Supergraph {
	args := []Arg{
		{Name: "s", Type: "String"}, {Name: "i", Type: "Int"}, {Name: "f", Type: "Float"}, {Name: "b", Type: "Boolean"},
		{Name: "e", Type: "Color"}, {Name: "id", Type: "ID"}, {Name: "j", Type: "J"},
		{Name: "l", Type: "[String]"}, {Name: "ll", Type: "[[Int]]"}, {Name: "o", Type: "In"}, {Name: "lo", Type: "[In!]"}, {Name: "lon", Type: "[In]"},
	}
	return &Supergraph{Name: "S-args", Types: []Type{
		{Name: "Query", Kind: "object", Fields: []Field{
			{Name: "echo", Type: "String", Args: args},
			{Name: "thing", Type: "Thing"},
		}},
		{Name: "Thing", Kind: "object", Keys: []Key{{Fields: "id"}}, Fields: []Field{
			{Name: "id", Type: "ID!", Key: true},
			{Name: "echo", Type: "String", Args: args},
		}},
		{Name: "In", Kind: "input", Fields: []Field{
			{Name: "s", Type: "String"}, {Name: "i", Type: "Int"}, {Name: "f", Type: "Float"}, {Name: "j", Type: "J"},
			{Name: "e", Type: "Color"}, {Name: "l", Type: "[String]"}, {Name: "n", Type: "In"},
		}},
		{Name: "Color", Kind: "enum", Values: []string{"RED", "GREEN"}},
		{Name: "J", Kind: "scalar"},
	}}
}

func SArgsUniverse(s *Supergraph) *Universe {
	t := Obj{"__typename": "Thing", "id": "t1", "echo": "T"}
	return &Universe{S: s, Objs: map[string][]Obj{"Thing": {t}},
		Root: map[string]Obj{"Query": {"echo": "Q", "thing": t}}}
}
