package fedlab

import (
	"fmt"
	"sort"
	"strings"

	"github.com/vektah/gqlparser/v2"
	gast "github.com/vektah/gqlparser/v2/ast"

	"github.com/wundergraph/graphql-go-tools/v2/pkg/engine/plan"
)

// Mini-composer: derives the planner's DataSourceMetadata from ONE annotated
// subgraph SDL by the conventions visible in the two Cosmo-composed router
// configurations shipped in the repository (TestComposerBinding pins it to
// them):
//   - entity types (with @key) and root types are RootNodes, everything else
//     with fields is a ChildNode;
//   - FieldNames = fields that are not @external, plus the key fields;
//     other @external fields go to ExternalFieldNames;
//   - Keys / Requires / Provides are copied from the directives,
//     resolvable:false -> DisableEntityResolver.

// ParseSubgraphSDL loads an annotated subgraph SDL with gqlparser, adding the
// federation directive definitions (and a dummy Query when there is none).
func ParseSubgraphSDL(sdl string) (*gast.Schema, error) {
	src := sdl + fedDirectives
	if !strings.Contains(sdl, "type Query") {
		src += "\ntype Query { _dummy: Boolean }\n"
	}
	return gqlparser.LoadSchema(&gast.Source{Name: "subgraph", Input: src})
}

func dirArg(d *gast.Directive, name string) (string, bool) {
	if d == nil {
		return "", false
	}
	a := d.Arguments.ForName(name)
	if a == nil {
		return "", false
	}
	return a.Value.Raw, true
}

// Compose computes the metadata and field configurations of one subgraph.
func Compose(sdl string) (*plan.DataSourceMetadata, plan.FieldConfigurations, error) {
	return ComposeWith(sdl, nil)
}

// ComposeWith: externalKeyFields ("Type.field") names the key members that are
// @external on a plain (non-extension) type of a Federation 2 subgraph: unlike
// the @external key of an `extend type` stub (which the composed router
// configurations list under FieldNames) they go to ExternalFieldNames - the
// "explicit conditional" key of plan/key_fields_visitor.go.
func ComposeWith(sdl string, externalKeyFields []string) (*plan.DataSourceMetadata, plan.FieldConfigurations, error) {
	schema, err := ParseSubgraphSDL(sdl)
	if err != nil {
		return nil, nil, fmt.Errorf("subgraph SDL: %w", err)
	}
	md := &plan.DataSourceMetadata{}
	var fcs plan.FieldConfigurations
	names := make([]string, 0, len(schema.Types))
	for n := range schema.Types {
		names = append(names, n)
	}
	sort.Strings(names)
	// keep source order where possible: sort by position
	sort.SliceStable(names, func(i, j int) bool {
		a, b := schema.Types[names[i]], schema.Types[names[j]]
		if a.Position == nil || b.Position == nil {
			return false
		}
		return a.Position.Start < b.Position.Start
	})
	for _, n := range names {
		def := schema.Types[n]
		if def.BuiltIn || strings.HasPrefix(n, "__") {
			continue
		}
		if def.Kind != gast.Object && def.Kind != gast.Interface {
			continue
		}
		keyFields := map[string]bool{}
		isEntity := false
		for _, d := range def.Directives.ForNames("key") {
			isEntity = true
			fields, _ := dirArg(d, "fields")
			cfg := plan.FederationFieldConfiguration{TypeName: n, SelectionSet: fields}
			if r, ok := dirArg(d, "resolvable"); ok && r == "false" {
				cfg.DisableEntityResolver = true
			}
			md.FederationMetaData.Keys = append(md.FederationMetaData.Keys, cfg)
			for _, fn := range selectionFieldNames(fields) {
				keyFields[fn] = true
			}
		}
		tf := plan.TypeField{TypeName: n}
		for _, f := range def.Fields {
			if strings.HasPrefix(f.Name, "__") || f.Name == "_dummy" {
				continue
			}
			ext := f.Directives.ForName("external") != nil
			if ext && (!keyFields[f.Name] || has(externalKeyFields, n+"."+f.Name)) {
				tf.ExternalFieldNames = append(tf.ExternalFieldNames, f.Name)
			} else {
				tf.FieldNames = append(tf.FieldNames, f.Name)
			}
			if r, ok := dirArg(f.Directives.ForName("requires"), "fields"); ok {
				md.FederationMetaData.Requires = append(md.FederationMetaData.Requires, plan.FederationFieldConfiguration{TypeName: n, FieldName: f.Name, SelectionSet: r})
			}
			if p, ok := dirArg(f.Directives.ForName("provides"), "fields"); ok {
				md.FederationMetaData.Provides = append(md.FederationMetaData.Provides, plan.FederationFieldConfiguration{TypeName: n, FieldName: f.Name, SelectionSet: p})
			}
			if len(f.Arguments) > 0 {
				fc := plan.FieldConfiguration{TypeName: n, FieldName: f.Name}
				for _, a := range f.Arguments {
					fc.Arguments = append(fc.Arguments, plan.ArgumentConfiguration{Name: a.Name, SourceType: plan.FieldArgumentSource})
				}
				fcs = append(fcs, fc)
			}
		}
		if len(tf.FieldNames)+len(tf.ExternalFieldNames) == 0 {
			continue
		}
		isRoot := n == "Query" || n == "Mutation" || n == "Subscription"
		if isEntity || isRoot {
			md.RootNodes = append(md.RootNodes, tf)
		} else {
			md.ChildNodes = append(md.ChildNodes, tf)
		}
	}
	return md, fcs, nil
}

// AddImplicitKeys completes the per-subgraph metadata the way the composition
// does (the repository's own multi-hop tests configure their data sources like
// this, e.g. graphql_datasource/multihop_compound_key_test.go: the "collection"
// subgraph declares @key "id pid" only and is configured with the additional
// key {Product, "id", DisableEntityResolver: true}): a key that ANOTHER
// subgraph declares for an entity, that this subgraph does not declare itself,
// and all of whose members this subgraph resolves (FieldNames, not external)
// is an implicit key - usable as the source of a jump, never as a target.
// Only flat keys (no nested selection) are considered.
func AddImplicitKeys(mds []*plan.DataSourceMetadata) {
	type decl struct{ typeName, sel string }
	var declared []decl
	seen := map[decl]bool{}
	for _, md := range mds {
		for _, k := range md.FederationMetaData.Keys {
			d := decl{k.TypeName, k.SelectionSet}
			if !seen[d] && !strings.Contains(k.SelectionSet, "{") {
				seen[d] = true
				declared = append(declared, d)
			}
		}
	}
	for _, md := range mds {
		own := map[decl]bool{}
		for _, k := range md.FederationMetaData.Keys {
			own[decl{k.TypeName, k.SelectionSet}] = true
		}
		for _, d := range declared {
			if own[d] {
				continue
			}
			var tf *plan.TypeField
			for i := range md.RootNodes {
				if md.RootNodes[i].TypeName == d.typeName {
					tf = &md.RootNodes[i]
				}
			}
			if tf == nil {
				continue
			}
			all := true
			for _, fn := range selectionFieldNames(d.sel) {
				if !has(tf.FieldNames, fn) {
					all = false
				}
			}
			if all {
				md.FederationMetaData.Keys = append(md.FederationMetaData.Keys, plan.FederationFieldConfiguration{TypeName: d.typeName, SelectionSet: d.sel, DisableEntityResolver: true})
			}
		}
	}
}
