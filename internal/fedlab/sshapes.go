package fedlab

// S-shapes: the list shapes a field type can have - list of lists, non-null
// items, non-null lists of non-null lists - above objects whose fields matter
// (authorization, nulling): every walker over the response plan has a case per
// wrapper, and a case that only handles Array{Item: Object} misses
// Array{Item: Array{Item: Object}}.

func SShapes() *Supergraph {
	return &Supergraph{Name: "S-shapes", Types: []Type{
		{Name: "Query", Kind: "object", Fields: []Field{
			{Name: "cell", Type: "Cell"},
			{Name: "cells", Type: "[Cell!]!"},
			{Name: "grid", Type: "[[Cell]]"},
			{Name: "matrix", Type: "[[Cell!]!]!"},
			// nullable inner lists of non-null items
			{Name: "rows", Type: "[[Cell!]]"},
		}},
		{Name: "Cell", Kind: "object", Keys: []Key{{Fields: "id"}}, Fields: []Field{
			{Name: "id", Type: "ID!", Key: true},
			{Name: "secret", Type: "String"},
			{Name: "tags", Type: "[[String]]"},
			{Name: "owner", Type: "Owner"},
			{Name: "near", Type: "[[Cell]]"},
			// every leaf kind the other models lack
			{Name: "open", Type: "Boolean"},
			{Name: "ratio", Type: "Float"},
			{Name: "meta", Type: "J"},
			// a list of lists of NON-NULL leaves (one inner list holds a null) and a
			// non-null leaf that another subgraph may own
			{Name: "nums", Type: "[[Int!]]"},
			{Name: "code", Type: "String!"},
		}},
		{Name: "Owner", Kind: "object", Keys: []Key{{Fields: "id"}}, Fields: []Field{
			{Name: "id", Type: "ID!", Key: true},
			{Name: "name", Type: "String"},
			{Name: "active", Type: "Boolean!"},
		}},
		{Name: "J", Kind: "scalar"},
	}}
}

func SShapesUniverse(s *Supergraph) *Universe {
	o1 := Obj{"__typename": "Owner", "id": "o1", "name": "Olga", "active": true}
	o2 := Obj{"__typename": "Owner", "id": "o2", "name": nil, "active": false}
	c1 := Obj{"__typename": "Cell", "id": "c1", "secret": "s-one", "tags": []any{[]any{"a", nil}, nil, []any{}}, "owner": o1, "open": true, "ratio": 0.5, "meta": map[string]any{"k": []any{1, "x"}}, "nums": []any{[]any{1, 2}, []any{3, nil}, []any{4}}, "code": "k1"}
	c2 := Obj{"__typename": "Cell", "id": "c2", "secret": nil, "tags": nil, "owner": o2, "open": nil, "ratio": nil, "meta": nil, "nums": nil, "code": "k2"}
	c3 := Obj{"__typename": "Cell", "id": "c3", "secret": "s-three", "tags": []any{[]any{"z"}}, "owner": nil, "open": false, "ratio": 3, "meta": "plain", "nums": []any{nil, []any{7}}, "code": "k3"}
	c1["near"] = []any{[]any{c2, nil}, []any{c3}}
	c2["near"] = nil
	c3["near"] = []any{nil, []any{}, []any{c1}}
	return &Universe{S: s,
		Objs: map[string][]Obj{"Cell": {c1, c2, c3}, "Owner": {o1, o2}},
		Root: map[string]Obj{"Query": {
			"cell":   c1,
			"cells":  []any{c1, c2, c3},
			"grid":   []any{[]any{c1, nil, c2}, nil, []any{}, []any{c3}},
			"matrix": []any{[]any{c1, c3}, []any{c2}},
			"rows":   []any{[]any{c1, c2}, nil, []any{c3}},
		}}}
}
