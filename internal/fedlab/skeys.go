package fedlab

import (
	"fmt"
	"sort"
	"strings"
)

// S-keys: one entity with several keys - two single-field keys and a compound
// one whose first member is not unique on its own - declared differently by
// every subgraph: a subset of the keys, key members that are @external there
// (the key is then a jump target only, "explicit conditional" in the words of
// plan/key_fields_visitor.go), key fields resolved without being part of a
// declared key, an entry field that @provides an external member. Reaching a
// field can need several hops that collect the members of a compound key from
// different subgraphs.

func SKeys() *Supergraph {
	return &Supergraph{Name: "S-keys", Types: []Type{
		{Name: "Query", Kind: "object", Fields: []Field{
			{Name: "products", Type: "[Product!]!"},
			{Name: "product", Type: "Product", Args: []Arg{{Name: "sku", Type: "String!"}}},
			{Name: "newest", Type: "Product"},
		}},
		{Name: "Product", Kind: "object", Keys: []Key{{Fields: "sku"}, {Fields: "upc"}, {Fields: "id sku"}}, Fields: []Field{
			{Name: "id", Type: "ID!", Key: true},
			{Name: "sku", Type: "String!", Key: true},
			{Name: "upc", Type: "String!", Key: true},
			{Name: "name", Type: "String!"},
			{Name: "price", Type: "Int!"},
			{Name: "stock", Type: "Int"},
		}},
	}}
}

func SKeysUniverse(s *Supergraph) *Universe {
	// id alone does not identify a product: p1 and p2 share it
	p1 := Obj{"__typename": "Product", "id": "1", "sku": "s1", "upc": "u1", "name": "Table", "price": 100, "stock": 3}
	p2 := Obj{"__typename": "Product", "id": "1", "sku": "s2", "upc": "u2", "name": "Chair", "price": 200, "stock": nil}
	p3 := Obj{"__typename": "Product", "id": "2", "sku": "s3", "upc": "u3", "name": "Lamp", "price": 7, "stock": 0}
	ps := []Obj{p1, p2, p3}
	return &Universe{S: s,
		Objs: map[string][]Obj{"Product": ps},
		Root: map[string]Obj{"Query": {
			"products": []any{p1, p2, p3},
			"product": Fn(func(a map[string]any) any {
				for _, p := range ps {
					if p["sku"] == a["sku"] {
						return p
					}
				}
				return nil
			}),
			"newest": p2,
		}}}
}

// keyUseMenu: every way one subgraph may declare the keys of t within the
// bounds: a non-empty subset of the type's keys, at most one member @external,
// at most one further key-flagged field resolved as a plain field.
func keyUseMenu(t *Type) []*KeyUse {
	var keyFields []string
	for _, f := range t.Fields {
		if f.Key {
			keyFields = append(keyFields, f.Name)
		}
	}
	var out []*KeyUse
	nk := len(t.Keys)
	for mask := 1; mask < 1<<nk; mask++ {
		var keys []string
		members := map[string]bool{}
		for i := 0; i < nk; i++ {
			if mask&(1<<i) != 0 {
				keys = append(keys, t.Keys[i].Fields)
				for _, fn := range selectionFieldNames(t.Keys[i].Fields) {
					members[fn] = true
				}
			}
		}
		var mem, rest []string
		for _, kf := range keyFields {
			if members[kf] {
				mem = append(mem, kf)
			} else {
				rest = append(rest, kf)
			}
		}
		exts := [][]string{nil}
		for _, m := range mem {
			exts = append(exts, []string{m})
		}
		owns := [][]string{nil}
		for _, r := range rest {
			owns = append(owns, []string{r})
		}
		for _, e := range exts {
			for _, o := range owns {
				out = append(out, &KeyUse{Keys: keys, External: e, Own: o})
			}
		}
	}
	return out
}

func (k *KeyUse) String() string {
	s := "keys[" + strings.Join(k.Keys, "|") + "]"
	if len(k.External) > 0 {
		s += " ext[" + strings.Join(k.External, ",") + "]"
	}
	if len(k.Own) > 0 {
		s += " own[" + strings.Join(k.Own, ",") + "]"
	}
	return s
}

// ownedKeyFields: the key-flagged fields of t that subgraph sg resolves.
func (l *Layout) ownedKeyFields(t *Type, sg int) map[string]bool {
	out := map[string]bool{}
	ku := l.keyUse(t.Name, sg)
	for _, k := range l.declaredKeys(t, sg) {
		for _, fn := range selectionFieldNames(k) {
			if ku == nil || !has(ku.External, fn) {
				out[fn] = true
			}
		}
	}
	if ku != nil {
		for _, fn := range ku.Own {
			out[fn] = true
		}
	}
	return out
}

// mentions: subgraph sg declares entity t (owns one of its fields or returns it).
func (l *Layout) mentions(t *Type, sg int) bool {
	for _, r := range l.S.Distributable() {
		if !l.owns(sg, r) {
			continue
		}
		if r.Type == t.Name {
			return true
		}
		if f := l.S.Type(r.Type).Field(r.Field); f != nil && NamedType(f.Type) == t.Name {
			return true
		}
	}
	return false
}

// Satisfiable decides, for a single-entity model like S-keys, whether every
// field of the entity can be reached from every entry point: starting in the
// subgraph that owns a root field with the key fields it resolves (or
// @provides) there, repeatedly enter any subgraph one of whose resolvable keys
// is covered by the key fields collected so far, and collect the key fields it
// resolves. This is the composition rule ("every field resolvable from every
// entry") for the key kinds of the model; layouts that fail it are not
// federated configurations and are not generated.
func (l *Layout) Satisfiable(entity string) (bool, string) {
	t := l.S.Type(entity)
	for _, r := range l.S.Distributable() {
		rt := l.S.Type(r.Type)
		if !rt.IsRoot() {
			continue
		}
		f := rt.Field(r.Field)
		if NamedType(f.Type) != entity {
			continue
		}
		for _, entry := range l.owners(r) {
			provided := selectionFieldNames(l.providesSel(rt, f))
			// sourceKeys(x): the keys whose members subgraph x resolves itself -
			// declared or implicit; at the entry also a DECLARED key whose
			// @external members are provided on this path (explicit conditional)
			covers := func(x int, k string) bool {
				owned := l.ownedKeyFields(t, x)
				declaredHere := has(l.declaredKeys(t, x), k)
				for _, fn := range selectionFieldNames(k) {
					if owned[fn] {
						continue
					}
					if x == entry && declaredHere && has(provided, fn) {
						continue
					}
					return false
				}
				return true
			}
			reached := map[int]bool{entry: true}
			for changed := true; changed; {
				changed = false
				for y := 0; y < l.N; y++ {
					if reached[y] || !l.mentions(t, y) || unresolvableIn(l, entity, y) {
						continue
					}
					for _, k := range l.declaredKeys(t, y) {
						for x := range reached {
							if !reached[y] && covers(x, k) {
								reached[y] = true
								changed = true
							}
						}
					}
				}
			}
			for _, ef := range t.Fields {
				ok := false
				for y := range reached {
					if ef.Key {
						if l.ownedKeyFields(t, y)[ef.Name] || has(selectionFieldNames(l.providesSel(rt, f)), ef.Name) {
							ok = true
						}
					} else if l.owns(y, FieldRef{entity, ef.Name}) {
						ok = true
					}
				}
				if !ok {
					return false, fmt.Sprintf("%s.%s is not reachable from %s in sg%d", entity, ef.Name, r, entry)
				}
			}
		}
	}
	return true, ""
}

func unresolvableIn(l *Layout, entity string, sg int) bool {
	for _, x := range l.Unresolv[entity] {
		if x == sg {
			return true
		}
	}
	return false
}

// KeyLayouts enumerates, for the fixed owner vector, every assignment of a key
// declaration from keyUseMenu to each subgraph (plus, where the entry subgraph
// of provideOn has an @external key member, the variant that @provides it on
// that field) and keeps the satisfiable ones. maxExtras bounds the number of
// subgraphs whose declaration has an @external member or an extra key field
// (-1: unbounded).
func KeyLayouts(s *Supergraph, entity string, n int, owners []int, provideOn FieldRef, maxExtras int) []*Layout {
	t := s.Type(entity)
	menu := keyUseMenu(t)
	var out []*Layout
	choice := make([]int, n)
	var rec func(sg int)
	rec = func(sg int) {
		if sg == n {
			extras := 0
			for _, c := range choice {
				if len(menu[c].External)+len(menu[c].Own) > 0 {
					extras++
				}
			}
			if maxExtras >= 0 && extras > maxExtras {
				return
			}
			mk := func(provide bool) *Layout {
				var parts []string
				for i, c := range choice {
					parts = append(parts, fmt.Sprintf("sg%d:%s", i, menu[c]))
				}
				name := "keys{" + strings.Join(parts, "; ") + "}"
				l := NewLayout(s, n, owners, name)
				for i, c := range choice {
					l.SetKeyUse(entity, i, menu[c])
				}
				if provide {
					ku := menu[choice[l.Owner[provideOn]]]
					if len(ku.External) == 0 {
						return nil
					}
					l.Provides[provideOn] = true
					l.ProvidesSel = map[FieldRef]string{provideOn: strings.Join(ku.External, " ")}
					l.Name += "+provides:" + l.ProvidesSel[provideOn]
				}
				if ok, _ := l.Satisfiable(entity); !ok {
					return nil
				}
				return l
			}
			for _, pv := range []bool{false, true} {
				if l := mk(pv); l != nil {
					out = append(out, l)
				}
			}
			return
		}
		for c := range menu {
			choice[sg] = c
			rec(sg + 1)
		}
	}
	rec(0)
	return out
}

// KeyUseJSON renders the key declarations with string keys (replay input).
func (l *Layout) KeyUseJSON() map[string]map[string]*KeyUse {
	out := map[string]map[string]*KeyUse{}
	for t, m := range l.KeyUse {
		out[t] = map[string]*KeyUse{}
		var sgs []int
		for sg := range m {
			sgs = append(sgs, sg)
		}
		sort.Ints(sgs)
		for _, sg := range sgs {
			out[t][fmt.Sprint(sg)] = m[sg]
		}
	}
	return out
}

// ProvidesSelMap renders the @provides overrides with string keys.
func (l *Layout) ProvidesSelMap() map[string]string {
	out := map[string]string{}
	for r, v := range l.ProvidesSel {
		out[r.String()] = v
	}
	return out
}

// KeyRouteClass classifies one (layout, entry field, selected entity fields)
// case of a single-entity key model by the shape of the routes the planner
// needs - the granularity at which known planner limitations are recorded:
// "direct" (every selected field at most one jump away), or "multi-hop" with
// the features that matter: the entry @provides a key member, a selected key
// field that the entry does not resolve is first available after the first
// jump and is a member of a key of the second jump.
func (l *Layout) KeyRouteClass(entity string, root FieldRef, selected []string) string {
	t := l.S.Type(entity)
	rt := l.S.Type(root.Type)
	rf := rt.Field(root.Field)
	entry := l.Owner[root]
	provided := selectionFieldNames(l.providesSel(rt, rf))
	covers := func(x int, k string) bool {
		owned := l.ownedKeyFields(t, x)
		declaredHere := has(l.declaredKeys(t, x), k)
		for _, fn := range selectionFieldNames(k) {
			if owned[fn] || (x == entry && declaredHere && has(provided, fn)) {
				continue
			}
			return false
		}
		return true
	}
	depth := map[int]int{entry: 0}
	via := map[int][]string{}
	frontier := []int{entry}
	for len(frontier) > 0 {
		var next []int
		for _, x := range frontier {
			for y := 0; y < l.N; y++ {
				if _, ok := depth[y]; ok && depth[y] <= depth[x] {
					continue
				}
				if !l.mentions(t, y) || unresolvableIn(l, entity, y) {
					continue
				}
				for _, k := range l.declaredKeys(t, y) {
					if covers(x, k) {
						if _, ok := depth[y]; !ok {
							depth[y] = depth[x] + 1
							next = append(next, y)
						}
						if depth[y] == depth[x]+1 {
							via[y] = append(via[y], k)
						}
					}
				}
			}
		}
		frontier = next
	}
	maxHops := 0
	keyAt1 := []string{}
	for _, fn := range selected {
		f := t.Field(fn)
		if f == nil {
			continue
		}
		h := -1
		if f.Key {
			if has(provided, fn) {
				h = 0
			}
			for y, d := range depth {
				if l.ownedKeyFields(t, y)[fn] && (h < 0 || d < h) {
					h = d
				}
			}
			if h == 1 {
				keyAt1 = append(keyAt1, fn)
			}
		} else {
			for y, d := range depth {
				if l.owns(y, FieldRef{entity, fn}) && (h < 0 || d < h) {
					h = d
				}
			}
		}
		if h > maxHops {
			maxHops = h
		}
	}
	if maxHops < 2 {
		return "direct"
	}
	class := "multi-hop"
	if len(provided) > 0 {
		class += ", entry provides a key member"
	}
	inHop2 := false
	for y, d := range depth {
		if d != 2 {
			continue
		}
		for _, k := range via[y] {
			for _, fn := range keyAt1 {
				if has(selectionFieldNames(k), fn) {
					inHop2 = true
				}
			}
		}
	}
	if inHop2 {
		class += ", selected key field first resolved after jump 1 is a member of a key of jump 2"
	}
	return class
}
