package fedlab

import (
	"encoding/json"
	"fmt"
	"os"
	"sort"
	"strings"

	"github.com/wundergraph/graphql-go-tools/v2/pkg/engine/plan"
)

// BindComposer pins the mini-composer to a router configuration composed by
// the real Cosmo composition that ships in the repository: for every data
// source of the config it composes the subgraph's service SDL (embedded in the
// config) and compares the derived root nodes, child nodes, keys, provides and
// requires with the ones the real composition produced. It returns a list of
// differences (empty = bound).
func BindComposer(configPath string) ([]string, error) {
	b, err := os.ReadFile(configPath)
	if err != nil {
		return nil, err
	}
	var cfg struct {
		EngineConfig struct {
			DatasourceConfigurations []struct {
				ID         string `json:"id"`
				RootNodes  []node `json:"rootNodes"`
				ChildNodes []node `json:"childNodes"`
				Keys       []fset `json:"keys"`
				Provides   []fset `json:"provides"`
				Requires   []fset `json:"requires"`
				Custom     struct {
					Federation struct {
						ServiceSdl string `json:"serviceSdl"`
					} `json:"federation"`
				} `json:"customGraphql"`
			} `json:"datasourceConfigurations"`
		} `json:"engineConfig"`
	}
	if err := json.Unmarshal(b, &cfg); err != nil {
		return nil, err
	}
	var diffs []string
	for _, ds := range cfg.EngineConfig.DatasourceConfigurations {
		md, _, err := Compose(ds.Custom.Federation.ServiceSdl)
		if err != nil {
			return nil, fmt.Errorf("datasource %s: %w", ds.ID, err)
		}
		want := map[string]string{}
		for _, n := range ds.RootNodes {
			want["root "+n.TypeName] = nodeText(n.FieldNames, n.ExternalFieldNames)
		}
		for _, n := range ds.ChildNodes {
			want["child "+n.TypeName] = nodeText(n.FieldNames, n.ExternalFieldNames)
		}
		for _, k := range ds.Keys {
			want[fmt.Sprintf("key %s %q", k.TypeName, normSel(k.SelectionSet))] = fmt.Sprint(k.DisableEntityResolver)
		}
		for _, k := range ds.Provides {
			want[fmt.Sprintf("provides %s.%s", k.TypeName, k.FieldName)] = normSel(k.SelectionSet)
		}
		for _, k := range ds.Requires {
			want[fmt.Sprintf("requires %s.%s", k.TypeName, k.FieldName)] = normSel(k.SelectionSet)
		}
		got := map[string]string{}
		for _, n := range md.RootNodes {
			got["root "+n.TypeName] = nodeText(n.FieldNames, n.ExternalFieldNames)
		}
		for _, n := range md.ChildNodes {
			got["child "+n.TypeName] = nodeText(n.FieldNames, n.ExternalFieldNames)
		}
		for _, k := range md.FederationMetaData.Keys {
			got[fmt.Sprintf("key %s %q", k.TypeName, normSel(k.SelectionSet))] = fmt.Sprint(k.DisableEntityResolver)
		}
		for _, k := range md.FederationMetaData.Provides {
			got[fmt.Sprintf("provides %s.%s", k.TypeName, k.FieldName)] = normSel(k.SelectionSet)
		}
		for _, k := range md.FederationMetaData.Requires {
			got[fmt.Sprintf("requires %s.%s", k.TypeName, k.FieldName)] = normSel(k.SelectionSet)
		}
		keys := map[string]bool{}
		for k := range want {
			keys[k] = true
		}
		for k := range got {
			keys[k] = true
		}
		var ks []string
		for k := range keys {
			ks = append(ks, k)
		}
		sort.Strings(ks)
		for _, k := range ks {
			if want[k] != got[k] {
				diffs = append(diffs, fmt.Sprintf("datasource %s: %s: real composition %q, mini-composer %q", ds.ID, k, want[k], got[k]))
			}
		}
	}
	return diffs, nil
}

type node struct {
	TypeName           string   `json:"typeName"`
	FieldNames         []string `json:"fieldNames"`
	ExternalFieldNames []string `json:"externalFieldNames"`
}

type fset struct {
	TypeName              string `json:"typeName"`
	FieldName             string `json:"fieldName"`
	SelectionSet          string `json:"selectionSet"`
	DisableEntityResolver bool   `json:"disableEntityResolver"`
}

func nodeText(fields, external []string) string {
	f := append([]string(nil), fields...)
	e := append([]string(nil), external...)
	sort.Strings(f)
	sort.Strings(e)
	return strings.Join(f, ",") + " | external " + strings.Join(e, ",")
}

func normSel(s string) string { return strings.Join(strings.Fields(s), " ") }

var _ = plan.TypeField{}
