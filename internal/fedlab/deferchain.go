package fedlab

import (
	"fmt"
	"strings"

	gast "github.com/vektah/gqlparser/v2/ast"
)

// SpineOp builds the query  { s1 { s2 { ... sD { leaves... } } } }  along a path
// of object fields (a step may carry arguments: `user(id: "u1")`).
func SpineOp(schema *gast.Schema, spine []string, leaves []string) (*Op, error) {
	t := schema.Query
	var sel []*Node
	cur := &sel
	for _, step := range spine {
		name, args := step, []ArgUse(nil)
		if i := strings.Index(step, "("); i >= 0 {
			name = step[:i]
			for _, kv := range strings.Split(strings.TrimSuffix(step[i+1:], ")"), ",") {
				p := strings.SplitN(kv, ":", 2)
				args = append(args, ArgUse{Name: strings.TrimSpace(p[0]), Value: strings.TrimSpace(p[1])})
			}
		}
		fd := t.Fields.ForName(name)
		if fd == nil {
			return nil, fmt.Errorf("no field %s.%s", t.Name, name)
		}
		n := &Node{Name: name, Args: args, Parent: t.Name, Type: fd.Type.Name()}
		*cur = append(*cur, n)
		cur = &n.Sub
		t = schema.Types[fd.Type.Name()]
		if t == nil {
			return nil, fmt.Errorf("no type for %s", name)
		}
	}
	for _, l := range leaves {
		fd := t.Fields.ForName(l)
		if fd == nil {
			return nil, fmt.Errorf("no field %s.%s", t.Name, l)
		}
		*cur = append(*cur, &Node{Name: l, Parent: t.Name, Type: fd.Type.Name()})
	}
	return &Op{Kind: "query", Sel: sel, Vars: map[string]any{}}, nil
}

// DeferChainVariants enumerates the NESTED @defer structures of a spine
// operation (SpineOp): every subset of the spine fields is
// wrapped in its own `... @defer` (mounted on different objects of one ancestor
// chain); inside the leaf selection set the leaves a b c (every ordering when
// allOrders) are split by every choice of "sibling" or "nested @defer" at the
// two boundaries, the whole leaf set is or is not wrapped once more, and one
// field is optionally selected a second time on another nesting level (which
// makes field merging remove or shrink a defer level). Up to six nested @defer
// levels arise.
func DeferChainVariants(base *Op, allOrders bool) []*Op {
	// locate spine and leaves
	var spine []*Node
	ns := base.Sel
	for len(ns) == 1 && len(ns[0].Sub) > 0 {
		spine = append(spine, ns[0])
		ns = ns[0].Sub
	}
	if len(spine) == 0 || len(ns) != 3 {
		return nil
	}
	orders := [][3]int{{0, 1, 2}, {2, 0, 1}}
	if allOrders {
		orders = [][3]int{{0, 1, 2}, {0, 2, 1}, {1, 0, 2}, {1, 2, 0}, {2, 0, 1}, {2, 1, 0}}
	}
	leafParent := ns[0].Parent
	wrap := func(inner []*Node, parent string) *Node {
		return &Node{Kind: 1, Parent: parent, Dirs: "@defer", Sub: inner}
	}
	var out []*Op
	for _, ord := range orders {
		a, b, c := ns[ord[0]], ns[ord[1]], ns[ord[2]]
		for nest := 0; nest < 4; nest++ { // bit0: b nested below a's level, bit1: c nested below b's level
			for dup := 0; dup < 5; dup++ {
				for whole := 0; whole < 2; whole++ {
					// levels: L0 holds a, L1 holds b (== L0 when not nested), L2 holds c
					l2 := []*Node{c.clone()}
					if dup == 4 { // a again on the innermost level
						if nest == 0 {
							continue
						}
						l2 = append(l2, a.clone())
					}
					var l1 []*Node
					l1 = append(l1, b.clone())
					if nest&2 != 0 {
						l1 = append(l1, wrap(l2, leafParent))
					} else {
						l1 = append(l1, l2...)
					}
					if dup == 3 { // c again on b's level, after the fragment
						if nest&2 == 0 {
							continue
						}
						l1 = append(l1, c.clone())
					}
					var l0 []*Node
					l0 = append(l0, a.clone())
					if nest&1 != 0 {
						l0 = append(l0, wrap(l1, leafParent))
					} else {
						l0 = append(l0, l1...)
					}
					switch dup {
					case 1: // b again on a's level
						if nest&1 == 0 {
							continue
						}
						l0 = append(l0, b.clone())
					case 2: // c again on a's level
						if nest == 0 {
							continue
						}
						l0 = append(l0, c.clone())
					}
					if whole == 1 {
						l0 = []*Node{wrap(l0, leafParent)}
					}
					for mask := 0; mask < 1<<len(spine); mask++ {
						if nest == 0 && whole == 0 && mask == 0 {
							continue // no @defer at all
						}
						// rebuild the spine bottom-up
						sub := l0
						for i := len(spine) - 1; i >= 0; i-- {
							n := *spine[i]
							n.Args = append([]ArgUse(nil), spine[i].Args...)
							n.Sub = sub
							sub = []*Node{&n}
							if mask&(1<<i) != 0 {
								sub = []*Node{wrap(sub, n.Parent)}
							}
						}
						op := &Op{Kind: base.Kind, Sel: sub, Vars: map[string]any{}}
						op.Note = fmt.Sprintf("defer-chain order=%v nest=%d dup=%d whole=%d spine=%b", ord, nest, dup, whole, mask)
						out = append(out, op)
					}
				}
			}
		}
	}
	return out
}

// NoEffectiveDefer reports whether every leaf field selected inside an enabled
// `@defer` fragment of op is selected on the same response path outside all
// enabled @defer fragments too: nothing is left to deliver late, field merging
// removes every defer, and the operation is answered like an ordinary one.
func NoEffectiveDefer(op *Op) bool {
	plain := map[string]bool{}
	var deferred []string
	var walk func(ns []*Node, path string, def bool)
	walk = func(ns []*Node, path string, def bool) {
		for _, n := range ns {
			switch n.Kind {
			case 0:
				key := n.Alias
				if key == "" {
					key = n.Name
				}
				p := path + "/" + key
				if len(n.Sub) > 0 {
					walk(n.Sub, p, def)
				} else if def {
					deferred = append(deferred, p)
				} else {
					plain[p] = true
				}
			case 1:
				d := def || (strings.HasPrefix(n.Dirs, "@defer") && !strings.HasPrefix(n.Dirs, "@defer(if: false)"))
				walk(n.Sub, path, d)
			}
		}
	}
	walk(op.Sel, "", false)
	if len(deferred) == 0 {
		return false
	}
	for _, p := range deferred {
		if !plain[p] {
			return false
		}
	}
	return true
}
