package fedlab

// S-core: entities User and Product, value type Review, scalar / enum / list /
// nested-entity fields, arguments, a mutation.

func SCore() *Supergraph {
	return &Supergraph{Name: "S-core", Types: []Type{
		{Name: "Query", Kind: "object", Fields: []Field{
			{Name: "me", Type: "User"},
			{Name: "users", Type: "[User!]!"},
			{Name: "user", Type: "User", Args: []Arg{{Name: "id", Type: "ID!"}}},
			{Name: "topProducts", Type: "[Product]", Args: []Arg{{Name: "first", Type: "Int", Default: "2"}}},
		}},
		{Name: "Mutation", Kind: "object", Fields: []Field{
			{Name: "touch", Type: "Receipt", Args: []Arg{{Name: "id", Type: "ID!"}, {Name: "note", Type: "String"}}},
		}},
		{Name: "Subscription", Kind: "object", Fields: []Field{
			{Name: "userUpdated", Type: "User"},
			{Name: "reviewAdded", Type: "Review"},
		}},
		{Name: "User", Kind: "object", Keys: []Key{{Fields: "id"}}, Fields: []Field{
			{Name: "id", Type: "ID!", Key: true},
			{Name: "name", Type: "String!"},
			{Name: "nick", Type: "String"},
			{Name: "greeting", Type: "String", Args: []Arg{{Name: "style", Type: "Style", Default: "PLAIN"}, {Name: "times", Type: "Int"}}},
			{Name: "role", Type: "Role"},
			{Name: "reviews", Type: "[Review!]"},
			{Name: "favorite", Type: "Product"},
			{Name: "friends", Type: "[User]"},
		}},
		{Name: "Product", Kind: "object", Keys: []Key{{Fields: "upc"}}, Fields: []Field{
			{Name: "upc", Type: "String!", Key: true},
			{Name: "title", Type: "String"},
			{Name: "price", Type: "Int!"},
			{Name: "reviews", Type: "[Review]"},
			{Name: "seller", Type: "User"},
		}},
		{Name: "Review", Kind: "object", Fields: []Field{
			{Name: "body", Type: "String!"},
			{Name: "stars", Type: "Int"},
			{Name: "author", Type: "User!", Provides: "name"},
			{Name: "product", Type: "Product"},
		}},
		{Name: "Receipt", Kind: "object", Fields: []Field{
			{Name: "note", Type: "String"},
			{Name: "user", Type: "User"},
		}},
		{Name: "Role", Kind: "enum", Values: []string{"ADMIN", "MEMBER"}},
		{Name: "Style", Kind: "enum", Values: []string{"PLAIN", "LOUD"}},
	}}
}

// SCoreUniverse builds D for S-core.
func SCoreUniverse(s *Supergraph) *Universe {
	u1 := Obj{"__typename": "User", "id": "u1", "name": "Ann", "nick": "annie", "greeting": "hi Ann", "role": "ADMIN"}
	u2 := Obj{"__typename": "User", "id": "u2", "name": "Bob", "nick": nil, "greeting": "hi Bob", "role": "MEMBER"}
	u3 := Obj{"__typename": "User", "id": "u3", "name": "Cy", "nick": "c", "greeting": nil, "role": nil}
	p1 := Obj{"__typename": "Product", "upc": "p1", "title": "Table", "price": 100}
	p2 := Obj{"__typename": "Product", "upc": "p2", "title": nil, "price": 7}
	r1 := Obj{"__typename": "Review", "body": "good", "stars": 5, "author": u1, "product": p1}
	r2 := Obj{"__typename": "Review", "body": "bad", "stars": nil, "author": u1, "product": p2}
	r3 := Obj{"__typename": "Review", "body": "meh", "stars": 3, "author": u3, "product": nil}
	r4 := Obj{"__typename": "Review", "body": nil, "stars": 1, "author": u2, "product": p1} // non-null field that resolves to null
	u1["reviews"] = []any{r1, r2}
	u2["reviews"] = []any{}
	u3["reviews"] = []any{r3, r4}
	u1["favorite"] = p1
	u2["favorite"] = nil
	u3["favorite"] = p2
	u1["friends"] = []any{u2, u1}
	u2["friends"] = nil
	u3["friends"] = []any{u1, nil}
	p1["reviews"] = []any{r1, r3}
	p2["reviews"] = nil
	p1["seller"] = u1
	p2["seller"] = u2
	users := []Obj{u1, u2, u3}
	byID := func(id any) any {
		for _, u := range users {
			if u["id"] == id {
				return u
			}
		}
		return nil
	}
	return &Universe{S: s,
		Objs: map[string][]Obj{"User": users, "Product": {p1, p2}},
		Root: map[string]Obj{
			"Query": {
				"me":          u1,
				"users":       []any{u1, u2, u3},
				"user":        Fn(func(a map[string]any) any { return byID(a["id"]) }),
				"topProducts": []any{p1, p2, nil},
			},
			"Subscription": {
				"userUpdated": []any{u1, u3, nil, u2},
				"reviewAdded": []any{r1, r3},
			},
			"Mutation": {
				"touch": Fn(func(a map[string]any) any {
					return Obj{"__typename": "Receipt", "note": a["note"], "user": byID(a["id"])}
				}),
			},
		}}
}
