package fedlab

// S-ireq: an interface whose field is a computed (@requires) field on ONE of the
// implementing entities and a plain field on the other: selected on the
// interface level the planner must still notice that one implementer needs an
// _entities round trip for it.

func SIReq() *Supergraph {
	return &Supergraph{Name: "S-ireq", Types: []Type{
		{Name: "Query", Kind: "object", Fields: []Field{
			{Name: "items", Type: "[Item!]!"},
			{Name: "item", Type: "Item"},
		}},
		{Name: "Item", Kind: "interface", Fields: []Field{{Name: "id", Type: "ID!"}, {Name: "estimate", Type: "String"}, {Name: "tag", Type: "String"}, {Name: "kin", Type: "[Gadget]"}}},
		{Name: "Product", Kind: "object", Implements: []string{"Item"}, Keys: []Key{{Fields: "id"}}, Fields: []Field{
			{Name: "id", Type: "ID!", Key: true},
			{Name: "price", Type: "Int"},
			{Name: "estimate", Type: "String", Requires: "price"},
			{Name: "tag", Type: "String"},
			{Name: "kin", Type: "[Gadget]"},
		}},
		{Name: "Gadget", Kind: "object", Implements: []string{"Item"}, Keys: []Key{{Fields: "id"}}, Fields: []Field{
			{Name: "id", Type: "ID!", Key: true},
			{Name: "estimate", Type: "String"},
			{Name: "tag", Type: "String"},
			{Name: "kin", Type: "[Gadget]"},
			{Name: "watts", Type: "Int"},
		}},
	}}
}

func SIReqUniverse(s *Supergraph) *Universe {
	p1 := Obj{"__typename": "Product", "id": "p1", "price": 10, "tag": "t1"}
	p2 := Obj{"__typename": "Product", "id": "p2", "price": nil, "tag": nil}
	g1 := Obj{"__typename": "Gadget", "id": "g1", "estimate": "plain", "tag": "t3", "watts": 5}
	g2 := Obj{"__typename": "Gadget", "id": "g2", "estimate": nil, "tag": "t4", "watts": 7}
	g3 := Obj{"__typename": "Gadget", "id": "g3", "estimate": "e3", "tag": nil, "watts": nil}
	// lists with a duplicate or a null BEFORE an entity that is seen again later:
	// the positions in the list and in the de-duplicated batch differ
	p1["kin"] = []any{g1, g1, g2, g3, g2}
	p2["kin"] = []any{nil, g1, g2, g1}
	g1["kin"] = []any{g2}
	g2["kin"] = nil
	g3["kin"] = []any{}
	return &Universe{S: s,
		Objs: map[string][]Obj{"Product": {p1, p2}, "Gadget": {g1, g2, g3}},
		Root: map[string]Obj{"Query": {
			"items": []any{p1, p1, p2, g1, p2},
			"item":  p1,
		}}}
}
