package fedlab

// S-ireq: an interface whose field is a computed (@requires) field on ONE of the
// implementing entities and a plain field on the other: selected on the
// interface level the planner must still notice that one implementer needs an
// _entities round trip for it.

func SIReq() *Supergraph {
	return &Supergraph{Name: "S-ireq", Types: []Type{
		{Name: "Query", Kind: "object", Fields: []Field{
			{Name: "items", Type: "[Item!]!"},
			{Name: "item", Type: "Item"},
		}},
		{Name: "Item", Kind: "interface", Fields: []Field{{Name: "id", Type: "ID!"}, {Name: "estimate", Type: "String"}, {Name: "tag", Type: "String"}}},
		{Name: "Product", Kind: "object", Implements: []string{"Item"}, Keys: []Key{{Fields: "id"}}, Fields: []Field{
			{Name: "id", Type: "ID!", Key: true},
			{Name: "price", Type: "Int"},
			{Name: "estimate", Type: "String", Requires: "price"},
			{Name: "tag", Type: "String"},
		}},
		{Name: "Gadget", Kind: "object", Implements: []string{"Item"}, Keys: []Key{{Fields: "id"}}, Fields: []Field{
			{Name: "id", Type: "ID!", Key: true},
			{Name: "estimate", Type: "String"},
			{Name: "tag", Type: "String"},
			{Name: "watts", Type: "Int"},
		}},
	}}
}

func SIReqUniverse(s *Supergraph) *Universe {
	p1 := Obj{"__typename": "Product", "id": "p1", "price": 10, "tag": "t1"}
	p2 := Obj{"__typename": "Product", "id": "p2", "price": nil, "tag": nil}
	g1 := Obj{"__typename": "Gadget", "id": "g1", "estimate": "plain", "tag": "t3", "watts": 5}
	return &Universe{S: s,
		Objs: map[string][]Obj{"Product": {p1, p2}, "Gadget": {g1}},
		Root: map[string]Obj{"Query": {
			"items": []any{p1, g1, p2},
			"item":  p1,
		}}}
}
