package fedlab

import (
	"bytes"
	"context"
	"fmt"
	"net/http"

	"github.com/jensneuse/abstractlogger"

	"github.com/wundergraph/graphql-go-tools/execution/engine"
	"github.com/wundergraph/graphql-go-tools/execution/graphql"
	"github.com/wundergraph/graphql-go-tools/v2/pkg/engine/datasource/graphql_datasource"
	"github.com/wundergraph/graphql-go-tools/v2/pkg/engine/plan"
	"github.com/wundergraph/graphql-go-tools/v2/pkg/engine/resolve"
)

// Lab is one real ExecutionEngine wired to the simulated subgraphs of a layout.
type Lab struct {
	L      *Layout
	U      *Universe
	Sim    *Sim
	Engine *engine.ExecutionEngine
	Conf   *engine.Configuration
	Cancel context.CancelFunc
	Subs   []Subgraph
}

type LabOptions struct {
	Configure func(conf *engine.Configuration) // e.g. EnableMultiFetch
	Fields    plan.FieldConfigurations         // extra field configurations (authorization rules)
	Resolver  resolve.ResolverOptions
}

// NewLab builds the engine through the exported configuration API.
func NewLab(l *Layout, u *Universe, o LabOptions) (*Lab, error) {
	sim, err := NewSim(l, u)
	if err != nil {
		return nil, err
	}
	client := &http.Client{Transport: sim}
	ctx, cancel := context.WithCancel(context.Background())
	sub := graphql_datasource.NewGraphQLSubscriptionClient(ctx, graphql_datasource.WithUpgradeClient(client), graphql_datasource.WithStreamingClient(client))
	factory, err := graphql_datasource.NewFactory(ctx, client, sub)
	if err != nil {
		cancel()
		return nil, err
	}
	schema, err := graphql.NewSchemaFromString(l.S.SDL())
	if err != nil {
		cancel()
		return nil, fmt.Errorf("supergraph schema: %w", err)
	}
	conf := engine.NewConfiguration(schema)
	var fields plan.FieldConfigurations
	seenFC := map[string]int{}
	subs := l.Subgraphs()
	type composed struct {
		sg  Subgraph
		md  *plan.DataSourceMetadata
		fcs plan.FieldConfigurations
	}
	var all []composed
	for _, sg := range subs {
		md, fcs, err := ComposeWith(sg.SDL, sg.ExternalKeyFields)
		if err != nil {
			cancel()
			return nil, err
		}
		all = append(all, composed{sg, md, fcs})
	}
	mds := make([]*plan.DataSourceMetadata, len(all))
	for i := range all {
		mds[i] = all[i].md
	}
	AddImplicitKeys(mds)
	for _, c := range all {
		sg, md, fcs := c.sg, c.md, c.fcs
		sc, err := graphql_datasource.NewSchemaConfiguration(sg.SDL, &graphql_datasource.FederationConfiguration{Enabled: true, ServiceSDL: sg.SDL})
		if err != nil {
			cancel()
			return nil, fmt.Errorf("schema configuration %s: %w\n%s", sg.Name, err, sg.SDL)
		}
		cc, err := graphql_datasource.NewConfiguration(graphql_datasource.ConfigurationInput{
			Fetch:               &graphql_datasource.FetchConfiguration{URL: "http://" + sg.Name, Method: "POST"},
			Subscription:        &graphql_datasource.SubscriptionConfiguration{URL: "http://" + sg.Name, UseSSE: true, SSEMethodPost: true},
			SchemaConfiguration: sc,
		})
		if err != nil {
			cancel()
			return nil, err
		}
		ds, err := plan.NewDataSourceConfiguration[graphql_datasource.Configuration](sg.Name, factory, md, cc)
		if err != nil {
			cancel()
			return nil, fmt.Errorf("datasource %s: %w", sg.Name, err)
		}
		conf.AddDataSource(ds)
		for _, fc := range fcs {
			k := fc.TypeName + "." + fc.FieldName
			if _, ok := seenFC[k]; ok {
				continue
			}
			seenFC[k] = len(fields)
			fields = append(fields, fc)
		}
	}
	for _, fc := range o.Fields {
		k := fc.TypeName + "." + fc.FieldName
		if i, ok := seenFC[k]; ok {
			fields[i].HasAuthorizationRule = fc.HasAuthorizationRule
			continue
		}
		seenFC[k] = len(fields)
		fields = append(fields, fc)
	}
	conf.SetFieldConfigurations(fields)
	if o.Configure != nil {
		o.Configure(&conf)
	}
	ro := o.Resolver
	if ro.MaxConcurrency == 0 {
		ro.MaxConcurrency = 8
	}
	eng, err := engine.NewExecutionEngine(ctx, abstractlogger.NoopLogger, conf, ro)
	if err != nil {
		cancel()
		return nil, fmt.Errorf("engine: %w", err)
	}
	return &Lab{L: l, U: u, Sim: sim, Engine: eng, Conf: &conf, Cancel: cancel, Subs: subs}, nil
}

func (l *Lab) Close() { l.Cancel() }

// Exec runs one operation and returns the raw response bytes, the requests the
// subgraphs saw, and the engine error.
func (l *Lab) Exec(query, opName string, variables []byte, opts ...engine.ExecutionOptions) ([]byte, []*Request, error) {
	l.Sim.Reset()
	var buf bytes.Buffer
	w := graphql.NewEngineResultWriterFromBuffer(&buf)
	req := &graphql.Request{Query: query, OperationName: opName}
	if len(variables) > 0 {
		req.Variables = variables
	}
	err := l.Engine.Execute(context.Background(), req, &w, opts...)
	return buf.Bytes(), l.Sim.Log(), err
}

// FrameWriter records what a subscription (or defer) writer receives.
type FrameWriter struct {
	buf       []byte
	Frames    []string
	Completes int
	Errors    []string
}

func (w *FrameWriter) Write(p []byte) (int, error) { w.buf = append(w.buf, p...); return len(p), nil }
func (w *FrameWriter) Flush() error {
	w.Frames = append(w.Frames, string(w.buf))
	w.buf = nil
	return nil
}
func (w *FrameWriter) Complete()        { w.Completes++ }
func (w *FrameWriter) Heartbeat() error { return nil }
func (w *FrameWriter) Error(b []byte)   { w.Errors = append(w.Errors, string(b)) }

// ExecStream runs a subscription (or deferred) operation and returns the frames.
func (l *Lab) ExecStream(ctx context.Context, query, opName string, variables []byte, opts ...engine.ExecutionOptions) (*FrameWriter, []*Request, error) {
	l.Sim.Reset()
	w := &FrameWriter{}
	req := &graphql.Request{Query: query, OperationName: opName}
	if len(variables) > 0 {
		req.Variables = variables
	}
	err := l.Engine.Execute(ctx, req, w, opts...)
	if len(w.buf) > 0 {
		w.Frames = append(w.Frames, string(w.buf))
		w.buf = nil
	}
	return w, l.Sim.Log(), err
}
