package fedlab

// S-abs: an interface implemented by two entities (which may live in different
// subgraphs), a union of them, and a value-type interface with two value-type
// implementers that is replicated in every subgraph returning it.

func SAbs() *Supergraph {
	return &Supergraph{Name: "S-abs", Types: []Type{
		{Name: "Query", Kind: "object", Fields: []Field{
			{Name: "node", Type: "Node", Args: []Arg{{Name: "id", Type: "ID!"}}},
			{Name: "nodes", Type: "[Node!]!"},
			{Name: "search", Type: "[Hit]"},
			{Name: "feed", Type: "[Media]"},
		}},
		{Name: "Node", Kind: "interface", Fields: []Field{{Name: "id", Type: "ID!"}}},
		{Name: "Author", Kind: "object", Implements: []string{"Node"}, Keys: []Key{{Fields: "id"}}, Fields: []Field{
			{Name: "id", Type: "ID!", Key: true},
			{Name: "name", Type: "String"},
			{Name: "books", Type: "[Book]"},
			{Name: "latest", Type: "Media"},
		}},
		{Name: "Book", Kind: "object", Implements: []string{"Node"}, Keys: []Key{{Fields: "id"}}, Fields: []Field{
			{Name: "id", Type: "ID!", Key: true},
			{Name: "title", Type: "String!"},
			{Name: "author", Type: "Author"},
			{Name: "related", Type: "[Hit!]"},
		}},
		{Name: "Hit", Kind: "union", Members: []string{"Author", "Book"}},
		{Name: "Media", Kind: "interface", Fields: []Field{{Name: "title", Type: "String"}, {Name: "by", Type: "Author"}}},
		{Name: "Clip", Kind: "object", Implements: []string{"Media"}, Fields: []Field{
			{Name: "title", Type: "String"},
			{Name: "secs", Type: "Int"},
			{Name: "by", Type: "Author"},
		}},
		{Name: "Post", Kind: "object", Implements: []string{"Media"}, Fields: []Field{
			{Name: "title", Type: "String"},
			{Name: "text", Type: "String!"},
			{Name: "by", Type: "Author"},
		}},
	}}
}

func SAbsUniverse(s *Supergraph) *Universe {
	a1 := Obj{"__typename": "Author", "id": "a1", "name": "Le Guin"}
	a2 := Obj{"__typename": "Author", "id": "a2", "name": nil}
	b1 := Obj{"__typename": "Book", "id": "b1", "title": "Earthsea", "author": a1}
	b2 := Obj{"__typename": "Book", "id": "b2", "title": "Orphan", "author": nil}
	c1 := Obj{"__typename": "Clip", "title": "trailer", "secs": 30, "by": a2}
	p1 := Obj{"__typename": "Post", "title": nil, "text": "hello", "by": a1}
	p2 := Obj{"__typename": "Post", "title": "broken", "text": nil, "by": a2} // non-null null
	a1["books"] = []any{b1, nil}
	a2["books"] = []any{}
	a1["latest"] = c1
	a2["latest"] = p1
	b1["related"] = []any{a1, b2}
	b2["related"] = nil
	all := []Obj{a1, a2, b1, b2}
	byID := func(id any) any {
		for _, o := range all {
			if o["id"] == id {
				return o
			}
		}
		return nil
	}
	return &Universe{S: s,
		Objs: map[string][]Obj{"Author": {a1, a2}, "Book": {b1, b2}},
		Root: map[string]Obj{"Query": {
			"node":   Fn(func(a map[string]any) any { return byID(a["id"]) }),
			"nodes":  []any{a1, b1, a2, b2},
			"search": []any{b1, nil, a2},
			"feed":   []any{c1, p1, p2},
		}}}
}

// S-req: @requires of scalars and of a nested selection, compound and nested
// keys, several keys on one entity.

func SReq() *Supergraph {
	return &Supergraph{Name: "S-req", Types: []Type{
		{Name: "Query", Kind: "object", Fields: []Field{
			{Name: "items", Type: "[Item!]!"},
			{Name: "item", Type: "Item", Args: []Arg{{Name: "id", Type: "ID!"}}},
			{Name: "makers", Type: "[Maker]"},
			{Name: "boxes", Type: "[Box!]"},
		}},
		{Name: "Item", Kind: "object", Keys: []Key{{Fields: "id"}, {Fields: "sku"}}, Fields: []Field{
			{Name: "id", Type: "ID!", Key: true},
			{Name: "sku", Type: "String!", Key: true},
			{Name: "price", Type: "Int!"},
			{Name: "weight", Type: "Int"},
			{Name: "dims", Type: "Dims"},
			{Name: "shipping", Type: "String", Requires: "price weight"},
			{Name: "volume", Type: "String", Requires: "dims { w h }"},
			{Name: "summary", Type: "String", Requires: "volume"},
			{Name: "spec", Type: "Spec!"},
			{Name: "parts", Type: "[Part!]!"},
			{Name: "maker", Type: "Maker"},
		}},
		{Name: "Spec", Kind: "object", Fields: []Field{{Name: "code", Type: "String!"}, {Name: "note", Type: "String"}}},
		{Name: "Part", Kind: "object", Fields: []Field{{Name: "no", Type: "Int!"}, {Name: "item", Type: "Item"}}},
		{Name: "Dims", Kind: "object", Fields: []Field{{Name: "w", Type: "Int!"}, {Name: "h", Type: "Int"}}},
		{Name: "Maker", Kind: "object", Keys: []Key{{Fields: "info { a b }"}}, Fields: []Field{
			{Name: "info", Type: "Info!", Key: true},
			{Name: "label", Type: "String"},
			{Name: "items", Type: "[Item]"},
		}},
		{Name: "Info", Kind: "object", Fields: []Field{{Name: "a", Type: "String!"}, {Name: "b", Type: "Int!"}}},
		{Name: "Box", Kind: "object", Keys: []Key{{Fields: "id sku"}}, Fields: []Field{
			{Name: "id", Type: "ID!", Key: true},
			{Name: "sku", Type: "String!", Key: true},
			{Name: "size", Type: "Int"},
			{Name: "content", Type: "Item"},
		}},
	}}
}

func SReqUniverse(s *Supergraph) *Universe {
	m1 := Obj{"__typename": "Maker", "info": Obj{"__typename": "Info", "a": "acme", "b": 1}, "label": "ACME"}
	m2 := Obj{"__typename": "Maker", "info": Obj{"__typename": "Info", "a": "acme", "b": 2}, "label": nil}
	i1 := Obj{"__typename": "Item", "id": "i1", "sku": "s-1", "price": 10, "weight": 3, "dims": Obj{"__typename": "Dims", "w": 2, "h": 5}, "maker": m1,
		"spec": Obj{"__typename": "Spec", "code": "c1", "note": "n1"}}
	i2 := Obj{"__typename": "Item", "id": "i2", "sku": "s-2", "price": 20, "weight": nil, "dims": nil, "maker": m2,
		"spec": Obj{"__typename": "Spec", "code": "c2", "note": nil}, "parts": []any{}}
	i3 := Obj{"__typename": "Item", "id": "i3", "sku": "s-3", "price": 10, "weight": 3, "dims": Obj{"__typename": "Dims", "w": 1, "h": nil}, "maker": nil,
		"spec": Obj{"__typename": "Spec", "code": "c3", "note": "n3"}}
	i1["parts"] = []any{Obj{"__typename": "Part", "no": 1, "item": i2}, Obj{"__typename": "Part", "no": 2, "item": nil}}
	i3["parts"] = []any{Obj{"__typename": "Part", "no": 3, "item": i1}}
	m1["items"] = []any{i1, i3, i1}
	m2["items"] = []any{i2, nil}
	b1 := Obj{"__typename": "Box", "id": "x", "sku": "k1", "size": 1, "content": i1}
	b2 := Obj{"__typename": "Box", "id": "x", "sku": "k2", "size": nil, "content": nil}
	b3 := Obj{"__typename": "Box", "id": "y", "sku": "k1", "size": 3, "content": i2}
	items := []Obj{i1, i2, i3}
	return &Universe{S: s,
		Objs: map[string][]Obj{"Item": items, "Maker": {m1, m2}, "Box": {b1, b2, b3}},
		Root: map[string]Obj{"Query": {
			"items": []any{i1, i2, i3},
			"item": Fn(func(a map[string]any) any {
				for _, o := range items {
					if o["id"] == a["id"] {
						return o
					}
				}
				return nil
			}),
			"makers": []any{m1, nil, m2},
			"boxes":  []any{b1, b2, b3},
		}}}
}
