package fedlab

import (
	"encoding/json"
	"fmt"
	"sort"
	"strings"

	gast "github.com/vektah/gqlparser/v2/ast"
)

// ---- operation trees

type ArgUse struct {
	Name  string
	Value string // GraphQL literal text, or "$name"
}

type Node struct {
	Kind   int // 0 field, 1 inline fragment, 2 fragment spread
	Name   string
	Alias  string
	Args   []ArgUse
	Dirs   string
	Cond   string // type condition of an inline fragment ("" = none)
	Parent string // type the node is selected on
	Type   string // named return type of a field
	Sub    []*Node
}

type VarDef struct {
	Name, Type, Default string
}

type FragDef struct {
	Name, Type string
	Sel        []*Node
}

type Op struct {
	Kind    string // query | mutation | subscription
	Name    string
	VarDefs []VarDef
	Sel     []*Node
	Frags   []FragDef
	Vars    map[string]any
	Note    string // which decorations were applied
	Raw     string // when set, the operation text itself (curated operations)
}

func (n *Node) clone() *Node {
	c := *n
	c.Args = append([]ArgUse(nil), n.Args...)
	c.Sub = cloneNodes(n.Sub)
	return &c
}

func cloneNodes(ns []*Node) []*Node {
	if ns == nil {
		return nil
	}
	out := make([]*Node, len(ns))
	for i, n := range ns {
		out[i] = n.clone()
	}
	return out
}

func (o *Op) Clone() *Op {
	c := *o
	c.VarDefs = append([]VarDef(nil), o.VarDefs...)
	c.Sel = cloneNodes(o.Sel)
	c.Frags = nil
	for _, f := range o.Frags {
		c.Frags = append(c.Frags, FragDef{f.Name, f.Type, cloneNodes(f.Sel)})
	}
	c.Vars = map[string]any{}
	for k, v := range o.Vars {
		c.Vars[k] = v
	}
	return &c
}

func printNodes(sb *strings.Builder, ns []*Node) {
	sb.WriteString("{")
	for i, n := range ns {
		if i > 0 {
			sb.WriteString(" ")
		}
		switch n.Kind {
		case 0:
			if n.Alias != "" {
				sb.WriteString(n.Alias + ": ")
			}
			sb.WriteString(n.Name)
			if len(n.Args) > 0 {
				sb.WriteString("(")
				for j, a := range n.Args {
					if j > 0 {
						sb.WriteString(", ")
					}
					sb.WriteString(a.Name + ": " + a.Value)
				}
				sb.WriteString(")")
			}
			if n.Dirs != "" {
				sb.WriteString(" " + n.Dirs)
			}
			if len(n.Sub) > 0 {
				sb.WriteString(" ")
				printNodes(sb, n.Sub)
			}
		case 1:
			sb.WriteString("...")
			if n.Cond != "" {
				sb.WriteString(" on " + n.Cond)
			}
			if n.Dirs != "" {
				sb.WriteString(" " + n.Dirs)
			}
			sb.WriteString(" ")
			printNodes(sb, n.Sub)
		case 2:
			sb.WriteString("..." + n.Name)
			if n.Dirs != "" {
				sb.WriteString(" " + n.Dirs)
			}
		}
	}
	sb.WriteString("}")
}

func (o *Op) String() string {
	if o.Raw != "" {
		return o.Raw
	}
	var sb strings.Builder
	named := o.Name != "" || len(o.VarDefs) > 0 || o.Kind != "query"
	if named {
		sb.WriteString(o.Kind)
		if o.Name != "" {
			sb.WriteString(" " + o.Name)
		}
		if len(o.VarDefs) > 0 {
			sb.WriteString("(")
			for i, v := range o.VarDefs {
				if i > 0 {
					sb.WriteString(", ")
				}
				sb.WriteString("$" + v.Name + ": " + v.Type)
				if v.Default != "" {
					sb.WriteString(" = " + v.Default)
				}
			}
			sb.WriteString(")")
		}
		sb.WriteString(" ")
	}
	printNodes(&sb, o.Sel)
	for _, f := range o.Frags {
		sb.WriteString(" fragment " + f.Name + " on " + f.Type + " ")
		printNodes(&sb, f.Sel)
	}
	return sb.String()
}

func (o *Op) VarsJSON() []byte {
	if len(o.Vars) == 0 {
		return nil
	}
	b, _ := json.Marshal(o.Vars)
	return b
}

// ---- exhaustive generation of base operations

// GenConfig bounds the base space O(S, depth, widths).
type GenConfig struct {
	Schema *gast.Schema
	Widths []int // Widths[level]: maximal number of selections in a selection set at that nesting level (level 0 = root); len = depth
	// ArgMenu returns the alternative argument bindings of a field (each a list
	// of ArgUse); nil/empty menu = one binding without arguments.
	ArgMenu func(typeName, field string) [][]ArgUse
	// Skip filters fields out of the menu.
	Skip func(typeName, field string) bool
}

type gen struct {
	cfg   GenConfig
	memo  map[string][][]*Node
	count map[string]int64
}

func isComposite(d *gast.Definition) bool {
	return d != nil && (d.Kind == gast.Object || d.Kind == gast.Interface || d.Kind == gast.Union)
}

// fieldOptions lists every way to select one field of an object type at a level.
func (g *gen) fieldOptions(t *gast.Definition, f *gast.FieldDefinition, level int) []*Node {
	if strings.HasPrefix(f.Name, "__") || (g.cfg.Skip != nil && g.cfg.Skip(t.Name, f.Name)) {
		return nil
	}
	menus := [][]ArgUse{nil}
	if g.cfg.ArgMenu != nil {
		if m := g.cfg.ArgMenu(t.Name, f.Name); len(m) > 0 {
			menus = m
		}
	}
	rt := g.cfg.Schema.Types[f.Type.Name()]
	var out []*Node
	for _, args := range menus {
		base := &Node{Kind: 0, Name: f.Name, Args: args, Parent: t.Name, Type: f.Type.Name()}
		if !isComposite(rt) {
			out = append(out, base)
			continue
		}
		if level+1 >= len(g.cfg.Widths) {
			continue
		}
		for _, sub := range g.sets(rt, level+1) {
			n := base.clone()
			n.Sub = cloneNodes(sub)
			out = append(out, n)
		}
	}
	return out
}

// sets enumerates every selection set for type t at a nesting level.
func (g *gen) sets(t *gast.Definition, level int) [][]*Node {
	key := fmt.Sprintf("%s/%d", t.Name, level)
	if r, ok := g.memo[key]; ok {
		return r
	}
	g.memo[key] = nil // cycle guard
	var out [][]*Node
	w := g.cfg.Widths[level]
	if t.Kind == gast.Object {
		var opts [][]*Node
		for _, f := range t.Fields {
			if o := g.fieldOptions(t, f, level); len(o) > 0 {
				opts = append(opts, o)
			}
		}
		var rec func(start int, cur []*Node)
		rec = func(start int, cur []*Node) {
			if len(cur) > 0 {
				out = append(out, append([]*Node(nil), cur...))
			}
			if len(cur) == w {
				return
			}
			for i := start; i < len(opts); i++ {
				for _, o := range opts[i] {
					rec(i+1, append(cur, o))
				}
			}
		}
		rec(0, nil)
	} else {
		// abstract type: __typename plus, for every subset (size <= w) of the
		// possible types, one inline fragment each with a width-1 selection
		poss := g.cfg.Schema.GetPossibleTypes(t)
		sort.Slice(poss, func(i, j int) bool { return poss[i].Name < poss[j].Name })
		tn := &Node{Kind: 0, Name: "__typename", Parent: t.Name, Type: "String"}
		var per [][]*Node
		for _, p := range poss {
			var frs []*Node
			for _, s := range g.setsWidth1(p, level) {
				frs = append(frs, &Node{Kind: 1, Cond: p.Name, Parent: t.Name, Sub: cloneNodes(s)})
			}
			per = append(per, frs)
		}
		out = append(out, []*Node{tn})
		var rec func(start int, cur []*Node)
		rec = func(start int, cur []*Node) {
			if len(cur) > 1 {
				out = append(out, append([]*Node(nil), cur...))
			}
			if len(cur)-1 == w {
				return
			}
			for i := start; i < len(per); i++ {
				for _, o := range per[i] {
					rec(i+1, append(cur, o))
				}
			}
		}
		rec(0, []*Node{tn})
		// interface fields selected directly
		if t.Kind == gast.Interface {
			for _, f := range t.Fields {
				for _, o := range g.fieldOptions(t, f, level) {
					out = append(out, []*Node{o})
				}
			}
		}
	}
	g.memo[key] = out
	return out
}

func (g *gen) setsWidth1(t *gast.Definition, level int) [][]*Node {
	var out [][]*Node
	for _, f := range t.Fields {
		for _, o := range g.fieldOptions(t, f, level) {
			out = append(out, []*Node{o})
		}
	}
	return out
}

// GenOps enumerates all base operations of the root type.
func GenOps(cfg GenConfig, kind string) []*Op {
	g := &gen{cfg: cfg, memo: map[string][][]*Node{}}
	var root *gast.Definition
	switch kind {
	case "query":
		root = cfg.Schema.Query
	case "mutation":
		root = cfg.Schema.Mutation
	case "subscription":
		root = cfg.Schema.Subscription
	}
	if root == nil {
		return nil
	}
	var out []*Op
	for _, s := range g.sets(root, 0) {
		out = append(out, &Op{Kind: kind, Sel: cloneNodes(s), Vars: map[string]any{}})
	}
	return out
}

// ---- decorations (meaning preserving unless stated otherwise)

type site struct {
	list *[]*Node
	idx  int
}

func (o *Op) sites() []site {
	var out []site
	var walk func(list *[]*Node)
	walk = func(list *[]*Node) {
		for i := range *list {
			out = append(out, site{list, i})
			walk(&(*list)[i].Sub)
		}
	}
	walk(&o.Sel)
	return out
}

// Decorate returns every variant of op with exactly one decoration applied at
// one site. argTypes gives the declared type of a field argument.
func Decorate(op *Op, schema *gast.Schema) []*Op {
	if op.Raw != "" {
		return nil // curated operation texts are taken as they are
	}
	var out []*Op
	n := len(op.sites())
	emit := func(note string, f func(c *Op, s site) bool, i int) {
		c := op.Clone()
		s := c.sites()[i]
		if f(c, s) {
			c.Note = strings.TrimSpace(op.Note + " " + note)
			out = append(out, c)
		}
	}
	for i := 0; i < n; i++ {
		node := op.sites()[i]
		nd := (*node.list)[node.idx]
		if nd.Kind == 0 {
			emit("alias", func(c *Op, s site) bool {
				x := (*s.list)[s.idx]
				if x.Alias != "" {
					return false
				}
				x.Alias = "a_" + x.Name
				return true
			}, i)
			if len(nd.Sub) == 0 {
				emit("duplicate", func(c *Op, s site) bool {
					x := (*s.list)[s.idx]
					l := append([]*Node(nil), (*s.list)[:s.idx+1]...)
					l = append(l, x.clone())
					l = append(l, (*s.list)[s.idx+1:]...)
					*s.list = l
					return true
				}, i)
			} else {
				emit("typename", func(c *Op, s site) bool {
					x := (*s.list)[s.idx]
					for _, y := range x.Sub {
						if y.Name == "__typename" {
							return false
						}
					}
					x.Sub = append(x.Sub, &Node{Kind: 0, Name: "__typename", Parent: x.Type, Type: "String"})
					return true
				}, i)
				emit("split-merge", func(c *Op, s site) bool {
					// the same composite field twice with the sub selection split: tests field merging
					x := (*s.list)[s.idx]
					if len(x.Sub) < 2 {
						return false
					}
					y := x.clone()
					x.Sub = x.Sub[:1]
					y.Sub = y.Sub[1:]
					l := append([]*Node(nil), (*s.list)[:s.idx+1]...)
					l = append(l, y)
					l = append(l, (*s.list)[s.idx+1:]...)
					*s.list = l
					return true
				}, i)
			}
			for _, withCond := range []bool{false, true} {
				withCond := withCond
				emit(map[bool]string{false: "inline-fragment", true: "inline-fragment-on-type"}[withCond], func(c *Op, s site) bool {
					x := (*s.list)[s.idx]
					if x.Parent == "" {
						return false
					}
					fr := &Node{Kind: 1, Parent: x.Parent, Sub: []*Node{x}}
					if withCond {
						fr.Cond = x.Parent
					}
					(*s.list)[s.idx] = fr
					return true
				}, i)
			}
			// the same field again inside a fragment on one concrete implementer of an
			// abstract parent (before / after the original): merging across a type
			// condition
			if pd := schema.Types[nd.Parent]; pd != nil && (pd.Kind == gast.Interface || pd.Kind == gast.Union) {
				for _, impl := range schema.GetPossibleTypes(pd) {
					for _, before := range []bool{false, true} {
						impl, before := impl, before
						emit(fmt.Sprintf("dup-on-%s(before=%v)", impl.Name, before), func(c *Op, s site) bool {
							x := (*s.list)[s.idx]
							if x.Name == "__typename" {
								return false
							}
							fr := &Node{Kind: 1, Cond: impl.Name, Parent: x.Parent, Sub: []*Node{x.clone()}}
							fr.Sub[0].Parent = impl.Name
							l := append([]*Node(nil), (*s.list)[:s.idx]...)
							if before {
								l = append(l, fr, x)
							} else {
								l = append(l, x, fr)
							}
							l = append(l, (*s.list)[s.idx+1:]...)
							*s.list = l
							return true
						}, i)
					}
				}
			}
			// next to a field selected on the abstract type itself, a fragment on one
			// implementer selecting ANOTHER field of it (its first field): the planner
			// decides per implementer whether the interface-level field must be moved
			// into fragments
			if pd := schema.Types[nd.Parent]; pd != nil && (pd.Kind == gast.Interface || pd.Kind == gast.Union) && nd.Name != "__typename" {
				for _, impl := range schema.GetPossibleTypes(pd) {
					impl := impl
					if len(impl.Fields) == 0 {
						continue
					}
					emit(fmt.Sprintf("frag-on-%s-next-to-field", impl.Name), func(c *Op, s site) bool {
						for _, y := range *s.list {
							if y.Kind == 1 && y.Cond == impl.Name {
								return false
							}
						}
						first := impl.Fields[0]
						if strings.HasPrefix(first.Name, "__") || len(first.Arguments) > 0 || isComposite(schema.Types[first.Type.Name()]) {
							return false
						}
						fr := &Node{Kind: 1, Cond: impl.Name, Parent: nd.Parent, Sub: []*Node{{Kind: 0, Name: first.Name, Parent: impl.Name, Type: first.Type.Name()}}}
						*s.list = append(*s.list, fr)
						return true
					}, i)
				}
			}
			emit("named-fragment", func(c *Op, s site) bool {
				x := (*s.list)[s.idx]
				if x.Parent == "" {
					return false
				}
				name := fmt.Sprintf("F%d", len(c.Frags))
				c.Frags = append(c.Frags, FragDef{Name: name, Type: x.Parent, Sel: []*Node{x}})
				(*s.list)[s.idx] = &Node{Kind: 2, Name: name, Parent: x.Parent}
				return true
			}, i)
			for _, dir := range []string{"skip", "include"} {
				for _, val := range []bool{true, false} {
					dir, val := dir, val
					emit(fmt.Sprintf("%s=%v", dir, val), func(c *Op, s site) bool {
						x := (*s.list)[s.idx]
						if x.Dirs != "" {
							return false
						}
						v := fmt.Sprintf("c%d", len(c.VarDefs))
						c.VarDefs = append(c.VarDefs, VarDef{Name: v, Type: "Boolean!"})
						c.Vars[v] = val
						x.Dirs = "@" + dir + "(if: $" + v + ")"
						return true
					}, i)
				}
			}
			// arguments: literal -> variable / variable with default
			for ai := range nd.Args {
				ai := ai
				if strings.HasPrefix(nd.Args[ai].Value, "$") {
					continue
				}
				for _, mode := range []string{"var", "var-default"} {
					mode := mode
					emit("arg-"+mode, func(c *Op, s site) bool {
						x := (*s.list)[s.idx]
						pt := schema.Types[x.Parent]
						if pt == nil {
							return false
						}
						fd := pt.Fields.ForName(x.Name)
						if fd == nil {
							return false
						}
						ad := fd.Arguments.ForName(x.Args[ai].Name)
						if ad == nil {
							return false
						}
						lit := x.Args[ai].Value
						v := fmt.Sprintf("v%d", len(c.VarDefs))
						if mode == "var" {
							jv, ok := literalToJSON(lit)
							if !ok {
								return false
							}
							c.VarDefs = append(c.VarDefs, VarDef{Name: v, Type: ad.Type.String()})
							c.Vars[v] = jv
						} else {
							if lit == "null" {
								return false
							}
							c.VarDefs = append(c.VarDefs, VarDef{Name: v, Type: ad.Type.String(), Default: lit})
						}
						x.Args[ai].Value = "$" + v
						return true
					}, i)
				}
			}
		}
	}
	c := op.Clone()
	if c.Name == "" {
		c.Name = "Named"
		c.Note = strings.TrimSpace(op.Note + " opname")
		out = append(out, c)
	}
	return out
}

// literalToJSON converts simple GraphQL literals (int, string, bool, null, enum,
// flat lists/objects of those) to JSON values.
func literalToJSON(lit string) (any, bool) {
	lit = strings.TrimSpace(lit)
	switch {
	case lit == "null":
		return nil, true
	case lit == "true":
		return true, true
	case lit == "false":
		return false, true
	case strings.HasPrefix(lit, `"`):
		var s string
		if json.Unmarshal([]byte(lit), &s) == nil {
			return s, true
		}
		return nil, false
	case len(lit) > 0 && (lit[0] == '-' || (lit[0] >= '0' && lit[0] <= '9')):
		return json.Number(lit), true
	case len(lit) > 0 && (lit[0] >= 'A' && lit[0] <= 'Z' || lit[0] >= 'a' && lit[0] <= 'z'):
		return lit, true // enum value name
	}
	return nil, false
}

// DeferVariants returns every variant of op in which up to max field sites are
// wrapped in an `... @defer` inline fragment (label / if: argument by variant
// index). Sites are the field nodes in pre-order; nested and sibling
// combinations arise from choosing several sites.
func DeferVariants(op *Op, max int) []*Op {
	n := len(op.sites())
	var out []*Op
	// build wraps the chosen sites; the site at position disabled (-1: none) gets
	// @defer(if: false), which must behave exactly like no @defer at all - also
	// when it is nested inside an enabled one
	build := func(chosen []int, disabled int) {
		c := op.Clone()
		// wrap later sites first so that earlier indices stay valid
		for k := len(chosen) - 1; k >= 0; k-- {
			s := c.sites()[chosen[k]]
			x := (*s.list)[s.idx]
			if x.Kind != 0 || x.Parent == "" || x.Name == "__typename" {
				return
			}
			dir := "@defer"
			switch (chosen[k] + k) % 4 {
			case 1:
				dir = fmt.Sprintf("@defer(label: \"L%d\")", chosen[k])
			case 2:
				dir = "@defer(if: true)"
			}
			if k == disabled {
				dir = "@defer(if: false)"
			}
			(*s.list)[s.idx] = &Node{Kind: 1, Parent: x.Parent, Dirs: dir, Sub: []*Node{x}}
		}
		c.Note = fmt.Sprintf("defer@%v", chosen)
		if disabled >= 0 {
			c.Note += fmt.Sprintf(" disabled@%d", chosen[disabled])
		}
		out = append(out, c)
	}
	var rec func(start int, chosen []int)
	rec = func(start int, chosen []int) {
		if len(chosen) > 0 {
			build(chosen, -1)
			for d := range chosen {
				build(chosen, d)
			}
		}
		if len(chosen) == max {
			return
		}
		for i := start; i < n; i++ {
			rec(i+1, append(chosen, i))
		}
	}
	rec(0, nil)
	return out
}

// AliasAll returns a copy of op in which every field (except __typename) has an
// alias, so that response keys differ from field names on every level.
func AliasAll(op *Op) *Op {
	c := op.Clone()
	var walk func(ns []*Node)
	walk = func(ns []*Node) {
		for _, n := range ns {
			if n.Kind == 0 && n.Name != "__typename" && n.Alias == "" {
				n.Alias = "x_" + n.Name
			}
			walk(n.Sub)
		}
	}
	walk(c.Sel)
	c.Note = strings.TrimSpace(op.Note + " alias-all")
	return c
}
