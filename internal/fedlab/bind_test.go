package fedlab

import "testing"

func TestComposerBinding(t *testing.T) {
	for _, p := range []string{"/repo/execution/engine/testdata/config_factory_federation/config.json", "/repo/execution/federationtesting/config.json"} {
		diffs, err := BindComposer(p)
		if err != nil {
			t.Fatalf("%s: %v", p, err)
		}
		for _, d := range diffs {
			t.Errorf("%s: %s", p, d)
		}
	}
}
