package fedlab

import (
	"bytes"
	"encoding/json"
	"fmt"
	"io"
	"net/http"
	"sort"
	"strings"
	"sync"

	"github.com/vektah/gqlparser/v2"
	gast "github.com/vektah/gqlparser/v2/ast"
	"github.com/vektah/gqlparser/v2/parser"
	"github.com/vektah/gqlparser/v2/validator"

	"verif/internal/refexec"
)

// Request is one subgraph request as seen by R2.
type Request struct {
	Seq       int
	Subgraph  int
	Host      string
	Query     string
	Variables map[string]any
	Reps      []map[string]any // representations, if any
	RawBody   string
	OpType    string
	Problems  []string // validity / ownership / representation problems (C01 clauses 4, 5)
	Header    http.Header
}

// Key identifies a request up to its representation set (C07 matching).
func (r *Request) Key() string { return r.Host + "|" + r.Query }

// RepKeys returns the canonical texts of the representations.
func (r *Request) RepKeys() []string {
	out := make([]string, len(r.Reps))
	for i, rep := range r.Reps {
		out[i] = refexec.Canon(rep)
	}
	return out
}

// Canonical text of the whole request (byte-identity modulo JSON formatting).
func (r *Request) Canon() string {
	return r.Host + "|" + r.Query + "|" + refexec.Canon(r.Variables)
}

type sgRuntime struct {
	sg      Subgraph
	schema  *gast.Schema
	keys    map[string][]string // entity -> resolvable key selections
	allKeys map[string][]string
}

// Sim is R2: an http.RoundTripper that simulates every subgraph of a layout
// semantically on top of the universe D.
type Sim struct {
	L  *Layout
	U  *Universe
	rt []*sgRuntime

	mu  sync.Mutex
	log []*Request
	seq int
	// hooks (all optional)
	Intercept   func(r *Request) (*http.Response, error, bool) // fault injection: handled=true short-cuts
	RespHeader  func(r *Request) http.Header
	Gate        func(r *Request)                            // blocks until the harness releases the response
	PostProcess func(r *Request, body []byte) (int, []byte) // rewrite a computed answer (wrong entity count ...)
	// Provenance, when non-nil, receives (request, object identity, field) for
	// every field a subgraph resolves: who supplied which datum (C07).
	Provenance func(r *Request, obj any, field string)
	// NullEntity, when it returns true, makes the subgraph answer null (without
	// an error) for this entity in _entities - "not known here". The universe
	// must hold null for every field that subgraph owns on the entity.
	NullEntity func(subgraph int, typeName string, entity Obj) bool
}

func NewSim(l *Layout, u *Universe) (*Sim, error) {
	s := &Sim{L: l, U: u}
	for _, sg := range l.Subgraphs() {
		rt := &sgRuntime{sg: sg, keys: map[string][]string{}, allKeys: map[string][]string{}}
		sdl := sg.SDL + fedDirectives
		var ents []string
		pre, err := ParseSubgraphSDL(sg.SDL)
		if err != nil {
			return nil, fmt.Errorf("subgraph %s schema: %v\n%s", sg.Name, err, sg.SDL)
		}
		for _, t := range l.S.Types {
			def := pre.Types[t.Name]
			if t.Kind != "object" || !t.IsEntity() || def == nil {
				continue
			}
			// the keys this subgraph declares (its SDL is the authority)
			resolvable := false
			for _, d := range def.Directives.ForNames("key") {
				fields, _ := dirArg(d, "fields")
				rt.allKeys[t.Name] = append(rt.allKeys[t.Name], fields)
				if r, ok := dirArg(d, "resolvable"); !ok || r != "false" {
					rt.keys[t.Name] = append(rt.keys[t.Name], fields)
					resolvable = true
				}
			}
			if resolvable {
				ents = append(ents, t.Name)
			}
		}
		hasQuery := strings.Contains(sg.SDL, "type Query")
		if len(ents) > 0 {
			sdl += "\nscalar _Any\nunion _Entity = " + strings.Join(ents, " | ") + "\n"
			if hasQuery {
				sdl += "extend type Query { _entities(representations: [_Any!]!): [_Entity]! }\n"
			} else {
				sdl += "type Query { _entities(representations: [_Any!]!): [_Entity]! }\n"
			}
		} else if !hasQuery {
			sdl += "\ntype Query { _dummy: Boolean }\n"
		}
		schema, err := gqlparser.LoadSchema(&gast.Source{Name: sg.Name, Input: sdl})
		if err != nil {
			return nil, fmt.Errorf("subgraph %s schema: %v\n%s", sg.Name, err, sdl)
		}
		rt.schema = schema
		s.rt = append(s.rt, rt)
	}
	return s, nil
}

// Reset clears the request log.
func (s *Sim) Reset() {
	s.mu.Lock()
	s.log = nil
	s.seq = 0
	s.mu.Unlock()
}

// Log returns the requests seen since the last Reset.
func (s *Sim) Log() []*Request {
	s.mu.Lock()
	defer s.mu.Unlock()
	return append([]*Request(nil), s.log...)
}

func jsonResp(code int, body []byte, h http.Header) *http.Response {
	if h == nil {
		h = http.Header{}
	}
	if h.Get("Content-Type") == "" {
		h.Set("Content-Type", "application/json")
	}
	return &http.Response{StatusCode: code, Status: fmt.Sprintf("%d", code), Header: h, Body: io.NopCloser(bytes.NewReader(body)), ContentLength: int64(len(body))}
}

// JSONResponse builds a response for fault injection.
func JSONResponse(code int, body string, h http.Header) *http.Response {
	return jsonResp(code, []byte(body), h)
}

func (s *Sim) RoundTrip(hr *http.Request) (*http.Response, error) {
	var body []byte
	if hr.Body != nil {
		body, _ = io.ReadAll(hr.Body)
		hr.Body.Close()
	}
	idx := -1
	for i, rt := range s.rt {
		if rt.sg.Name == hr.URL.Host {
			idx = i
		}
	}
	req := &Request{Subgraph: idx, Host: hr.URL.Host, RawBody: string(body), Header: hr.Header.Clone()}
	var in struct {
		Query         string          `json:"query"`
		Variables     json.RawMessage `json:"variables"`
		OperationName string          `json:"operationName"`
	}
	dec := json.NewDecoder(bytes.NewReader(body))
	dec.UseNumber()
	if err := dec.Decode(&in); err != nil {
		req.Problems = append(req.Problems, "request body is not JSON: "+err.Error())
	}
	req.Query = in.Query
	if len(in.Variables) > 0 && string(in.Variables) != "null" {
		d2 := json.NewDecoder(bytes.NewReader(in.Variables))
		d2.UseNumber()
		if err := d2.Decode(&req.Variables); err != nil {
			req.Problems = append(req.Problems, "variables are not a JSON object: "+err.Error())
		}
	}
	if reps, ok := req.Variables["representations"].([]any); ok {
		for _, r := range reps {
			m, _ := r.(map[string]any)
			req.Reps = append(req.Reps, m)
		}
	}
	s.mu.Lock()
	req.Seq = s.seq
	s.seq++
	s.log = append(s.log, req)
	s.mu.Unlock()

	if idx < 0 {
		req.Problems = append(req.Problems, "request to unknown subgraph "+hr.URL.Host)
		return jsonResp(404, []byte(`{"errors":[{"message":"unknown subgraph"}]}`), nil), nil
	}
	if s.Gate != nil {
		s.Gate(req)
	}
	if err := hr.Context().Err(); err != nil {
		return nil, err
	}
	if s.Intercept != nil {
		if resp, err, handled := s.Intercept(req); handled {
			return resp, err
		}
	}
	if isSubscriptionOp(req.Query) {
		return s.subscription(s.rt[idx], req, in.OperationName), nil
	}
	out := s.execute(s.rt[idx], req, in.OperationName)
	var h http.Header
	if s.RespHeader != nil {
		h = s.RespHeader(req)
	}
	code := 200
	if s.PostProcess != nil {
		code, out = s.PostProcess(req, out)
	}
	return jsonResp(code, out, h), nil
}

// execute validates, checks ownership and runs the request with R1 on the
// subgraph's view of D.
func (s *Sim) execute(rt *sgRuntime, req *Request, opName string) []byte {
	doc, perr := parser.ParseQuery(&gast.Source{Input: req.Query})
	if perr != nil {
		req.Problems = append(req.Problems, "subgraph request does not parse: "+perr.Error())
		return []byte(`{"errors":[{"message":"parse error"}]}`)
	}
	if errs := validator.Validate(rt.schema, doc); len(errs) > 0 {
		req.Problems = append(req.Problems, "subgraph request is not valid for the subgraph schema: "+errs[0].Message)
		return []byte(`{"errors":[{"message":"validation error"}]}`)
	}
	for _, op := range doc.Operations {
		req.OpType = string(op.Operation)
		s.ownershipWalk(rt, req, op.SelectionSet, nil, doc, map[string]bool{})
	}
	opts := refexec.Options{OperationName: opName, Variables: req.Variables, Root: RootObj("")}
	if s.Provenance != nil {
		opts.OnField = func(path []any, parentType string, parent Obj, f *gast.Field) {
			s.Provenance(req, Identity(parentType, parent), f.Name)
		}
	}
	res := refexec.Execute(rt.schema, doc, &sgResolver{s: s, rt: rt, req: req, event: -1}, opts)
	return res.JSON()
}

// provTree is a parsed @provides selection.
type provTree map[string]provTree

func parseProv(sel string) provTree {
	toks := strings.Fields(strings.NewReplacer("{", " { ", "}", " } ").Replace(sel))
	pos := 0
	var parse func() provTree
	parse = func() provTree {
		out := provTree{}
		for pos < len(toks) {
			t := toks[pos]
			if t == "}" {
				pos++
				return out
			}
			pos++
			if pos < len(toks) && toks[pos] == "{" {
				pos++
				out[t] = parse()
			} else {
				out[t] = provTree{}
			}
		}
		return out
	}
	return parse()
}

// ownershipWalk: every selected field must be resolvable by this subgraph: not
// @external, or on a @provides path (C01 "asking only for fields that subgraph
// owns"). Key fields are declared without @external by the layout generator.
func (s *Sim) ownershipWalk(rt *sgRuntime, req *Request, set gast.SelectionSet, prov provTree, doc *gast.QueryDocument, seenFrag map[string]bool) {
	for _, sel := range set {
		switch x := sel.(type) {
		case *gast.Field:
			if strings.HasPrefix(x.Name, "__") || x.Definition == nil {
				continue
			}
			_, provided := prov[x.Name]
			if x.Definition.Directives.ForName("external") != nil && !provided {
				on := ""
				if x.ObjectDefinition != nil {
					on = x.ObjectDefinition.Name
				}
				req.Problems = append(req.Problems, fmt.Sprintf("subgraph %s is asked for %s.%s which it does not own (@external, not provided on this path)", rt.sg.Name, on, x.Name))
			}
			var child provTree
			if provided {
				child = prov[x.Name]
			}
			if p, ok := dirArg(x.Definition.Directives.ForName("provides"), "fields"); ok {
				merged := provTree{}
				for k, v := range child {
					merged[k] = v
				}
				for k, v := range parseProv(p) {
					merged[k] = v
				}
				child = merged
			}
			s.ownershipWalk(rt, req, x.SelectionSet, child, doc, seenFrag)
		case *gast.InlineFragment:
			s.ownershipWalk(rt, req, x.SelectionSet, prov, doc, seenFrag)
		case *gast.FragmentSpread:
			if fr := doc.Fragments.ForName(x.Name); fr != nil && !seenFrag[x.Name] {
				seenFrag[x.Name] = true
				s.ownershipWalk(rt, req, fr.SelectionSet, prov, doc, seenFrag)
				delete(seenFrag, x.Name)
			}
		}
	}
}

type sgResolver struct {
	s     *Sim
	rt    *sgRuntime
	req   *Request
	event int // index of the subscription event being rendered (-1: not a subscription)
}

func (r *sgResolver) Resolve(pt *gast.Definition, parent Obj, f *gast.Field, args map[string]any, path []any) (any, error) {
	u := r.s.U
	if parent["__root"] == true {
		if f.Name == "_entities" {
			return r.entities(args), nil
		}
		root := u.Root[pt.Name]
		if root == nil {
			return nil, nil
		}
		if pt.Name == "Subscription" && r.event >= 0 {
			return EventValue(root, f.Name, r.event), nil
		}
		return u.fieldValue(u.S.Type(pt.Name), root, f.Name, args, func(fn string) (any, bool) { v, ok := root[fn]; return v, ok })
	}
	mt := u.S.Type(pt.Name)
	return u.fieldValue(mt, parent, f.Name, args, r.input(pt, mt, parent, f.Name))
}

// input supplies @requires inputs inside a subgraph: inputs this subgraph owns
// come from its own data (recursively, when they are computed fields
// themselves), external ones only from the representation it was sent.
func (r *sgResolver) input(pt *gast.Definition, mt *Type, parent Obj, forField string) func(fn string) (any, bool) {
	var in func(fn string) (any, bool)
	in = func(fn string) (any, bool) {
		fd := pt.Fields.ForName(fn)
		if fd != nil && fd.Directives.ForName("external") == nil {
			if mt != nil {
				if mf := mt.Field(fn); mf != nil && mf.Requires != "" {
					v, err := r.s.U.fieldValue(mt, parent, fn, nil, in)
					if err != nil {
						return nil, true
					}
					return v, true
				}
			}
			v, ok := parent[fn]
			return v, ok
		}
		rep, _ := parent["__rep"].(map[string]any)
		if rep == nil {
			r.req.Problems = append(r.req.Problems, fmt.Sprintf("%s.%s (@requires) was requested outside an _entities lookup, the subgraph cannot know its input %s", pt.Name, forField, fn))
			return nil, false
		}
		v, ok := rep[fn]
		if !ok {
			r.req.Problems = append(r.req.Problems, fmt.Sprintf("representation for %s.%s misses @requires inputs %q: %s", pt.Name, forField, fn, refexec.Canon(rep)))
			return nil, false
		}
		return v, true
	}
	return in
}

func (r *sgResolver) entities(args map[string]any) any {
	reps, _ := args["representations"].([]any)
	out := make([]any, len(reps))
	for i, x := range reps {
		rep, _ := x.(map[string]any)
		if rep == nil {
			r.req.Problems = append(r.req.Problems, "representation is not an object")
			continue
		}
		tn, _ := rep["__typename"].(string)
		if tn == "" {
			r.req.Problems = append(r.req.Problems, "representation without __typename: "+refexec.Canon(rep))
			continue
		}
		keys := r.rt.keys[tn]
		if len(keys) == 0 {
			r.req.Problems = append(r.req.Problems, fmt.Sprintf("subgraph %s has no resolvable key for %s but received a representation", r.rt.sg.Name, tn))
			continue
		}
		var found Obj
		complete := false
		for _, k := range keys {
			if _, ok := projectSel(rep, k); ok {
				complete = true
				found = r.s.U.Find(tn, rep, k)
				break
			}
		}
		if !complete {
			r.req.Problems = append(r.req.Problems, fmt.Sprintf("representation carries no complete resolvable key of %s in %s (keys %v): %s", tn, r.rt.sg.Name, keys, refexec.Canon(rep)))
			continue
		}
		if found == nil {
			r.req.Problems = append(r.req.Problems, fmt.Sprintf("representation does not identify any %s: %s", tn, refexec.Canon(rep)))
			continue
		}
		if r.s.NullEntity != nil && r.s.NullEntity(r.rt.sg.Index, tn, found) {
			continue
		}
		cp := Obj{}
		for k, v := range found {
			cp[k] = v
		}
		cp["__rep"] = rep
		cp["__orig"] = found
		out[i] = cp
	}
	return out
}

// SortedProblems returns all request problems of the log, de-duplicated.
func (s *Sim) SortedProblems() []string {
	set := map[string]bool{}
	for _, r := range s.Log() {
		for _, p := range r.Problems {
			set[p] = true
		}
	}
	out := make([]string, 0, len(set))
	for p := range set {
		out = append(out, p)
	}
	sort.Strings(out)
	return out
}

// Identity names a datum's owner object: the universe object itself (pointer
// identity; an _entities copy points back to its original) or the root type.
func Identity(parentType string, parent Obj) any {
	if parent["__root"] == true {
		return "ROOT"
	}
	if o, ok := parent["__orig"].(Obj); ok {
		return fmt.Sprintf("%p", o)
	}
	return fmt.Sprintf("%p", parent)
}

func isSubscriptionOp(q string) bool {
	doc, err := parser.ParseQuery(&gast.Source{Input: q})
	return err == nil && len(doc.Operations) > 0 && doc.Operations[0].Operation == gast.Subscription
}

// EventValue: the value of a subscription root field for event i (the universe
// holds a list of events per subscription field).
func EventValue(root Obj, field string, i int) any {
	evs, _ := root[field].([]any)
	if i < 0 || i >= len(evs) {
		return nil
	}
	return evs[i]
}

// Events returns the number of events of a subscription root field.
func (u *Universe) Events(field string) int {
	root := u.Root["Subscription"]
	if root == nil {
		return 0
	}
	evs, _ := root[field].([]any)
	return len(evs)
}

// subscription answers a subscription operation as a server-sent event stream:
// one `next` event per event of the (single) root field, then `complete`.
func (s *Sim) subscription(rt *sgRuntime, req *Request, opName string) *http.Response {
	doc, perr := parser.ParseQuery(&gast.Source{Input: req.Query})
	if perr != nil {
		req.Problems = append(req.Problems, "subgraph subscription does not parse: "+perr.Error())
		return jsonResp(400, []byte(`{"errors":[{"message":"parse error"}]}`), nil)
	}
	if errs := validator.Validate(rt.schema, doc); len(errs) > 0 {
		req.Problems = append(req.Problems, "subgraph request is not valid for the subgraph schema: "+errs[0].Message)
		return jsonResp(400, []byte(`{"errors":[{"message":"validation error"}]}`), nil)
	}
	req.OpType = "subscription"
	field := ""
	for _, op := range doc.Operations {
		s.ownershipWalk(rt, req, op.SelectionSet, nil, doc, map[string]bool{})
		for _, sel := range op.SelectionSet {
			if f, ok := sel.(*gast.Field); ok && field == "" {
				field = f.Name
			}
		}
	}
	var sb strings.Builder
	for i := 0; i < s.U.Events(field); i++ {
		res := refexec.Execute(rt.schema, doc, &sgResolver{s: s, rt: rt, req: req, event: i}, refexec.Options{OperationName: opName, Variables: req.Variables, Root: RootObj("")})
		sb.WriteString("event: next\ndata: ")
		sb.Write(res.JSON())
		sb.WriteString("\n\n")
	}
	sb.WriteString("event: complete\n\n")
	h := http.Header{}
	h.Set("Content-Type", "text/event-stream")
	return jsonResp(200, []byte(sb.String()), h)
}
