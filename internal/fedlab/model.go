// Package fedlab is the federation laboratory of DESIGN.md: small supergraph
// models, the enumeration of their partitions into subgraphs (layouts), a
// mini-composer that derives the planner metadata from annotated subgraph SDL,
// a consistent data universe, the semantic subgraph simulator R2
// (http.RoundTripper) and a builder for the real ExecutionEngine.
package fedlab

import (
	"fmt"
	"sort"
	"strings"
)

type Arg struct {
	Name    string
	Type    string
	Default string // GraphQL literal or ""
}

type Field struct {
	Name string
	Type string
	Args []Arg
	// Requires: selection set over the same entity whose values the owner needs
	// (the fields must be owned by another subgraph in a layout that uses it).
	Requires string
	// Provides: selection on the returned entity that the owner of this field can
	// also resolve (only used when the layout switches it on).
	Provides string
	// Shared: resolvable by every subgraph that mentions the type (key fields).
	Key bool
}

type Key struct {
	Fields string // selection set text, e.g. "id", "id sku", "info { a b }"
}

type Type struct {
	Name       string
	Kind       string // object | interface | union | enum | input | scalar
	Keys       []Key  // entity iff non-empty
	Fields     []Field
	Implements []string
	Members    []string // union members
	Values     []string // enum values
}

type Supergraph struct {
	Name  string
	Types []Type
}

func (s *Supergraph) Type(name string) *Type {
	for i := range s.Types {
		if s.Types[i].Name == name {
			return &s.Types[i]
		}
	}
	return nil
}

func (t *Type) Field(name string) *Field {
	for i := range t.Fields {
		if t.Fields[i].Name == name {
			return &t.Fields[i]
		}
	}
	return nil
}

func (t *Type) IsEntity() bool { return len(t.Keys) > 0 }
func (t *Type) IsRoot() bool {
	return t.Name == "Query" || t.Name == "Mutation" || t.Name == "Subscription"
}

// NamedType strips list / non-null wrappers.
func NamedType(t string) string {
	return strings.NewReplacer("[", "", "]", "", "!", "").Replace(t)
}

// typedFor returns the field with the type this subgraph declares for it.
func (l *Layout) typedFor(typeName string, f Field, sg int) Field {
	if t := l.SubgraphType[FieldRef{typeName, f.Name}][sg]; t != "" {
		f.Type = t
	}
	return f
}

func fieldSDL(f Field, extra string) string {
	var sb strings.Builder
	sb.WriteString("  " + f.Name)
	if len(f.Args) > 0 {
		sb.WriteString("(")
		for i, a := range f.Args {
			if i > 0 {
				sb.WriteString(", ")
			}
			sb.WriteString(a.Name + ": " + a.Type)
			if a.Default != "" {
				sb.WriteString(" = " + a.Default)
			}
		}
		sb.WriteString(")")
	}
	sb.WriteString(": " + f.Type + extra + "\n")
	return sb.String()
}

// SDL renders the supergraph (client) schema.
func (s *Supergraph) SDL() string {
	var sb strings.Builder
	for _, t := range s.Types {
		switch t.Kind {
		case "object", "interface", "input":
			kw := map[string]string{"object": "type", "interface": "interface", "input": "input"}[t.Kind]
			sb.WriteString(kw + " " + t.Name)
			if len(t.Implements) > 0 {
				sb.WriteString(" implements " + strings.Join(t.Implements, " & "))
			}
			sb.WriteString(" {\n")
			for _, f := range t.Fields {
				sb.WriteString(fieldSDL(f, ""))
			}
			sb.WriteString("}\n")
		case "union":
			sb.WriteString("union " + t.Name + " = " + strings.Join(t.Members, " | ") + "\n")
		case "enum":
			sb.WriteString("enum " + t.Name + " { " + strings.Join(t.Values, " ") + " }\n")
		case "scalar":
			sb.WriteString("scalar " + t.Name + "\n")
		}
	}
	return sb.String()
}

// FieldRef names a distributable field.
type FieldRef struct{ Type, Field string }

func (r FieldRef) String() string { return r.Type + "." + r.Field }

// Distributable lists the fields whose owner a layout chooses: non-key fields of
// entities and root fields, in model order.
func (s *Supergraph) Distributable() []FieldRef {
	var out []FieldRef
	for _, t := range s.Types {
		if t.Kind != "object" || !(t.IsEntity() || t.IsRoot()) {
			continue
		}
		for _, f := range t.Fields {
			if f.Key {
				continue
			}
			out = append(out, FieldRef{t.Name, f.Name})
		}
	}
	return out
}

// Layout assigns every distributable field to a subgraph and switches optional
// federation edges on.
type Layout struct {
	S        *Supergraph
	N        int               // number of subgraphs
	Owner    map[FieldRef]int  // distributable field -> subgraph
	Provides map[FieldRef]bool // use Field.Provides of this field
	// ProvidesSel overrides the text of Field.Provides for a switched-on edge.
	ProvidesSel map[FieldRef]string
	Shared      map[FieldRef][]int // additional owners of a (shareable) field
	Unresolv    map[string][]int   // entity type -> subgraphs that declare it with resolvable:false keys
	// KeyUse: entity type -> subgraph -> how that subgraph declares the entity's
	// keys (nil / missing: every key of the type, every member resolved there).
	KeyUse map[string]map[int]*KeyUse
	// SubgraphType: the type text a subgraph declares for a field when it differs
	// from the supergraph's (a subgraph may be stricter: `ID!` where the composed
	// supergraph has `ID`). Nil: every subgraph uses the supergraph type.
	SubgraphType map[FieldRef]map[int]string
	Name         string
}

// KeyUse describes the keys of one entity in one subgraph: the kinds of keys the
// planner documents in plan/key_fields_visitor.go (explicit source/target keys,
// explicit conditional keys whose members are @external, several keys per type,
// compound keys, a different subset of the keys in every subgraph).
type KeyUse struct {
	Keys     []string `json:"keys"`     // key selections declared here (a subset of the type's keys)
	External []string `json:"external"` // members of the declared keys that are @external here: such a key is a jump target only
	Own      []string `json:"own"`      // key-flagged fields resolved here although no key declared here mentions them
}

func (l *Layout) keyUse(typeName string, sg int) *KeyUse {
	if l.KeyUse == nil || l.KeyUse[typeName] == nil {
		return nil
	}
	return l.KeyUse[typeName][sg]
}

// SetKeyUse registers the key declaration of one entity in one subgraph.
func (l *Layout) SetKeyUse(typeName string, sg int, ku *KeyUse) {
	if l.KeyUse == nil {
		l.KeyUse = map[string]map[int]*KeyUse{}
	}
	if l.KeyUse[typeName] == nil {
		l.KeyUse[typeName] = map[int]*KeyUse{}
	}
	l.KeyUse[typeName][sg] = ku
}

func has(list []string, x string) bool {
	for _, y := range list {
		if y == x {
			return true
		}
	}
	return false
}

// providesSel: the @provides selection of field f in this layout ("" = none).
func (l *Layout) providesSel(t *Type, f *Field) string {
	r := FieldRef{t.Name, f.Name}
	if !l.Provides[r] {
		return ""
	}
	if o := l.ProvidesSel[r]; o != "" {
		return o
	}
	return f.Provides
}

// declaredKeys: the key selections subgraph sg declares for entity t.
func (l *Layout) declaredKeys(t *Type, sg int) []string {
	if ku := l.keyUse(t.Name, sg); ku != nil {
		return ku.Keys
	}
	out := make([]string, len(t.Keys))
	for i, k := range t.Keys {
		out[i] = k.Fields
	}
	return out
}

func (l *Layout) owners(r FieldRef) []int {
	out := []int{l.Owner[r]}
	out = append(out, l.Shared[r]...)
	sort.Ints(out)
	return out
}

func (l *Layout) owns(sg int, r FieldRef) bool {
	for _, o := range l.owners(r) {
		if o == sg {
			return true
		}
	}
	return false
}

// Subgraph is one generated subgraph of a layout.
type Subgraph struct {
	Index int
	Name  string
	SDL   string // annotated with @key / @external / @requires / @provides / @shareable
	// ExternalKeyFields ("Type.field"): key members declared @external on a plain
	// (non-extension) type: really not resolvable here, the key is a target only.
	ExternalKeyFields []string
}

const fedDirectives = `
directive @key(fields: String!, resolvable: Boolean = true) repeatable on OBJECT | INTERFACE
directive @external on FIELD_DEFINITION | OBJECT
directive @requires(fields: String!) on FIELD_DEFINITION
directive @provides(fields: String!) on FIELD_DEFINITION
directive @shareable on FIELD_DEFINITION | OBJECT
`

// selectionFieldNames returns the top-level field names of a selection set text
// ("id sku", "info { a b }" -> id, sku / info).
func selectionFieldNames(sel string) []string {
	var out []string
	depth := 0
	for _, tok := range strings.Fields(strings.NewReplacer("{", " { ", "}", " } ").Replace(sel)) {
		switch tok {
		case "{":
			depth++
		case "}":
			depth--
		default:
			if depth == 0 {
				name, _ := splitSelToken(tok)
				out = append(out, name)
			}
		}
	}
	return out
}

// splitSelToken splits a field of a field set that carries arguments, written
// without blanks (`size(unit:CM)`), into its name and its argument values
// (enum values and strings as strings, integers as json.Number-like strings are
// not needed: the models only use enum arguments in field sets).
func splitSelToken(tok string) (string, map[string]any) {
	i := strings.Index(tok, "(")
	if i < 0 || !strings.HasSuffix(tok, ")") {
		return tok, nil
	}
	args := map[string]any{}
	for _, kv := range strings.Split(tok[i+1:len(tok)-1], ",") {
		p := strings.SplitN(kv, ":", 2)
		if len(p) == 2 {
			args[strings.TrimSpace(p[0])] = strings.Trim(strings.TrimSpace(p[1]), `"`)
		}
	}
	return tok[:i], args
}

// Subgraphs generates the subgraph SDLs of a layout.
func (l *Layout) Subgraphs() []Subgraph {
	out := make([]Subgraph, l.N)
	for sg := 0; sg < l.N; sg++ {
		out[sg] = Subgraph{Index: sg, Name: fmt.Sprintf("sg%d", sg), SDL: l.subgraphSDL(sg)}
		for _, t := range l.S.Types {
			if ku := l.keyUse(t.Name, sg); ku != nil && strings.Contains(out[sg].SDL, "type "+t.Name+" ") {
				for _, fn := range ku.External {
					out[sg].ExternalKeyFields = append(out[sg].ExternalKeyFields, t.Name+"."+fn)
				}
			}
		}
	}
	return out
}

type typeUse struct {
	owned    map[string]bool // fields resolved here
	external map[string]bool // fields declared @external here
	provides map[string]string
	requires map[string]string
}

func (l *Layout) subgraphSDL(sg int) string {
	s := l.S
	use := map[string]*typeUse{}
	get := func(t string) *typeUse {
		u := use[t]
		if u == nil {
			u = &typeUse{owned: map[string]bool{}, external: map[string]bool{}, provides: map[string]string{}, requires: map[string]string{}}
			use[t] = u
		}
		return u
	}
	var reach func(typeName string)
	seen := map[string]bool{}
	addEntityStub := func(t *Type) {
		u := get(t.Name)
		ku := l.keyUse(t.Name, sg)
		for _, k := range l.declaredKeys(t, sg) {
			for _, fn := range selectionFieldNames(k) {
				if ku != nil && has(ku.External, fn) {
					u.external[fn] = true
				} else {
					u.owned[fn] = true
				}
			}
		}
		if ku != nil {
			for _, fn := range ku.Own {
				u.owned[fn] = true
			}
		}
	}
	var reachField func(t *Type, f *Field)
	reachField = func(t *Type, f *Field) {
		reach(NamedType(f.Type))
		for _, a := range f.Args {
			reach(NamedType(a.Type))
		}
		if psel := l.providesSel(t, f); psel != "" {
			get(t.Name).provides[f.Name] = psel
			target := s.Type(NamedType(f.Type))
			tu := get(target.Name)
			for _, fn := range selectionFieldNames(psel) {
				tu.external[fn] = true
				if tf := target.Field(fn); tf != nil {
					reach(NamedType(tf.Type))
				}
			}
		}
	}
	reach = func(typeName string) {
		if seen[typeName] {
			return
		}
		t := s.Type(typeName)
		if t == nil {
			return
		}
		seen[typeName] = true
		switch t.Kind {
		case "object":
			if t.IsEntity() {
				addEntityStub(t)
				for _, k := range l.declaredKeys(t, sg) {
					for _, fn := range selectionFieldNames(k) {
						reachField(t, t.Field(fn))
					}
				}
			} else if !t.IsRoot() {
				// value type: replicated with identical fields
				u := get(t.Name)
				for i := range t.Fields {
					u.owned[t.Fields[i].Name] = true
					reachField(t, &t.Fields[i])
				}
			}
			for _, in := range t.Implements {
				reach(in)
			}
		case "interface":
			u := get(t.Name)
			for i := range t.Fields {
				u.owned[t.Fields[i].Name] = true
				reachField(t, &t.Fields[i])
			}
			for _, o := range s.Types {
				for _, in := range o.Implements {
					if in == t.Name {
						reach(o.Name)
					}
				}
			}
		case "union":
			get(t.Name)
			for _, m := range t.Members {
				reach(m)
			}
		case "input":
			u := get(t.Name)
			for i := range t.Fields {
				u.owned[t.Fields[i].Name] = true
				reach(NamedType(t.Fields[i].Type))
			}
		default:
			get(t.Name)
		}
	}
	// owned distributable fields
	for _, r := range s.Distributable() {
		if !l.owns(sg, r) {
			continue
		}
		t := s.Type(r.Type)
		f := t.Field(r.Field)
		if t.IsEntity() {
			reach(t.Name)
		} else {
			seen[t.Name] = true
		}
		u := get(t.Name)
		u.owned[f.Name] = true
		reachField(t, f)
		if f.Requires != "" {
			u.requires[f.Name] = f.Requires
			var mark func(sel string, depth int)
			mark = func(sel string, depth int) {
				for _, fn := range selectionFieldNames(sel) {
					u.external[fn] = true
					reachField(t, t.Field(fn))
					// an input that is itself a computed (@requires) field and is owned here
					// pulls its own inputs in: the requiring field inherits them
					if rf := t.Field(fn); rf != nil && rf.Requires != "" && depth < 4 && l.owns(sg, FieldRef{t.Name, fn}) {
						mark(rf.Requires, depth+1)
					}
				}
			}
			mark(f.Requires, 0)
		}
	}
	// a field that is both external (for provides/requires) and owned is owned
	for _, u := range use {
		for fn := range u.owned {
			delete(u.external, fn)
		}
	}
	unresolvable := func(t string) bool {
		for _, x := range l.Unresolv[t] {
			if x == sg {
				return true
			}
		}
		return false
	}
	var sb strings.Builder
	for _, t := range s.Types {
		u := use[t.Name]
		if u == nil {
			continue
		}
		switch t.Kind {
		case "object", "interface", "input":
			if len(u.owned)+len(u.external) == 0 {
				continue
			}
			kw := map[string]string{"object": "type", "interface": "interface", "input": "input"}[t.Kind]
			sb.WriteString(kw + " " + t.Name)
			var impl []string
			for _, in := range t.Implements {
				if use[in] == nil {
					continue
				}
				// a subgraph's stub of an entity that lacks a field of the interface does
				// not declare the interface (it would not be a valid schema)
				complete := true
				if it := s.Type(in); it != nil {
					for _, f := range it.Fields {
						if !u.owned[f.Name] && !u.external[f.Name] {
							complete = false
						}
					}
				}
				if complete {
					impl = append(impl, in)
				}
			}
			if len(impl) > 0 {
				sb.WriteString(" implements " + strings.Join(impl, " & "))
			}
			if t.Kind == "object" && t.IsEntity() {
				for _, k := range l.declaredKeys(&t, sg) {
					if unresolvable(t.Name) {
						sb.WriteString(fmt.Sprintf(" @key(fields: %q, resolvable: false)", k))
					} else {
						sb.WriteString(fmt.Sprintf(" @key(fields: %q)", k))
					}
				}
			}
			sb.WriteString(" {\n")
			for _, f := range t.Fields {
				switch {
				case u.owned[f.Name]:
					extra := ""
					if r := u.requires[f.Name]; r != "" {
						// only the inputs this subgraph does not own itself are required;
						// owned inputs that are computed fields contribute their own inputs
						if ext := l.effectiveRequires(&t, r, u.external, 0); ext != "" {
							extra += fmt.Sprintf(" @requires(fields: %q)", ext)
						}
					}
					if p := u.provides[f.Name]; p != "" {
						extra += fmt.Sprintf(" @provides(fields: %q)", p)
					}
					if t.Kind == "object" && !f.Key && (len(l.owners(FieldRef{t.Name, f.Name})) > 1 || (!t.IsEntity() && !t.IsRoot())) {
						extra += " @shareable"
					}
					sb.WriteString(fieldSDL(l.typedFor(t.Name, f, sg), extra))
				case u.external[f.Name]:
					sb.WriteString(fieldSDL(l.typedFor(t.Name, f, sg), " @external"))
				}
			}
			sb.WriteString("}\n")
		case "union":
			sb.WriteString("union " + t.Name + " = " + strings.Join(t.Members, " | ") + "\n")
		case "enum":
			sb.WriteString("enum " + t.Name + " { " + strings.Join(t.Values, " ") + " }\n")
		case "scalar":
			sb.WriteString("scalar " + t.Name + "\n")
		}
	}
	return sb.String()
}

// externalPart keeps the top-level members of a selection whose field is
// external in this subgraph ("price weight" with weight owned -> "price").
func externalPart(sel string, external map[string]bool) string {
	toks := strings.Fields(strings.NewReplacer("{", " { ", "}", " } ").Replace(sel))
	var out []string
	depth := 0
	keep := false
	for _, t := range toks {
		switch t {
		case "{":
			depth++
			if keep {
				out = append(out, t)
			}
		case "}":
			depth--
			if keep {
				out = append(out, t)
			}
		default:
			if depth == 0 {
				keep = external[t]
			}
			if keep {
				out = append(out, t)
			}
		}
	}
	return strings.Join(out, " ")
}

// effectiveRequires: the external part of a @requires selection, with owned
// computed inputs replaced (transitively) by the external part of their own
// requirements.
func (l *Layout) effectiveRequires(t *Type, sel string, external map[string]bool, depth int) string {
	var parts []string
	seen := map[string]bool{}
	add := func(p string) {
		if p != "" && !seen[p] {
			seen[p] = true
			parts = append(parts, p)
		}
	}
	for _, m := range splitSelection(sel) {
		if external[m.name] {
			add(m.text)
			continue
		}
		if rf := t.Field(m.name); rf != nil && rf.Requires != "" && depth < 4 {
			add(l.effectiveRequires(t, rf.Requires, external, depth+1))
		}
	}
	return strings.Join(parts, " ")
}

type selMember struct{ name, text string }

// splitSelection splits a selection set text into its top-level members.
func splitSelection(sel string) []selMember {
	toks := strings.Fields(strings.NewReplacer("{", " { ", "}", " } ").Replace(sel))
	var out []selMember
	depth := 0
	for _, t := range toks {
		switch t {
		case "{":
			depth++
			out[len(out)-1].text += " {"
		case "}":
			depth--
			out[len(out)-1].text += " }"
		default:
			if depth == 0 {
				name, _ := splitSelToken(t)
				out = append(out, selMember{name: name, text: t})
			} else {
				out[len(out)-1].text += " " + t
			}
		}
	}
	return out
}
