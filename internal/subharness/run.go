package subharness

import (
	"fmt"
	"os"
	"runtime"
	"runtime/debug"
	"sort"
	"strings"
	"sync/atomic"
	"syscall"
	"testing"
	"testing/synctest"

	"github.com/wundergraph/graphql-go-tools/v2/pkg/vsync"

	"verif/internal/sched"
	"verif/internal/vk"
)

// Harness binds one scenario to the scheduler.
type Harness struct {
	sc   *Scenario
	s    *sched.Sched
	solo map[string]string // "<shape>|<event payload>" -> bytes a lone subscriber receives
	cur  *inst
	Last []Finding
	n    int

	lastNotJudged       map[string]int
	lastHBAfterTerminal int
	lastOverlapTeardown int
}

var mapOrderChoice bool

// abandon is set while an execution that ended WEDGED (deadlock in the code under
// test) is torn down. With the scheduler inactive a shim operation that cannot
// complete spins (sched.park / vsync.hook); a goroutine that waits for a mutex that
// will never be released - e.g. one that locked a mutex it already holds - would
// spin for ever and synctest.Wait() would never return (the whole shard hung until
// the driver's hard kill). Such goroutines are parked durably instead and left
// behind; the process leaves the bubble through os.Exit.
var abandon atomic.Bool

func install(s *sched.Sched) {
	never := make(chan struct{}) // created inside the bubble: blocking on it is durable
	vsync.Hook = func(kind string, obj any, ready func() bool) {
		if abandon.Load() && !ready() {
			<-never
		}
		s.Hook(kind, obj, ready)
	}
	vsync.MapDesc = func(site string) bool {
		if !mapOrderChoice {
			return false
		}
		if i := strings.LastIndexByte(site, '/'); i >= 0 {
			site = site[i+1:]
		}
		return s.Choose("maporder:"+site, 2) == 1
	}
}

const maxStartsSolo = 8

// soloTable computes, with the real resolver and no scheduler, what a lone
// subscriber of each response shape receives for every event payload a
// scenario can emit.
func soloTable(sc *Scenario) map[string]string {
	table := map[string]string{}
	var payloads []string
	evs := map[int]bool{}
	for _, progs := range sc.Progs {
		for _, p := range progs {
			for _, st := range p {
				if st.Op == "U" || st.Op == "US" {
					evs[st.Ev] = true
				}
			}
		}
	}
	var evl []int
	for e := range evs {
		evl = append(evl, e)
	}
	sort.Ints(evl)
	for n := 1; n <= maxStartsSolo; n++ {
		for _, e := range evl {
			payloads = append(payloads, evPayload(n, e))
		}
	}
	if sc.HookEmit {
		for _, ss := range sc.sessions() {
			payloads = append(payloads, hookPayload(ss.Name))
		}
	}
	if len(payloads) == 0 {
		return table
	}
	shapes := map[int]bool{}
	for _, ss := range sc.sessions() {
		shapes[ss.Shape] = true
	}
	for shape := range shapes {
		var prog []Step
		for _, p := range payloads {
			prog = append(prog, Step{Op: "RAW", Sub: p})
		}
		solo := &Scenario{Name: "solo", Actors: []Actor{one("S", Session{Name: "S", Input: "a", Hdr: "h1", Conn: 1, SubID: 1, Action: "none", Shape: shape})},
			Progs: map[string][][]Step{"a|h1": {prog}}}
		in := newInst(solo, nil)
		in.runSession(in.byName["S"])
		synctest.Wait()
		var got []string
		in.mu.Lock()
		for _, c := range in.byName["S"].w.calls {
			if c.kind == "Flush" {
				got = append(got, c.payload)
			}
		}
		in.mu.Unlock()
		in.cleanup()
		synctest.Wait()
		// by event tag, not by position: a resolver that re-orders events must not
		// corrupt the reference (missing entries are counted as not judged)
		byTag := map[string]string{}
		for _, g := range got {
			byTag[tagOfPayload(g)] = g
		}
		for _, p := range payloads {
			if g, ok := byTag[tagOfPayload(p)]; ok {
				table[fmt.Sprintf("%d|%s", shape, p)] = g
			}
		}
	}
	return table
}

func NewHarness(sc *Scenario, s *sched.Sched) *Harness {
	return &Harness{sc: sc, s: s, solo: soloTable(sc)}
}

func (h *Harness) Scenario() *sched.Scenario {
	return &sched.Scenario{
		Name: h.sc.Name,
		Body: func(s *sched.Sched) {
			// the collector only runs here, while every other goroutine is parked or
			// blocked: a collection in the middle of a step can re-order runnable
			// goroutines and with them the logical thread ids (replay divergence)
			if h.n++; h.n%32 == 0 {
				runtime.GC()
			}
			abandon.Store(false)
			h.cur = newInst(h.sc, s)
			h.cur.spawn()
		},
		Check: func(s *sched.Sched, x *sched.Exec) (string, []sched.Finding) {
			out, fs := h.check(h.cur, x)
			h.Last = fs
			// tear-down of a wedged execution: see abandon
			abandon.Store(x.Deadlock || len(x.Parked) > 0 || len(x.Unfinished) > 0 || x.Horizon)
			return out, nil
		},
		Cleanup: func() {
			if h.cur != nil {
				h.cur.cleanup()
			}
		},
	}
}

// runOnce executes one schedule outside the explorer (confirmation, replay).
func (h *Harness) runOnce(scn *sched.Scenario, choices []int, prop string) (*sched.Exec, string, []Finding) {
	x := h.s.RunOne(choices, nil, func() { scn.Body(h.s) })
	var outcome string
	var fs []Finding
	if x.Diverged == "" {
		outcome, _ = scn.Check(h.s, x)
		fs = h.forProp(prop, h.s.Panics)
	}
	h.s.Finish()
	scn.Cleanup()
	synctest.Wait()
	return x, outcome, fs
}

func (h *Harness) forProp(prop string, panics []string) []Finding {
	var out []Finding
	for _, f := range h.Last {
		if f.Prop == "" || f.Prop == prop {
			out = append(out, f)
		}
	}
	for _, p := range panics {
		cl := clPanic
		if strings.Contains(p, "close of closed channel") {
			cl = clOnce
		}
		out = append(out, Finding{Clause: cl, Site: panicSite(p), Class: "panic", Detail: p})
	}
	return out
}

func panicSite(p string) string {
	for _, ln := range strings.Split(p, "\n") {
		ln = strings.TrimSpace(ln)
		if strings.HasPrefix(ln, "github.com/wundergraph/graphql-go-tools/") {
			if i := strings.LastIndex(ln, "("); i > 0 {
				ln = ln[:i]
			}
			return strings.TrimPrefix(ln, "github.com/wundergraph/graphql-go-tools/")
		}
	}
	return "unknown"
}

// example is one schedule that shows a finding.
type example struct {
	f        Finding
	h        *Harness
	scn      *sched.Scenario
	sc       string
	choices  []int
	trace    []string
	cost     int
	bound    int
	mapOrder bool
}

// found collects the executions of one fingerprint: the first one (confirmed by
// five re-runs when it was seen) and the cheapest one seen later (confirmed
// before it is recorded instead of the first).
type found struct {
	first example
	best  example
	count int64
}

// realNow reads the real clock (time.Now is virtual inside a synctest bubble).
func realNow() int64 {
	var tv syscall.Timeval
	_ = syscall.Gettimeofday(&tv)
	return tv.Sec*1e9 + int64(tv.Usec)*1e3
}

func trimZeros(c []int) []int {
	n := len(c)
	for n > 0 && c[n-1] == 0 {
		n--
	}
	return append([]int{}, c[:n]...)
}

// Run is TestCheck of C12 and of C13.
func Run(t *testing.T, prop string) { RunWith(t, prop, nil) }

// RunWith is Run plus a sequential part of the check that runs first, inside the
// bubble with the scheduler inactive (every goroutine runs freely, synctest.Wait()
// is its quiescence detector). expired reports the real-clock deadline.
func RunWith(t *testing.T, prop string, extra func(run *vk.Run, expired func() bool)) {
	run := vk.Start(prop, "model_checking")
	defer run.Finish()
	run.Rule("every schedule with at most delay_bound delays (delay-bounded DFS, sched.DelayExplorer: reference = the deterministic scheduler 'running thread while enabled, else lowest logical thread id'; taking the i-th other enabled thread costs i delays, a clock tick 1; a writer fault is a data choice from a separate budget of 1) over all sync/atomic/close/cancel points of the instrumented resolve package, the harness points before every upstream call and inside writer calls, of each actor-program scenario on a fresh real Resolver; distinct = distinct (scenario, per-subscriber delivered sequence / terminal calls / completion, starts, registry sizes, reporter balances)")
	run.Assume("sequentially consistent interleavings of the instrumented synchronisation operations of package resolve; code between two points is atomic",
		"upstreams are harness actors: a program of SubscriptionUpdater calls with a schedule point before each call; like graphql_datasource they call Done from a context.AfterFunc when the trigger context ends and stop emitting then",
		"the attachment of a subscriber to an upstream start is read through an overlay accessor (identity of the trigger's updater); intervals are harness-recorded call/return times (appendix A.3)",
		"an un-cancelled Start context of a trigger that has no subscriber left (tear-down in progress) next to a new Start of the same key is counted, not judged",
		"writes to the writer of a synchronous subscription between its return with the resolver's context error at shutdown and the close of its completed channel are not judged",
		"hash collisions of trigger ids are not explored")
	thorough := run.Thorough()
	bound := vk.Pick(run, 2, 4)
	run.Bound("delay_bound", bound)
	if prop == "C12" {
		run.Bound("delay_bound_deep_scenario(S02b)", bound+1)
	}
	run.Bound("delay_bound_three_subscription_scenarios(S12,S21,S22,S23)", 3)
	run.Bound("deviation_bound(writer faults)", 1)
	run.Bound("subscribers", vk.Pick(run, 2, 3))
	// inside the bubble time.Now() is virtual: the deadline is checked on the real clock
	t0 := realNow()
	var deadline int64
	if d := os.Getenv("VERIF_DEADLINE_S"); d != "" {
		var n int64
		fmt.Sscan(d, &n)
		if n > 0 {
			deadline = realNow() + n*1e9
		}
	}
	expired := func() bool {
		if deadline != 0 && realNow() > deadline {
			run.Cap("internal deadline reached")
			return true
		}
		return false
	}
	debug.SetGCPercent(-1) // see Harness.Scenario: explicit collections at quiescent moments only
	synctest.Test(t, func(t *testing.T) {
		s := sched.New()
		install(s)
		if extra != nil {
			extra(run, expired)
			synctest.Wait()
		}
		scs := Scenarios(prop, thorough)
		run.Bound("scenarios", len(scs))
		best := map[string]*found{}
		unstable := map[string]bool{}
		// every shard starts at another scenario, so that a deadline thins all scenarios
		// out instead of dropping the last ones
		rot := 0
		if run.Replay == "" && run.NShards() > 1 {
			rot = run.Shard() * len(scs) / run.NShards()
		}
		for sj := range scs {
			si := (sj + rot) % len(scs)
			sc := &scs[si]
			if run.Replay == "" && expired() {
				run.Cap("scenario " + sc.Name + " not started: internal deadline")
				continue
			}
			h := NewHarness(sc, s)
			scn := h.Scenario()
			b := bound
			if thorough {
				b += sc.Deep[1]
			} else {
				b += sc.Deep[0]
			}
			if sc.MaxBound > 0 && b > sc.MaxBound {
				b = sc.MaxBound
			}
			if v := os.Getenv("VERIF_BOUND"); v != "" {
				fmt.Sscan(v, &b)
			}

			if run.Replay != "" {
				var in struct {
					Scenario string `json:"scenario"`
					Choices  []int  `json:"choices"`
					MapOrder bool   `json:"maporder"`
				}
				if err := run.ReplayInput(&in); err != nil {
					t.Fatal(err)
				}
				if in.Scenario != sc.Name {
					continue
				}
				mapOrderChoice = in.MapOrder
				for i := 0; i < 5; i++ {
					x, outc, fs := h.runOnce(scn, in.Choices, prop)
					fmt.Printf("replay %d: diverged=%q preemptions=%d outcome=%s\n", i, x.Diverged, x.Preemptions, outc)
					if i == 0 {
						fmt.Printf("  trace:\n    %s\n", strings.Join(x.Trace(), "\n    "))
					}
					for _, f := range fs {
						if i == 0 {
							fmt.Printf("  FAILED [%s] site=%q class=%q\n    %s\n", f.Clause, f.Site, f.Class, f.Detail)
						}
						run.Violate(vk.Violation{Clause: f.Clause, Site: f.Site, Class: f.Class, Detail: f.Detail})
					}
					if i > 0 {
						fmt.Printf("  %d failed clauses\n", len(fs))
					}
				}
				run.Eval(5)
				run.AddStates(1, 1, 5)
				continue
			}

			// proof obligation (a): the default schedule twice, identical observation
			x1, o1, _ := h.runOnce(scn, nil, prop)
			x2, o2, _ := h.runOnce(scn, nil, prop)
			if o1 != o2 || strings.Join(x1.Trace(), ">") != strings.Join(x2.Trace(), ">") {
				run.Cap("scenario " + sc.Name + ": the default schedule is not reproducible")
				run.Note("non-reproducible default schedule in %s:\n%s\n%s", sc.Name, o1, o2)
				run.Count("divergences", 1)
				continue
			}

			// pass 0: delay bound b, map ranges in ascending key order.
			// pass 1 (thorough, >=2 subscribers): delay bound b-1 with at most one map
			// range of the resolver taken in descending key order (a data choice).
			passes := 1
			if thorough && len(sc.sessions()) >= 2 && !sc.MapOrder {
				passes = 2
			}
			if v := os.Getenv("VERIF_PASSES"); v != "" {
				fmt.Sscan(v, &passes)
			}
			for pass := 0; pass < passes; pass++ {
				pb, tag := b, ""
				mapOrderChoice = sc.MapOrder
				if pass == 1 {
					pb, tag = b-1, " (map order)"
					if thorough && sc.Deep[1] > 0 {
						pb = b - 1 - sc.Deep[1] // the extra depth of a deep scenario is not repeated here
					}
					mapOrderChoice = true
				}
				ex := &sched.DelayExplorer{S: s, Bound: pb, DevBound: 1, Shard: run.Shard(), NShards: run.NShards(), Expired: expired}
				if v := os.Getenv("VERIF_MAXEXECS"); v != "" {
					fmt.Sscan(v, &ex.MaxExecs)
				}
				if only := os.Getenv("VERIF_ONLY"); only != "" && !strings.Contains(sc.Name, only) {
					continue
				}
				ex.OnDiverge = func(_ *sched.Scenario, x *sched.Exec, prefix []int) {
					run.Note("replay divergence in %s prefix %v: %s | trace so far: %s", sc.Name, prefix, x.Diverged, strings.Join(x.Trace(), " > "))
					if os.Getenv("VERIF_OUT") == "" {
						fmt.Printf("DIVERGENCE %s prefix %v: %s\n  trace so far: %s\n", sc.Name, prefix, x.Diverged, strings.Join(x.Trace(), " > "))
					}
				}
				ex.OnExec = func(_ *sched.Scenario, x *sched.Exec, outcome string, delays int) {
					if run.Outcome(sc.Name + " " + outcome) {
						run.Sample(sc.Name, map[string]any{"scenario": sc.Name, "outcome": outcome, "schedule": trimZeros(x.Choices), "points": len(x.Points)})
					}
					for k, n := range h.lastNotJudged {
						run.Count("not_judged: "+k, int64(n))
					}
					run.Count("heartbeat_between_source_Complete_and_Done(not judged)", int64(h.lastHBAfterTerminal))
					run.Count("start_next_to_uncancelled_start_of_a_trigger_in_teardown(not judged)", int64(h.lastOverlapTeardown))
					fs := h.forProp(prop, s.Panics)
					if len(fs) == 0 {
						return
					}
					choices := append([]int{}, x.Choices...)
					trace := x.Trace()
					cost := delays + x.Deviations
					for _, f := range fs {
						fp := f.Clause + "\x00" + f.Site + "\x00" + f.Class
						if unstable[fp+"\x00"+sc.Name] {
							continue
						}
						rec := best[fp]
						if rec == nil {
							// obligation (c): five re-runs from the schedule must all show it
							ok := true
							for i := 0; i < 5 && ok; i++ {
								rx, _, rfs := h.runOnce(scn, choices, prop)
								hit := false
								for _, g := range rfs {
									if g.Clause == f.Clause && g.Site == f.Site && g.Class == f.Class {
										hit = true
									}
								}
								if rx.Diverged != "" || !hit {
									ok = false
								}
							}
							if !ok {
								unstable[fp+"\x00"+sc.Name] = true
								run.Count("unstable_violation_not_recorded", 1)
								run.Cap("a violation in " + sc.Name + " did not reproduce from its schedule")
								run.Note("unstable: %s / %s in %s schedule %v", f.Clause, f.Site, sc.Name, trimZeros(choices))
								continue
							}
							e := example{f: f, h: h, scn: scn, sc: sc.Name, choices: choices, trace: trace, cost: cost, bound: pb, mapOrder: mapOrderChoice}
							rec = &found{first: e, best: e}
							best[fp] = rec
						} else if cost < rec.best.cost || (cost == rec.best.cost && len(trimZeros(choices)) < len(trimZeros(rec.best.choices))) {
							rec.best = example{f: f, h: h, scn: scn, sc: sc.Name, choices: choices, trace: trace, cost: cost, bound: pb, mapOrder: mapOrderChoice}
						}
						rec.count++
					}
				}
				ex.Explore(scn)
				st := ex.Stats
				run.Eval(st.Executions)
				run.AddStates(st.States, st.Transitions, st.Executions)
				run.Count("divergences", ex.Skipped)
				run.Count("diverged_attempts_retried_successfully", st.Divergences-3*ex.Skipped)
				run.Count("deadlocks", st.Deadlocks)
				run.Count("executions:"+sc.Name+tag, st.Executions)
				if st.Capped {
					run.Cap("scenario " + sc.Name + " stopped by the internal deadline")
				}
				if ex.Skipped > 0 {
					run.Cap(fmt.Sprintf("replay divergences in %s (%d subtrees skipped)", sc.Name, ex.Skipped))
				}
				run.Bound("max_points:"+sc.Name+tag, st.MaxPoints)
				run.Bound("bound:"+sc.Name+tag, pb)
				if os.Getenv("VERIF_OUT") == "" {
					fmt.Printf("scenario %-34s bound=%d execs=%d states=%d maxpoints=%d outcomes=%d div=%d deadlocks=%d capped=%v elapsed=%.1fs\n", sc.Name+tag, pb, st.Executions, st.States, st.MaxPoints, len(st.Outcomes), ex.Skipped, st.Deadlocks, st.Capped, float64(realNow()-t0)/1e9)
				}
			}
			mapOrderChoice = false
		}
		// record one violation per fingerprint: the cheapest schedule seen
		var fps []string
		for fp := range best {
			fps = append(fps, fp)
		}
		sort.Strings(fps)
		for _, fp := range fps {
			rec := best[fp]
			e := rec.best
			if run.Replay == "" && len(trimZeros(e.choices)) != len(trimZeros(rec.first.choices)) || e.sc != rec.first.sc {
				// the cheaper schedule must reproduce five times as well
				mapOrderChoice = e.mapOrder
				for i := 0; i < 5; i++ {
					rx, _, rfs := e.h.runOnce(e.scn, e.choices, prop)
					hit := false
					for _, g := range rfs {
						if g.Clause == e.f.Clause && g.Site == e.f.Site && g.Class == e.f.Class {
							hit = true
						}
					}
					if rx.Diverged != "" || !hit {
						e = rec.first
						break
					}
				}
				mapOrderChoice = false
			}
			v := vk.Violation{Clause: e.f.Clause, Site: e.f.Site, Class: e.f.Class,
				Detail: fmt.Sprintf("scenario %s (delays+deviations=%d): %s\nschedule: %v\ntrace: %s", e.sc, e.cost, e.f.Detail, trimZeros(e.choices), strings.Join(e.trace, " > ")),
				Input:  map[string]any{"scenario": e.sc, "choices": trimZeros(e.choices), "bound": e.bound, "maporder": e.mapOrder}}
			run.Violate(v)
			for i := int64(1); i < rec.count; i++ {
				run.Violate(v)
			}
		}
		// leave the bubble without waiting for goroutines a defect may have left behind
		if os.Getenv("VERIF_OUT") != "" {
			run.Finish()
			os.Exit(0)
		}
	})
}
