// Package subharness is the shared harness of checks C12 (subscription delivery)
// and C13 (trigger sharing / clean-up): scenarios, harness actors (subscribers,
// fake SubscriptionDataSource with scripted upstream programs, fake writers,
// reporter), and the oracles R4s (DESIGN.md appendix A.3) and the C13
// quiescence oracle. It only builds under the build overlay of those checks
// (package vsync and the accessor file overlay/resolve_export.go).
package subharness

import "fmt"

// Step is one call of an upstream program on the SubscriptionUpdater it got in Start.
type Step struct {
	Op  string // U Update, US UpdateSubscription, C Complete, E Error, D Done, X CloseSubscription
	Ev  int    // event number of U / US (event 2 has kind 2: the one the filter drops)
	Sub string // target session of US / X
}

func U(ev int) Step              { return Step{Op: "U", Ev: ev} }
func US(sub string, ev int) Step { return Step{Op: "US", Ev: ev, Sub: sub} }
func X(sub string) Step          { return Step{Op: "X", Sub: sub} }

var (
	// WHB: wait until a heartbeat write to a subscriber of the trigger is in flight or done
	WHB = Step{Op: "WHB"}
	C   = Step{Op: "C"}
	E   = Step{Op: "E"}
	D   = Step{Op: "D"}
)

func (s Step) label() string {
	switch s.Op {
	case "U":
		return fmt.Sprintf("Update(e%d)", s.Ev)
	case "US":
		return fmt.Sprintf("UpdateSubscription(%s,e%d)", s.Sub, s.Ev)
	case "X":
		return fmt.Sprintf("CloseSubscription(%s)", s.Sub)
	case "C":
		return "Complete"
	case "E":
		return "Error"
	case "D":
		return "Done"
	}
	return s.Op
}

// Session is one logical subscriber: one subscribe call with its own writer,
// followed by one action.
type Session struct {
	Name   string
	Input  string // upstream input identity: "a" | "b"
	Hdr    string // forwarded header identity: "h1" | "h2"
	Sync   bool   // ResolveGraphQLSubscription instead of AsyncResolveGraphQLSubscription
	Filter bool   // subscription filter that drops events of kind 2 (e2)
	// FilterVar != 0: the subscriber uses the filter object SHARED by all such subscribers,
	// IN(k; $fk), with its own variable fk = FilterVar (event e2 has kind 2, the others kind 1)
	FilterVar int
	HB        bool  // ExecutionOptions.SendHeartbeat
	Shape     int   // 0: selects {v}; 1: selects {v k}
	Conn      int64 // async: connection id
	SubID     int64 // async: subscription id
	// Action after subscribe returned (async) / concurrently (sync):
	//  "unsub"       UnsubscribeSubscription(id)                       (async)
	//  "cancel"      cancel the client context [then UnsubscribeSubscription(id) when async, as a transport does]
	//  "unsubClient" UnsubscribeClient(conn)                           (async)
	//  "none"
	Action string
	// After > 0: the action waits until that many data messages were flushed to the
	// subscriber's writer (a client that leaves after it got its answer), or until the
	// subscription was completed or its upstream's program is over.
	After int
	// AfterDone: the action waits until the source of the subscriber's trigger has begun
	// its Done call (a client that goes away while the upstream is finishing).
	AfterDone bool
	// AfterSub: the action waits until the named other subscription has been completed.
	AfterSub string
}

func (s Session) key() string { return s.Input + "|" + s.Hdr }

// Actor runs its sessions one after the other.
type Actor struct {
	Name     string
	Sessions []Session
}

// Scenario is one closed system.
type Scenario struct {
	Name   string
	Actors []Actor
	// Progs: upstream programs per (input|headers) key, indexed by the ordinal
	// of the Start call for that key (0 = first). Missing entries = empty program
	// (the upstream stays silent until its context is cancelled, then calls Done).
	Progs map[string][][]Step
	// StartFail: global ordinals (1 = first Start call of the execution) that return an error.
	StartFail map[int]bool
	// StartGate: Start parks at a schedule point before it returns (slow start-up).
	StartGate bool
	// SourceIgnoresCtx: the upstream keeps running its program when the trigger context
	// ends and registers no context callback (a source with its own life cycle, e.g. a
	// message-bus consumer); its Done is the D step of the program only.
	SourceIgnoresCtx bool
	// Hook: the data source implements HookableSubscriptionDataSource.
	Hook     bool
	HookEmit bool            // the hook sends one initial event to its subscriber through StartupHookContext.Updater
	HookFail map[string]bool // sessions whose start-up hook returns an error
	Shutdown bool            // a shutdown actor cancels the resolver context
	// ShutdownFirst: the shutdown actor is the first thread (subscribe calls arriving
	// after the resolver context ended are near the default schedule).
	ShutdownFirst bool
	Ticks         int // heartbeat ticks available to the clock pseudo thread
	// writer faults (environment data choice, one deviation each)
	FlushFault map[string]bool
	HBFault    map[string]bool

	C13Only  bool // explored by C13 only
	Thorough bool // explored in the thorough tier only
	// MapOrder: explored (both tiers) with at most one resolver map range taken in
	// descending key order.
	MapOrder bool
	// Deep: extra delays on top of the tier's bound {quick, thorough} (the scenarios that
	// put a client action right next to the racing upstream call).
	Deep [2]int
	// MaxBound caps the delay bound of this scenario (0 = no cap).
	MaxBound int
}

func (sc *Scenario) sessions() []Session {
	var out []Session
	for _, a := range sc.Actors {
		out = append(out, a.Sessions...)
	}
	return out
}

func (sc *Scenario) prog(key string, ord int) []Step {
	p := sc.Progs[key]
	if ord < len(p) {
		return p[ord]
	}
	return nil
}

func async(name, input, hdr string, conn int64, action string) Session {
	return Session{Name: name, Input: input, Hdr: hdr, Conn: conn, SubID: 1, Action: action}
}

func syncS(name, input, hdr string, action string) Session {
	return Session{Name: name, Input: input, Hdr: hdr, Sync: true, Action: action}
}

func one(name string, s Session) Actor { return Actor{Name: name, Sessions: []Session{s}} }

// Scenarios lists the actor-program combinations. Every racing pair named in
// the properties occurs in at least one of them (see the comment per line).
func Scenarios(prop string, thorough bool) []Scenario {
	k := "a|h1"
	with := func(s Session, f func(*Session)) Session { f(&s); return s }
	all := []Scenario{
		// two subscribers share a trigger, both leave: last unsubscribe vs trigger start-up (H2), re-creation of the trigger id while the old one winds down (H3)
		{Name: "S01-share-unsub-unsub", Actors: []Actor{one("A", async("A", "a", "h1", 1, "unsub")), one("B", async("B", "a", "h1", 2, "unsub"))},
			Progs: map[string][][]Step{k: {{U(1)}, {U(1)}}}},
		// source Complete vs client unsubscribe (H4)
		{Name: "S02-complete-vs-unsub", Actors: []Actor{one("A", async("A", "a", "h1", 1, "unsub")), one("B", async("B", "a", "h1", 2, "none"))},
			Progs: map[string][][]Step{k: {{U(1), C, D}, {U(1), C, D}}}},
		// the same, the client leaves after its first message (puts the unsubscribe next to the source's Complete)
		{Name: "S02b-complete-vs-unsub-after-message", Deep: [2]int{1, 1}, Actors: []Actor{one("A", with(async("A", "a", "h1", 1, "unsub"), func(s *Session) { s.After = 1 })), one("B", async("B", "a", "h1", 2, "none"))},
			Progs: map[string][][]Step{k: {{U(1), C, D}, {U(1), C, D}}}},
		// source Error vs client unsubscribe
		{Name: "S03-error-vs-unsub", Actors: []Actor{one("A", async("A", "a", "h1", 1, "unsub")), one("B", async("B", "a", "h1", 2, "none"))},
			Progs: map[string][][]Step{k: {{E, D}, {E, D}}}},
		// update in flight vs removal; the other subscriber keeps the trigger alive
		{Name: "S04-update-vs-unsub", Actors: []Actor{one("A", async("A", "a", "h1", 1, "unsub")), one("B", with(async("B", "a", "h1", 2, "none"), func(s *Session) { s.Shape = 1 }))},
			Progs: map[string][][]Step{k: {{U(1), U(2)}, {U(1)}}}},
		// the same, the client leaves after its first message (second update in flight vs removal)
		{Name: "S04b-update-vs-unsub-after-message", Actors: []Actor{one("A", with(async("A", "a", "h1", 1, "unsub"), func(s *Session) { s.After = 1 })), one("B", with(async("B", "a", "h1", 2, "none"), func(s *Session) { s.Shape = 1 }))},
			Progs: map[string][][]Step{k: {{U(1), U(2)}, {U(1)}}}},
		// filter: A drops e2, B does not
		{Name: "S05-filter", Actors: []Actor{one("A", with(async("A", "a", "h1", 1, "none"), func(s *Session) { s.Filter = true; s.Shape = 1 })), one("B", async("B", "a", "h1", 2, "none"))},
			Progs: map[string][][]Step{k: {{U(1), U(2), U(3), D}, {U(1), D}}}},
		// join during fan-out
		{Name: "S06-join-during-fanout", Actors: []Actor{one("A", async("A", "a", "h1", 1, "none")), one("B", async("B", "a", "h1", 2, "none"))},
			Progs: map[string][][]Step{k: {{U(1), U(2), D}, {U(1), D}}}},
		// targeted update and source-side close of one subscription
		{Name: "S07-update-one-close-one", Actors: []Actor{one("A", async("A", "a", "h1", 1, "none")), one("B", async("B", "a", "h1", 2, "none"))},
			Progs: map[string][][]Step{k: {{US("A", 1), X("A"), U(3), D}, {U(1), D}}}},
		// same input, different forwarded headers: never shared
		{Name: "S08-different-headers", Actors: []Actor{one("A", async("A", "a", "h1", 1, "unsub")), one("B", async("B", "a", "h2", 2, "unsub"))},
			Progs: map[string][][]Step{"a|h1": {{U(1)}}, "a|h2": {{U(1)}}}},
		// different input, same headers: never shared
		{Name: "S09-different-input", Actors: []Actor{one("A", async("A", "a", "h1", 1, "unsub")), one("B", async("B", "b", "h1", 2, "none"))},
			Progs: map[string][][]Step{"a|h1": {{U(1)}}, "b|h1": {{U(1), C, D}}}},
		// synchronous subscriber whose client goes away while an update is in flight
		{Name: "S10-sync-cancel", Actors: []Actor{one("A", syncS("A", "a", "h1", "cancel")), one("B", async("B", "a", "h1", 2, "unsub"))},
			Progs: map[string][][]Step{k: {{U(1), U(2)}, {U(1)}}}},
		{Name: "S10b-sync-cancel-after-message", Actors: []Actor{one("A", with(syncS("A", "a", "h1", "cancel"), func(s *Session) { s.After = 1 })), one("B", async("B", "a", "h1", 2, "none"))},
			Progs: map[string][][]Step{k: {{U(1), U(2), D}, {U(1), D}}}},
		// synchronous subscribers completed by the source
		{Name: "S11-sync-complete", Actors: []Actor{one("A", syncS("A", "a", "h1", "none")), one("B", with(syncS("B", "a", "h1", "none"), func(s *Session) { s.Shape = 1 }))},
			Progs: map[string][][]Step{k: {{U(1), C, D}, {U(1), C, D}}}},
		// client removal: one connection with two subscriptions (one shared with B), then UnsubscribeClient
		{Name: "S12-unsubscribe-client", MaxBound: 3, Actors: []Actor{
			{Name: "A", Sessions: []Session{{Name: "A1", Input: "a", Hdr: "h1", Conn: 1, SubID: 1, Action: "none"}, {Name: "A2", Input: "b", Hdr: "h1", Conn: 1, SubID: 2, Action: "unsubClient"}}},
			one("B", async("B", "a", "h1", 2, "unsub"))},
			Progs: map[string][][]Step{"a|h1": {{U(1)}, {U(1)}}, "b|h1": {{U(1)}}}},
		// heartbeat vs flush vs unsubscribe
		{Name: "S13-heartbeat-vs-flush", Actors: []Actor{one("A", with(async("A", "a", "h1", 1, "unsub"), func(s *Session) { s.HB = true }))},
			Progs: map[string][][]Step{k: {{U(1), U(2)}}}, Ticks: 1},
		{Name: "S13b-heartbeat-vs-flush-after-message", Actors: []Actor{one("A", with(async("A", "a", "h1", 1, "unsub"), func(s *Session) { s.HB = true; s.After = 1 }))},
			Progs: map[string][][]Step{k: {{U(1), U(2)}}}, Ticks: 1},
		// heartbeat vs source completion
		{Name: "S14-heartbeat-vs-complete", Actors: []Actor{one("A", with(async("A", "a", "h1", 1, "none"), func(s *Session) { s.HB = true }))},
			Progs: map[string][][]Step{k: {{U(1), C, D}}}, Ticks: 1},
		// Flush fails for one subscriber in the middle of a fan-out
		{Name: "S15-flush-fault", Actors: []Actor{one("A", async("A", "a", "h1", 1, "none")), one("B", async("B", "a", "h1", 2, "none"))},
			Progs: map[string][][]Step{k: {{U(1), U(2), D}, {D}}}, FlushFault: map[string]bool{"A": true}},
		// Heartbeat fails
		{Name: "S16-heartbeat-fault", Actors: []Actor{one("A", with(async("A", "a", "h1", 1, "none"), func(s *Session) { s.HB = true }))},
			Progs: map[string][][]Step{k: {{U(1), D}, {D}}}, Ticks: 1, HBFault: map[string]bool{"A": true}},
		// resolver shutdown vs update in flight (async and sync subscriber)
		{Name: "S17-shutdown-vs-update", Actors: []Actor{one("A", async("A", "a", "h1", 1, "none")), one("B", syncS("B", "a", "h1", "none"))},
			Progs: map[string][][]Step{k: {{U(1), U(2)}, {U(1)}}}, Shutdown: true},
		// re-subscribe to the same input right after the last unsubscribe; the second subscription stays
		{Name: "S18-resubscribe", Actors: []Actor{{Name: "A", Sessions: []Session{{Name: "A1", Input: "a", Hdr: "h1", Conn: 1, SubID: 1, Action: "unsub"}, {Name: "A2", Input: "a", Hdr: "h1", Conn: 1, SubID: 2, Action: "none"}}}},
			Progs: map[string][][]Step{k: {{U(1)}, {U(1), U(2)}}}},
		// client context cancelled (async transport then unsubscribes) vs update, source finishes afterwards
		{Name: "S19-async-cancel", Actors: []Actor{one("A", async("A", "a", "h1", 1, "cancel")), one("B", async("B", "a", "h1", 2, "none"))},
			Progs: map[string][][]Step{k: {{U(1), U(2), D}, {U(1), D}}}},
		// re-subscribe by another client while the first one leaves, second stays and is closed by the source
		// the CREATOR of a shared trigger leaves by cancellation of its own request context while another subscriber stays and events follow
		{Name: "S24-creator-request-context-cancelled", Actors: []Actor{one("A", with(async("A", "a", "h1", 1, "cancel"), func(s *Session) { s.After = 1 })), one("B", with(async("B", "a", "h1", 2, "none"), func(s *Session) { s.Shape = 1 }))},
			Progs: map[string][][]Step{k: {{U(1), U(2), U(3), D}, {U(1), D}}}, SourceIgnoresCtx: true},
		{Name: "S25-sync-creator-disconnects", Actors: []Actor{one("A", with(syncS("A", "a", "h1", "cancel"), func(s *Session) { s.After = 1 })), one("B", async("B", "a", "h1", 2, "none"))},
			Progs: map[string][][]Step{k: {{U(1), U(2), U(3), D}, {U(1), D}}}, SourceIgnoresCtx: true},
		// identical subscribers whose forwarded headers have three names: the trigger identity must not depend on a map order
		{Name: "S26-same-headers-three-names", MapOrder: true, Actors: []Actor{one("A", async("A", "a", "h1+", 1, "none")), one("B", async("B", "a", "h1+", 2, "none"))},
			Progs: map[string][][]Step{"a|h1+": {{U(1), D}, {U(1), D}}}},
		// synchronous subscriber with heartbeats: a heartbeat write in flight, the source finishes, the client goes away last
		{Name: "S27-sync-heartbeat-done-disconnect", Actors: []Actor{one("A", with(syncS("A", "a", "h1", "cancel"), func(s *Session) { s.HB = true; s.AfterDone = true }))},
			Progs: map[string][][]Step{k: {{U(1), WHB, D}}}, Ticks: 1},
		// two subscriptions on ONE connection, the heartbeat of one of them fails, events follow
		{Name: "S28-heartbeat-fault-sibling-subscription", MaxBound: 3, Actors: []Actor{{Name: "A", Sessions: []Session{{Name: "A1", Input: "a", Hdr: "h1", Conn: 1, SubID: 1, Action: "none", HB: true}, {Name: "A2", Input: "a", Hdr: "h1", Conn: 1, SubID: 2, Action: "none", Shape: 1}}}},
			Progs: map[string][][]Step{k: {{U(1), U(2), D}, {U(1), D}}}, Ticks: 1, HBFault: map[string]bool{"A1": true}},
		// two subscribers share ONE filter object with different variables: every event passes exactly one of them
		{Name: "S29-shared-filter-different-variables", Actors: []Actor{one("A", with(async("A", "a", "h1", 1, "none"), func(s *Session) { s.FilterVar = 1 })), one("B", with(async("B", "a", "h1", 2, "none"), func(s *Session) { s.FilterVar = 2; s.Shape = 1 }))},
			Progs: map[string][][]Step{k: {{U(1), U(2), U(3), D}, {U(1), U(2), D}}}},
		// the start-up hook of a joining subscriber fails late: the subscriber may have unsubscribed meanwhile (error written through the AsyncErrorWriter)
		{Name: "S30-joiner-hook-fails-after-unsubscribe", Actors: []Actor{one("A", async("A", "a", "h1", 1, "none")), one("B", async("B", "a", "h1", 2, "unsub"))},
			Progs: map[string][][]Step{k: {{U(1), D}, {U(1), D}}}, Hook: true, HookFail: map[string]bool{"B": true}},
		// two client connections on ONE trigger, one client disconnects (UnsubscribeClient) while the other stays
		{Name: "S31-two-connections-one-disconnects", Actors: []Actor{one("A", with(async("A", "a", "h1", 1, "unsubClient"), func(s *Session) { s.After = 1 })), one("B", with(async("B", "a", "h1", 2, "none"), func(s *Session) { s.Shape = 1 }))},
			Progs: map[string][][]Step{k: {{U(1), U(2), D}, {U(1), D}}}},
		// ONE connection with subscriptions on TWO triggers, one upstream ends from the source side, then the client disconnects
		{Name: "S32-one-connection-two-triggers-source-ends-one", Actors: []Actor{{Name: "A", Sessions: []Session{{Name: "A1", Input: "a", Hdr: "h1", Conn: 1, SubID: 1, Action: "none"}, {Name: "A2", Input: "b", Hdr: "h1", Conn: 1, SubID: 2, Action: "unsubClient", AfterSub: "A1"}}}},
			Progs: map[string][][]Step{"a|h1": {{U(1), C, D}}, "b|h1": {{U(1), U(2)}}}},
		{Name: "S20-leave-and-join", Actors: []Actor{one("A", async("A", "a", "h1", 1, "unsub")), one("B", async("B", "a", "h1", 2, "none"))},
			Progs: map[string][][]Step{k: {{U(1), U(2)}, {U(1), U(2)}}}},

		// ---- C13 extras
		// Start fails for the first trigger
		{Name: "T01-start-fails", C13Only: true, Actors: []Actor{one("A", async("A", "a", "h1", 1, "unsub")), one("B", async("B", "a", "h1", 2, "none"))},
			Progs: map[string][][]Step{k: {{}, {U(1), D}}}, StartFail: map[int]bool{1: true}},
		// start-up hook of the subscriber that creates the trigger fails
		{Name: "T02-hook-fails-creator-or-joiner", C13Only: true, Actors: []Actor{one("A", async("A", "a", "h1", 1, "none")), one("B", async("B", "a", "h1", 2, "unsub"))},
			Progs: map[string][][]Step{k: {{U(1), D}, {U(1), D}}}, Hook: true, HookFail: map[string]bool{"A": true}},
		// hooks deliver initial data, nobody fails
		{Name: "T03-hook-initial-data", C13Only: true, Actors: []Actor{one("A", async("A", "a", "h1", 1, "unsub")), one("B", async("B", "a", "h1", 2, "none"))},
			Progs: map[string][][]Step{k: {{U(1), D}, {U(1), D}}}, Hook: true, HookEmit: true},
		// Start blocks until released while subscribers come and go
		{Name: "T04-blocked-start", C13Only: true, Actors: []Actor{one("A", async("A", "a", "h1", 1, "unsub")), one("B", async("B", "a", "h1", 2, "unsub"))},
			Progs: map[string][][]Step{k: {{U(1)}, {U(1)}}}, StartGate: true},
		// shutdown racing with start-up
		{Name: "T05-shutdown-vs-startup", C13Only: true, Actors: []Actor{one("A", async("A", "a", "h1", 1, "none")), one("B", async("B", "a", "h2", 2, "unsub"))},
			Progs: map[string][][]Step{"a|h1": {{U(1)}}, "a|h2": {{U(1)}}}, Shutdown: true, StartGate: true},
		// shutdown racing with a start that fails
		{Name: "T06-shutdown-vs-start-failure", C13Only: true, Actors: []Actor{one("A", async("A", "a", "h1", 1, "none")), one("B", syncS("B", "a", "h1", "none"))},
			Progs: map[string][][]Step{k: {{}, {}}}, StartFail: map[int]bool{1: true, 2: true}, Shutdown: true},

		// subscribe calls arriving around / after shutdown
		{Name: "T07-subscribe-after-shutdown", C13Only: true, Actors: []Actor{one("A", async("A", "a", "h1", 1, "none")), one("B", async("B", "a", "h1", 2, "unsub"))},
			Progs: map[string][][]Step{k: {{U(1)}, {U(1)}}}, Shutdown: true, ShutdownFirst: true},

		// ---- thorough: three subscribers
		{Name: "S21-three-share", Thorough: true, MaxBound: 3, Actors: []Actor{one("A", async("A", "a", "h1", 1, "unsub")), one("B", async("B", "a", "h1", 2, "unsub")), one("C", with(async("C", "a", "h1", 3, "none"), func(s *Session) { s.Shape = 1 }))},
			Progs: map[string][][]Step{k: {{U(1), C, D}, {U(1), C, D}}}},
		{Name: "S22-three-keys", Thorough: true, MaxBound: 3, Actors: []Actor{one("A", async("A", "a", "h1", 1, "unsub")), one("B", async("B", "a", "h2", 2, "unsub")), one("C", async("C", "b", "h1", 3, "unsub"))},
			Progs: map[string][][]Step{"a|h1": {{U(1)}}, "a|h2": {{U(1)}}, "b|h1": {{U(1)}}}},
		{Name: "S23-three-mixed", Thorough: true, MaxBound: 3, Actors: []Actor{one("A", syncS("A", "a", "h1", "cancel")), one("B", with(async("B", "a", "h1", 2, "unsub"), func(s *Session) { s.Filter = true })), one("C", async("C", "a", "h1", 3, "none"))},
			Progs: map[string][][]Step{k: {{U(1), U(2), D}, {U(1), D}}}},
	}
	var out []Scenario
	for _, sc := range all {
		if sc.C13Only && prop != "C13" {
			continue
		}
		if sc.Thorough && !thorough {
			continue
		}
		if prop != "C12" {
			sc.Deep = [2]int{} // the deeper bound of S02b serves the C12 clause "nothing written after removal"
		}
		out = append(out, sc)
	}
	return out
}
