package subharness

import (
	"bytes"
	"context"
	"errors"
	"fmt"
	"io"
	"net/http"
	"runtime"
	"strconv"
	"strings"
	"sync"
	"time"

	"github.com/cespare/xxhash/v2"
	"github.com/wundergraph/astjson"

	"github.com/wundergraph/graphql-go-tools/v2/pkg/engine/resolve"

	"verif/internal/sched"
	"verif/internal/vk"
)

const hbInterval = time.Second

func goid() int64 {
	var buf [64]byte
	n := runtime.Stack(buf[:], false)
	b := buf[len("goroutine "):n]
	i := bytes.IndexByte(b, ' ')
	id, _ := strconv.ParseInt(string(b[:i]), 10, 64)
	return id
}

type ctxKey struct{}

// ---- records kept by the harness (logical time = a counter that advances at every harness-visible event)

type wcall struct {
	kind    string // Write Flush Complete Error Heartbeat
	at      int
	ret     int
	payload string
	failed  bool
	// evaluated when the call ENTERED the writer
	overlap       string // kind of the call that was still inside the writer
	afterAPI      string // a removing call visible to the caller had already returned
	afterClosed   bool   // the completed channel was already closed
	afterTerminal string // Complete / Error had already been written
	// evaluated when the call LEFT the writer
	exitAfterAPI    string    // a removing call returned while this call was inside the writer
	exitAfterClosed bool      // the completed channel was closed while this call was inside the writer
	byStart         *startRec // Complete / Error: the upstream whose updater call wrote it
}

type cause struct {
	kind string
	call int
	ret  int
}

type subState struct {
	spec  Session
	actor string
	ctx   context.Context
	stop  context.CancelFunc
	w     *writer
	id    resolve.SubscriptionIdentifier

	called     bool
	regCall    int
	regRet     int // async: return of the subscribe call; sync: first moment the harness saw it registered
	subErr     string
	subscribed bool // registered (async: subscribe returned nil; sync: seen in the registry or returned)

	observed  bool
	completed <-chan struct{}
	updater   resolve.SubscriptionUpdater
	trig      *trigRec

	causes     []cause
	ambiguous  bool
	apiRet     int // earliest return of a call after which the caller knows the subscription is gone
	apiKind    string
	hookFail   bool
	hookFailAt int

	returned bool // sync: ResolveGraphQLSubscription returned
	retErr   string
	retAt    int
}

func (s *subState) addCause(kind string, call, ret int) {
	s.causes = append(s.causes, cause{kind, call, ret})
}

func (s *subState) setAPIRet(kind string, at int) {
	if s.apiRet == 0 || at < s.apiRet {
		s.apiRet, s.apiKind = at, kind
	}
}

type opRec struct {
	op     string
	target string
	call   int
	ret    int
}

type startRec struct {
	n        int
	key      string
	ctx      context.Context
	up       resolve.SubscriptionUpdater
	trig     *trigRec
	callAt   int
	retAt    int
	err      string
	ops      []opRec
	progDone bool  // the upstream program has run to its end (or was cut short): no further event
	overlaps []int // earlier starts of the same key whose context was not cancelled when this one was called
	busyOver []int // ... and whose trigger still had registered subscribers
}

type trigRec struct {
	counted   int // TriggerCountInc reported for it (by its start-up goroutine)
	idx       int
	key       string
	up        resolve.SubscriptionUpdater
	starts    []*startRec
	firstSeen int
}

type eventRec struct {
	start   *startRec // nil: initial event of a start-up hook
	hookOf  string
	ev      int
	target  string // "" = all subscribers of the trigger
	payload string
	call    int
	ret     int
}

type reporter struct {
	in                           *inst
	subInc, subDec, trInc, trDec int
	subNeg, trNeg                bool
	lateInc                      bool
	earlyDec                     string
	updates                      int
}

func (r *reporter) SubscriptionUpdateSent() { r.in.mu.Lock(); r.updates++; r.in.mu.Unlock() }
func (r *reporter) SubscriptionCountInc(c int) {
	r.in.mu.Lock()
	r.subInc += c
	r.in.mu.Unlock()
}
func (r *reporter) SubscriptionCountDec(c int) {
	r.in.mu.Lock()
	r.subDec += c
	if r.subDec > r.subInc {
		r.subNeg = true
	}
	r.in.mu.Unlock()
}
func (r *reporter) TriggerCountInc(c int) {
	g := goid()
	r.in.mu.Lock()
	r.trInc += c
	// markTriggerInitialized runs on the start-up goroutine that called Start: is the
	// trigger it reports still the registered one?
	if r.in.r != nil {
		reg := r.in.r.VerifRegistry()
		if st := r.in.startG[g]; st != nil {
			found := false
			for _, u := range reg.Updaters {
				if u == st.up {
					found = true
				}
			}
			if !found {
				r.lateInc = true
			}
			st.trig.counted += c
		} else if r.trInc-r.trDec > reg.Triggers {
			r.lateInc = true
		}
	}
	r.in.mu.Unlock()
}

func (r *reporter) TriggerCountDec(c int) {
	r.in.mu.Lock()
	r.trDec += c
	if r.trDec > r.trInc {
		r.trNeg = true
	}
	// the running count: every removal deletes the trigger BEFORE it reports the Dec
	// (both under Resolver.mu), so after a Dec the count still covers every trigger that
	// was reported initialised and is still registered
	if r.in.r != nil && c > 0 {
		reg := r.in.r.VerifRegistry()
		live := 0
		for _, t := range r.in.trigs {
			if t.counted <= 0 {
				continue
			}
			for _, u := range reg.Updaters {
				if u == t.up {
					live++
				}
			}
		}
		if r.trInc-r.trDec < live && r.earlyDec == "" {
			r.earlyDec = fmt.Sprintf("after TriggerCountDec(%d) the running count is %d (Inc %d, Dec %d) although %d trigger(s) reported as initialised are still registered", c, r.trInc-r.trDec, r.trInc, r.trDec, live)
		}
	}
	r.in.mu.Unlock()
}

type hdrBuilder struct{ h string }

// A header identity ending in "+" forwards three header names instead of one (the
// resolver then has a map with several keys in its hands).
func (b hdrBuilder) HeadersForSubgraph(string) (http.Header, uint64) {
	h := http.Header{"X-H": []string{b.h}}
	if strings.HasSuffix(b.h, "+") {
		h["X-A"] = []string{"1"}
		h["X-B"] = []string{"2"}
	}
	return h, vk.Hash("hdr:" + b.h)
}
func (b hdrBuilder) HashAll() uint64 { return vk.Hash("hdr:" + b.h) }

// errWriter is the AsyncErrorWriter: an error becomes one flushed message "ERR:...".
type errWriter struct{}

func (errWriter) WriteError(ctx *resolve.Context, err error, res *resolve.GraphQLResponse, w io.Writer) {
	_, _ = w.Write([]byte("ERR:" + err.Error()))
	if f, ok := w.(interface{ Flush() error }); ok {
		_ = f.Flush()
	}
}

// ---- one instance = one execution

type inst struct {
	sc   *Scenario
	s    *sched.Sched // nil: unscheduled (solo reference runs)
	mu   sync.Mutex   // real mutex, never held across a schedule point
	now  int
	r    *resolve.Resolver
	root context.CancelFunc
	rep  *reporter
	ds   resolve.SubscriptionDataSource

	subs    []*subState
	byName  map[string]*subState
	starts  []*startRec
	trigs   []*trigRec
	events  []*eventRec
	early   []Finding // violations detected while running (sharing)
	overlap bool      // a trigger id was re-created while the previous trigger of the same key was still winding down

	shutdownAt   int
	shutdownRet  int
	aborted      bool
	keyStarts    map[string]int
	caller       map[int64]*startRec // goroutine -> upstream whose Complete/Error call is running on it
	startG       map[int64]*startRec // start-up goroutine -> the Start call it made
	t0           time.Time           // (virtual) time at which the instance was built
	sharedFilter *resolve.SubscriptionFilter
}

func (in *inst) tickL() int { in.now++; return in.now }
func (in *inst) tick() int {
	in.mu.Lock()
	defer in.mu.Unlock()
	return in.tickL()
}

func (in *inst) point(label string) {
	if in.s != nil {
		in.s.Point(label)
	}
}

func isClosed(c <-chan struct{}) bool {
	select {
	case <-c:
		return true
	default:
		return false
	}
}

func inputBytes(input string) []byte { return []byte(`{"in":"` + input + `"}`) }

func inputName(b []byte) string {
	s := string(b)
	s = strings.TrimPrefix(s, `{"in":"`)
	if i := strings.IndexByte(s, '"'); i >= 0 {
		return s[:i]
	}
	return "?" + s
}

func evPayload(start, ev int) string {
	kind := 1
	if ev == 2 {
		kind = 2
	}
	return fmt.Sprintf(`{"data":{"v":"s%d.e%d","k":%d}}`, start, ev, kind)
}

func hookPayload(name string) string {
	return fmt.Sprintf(`{"data":{"v":"hook.%s","k":1}}`, name)
}

func planFor(s Session, ds resolve.SubscriptionDataSource, shared *resolve.SubscriptionFilter) *resolve.GraphQLSubscription {
	fields := []*resolve.Field{{Name: []byte("v"), Value: &resolve.String{Path: []string{"v"}}}}
	if s.Shape == 1 {
		fields = append(fields, &resolve.Field{Name: []byte("k"), Value: &resolve.Integer{Path: []string{"k"}}})
	}
	p := &resolve.GraphQLSubscription{
		Trigger: resolve.GraphQLSubscriptionTrigger{
			Source:         ds,
			SourceName:     "sg",
			InputTemplate:  resolve.InputTemplate{Segments: []resolve.TemplateSegment{{SegmentType: resolve.StaticSegmentType, Data: inputBytes(s.Input)}}},
			PostProcessing: resolve.PostProcessingConfiguration{SelectResponseDataPath: []string{"data"}, SelectResponseErrorsPath: []string{"errors"}},
		},
		Response: &resolve.GraphQLResponse{
			Data:    &resolve.Object{Fields: fields},
			Fetches: resolve.Sequence(),
			Info:    &resolve.GraphQLResponseInfo{},
		},
	}
	if s.Filter {
		p.Filter = &resolve.SubscriptionFilter{In: &resolve.SubscriptionFieldFilter{
			FieldPath: []string{"data", "k"},
			Values:    []resolve.InputTemplate{{Segments: []resolve.TemplateSegment{{SegmentType: resolve.StaticSegmentType, Data: []byte("1")}}}},
		}}
	}
	if s.FilterVar != 0 {
		// ONE filter object for every subscriber (plans come from a cache); the verdict
		// depends on the subscriber's own variable fk
		p.Filter = shared
	}
	return p
}

// sharedVarFilter: IN(data.k; $fk) with a plain variable template.
func sharedVarFilter() *resolve.SubscriptionFilter {
	return &resolve.SubscriptionFilter{In: &resolve.SubscriptionFieldFilter{
		FieldPath: []string{"data", "k"},
		Values: []resolve.InputTemplate{{Segments: []resolve.TemplateSegment{{SegmentType: resolve.VariableSegmentType, VariableKind: resolve.ContextVariableKind,
			VariableSourcePath: []string{"fk"}, Renderer: resolve.NewPlainVariableRenderer()}}}},
	}}
}

func evKind(ev int) int {
	if ev == 2 {
		return 2
	}
	return 1
}

func filtered(s Session, ev int) bool {
	return (s.Filter && ev == 2) || (s.FilterVar != 0 && evKind(ev) != s.FilterVar)
}

// ---- fake data source

type fakeDS struct{ in *inst }

func (d *fakeDS) HashTriggerInput(input []byte, xxh *xxhash.Digest) error {
	_, err := xxh.Write(input)
	return err
}

func (d *fakeDS) Start(ctx *resolve.Context, h http.Header, input []byte, up resolve.SubscriptionUpdater) error {
	return d.in.onStart(ctx, h, input, up)
}

type hookDS struct{ fakeDS }

func (d *hookDS) SubscriptionOnStart(hc resolve.StartupHookContext, input []byte) error {
	return d.in.onHook(hc, input)
}

// trigForL finds or creates the record of the trigger identified by its updater.
func (in *inst) trigForL(up resolve.SubscriptionUpdater, key string) *trigRec {
	for _, t := range in.trigs {
		if t.up == up {
			return t
		}
	}
	t := &trigRec{idx: len(in.trigs) + 1, key: key, up: up, firstSeen: in.now}
	// id reuse: is an earlier trigger of the same key still winding down?
	for _, o := range in.trigs {
		if o.key != key {
			continue
		}
		if !in.quietL(o) {
			in.overlap = true
		}
	}
	in.trigs = append(in.trigs, t)
	return t
}

// quietL: nothing will act on behalf of trigger o any more (its start-up goroutine
// is through Start and the upstream has called Done or never came up).
func (in *inst) quietL(o *trigRec) bool {
	if len(o.starts) == 0 {
		// created but Start not called yet (or the creator's hook failed: then its goroutine
		// still runs doneTriggerFromUpdater) - cannot tell, treat as not quiet
		return false
	}
	for _, st := range o.starts {
		if st.retAt == 0 {
			return false
		}
		if st.err != "" {
			// the start-up goroutine of a failed Start still runs doneTriggerFromUpdater(id)
			// afterwards; the harness cannot see when that is over
			return false
		}
		done := false
		for _, op := range st.ops {
			if (op.op == "D" || op.op == "Dctx") && op.ret != 0 {
				done = true
			}
		}
		if !done {
			return false
		}
	}
	return true
}

// observeL reads the registry (accessor) and attaches every registered
// subscription to the trigger record it belongs to.
func (in *inst) observeL() {
	regs := in.r.VerifSubscriptions()
	type seen struct {
		s  *subState
		up resolve.SubscriptionUpdater
	}
	var cur []seen
	for _, v := range regs {
		w, ok := v.Writer.(*writer)
		if !ok || w.in != in {
			continue
		}
		s := w.sub
		cur = append(cur, seen{s, v.Updater})
		if s.observed {
			if s.updater != v.Updater {
				in.early = append(in.early, Finding{Prop: "C13", Clause: clShare, Site: "subscription moved to another trigger", Class: in.class(),
					Detail: fmt.Sprintf("%s was attached to trigger #%d and is now found in another trigger", s.spec.Name, s.trig.idx)})
			}
			continue
		}
		s.observed = true
		s.completed = v.Completed
		s.updater = v.Updater
		s.trig = in.trigForL(v.Updater, s.spec.key())
		if s.spec.Sync {
			s.subscribed = true
			s.regRet = in.now
			s.id = v.ID
		}
		if s.trig.key != s.spec.key() {
			in.early = append(in.early, Finding{Prop: "C13", Clause: clDiffer, Site: differSite(s.trig.key, s.spec.key()), Class: "plain",
				Detail: fmt.Sprintf("%s subscribed with (input|headers)=%s but is attached to trigger #%d of %s", s.spec.Name, s.spec.key(), s.trig.idx, s.trig.key)})
		}
	}
	// two registered subscriptions with the same key must be on the same trigger
	for i := 0; i < len(cur); i++ {
		for j := i + 1; j < len(cur); j++ {
			if cur[i].s.spec.key() == cur[j].s.spec.key() && cur[i].up != cur[j].up {
				in.early = append(in.early, Finding{Prop: "C13", Clause: clShare, Site: "two registered subscriptions of one key on different triggers", Class: in.class(),
					Detail: fmt.Sprintf("%s and %s are registered at the same time with the same (input|headers)=%s but on different triggers", cur[i].s.spec.Name, cur[j].s.spec.Name, cur[i].s.spec.key())})
			}
		}
	}
}

func differSite(a, b string) string {
	pa, pb := strings.SplitN(a, "|", 2), strings.SplitN(b, "|", 2)
	if len(pa) == 2 && len(pb) == 2 {
		switch {
		case pa[0] != pb[0] && pa[1] != pb[1]:
			return "input and headers differ"
		case pa[0] != pb[0]:
			return "input differs"
		default:
			return "headers differ"
		}
	}
	return "key differs"
}

func (in *inst) class() string {
	if in.overlap {
		return "trigger id re-created while the previous trigger of the same id was still winding down"
	}
	return "plain"
}

func (in *inst) onStart(ctx *resolve.Context, h http.Header, input []byte, up resolve.SubscriptionUpdater) error {
	g := goid()
	in.mu.Lock()
	n := len(in.starts) + 1
	key := inputName(input) + "|" + h.Get("X-H")
	st := &startRec{n: n, key: key, ctx: ctx.Context(), up: up, callAt: in.tickL()}
	in.observeL()
	// un-cancelled earlier starts of the same key
	registered := map[resolve.SubscriptionUpdater]bool{}
	for _, v := range in.r.VerifSubscriptions() {
		registered[v.Updater] = true
	}
	for _, o := range in.starts {
		if st.ctx.Err() != nil {
			break // start-up goroutine of a trigger that is already gone: not a live upstream
		}
		if o.key == key && o.up != up && o.ctx.Err() == nil && o.err == "" {
			st.overlaps = append(st.overlaps, o.n)
			// judged only when BOTH triggers still have registered subscribers; a trigger
			// without any is in tear-down (its remover cancels the context next)
			if registered[o.up] && registered[up] {
				st.busyOver = append(st.busyOver, o.n)
			}
		}
	}
	in.starts = append(in.starts, st)
	in.startG[g] = st
	tr := in.trigForL(up, key)
	st.trig = tr
	tr.starts = append(tr.starts, st)
	if tr.key != key {
		in.early = append(in.early, Finding{Prop: "C13", Clause: clDiffer, Site: differSite(tr.key, key), Class: "plain",
			Detail: fmt.Sprintf("Start #%d was called with (input|headers)=%s for trigger #%d whose subscribers asked for %s", n, key, tr.idx, tr.key)})
	}
	ord := in.keyStarts[key]
	in.keyStarts[key]++
	prog := in.sc.prog(key, ord)
	fail := in.sc.StartFail[n]
	in.mu.Unlock()

	if fail {
		in.mu.Lock()
		st.err = "start failed"
		st.retAt = in.tickL()
		in.mu.Unlock()
		return errors.New("upstream start failed")
	}
	// like graphql_datasource: Done is called when the trigger context ends
	if !in.sc.SourceIgnoresCtx {
		context.AfterFunc(st.ctx, func() {
			in.point(fmt.Sprintf("src%d:ctx-done", n))
			in.srcCall(st, Step{Op: "Dctx"})
		})
	}
	if len(prog) == 0 {
		in.mu.Lock()
		st.progDone = true
		in.mu.Unlock()
	} else {
		run := func() { in.runProgram(st, prog) }
		if in.s != nil {
			in.s.Go(fmt.Sprintf("src%d", n), run)
		} else {
			go run()
		}
	}
	if in.sc.StartGate {
		in.point(fmt.Sprintf("start%d:return", n))
	}
	in.mu.Lock()
	st.retAt = in.tickL()
	in.mu.Unlock()
	return nil
}

func (in *inst) runProgram(st *startRec, prog []Step) {
	defer func() {
		in.mu.Lock()
		st.progDone = true
		in.mu.Unlock()
	}()
	for _, step := range prog {
		if step.Op == "WHB" {
			// the upstream goes on while a heartbeat write to one of the trigger's subscribers
			// is in flight (or after one has been written): steers the source's next call
			// next to a slow keep-alive write. With nothing else enabled the clock pseudo
			// thread is the scheduler's only (free) choice, so the wait always ends.
			if in.s != nil {
				in.s.PointWhen(fmt.Sprintf("src%d:wait-for-heartbeat-write", st.n), func() bool {
					in.mu.Lock()
					defer in.mu.Unlock()
					if in.aborted || st.ctx.Err() != nil {
						return true
					}
					// every clock tick of the scenario is used up (virtual time): no heartbeat will come
					if time.Since(in.t0) >= time.Duration(in.sc.Ticks)*hbInterval {
						return true
					}
					for _, t := range in.subs {
						if t.trig != st.trig {
							continue
						}
						if t.w.busy == "Heartbeat" {
							return true
						}
						for _, c := range t.w.calls {
							if c.kind == "Heartbeat" {
								return true
							}
						}
					}
					return false
				})
			}
			continue
		}
		in.point(fmt.Sprintf("src%d:%s", st.n, step.label()))
		if (st.ctx.Err() != nil && !in.sc.SourceIgnoresCtx) || in.isAborted() {
			return // the upstream connection is gone; Done comes from the context callback
		}
		in.srcCall(st, step)
	}
}

func (in *inst) isAborted() bool {
	in.mu.Lock()
	defer in.mu.Unlock()
	return in.aborted
}

// srcCall performs one updater call of upstream st and records its interval.
func (in *inst) srcCall(st *startRec, step Step) {
	in.mu.Lock()
	in.observeL()
	// the context of an upstream is cancelled only when its trigger has no subscriber left
	if st.ctx.Err() != nil && st.err == "" && in.shutdownAt == 0 {
		for _, v := range in.r.VerifSubscriptions() {
			if v.Updater == st.up {
				in.early = append(in.early, Finding{Prop: "C13", Clause: clSpurious, Site: "Start context cancelled while subscribers remain", Class: in.class(),
					Detail: fmt.Sprintf("the context of Start #%d (%s) is cancelled (seen before the upstream's %s) although its trigger still has registered subscribers", st.n, st.key, step.label())})
				break
			}
		}
	}
	op := opRec{op: step.Op, target: step.Sub, call: in.tickL()}
	idx := len(st.ops)
	st.ops = append(st.ops, op)
	var ev *eventRec
	var target *subState
	if step.Sub != "" {
		target = in.byName[step.Sub]
	}
	switch step.Op {
	case "U":
		ev = &eventRec{start: st, ev: step.Ev, payload: evPayload(st.n, step.Ev), call: op.call}
		in.events = append(in.events, ev)
	case "US":
		ev = &eventRec{start: st, ev: step.Ev, target: step.Sub, payload: evPayload(st.n, step.Ev), call: op.call}
		in.events = append(in.events, ev)
	}
	in.mu.Unlock()

	switch step.Op {
	case "U":
		st.up.Update([]byte(ev.payload))
	case "US":
		st.up.UpdateSubscription(target.id, []byte(ev.payload))
	case "C", "E":
		g := goid()
		in.mu.Lock()
		in.caller[g] = st
		in.mu.Unlock()
		if step.Op == "C" {
			st.up.Complete()
		} else {
			st.up.Error([]byte(fmt.Sprintf(`{"errors":[{"message":"upstream error s%d"}]}`, st.n)))
		}
		in.mu.Lock()
		delete(in.caller, g)
		in.mu.Unlock()
	case "RAW":
		st.up.Update([]byte(step.Sub))
	case "D", "Dctx":
		st.up.Done()
	case "X":
		st.up.CloseSubscription(target.id)
	}

	in.mu.Lock()
	ret := in.tickL()
	st.ops[idx].ret = ret
	if ev != nil {
		ev.ret = ret
	}
	switch step.Op {
	case "D":
		// No writer is declared free here: when Done returns, a subscriber that some
		// OTHER actor removed at the same time (e.g. its own unsubscribe, still waiting in
		// done() for a write in flight) may not be closed yet, and the owner of a writer
		// never observes the return of the source's Done. Writes after the source finished
		// are judged against the close of the completed channel.
	case "X":
		if target.trig == st.trig && st.ctx.Err() == nil {
			in.removedByCallL(target, "CloseSubscription", op.call, ret)
		} else if target.called && target.regCall < ret {
			// closed by id from an upstream it is not (known to be) attached to, or the
			// call was a no-op because the trigger context had ended meanwhile
			target.ambiguous = true
			target.addCause("CloseSubscription (effect unknown)", op.call, ret)
		}
	}
	in.observeL()
	in.mu.Unlock()
}

func (in *inst) onHook(hc resolve.StartupHookContext, input []byte) error {
	name, _ := hc.Context.Value(ctxKey{}).(string)
	in.mu.Lock()
	in.observeL()
	s := in.byName[name]
	emit := in.sc.HookEmit && s != nil
	fail := in.sc.HookFail[name]
	var ev *eventRec
	if emit {
		ev = &eventRec{hookOf: name, ev: 1, target: name, payload: hookPayload(name), call: in.tickL()}
		in.events = append(in.events, ev)
	}
	in.mu.Unlock()
	if emit {
		hc.Updater([]byte(ev.payload))
		in.mu.Lock()
		ev.ret = in.tickL()
		in.mu.Unlock()
	}
	if fail {
		// a slow hook: it fails at a moment the scheduler chooses (the subscriber may be gone by then)
		in.point("hook:" + name + ":fails")
		in.mu.Lock()
		if s != nil {
			s.hookFail = true
			s.hookFailAt = in.tickL()
			s.addCause("start-up hook failed", s.hookFailAt, 0)
		}
		in.mu.Unlock()
		return errors.New("start-up hook rejected " + name)
	}
	return nil
}

// ---- fake writer

type writer struct {
	in      *inst
	sub     *subState
	buf     []byte
	busy    string
	calls   []*wcall
	term    string // Complete / Error already written (call returned)
	flushed int    // data messages flushed successfully
}

func (w *writer) enter(kind string) *wcall {
	in := w.in
	in.mu.Lock()
	defer in.mu.Unlock()
	in.observeL()
	c := &wcall{kind: kind, at: in.tickL(), overlap: w.busy}
	s := w.sub
	if s.apiRet != 0 {
		c.afterAPI = s.apiKind
	}
	if s.completed != nil && isClosed(s.completed) {
		c.afterClosed = true
	}
	c.afterTerminal = w.term
	w.calls = append(w.calls, c)
	return c
}

// leave records the EXIT of a writer call. A call that entered in time but is
// still inside the writer when the removing call has returned / the completed
// channel has been closed keeps writing after the owner of the writer was told
// it is free: judged like a call that entered late.
func (w *writer) leave(c *wcall) {
	in := w.in
	in.mu.Lock()
	c.ret = in.tickL()
	s := w.sub
	if c.afterAPI == "" && s.apiRet != 0 {
		c.exitAfterAPI = s.apiKind
	}
	if !c.afterClosed && s.completed != nil && isClosed(s.completed) {
		c.exitAfterClosed = true
	}
	in.mu.Unlock()
}

func (w *writer) Write(p []byte) (int, error) {
	in := w.in
	in.mu.Lock()
	// consecutive Write calls of one message are one record
	var last *wcall
	if n := len(w.calls); n > 0 && w.calls[n-1].kind == "Write" && len(w.buf) > 0 {
		last = w.calls[n-1]
	}
	in.mu.Unlock()
	if last == nil {
		// the first Write of a message stays inside the writer for a schedule point
		// (a slow client); the following Writes of the same message are atomic
		last = w.enter("Write")
		w.busy = "Write"
		w.in.point(w.sub.spec.Name + ":Write")
		w.busy = ""
		w.leave(last)
	} else if w.busy != "" && last.overlap == "" {
		last.overlap = w.busy
	}
	w.buf = append(w.buf, p...)
	return len(p), nil
}

func (w *writer) Flush() error {
	c := w.enter("Flush")
	c.payload = string(w.buf)
	w.buf = nil
	w.busy = "Flush"
	fault := false
	if w.in.s != nil {
		if w.in.sc.FlushFault[w.sub.spec.Name] {
			fault = w.in.s.Choose(w.sub.spec.Name+":Flush.fails", 2) == 1
		} else {
			w.in.s.Point(w.sub.spec.Name + ":Flush")
		}
	}
	w.busy = ""
	w.leave(c)
	if fault {
		w.in.mu.Lock()
		c.failed = true
		w.sub.addCause("Flush failed", c.at, 0)
		w.in.mu.Unlock()
		return errors.New("client gone")
	}
	if !strings.HasPrefix(c.payload, "ERR:") {
		w.in.mu.Lock()
		w.flushed++
		w.in.mu.Unlock()
	}
	return nil
}

func (w *writer) terminal(c *wcall, kind string) {
	g := goid()
	w.in.mu.Lock()
	c.byStart = w.in.caller[g]
	w.in.mu.Unlock()
	w.busy = kind
	w.in.point(w.sub.spec.Name + ":" + kind)
	w.busy = ""
	w.leave(c)
	w.in.mu.Lock()
	if w.term == "" && !w.foreign(c) {
		w.term = kind
	}
	w.in.mu.Unlock()
}

// foreign: the terminal message was written on behalf of an upstream start the
// subscription is not attached to.
func (w *writer) foreign(c *wcall) bool {
	return c.byStart != nil && w.sub.trig != nil && c.byStart.trig != w.sub.trig
}

func (w *writer) Complete() {
	c := w.enter("Complete")
	w.terminal(c, "Complete")
}

func (w *writer) Error(data []byte) {
	c := w.enter("Error")
	c.payload = string(data)
	w.terminal(c, "Error")
}

func (w *writer) Heartbeat() error {
	c := w.enter("Heartbeat")
	w.busy = "Heartbeat"
	fault := false
	if w.in.s != nil {
		if w.in.sc.HBFault[w.sub.spec.Name] {
			fault = w.in.s.Choose(w.sub.spec.Name+":Heartbeat.fails", 2) == 1
		} else {
			w.in.s.Point(w.sub.spec.Name + ":Heartbeat")
		}
	}
	w.busy = ""
	w.leave(c)
	if fault {
		w.in.mu.Lock()
		c.failed = true
		w.sub.addCause("Heartbeat failed", c.at, 0)
		w.in.mu.Unlock()
		return errors.New("client gone")
	}
	return nil
}

// ---- building an instance and its actors

func newInst(sc *Scenario, s *sched.Sched) *inst {
	in := &inst{sc: sc, s: s, byName: map[string]*subState{}, keyStarts: map[string]int{}, caller: map[int64]*startRec{}, startG: map[int64]*startRec{}}
	in.rep = &reporter{in: in}
	in.t0 = time.Now()
	in.sharedFilter = sharedVarFilter()
	if sc.Hook {
		in.ds = &hookDS{fakeDS{in}}
	} else {
		in.ds = &fakeDS{in}
	}
	resolve.VerifSetConnectionIDBase(1000)
	rctx, cancel := context.WithCancel(context.Background())
	in.root = cancel
	iv := 24 * 365 * time.Hour
	if sc.Ticks > 0 {
		iv = hbInterval
	}
	in.r = resolve.New(rctx, resolve.ResolverOptions{MaxConcurrency: 8, Reporter: in.rep, AsyncErrorWriter: errWriter{}, SubscriptionHeartbeatInterval: iv})
	for _, a := range sc.Actors {
		for _, ss := range a.Sessions {
			cctx, stop := context.WithCancel(context.WithValue(context.Background(), ctxKey{}, ss.Name))
			st := &subState{spec: ss, actor: a.Name, ctx: cctx, stop: stop}
			st.w = &writer{in: in, sub: st}
			if !ss.Sync {
				st.id = resolve.SubscriptionIdentifier{ConnectionID: resolve.ConnectionID(ss.Conn), SubscriptionID: ss.SubID}
			}
			in.subs = append(in.subs, st)
			in.byName[ss.Name] = st
		}
	}
	return in
}

func (in *inst) rctx(s *subState) *resolve.Context {
	c := resolve.NewContext(s.ctx)
	c.SubgraphHeadersBuilder = hdrBuilder{s.spec.Hdr}
	c.ExecutionOptions.SendHeartbeat = s.spec.HB
	if s.spec.FilterVar != 0 {
		c.Variables = astjson.MustParseBytes([]byte(fmt.Sprintf(`{"fk":%d}`, s.spec.FilterVar)))
	}
	return c
}

// removedByCall applies a removing call with interval [call, ret] to target t.
func (in *inst) removedByCallL(t *subState, kind string, call, ret int) {
	switch {
	case !t.called || t.regCall > ret:
		// subscribed after the call returned: unaffected
	case t.regRet != 0 && t.regRet < call && t.subscribed:
		t.addCause(kind, call, ret)
		if kind != "CloseSubscription" { // a call of the upstream, not of the writer's owner: see "D" in srcCall
			t.setAPIRet(kind, ret)
		}
	case t.called && t.subErr != "":
		// never registered
	default:
		// registration and removal overlap: the removal may or may not have seen it
		t.ambiguous = true
		t.addCause(kind+" (overlapping the registration)", call, ret)
	}
}

func (in *inst) runSession(s *subState) {
	ss := s.spec
	plan := planFor(ss, in.ds, in.sharedFilter)
	if ss.Sync {
		in.mu.Lock()
		s.called = true
		s.regCall = in.tickL()
		in.mu.Unlock()
		err := in.r.ResolveGraphQLSubscription(in.rctx(s), plan, s.w)
		in.mu.Lock()
		s.returned = true
		s.retAt = in.tickL()
		if err != nil {
			s.retErr = err.Error()
		}
		if err == nil {
			s.subscribed = true // it was registered and has been completed
		} else if !s.observed {
			s.ambiguous = true // refused or registered and abandoned at shutdown: cannot tell
		}
		// the caller of the synchronous API owns the writer again
		s.setAPIRet("ResolveGraphQLSubscription", s.retAt)
		if s.retErr != "" && in.shutdownAt != 0 {
			// returned because the resolver context ended: the subscription itself is
			// removed by shutdownResolver, which may still be under way; writes until
			// then are not judged against the return (see report).
			s.apiRet, s.apiKind = 0, ""
		}
		in.observeL()
		in.mu.Unlock()
		return
	}
	in.mu.Lock()
	s.called = true
	s.regCall = in.tickL()
	in.mu.Unlock()
	err := in.r.AsyncResolveGraphQLSubscription(in.rctx(s), plan, s.w, s.id)
	in.mu.Lock()
	s.regRet = in.tickL()
	if err != nil {
		s.subErr = err.Error()
	} else {
		s.subscribed = true
	}
	in.observeL()
	in.mu.Unlock()
	if err != nil {
		return
	}
	in.waitAfter(s)
	switch ss.Action {
	case "unsub":
		in.unsubscribe(s, "UnsubscribeSubscription")
	case "cancel":
		in.point(ss.Name + ":cancel-client-context")
		in.mu.Lock()
		s.addCause("client context cancelled", in.tickL(), 0)
		in.mu.Unlock()
		s.stop()
		in.unsubscribe(s, "UnsubscribeSubscription")
	case "unsubClient":
		in.mu.Lock()
		call := in.tickL()
		in.mu.Unlock()
		_ = in.r.UnsubscribeClient(resolve.ConnectionID(ss.Conn))
		in.mu.Lock()
		ret := in.tickL()
		for _, t := range in.subs {
			if !t.spec.Sync && t.spec.Conn == ss.Conn {
				in.removedByCallL(t, "UnsubscribeClient", call, ret)
			}
		}
		in.observeL()
		in.mu.Unlock()
	}
}

func (in *inst) unsubscribe(s *subState, kind string) {
	in.mu.Lock()
	call := in.tickL()
	in.mu.Unlock()
	err := in.r.UnsubscribeSubscription(s.id)
	in.mu.Lock()
	ret := in.tickL()
	s.addCause(kind, call, ret)
	if err == nil {
		s.setAPIRet(kind, ret)
	}
	in.observeL()
	in.mu.Unlock()
}

// waitAfter parks the caller until the subscriber got spec.After data messages
// (or its subscription was completed).
func (in *inst) waitAfter(s *subState) {
	if in.s != nil && s.spec.AfterSub != "" {
		// the action waits until another subscription (of the same client) has been completed
		o := in.byName[s.spec.AfterSub]
		in.s.PointWhen(s.spec.Name+":after-"+s.spec.AfterSub+"-completed", func() bool {
			in.mu.Lock()
			defer in.mu.Unlock()
			if in.aborted || o == nil || (o.called && o.regRet != 0 && !o.subscribed) {
				return true
			}
			return o.completed != nil && isClosed(o.completed)
		})
		return
	}
	if (s.spec.After <= 0 && !s.spec.AfterDone) || in.s == nil {
		return
	}
	label := s.spec.Name + ":after-message"
	if s.spec.AfterDone {
		label = s.spec.Name + ":after-source-Done-began"
	}
	in.s.PointWhen(label, func() bool {
		in.mu.Lock()
		defer in.mu.Unlock()
		if in.aborted || (s.spec.After > 0 && s.w.flushed >= s.spec.After) {
			return true
		}
		if s.spec.AfterDone && s.trig != nil {
			for _, st := range s.trig.starts {
				for _, op := range st.ops {
					if op.op == "D" {
						return true
					}
				}
			}
		}
		if s.completed != nil && isClosed(s.completed) {
			return true
		}
		if s.spec.Sync && s.returned {
			return true
		}
		// its upstream has nothing more to say (the subscriber joined after the last event)
		if s.trig != nil && len(s.trig.starts) > 0 {
			silent := true
			for _, st := range s.trig.starts {
				if st.err == "" && !st.progDone {
					silent = false
				}
			}
			return silent
		}
		return false
	})
}

// spawn starts the actors of the scenario (called from Scenario.Body).
func (in *inst) spawnShutdown() {
	in.s.Go("shutdown", func() {
		in.mu.Lock()
		in.shutdownAt = in.tickL()
		in.mu.Unlock()
		in.root()
		in.mu.Lock()
		in.shutdownRet = in.tickL()
		in.mu.Unlock()
	})
}

func (in *inst) spawn() {
	s := in.s
	if in.sc.Shutdown && in.sc.ShutdownFirst {
		in.spawnShutdown()
	}
	for _, a := range in.sc.Actors {
		a := a
		s.Go(a.Name, func() {
			for _, ss := range a.Sessions {
				in.runSession(in.byName[ss.Name])
			}
		})
		for _, ss := range a.Sessions {
			if ss.Sync && ss.Action == "cancel" {
				st := in.byName[ss.Name]
				s.Go(ss.Name+".client", func() {
					in.waitAfter(st)
					in.mu.Lock()
					st.addCause("client context cancelled", in.tickL(), 0)
					in.mu.Unlock()
					st.stop()
				})
			}
		}
	}
	if in.sc.Shutdown && !in.sc.ShutdownFirst {
		in.spawnShutdown()
	}
	if in.sc.Ticks > 0 {
		ticks := make([]time.Duration, in.sc.Ticks)
		for i := range ticks {
			ticks[i] = hbInterval + time.Millisecond
		}
		s.SetClock(ticks...)
	}
}

// cleanup ends everything that may still be alive.
func (in *inst) cleanup() {
	in.mu.Lock()
	in.aborted = true
	in.mu.Unlock()
	in.root()
	for _, s := range in.subs {
		s.stop()
	}
}
