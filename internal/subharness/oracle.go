package subharness

import (
	"fmt"
	"regexp"
	"sort"
	"strings"

	"verif/internal/sched"
)

// Finding is one failed oracle clause of one execution.
type Finding struct {
	Prop   string // "C12" | "C13" | "" (both)
	Clause string
	Site   string
	Class  string
	Detail string
}

// clauses (fixed strings: they are part of the fingerprints)
const (
	// C12
	clOrder   = "each subscriber receives the events in the order the source emitted them, each at most once"
	clMust    = "each subscriber receives one message per upstream event that passes its filter"
	clMay     = "a subscriber only receives events its own upstream emitted after it subscribed and that pass its filter"
	clSolo    = "each message is the response the same event would produce for that subscriber alone"
	clLate    = "once a subscription has been completed, unsubscribed or its client removed, nothing further is written to its writer"
	clOnce    = "completion is signalled exactly once"
	clOverlap = "writes to one writer never overlap"
	clPanic   = "no panic"
	// C13
	clShare     = "subscriptions with the same upstream input and forwarded headers share one upstream subscription"
	clDiffer    = "subscriptions that differ in upstream input or forwarded headers never share an upstream subscription"
	clStartOnce = "the upstream is started once per live trigger"
	clCancel    = "the upstream context is cancelled when its last subscriber leaves, the source finishes, start-up fails or the resolver shuts down"
	clSpurious  = "a trigger and its subscribers are only torn down when the last subscriber leaves, the source finishes, start-up fails or the resolver shuts down"
	clCompleted = "after any history every subscriber has been completed"
	clRegistry  = "after any history no trigger or subscription record remains"
	clSubCount  = "the reported subscription count returns to zero"
	clTrigCount = "the reported trigger count returns to zero"
	clDeadlock  = "no actor or resolver goroutine is blocked forever"
)

var tagRe = regexp.MustCompile(`"v":"([^"]+)"`)

func tagOfPayload(p string) string {
	if m := tagRe.FindStringSubmatch(p); m != nil {
		return m[1]
	}
	return ""
}

const inf = int(^uint(0) >> 1)

// check is the oracle of one complete execution. It runs on the explorer's
// goroutine while every other goroutine is parked or blocked.
func (h *Harness) check(in *inst, x *sched.Exec) (string, []Finding) {
	in.mu.Lock()
	defer in.mu.Unlock()
	in.observeL()
	fs := append([]Finding(nil), in.early...)
	add := func(prop, clause, site, class, format string, a ...any) {
		fs = append(fs, Finding{Prop: prop, Clause: clause, Site: site, Class: class, Detail: fmt.Sprintf(format, a...)})
	}
	class := in.class()
	wedged := x.Deadlock || len(x.Unfinished) > 0 || len(x.Parked) > 0 || x.Horizon

	evByTag := map[string]*eventRec{}
	for _, e := range in.events {
		evByTag[tagOfPayload(e.payload)] = e
	}

	// ---- causes known only now
	for _, s := range in.subs {
		if !s.called {
			continue
		}
		if in.shutdownAt != 0 {
			s.addCause("resolver shutdown", in.shutdownAt, 0)
		}
		if s.trig != nil {
			for _, st := range s.trig.starts {
				if st.err != "" {
					s.addCause("Start failed", st.callAt, st.retAt)
				}
				for _, op := range st.ops {
					if op.op == "D" {
						s.addCause("source Done", op.call, op.ret)
					}
				}
			}
			if len(s.trig.starts) == 0 {
				for _, o := range in.subs {
					if o != s && o.trig == s.trig && o.hookFail {
						s.addCause("start-up hook of the trigger failed", o.hookFailAt, 0)
					}
				}
			}
		}
	}

	var keyParts []string
	notJudged := map[string]int{}
	hbAfterTerminal := 0

	// ---- per subscriber: R4s
	for _, s := range in.subs {
		if !s.called {
			keyParts = append(keyParts, s.spec.Name+":-")
			continue
		}
		name := s.spec.Name
		var deliv []*eventRec
		var tags []string
		nHB, nErrMsg, nComplete, nError := 0, 0, 0, 0
		for _, c := range s.w.calls {
			// late / overlapping writer calls
			if c.overlap != "" {
				add("C12", clOverlap, "writer."+c.kind+" during writer."+c.overlap, class, "%s: writer.%s was called while writer.%s had not returned", name, c.kind, c.overlap)
			}
			wsite := "writer." + c.kind
			switch c.kind {
			case "Complete", "Error":
				wsite = "terminal message (writer.Complete / writer.Error)"
			case "Write", "Flush":
				wsite = "data (writer.Write / writer.Flush)"
			}
			foreign := s.w.foreign(c)
			if foreign {
				add("C12", clMay, "message of a different upstream start", class, "%s (trigger #%d) received writer.%s(%s) from upstream start #%d of trigger #%d", name, s.trig.idx, c.kind, clipS(c.payload, 60), c.byStart.n, c.byStart.trig.idx)
			}
			switch {
			case c.afterAPI != "":
				add("C12", clLate, wsite, "after removal", "%s: writer.%s(%s) at t=%d although %s had returned at t=%d (causes %v)", name, c.kind, clipS(c.payload, 60), c.at, c.afterAPI, s.apiRet, s.causes)
			case c.afterClosed:
				add("C12", clLate, wsite, "after removal", "%s: writer.%s(%s) at t=%d although the subscription's completed channel was already closed (causes %v)", name, c.kind, clipS(c.payload, 60), c.at, s.causes)
			case c.exitAfterAPI != "":
				add("C12", clLate, wsite, "after removal", "%s: writer.%s(%s) entered at t=%d and was still inside the writer at t=%d although %s had returned at t=%d (causes %v)", name, c.kind, clipS(c.payload, 60), c.at, c.ret, c.exitAfterAPI, s.apiRet, s.causes)
			case c.exitAfterClosed:
				add("C12", clLate, wsite, "after removal", "%s: writer.%s(%s) entered at t=%d and was still inside the writer at t=%d although the subscription's completed channel had been closed meanwhile (causes %v)", name, c.kind, clipS(c.payload, 60), c.at, c.ret, s.causes)
			case c.afterTerminal != "" && c.kind == "Heartbeat":
				hbAfterTerminal++ // between the source's Complete/Error and its Done: not judged (see report)
			case c.afterTerminal != "" && c.kind == "Flush" && !foreignEvent(s, evByTag[tagOfPayload(c.payload)]):
				// (a foreign event after the terminal message is reported once, by the may clause)
				add("C12", clLate, wsite, "after writer."+c.afterTerminal, "%s: writer.%s(%s) at t=%d although writer.%s had already been written", name, c.kind, clipS(c.payload, 60), c.at, c.afterTerminal)
			}
			switch c.kind {
			case "Heartbeat":
				nHB++
			case "Complete":
				if !foreign {
					nComplete++
				}
			case "Error":
				if !foreign {
					nError++
				}
			case "Flush":
				if c.failed {
					tags = append(tags, "!flush-failed")
					continue
				}
				if strings.HasPrefix(c.payload, "ERR:") {
					nErrMsg++
					tags = append(tags, "ERR")
					continue
				}
				tag := tagOfPayload(c.payload)
				e := evByTag[tag]
				if tag == "" || e == nil {
					add("C12", clSolo, "message is not the rendering of any emitted event", class, "%s received %q", name, c.payload)
					tags = append(tags, "?")
					continue
				}
				tags = append(tags, tag)
				if want, ok := h.solo[fmt.Sprintf("%d|%s", s.spec.Shape, e.payload)]; !ok {
					notJudged["solo rendering unknown"]++
				} else if want != c.payload {
					add("C12", clSolo, "message differs from the solo rendering", class, "%s received %q for event %s, alone it receives %q", name, c.payload, tag, want)
				}
				deliv = append(deliv, e)
			}
		}
		// order, repetition
		seen := map[*eventRec]bool{}
		prev := 0
		for _, e := range deliv {
			if e.start != nil && s.trig != nil && e.start.trig != s.trig {
				seen[e] = true
				continue // foreign event: reported by the may clause
			}
			if seen[e] {
				add("C12", clOrder, "event delivered twice", class, "%s received %s twice (%v)", name, tagOfPayload(e.payload), tags)
			}
			seen[e] = true
			if e.call < prev {
				add("C12", clOrder, "events out of emission order", class, "%s received %v, emission order differs", name, tags)
			}
			prev = e.call
		}
		// may
		for _, e := range deliv {
			tag := tagOfPayload(e.payload)
			switch {
			case e.start != nil && s.trig != nil && e.start.trig != s.trig:
				add("C12", clMay, "message of a different upstream start", class, "%s (trigger #%d) received %s, emitted by upstream start #%d of trigger #%d", name, s.trig.idx, tag, e.start.n, e.start.trig.idx)
			case e.start != nil && s.trig == nil:
				notJudged["attachment of a subscriber unknown (foreign-start clause)"]++
			case e.hookOf != "" && e.hookOf != name:
				add("C12", clMay, "initial event of another subscriber's hook", class, "%s received %s", name, tag)
			case e.target != "" && e.target != name:
				add("C12", clMay, "event addressed to another subscription", class, "%s received %s which was sent with UpdateSubscription(%s)", name, tag, e.target)
			case filtered(s.spec, e.ev):
				add("C12", clMay, "event its filter drops", class, "%s received %s", name, tag)
			case e.ret != 0 && e.ret < s.regCall:
				add("C12", clMay, "event emitted before it subscribed", class, "%s received %s whose Update returned at t=%d, subscribe was called at t=%d", name, tag, e.ret, s.regCall)
			}
		}
		// must
		remBegin := inf
		for _, c := range s.causes {
			if c.call < remBegin {
				remBegin = c.call
			}
		}
		if s.subscribed && s.observed && !s.ambiguous && s.regRet != 0 {
			for _, e := range in.events {
				own := (e.start != nil && e.start.trig == s.trig) || (e.start == nil && e.hookOf == name)
				if !own || (e.target != "" && e.target != name) || filtered(s.spec, e.ev) {
					continue
				}
				if s.regRet < e.call && e.ret != 0 && e.ret < remBegin && !seen[e] {
					add("C12", clMust, "event not delivered", class, "%s (registered at t=%d, first removal cause at t=%s, causes %v) did not receive %s emitted in [%d,%d]; received %v", name, s.regRet, tS(remBegin), s.causes, tagOfPayload(e.payload), e.call, e.ret, tags)
				}
			}
		} else if s.subscribed {
			notJudged["must-set of a subscriber (attachment or registration time unknown, or removal overlapping registration)"]++
		}
		if nComplete+nError > 1 {
			add("C12", clLate, "terminal message (writer.Complete / writer.Error)", "written twice", "%s: writer.Complete x%d, writer.Error x%d", name, nComplete, nError)
		}

		// completion
		hasCause := len(s.causes) > 0
		completed := false
		known := true
		if s.spec.Sync {
			completed = s.returned
		} else if s.completed != nil {
			completed = isClosed(s.completed)
		} else {
			known = false
		}
		st := "live"
		if completed {
			st = "completed"
		}
		if s.subErr != "" {
			st = "refused"
			if in.shutdownAt == 0 {
				add("", "subscribe is only refused after the resolver was shut down", "subscribe returned an error", class, "%s: %s", name, s.subErr)
			}
		} else if known && s.subscribed {
			switch {
			case hasCause && !completed && !s.ambiguous:
				add("C13", clCompleted, kindOf(s)+" subscriber never completed", class, "%s was removed (%v) but its completion was never signalled", name, s.causes)
				add("C12", clOnce, kindOf(s)+" subscriber never completed", class, "%s was removed (%v) but its completion was never signalled", name, s.causes)
			case !hasCause && completed:
				add("C13", clSpurious, "subscriber completed without a cause", class, "%s was completed although it never unsubscribed, its client stayed, its own upstream (trigger #%d) did not finish and the resolver was not shut down", name, trigIdx(s))
			}
		}
		keyParts = append(keyParts, fmt.Sprintf("%s:%s[%s]hb%d,c%d,e%d:%s", name, st, strings.Join(tags, ","), nHB, nComplete, nError, s.retErr))
	}

	// ---- C13: starts
	for _, t := range in.trigs {
		if len(t.starts) > 1 {
			add("C13", clStartOnce, "trigger started more than once", class, "trigger #%d (%s): %d Start calls", t.idx, t.key, len(t.starts))
		}
		if len(t.starts) == 0 && !wedged {
			hookFail := false
			for _, s := range in.subs {
				if s.trig == t && s.hookFail {
					hookFail = true
				}
			}
			if !hookFail {
				add("C13", clStartOnce, "trigger never started", class, "trigger #%d (%s) had subscribers but Start was never called", t.idx, t.key)
			}
		}
	}
	overlapTeardown := 0
	for _, st := range in.starts {
		if len(st.busyOver) > 0 {
			add("C13", clShare, "second upstream started while the first still had subscribers", class, "Start #%d (%s) was called while Start %v of the same key was un-cancelled and its trigger still had registered subscribers", st.n, st.key, st.busyOver)
		} else if len(st.overlaps) > 0 {
			overlapTeardown++
		}
	}

	// ---- C13: quiescence. The registry, the reporter balances and the Start
	// contexts are compared with the subscribers that are NOT completed, so that a
	// missing or spurious completion (judged above, per subscriber) is one finding
	// and does not cascade.
	ambiguous := false
	var live []*subState
	for _, s := range in.subs {
		if !s.called || s.subErr != "" || !s.subscribed {
			continue
		}
		if s.ambiguous {
			ambiguous = true
		}
		done := false
		switch {
		case s.spec.Sync:
			done = s.returned
		case s.completed != nil:
			done = isClosed(s.completed)
		default:
			ambiguous = true
		}
		if !done {
			live = append(live, s)
		}
	}
	reg := in.r.VerifRegistry()
	subNet, trNet := in.rep.subInc-in.rep.subDec, in.rep.trInc-in.rep.trDec
	if ambiguous || wedged {
		notJudged["quiescence (ambiguous removal or wedged execution)"]++
	} else {
		conns := map[int64]bool{}
		liveTrig := map[*trigRec]bool{}
		startedTrig := 0
		for _, s := range live {
			conns[s.spec.Conn] = true
			if s.trig != nil && !liveTrig[s.trig] {
				liveTrig[s.trig] = true
				for _, st := range s.trig.starts {
					if st.err == "" && st.retAt != 0 {
						startedTrig++
						break
					}
				}
			}
		}
		cmp := func(site string, got, want int) {
			if got > want {
				add("C13", clRegistry, site+" keeps a record", class, "%s = %d, but %d subscribers are not completed (%s); registry %+v", site, got, want, names(live), reg)
			} else if got < want {
				add("C13", clRegistry, site+" lacks the record of an uncompleted subscriber", class, "%s = %d, but %d subscribers are not completed (%s); registry %+v", site, got, want, names(live), reg)
			}
		}
		cmp("triggers", reg.Triggers, len(liveTrig))
		cmp("trigger.subscriptions", reg.TriggerSubs, len(live))
		cmp("subscriptionsByID", reg.ByID, len(live))
		cmp("subscriptionsByConnection", reg.Connections, len(conns))
		cmp("subscriptionsByConnection entries", reg.ByConnection, len(live))
		if subNet != len(live) || in.rep.subNeg {
			add("C13", clSubCount, signSite("SubscriptionCount", subNet-len(live), in.rep.subNeg), class, "SubscriptionCountInc total %d, Dec total %d, uncompleted subscribers %d (%s)", in.rep.subInc, in.rep.subDec, len(live), names(live))
		}
		if in.rep.earlyDec != "" {
			add("C13", clTrigCount, "TriggerCountDec reported while its trigger is still registered", class, "%s", in.rep.earlyDec)
		}
		if trNet != startedTrig || in.rep.trNeg {
			tclass := class
			if !in.overlap && in.rep.lateInc {
				tclass = "TriggerCountInc reported after the trigger had been removed"
			}
			add("C13", clTrigCount, signSite("TriggerCount", trNet-startedTrig, in.rep.trNeg), tclass, "TriggerCountInc total %d, Dec total %d, started triggers that still have subscribers %d", in.rep.trInc, in.rep.trDec, startedTrig)
		}
		for _, st := range in.starts {
			if st.err != "" {
				continue
			}
			cancelled := st.ctx.Err() != nil
			switch {
			case !liveTrig[st.trig] && !cancelled:
				add("C13", clCancel, "Start context never cancelled", class, "the context of Start #%d (%s) is not cancelled although its trigger has no subscriber left", st.n, st.key)
			case liveTrig[st.trig] && cancelled:
				add("C13", clSpurious, "Start context cancelled while subscribers remain", class, "the context of Start #%d (%s) was cancelled although %s still subscribe to it", st.n, st.key, names(live))
			}
		}
	}

	// ---- deadlock / livelock
	if x.Horizon {
		add("C13", clDeadlock, "step horizon reached", class, "livelock candidate: %d steps", x.Steps)
	} else if x.Deadlock || len(x.Unfinished) > 0 || len(x.Parked) > 0 {
		add("C13", clDeadlock, blockedSite(x), class, "unfinished actors %v, goroutines parked for ever %v", x.Unfinished, x.Parked)
	}

	var sk []string
	for _, st := range in.starts {
		c := "live"
		if st.ctx.Err() != nil {
			c = "cancelled"
		}
		sk = append(sk, fmt.Sprintf("%d:%s:%s:%s", st.n, st.key, c, st.err))
	}
	outcome := fmt.Sprintf("%s | starts[%s] trig=%d reg=%d/%d/%d/%d rep=%d/%d idreuse=%v wedged=%v", strings.Join(keyParts, " "), strings.Join(sk, ","), len(in.trigs),
		reg.Triggers, reg.TriggerSubs, reg.ByID, reg.Connections, subNet, trNet, in.overlap, wedged)
	h.lastNotJudged = notJudged
	h.lastHBAfterTerminal = hbAfterTerminal
	h.lastOverlapTeardown = overlapTeardown
	return outcome, dedupe(fs)
}

// foreignEvent: e was emitted by an upstream start the subscriber is not attached to.
func foreignEvent(s *subState, e *eventRec) bool {
	return e != nil && e.start != nil && s.trig != nil && e.start.trig != s.trig
}

func dedupe(fs []Finding) []Finding {
	seen := map[string]bool{}
	var out []Finding
	for _, f := range fs {
		k := f.Prop + "\x00" + f.Clause + "\x00" + f.Site + "\x00" + f.Class
		if seen[k] {
			continue
		}
		seen[k] = true
		out = append(out, f)
	}
	return out
}

func kindOf(s *subState) string {
	if s.spec.Sync {
		return "synchronous"
	}
	return "asynchronous"
}

func trigIdx(s *subState) int {
	if s.trig == nil {
		return 0
	}
	return s.trig.idx
}

func names(ss []*subState) string {
	var n []string
	for _, s := range ss {
		n = append(n, s.spec.Name)
	}
	sort.Strings(n)
	return "[" + strings.Join(n, " ") + "]"
}

func signSite(what string, d int, neg bool) string {
	switch {
	case d > 0:
		return what + " stays above the number of live records"
	case d < 0:
		return what + " falls below the number of live records"
	case neg:
		return what + " went negative on the way"
	}
	return what
}

func blockedSite(x *sched.Exec) string {
	kinds := map[string]bool{}
	for _, n := range x.Unfinished {
		switch {
		case strings.HasPrefix(n, "src"):
			kinds["source"] = true
		case n == "shutdown":
			kinds["shutdown"] = true
		default:
			kinds["subscriber"] = true
		}
	}
	if len(x.Parked) > 0 {
		kinds["resolver goroutine"] = true
	}
	var k []string
	for n := range kinds {
		k = append(k, n)
	}
	sort.Strings(k)
	return "blocked: " + strings.Join(k, "+")
}

func clipS(s string, n int) string {
	if len(s) > n {
		return s[:n] + "..."
	}
	return s
}

func tS(t int) string {
	if t == inf {
		return "never"
	}
	return fmt.Sprint(t)
}
