// Package vk is the contract between a check binary (one shard of one
// property check) and the driver cmd/vcheck: the shard explores its share of a
// bounded space, records what it covered and every violation it saw, and writes
// one JSON result file; the driver merges shards, applies the known-findings
// file, writes evidence and decides the exit code.
package vk

import (
	"crypto/sha1"
	"encoding/hex"
	"encoding/json"
	"fmt"
	"hash/fnv"
	"os"
	"sort"
	"strconv"
	"sync"
	"sync/atomic"
	"time"
)

// Violation is one failed oracle clause on one (shrunk) case.
type Violation struct {
	Property string `json:"property"`
	Clause   string `json:"clause"` // which sentence of the property failed
	Site     string `json:"site"`   // stable location: panic frame, response path class, message kind ...
	Class    string `json:"class"`  // structural class of the shrunk input
	Detail   string `json:"detail"` // human readable explanation
	Input    any    `json:"input"`  // the shrunk input / schedule, enough for --replay
	Repro    string `json:"repro,omitempty"`
	Count    int64  `json:"count,omitempty"` // how many explored cases collapsed onto this fingerprint
}

func (v Violation) Fingerprint() string {
	h := sha1.Sum([]byte(v.Property + "\x00" + v.Clause + "\x00" + v.Site + "\x00" + v.Class))
	return hex.EncodeToString(h[:6])
}

// Result is what one shard writes.
type Result struct {
	Property    string           `json:"property"`
	Tier        string           `json:"tier"`
	Shard       int              `json:"shard"`
	NShards     int              `json:"nshards"`
	Level       string           `json:"level"`
	Evaluations int64            `json:"evaluations"`
	Distinct    []uint64         `json:"distinct"` // hashes of distinct non-trivial outcomes
	States      int64            `json:"states"`
	Transitions int64            `json:"transitions"`
	Traces      int64            `json:"traces"`
	Samples     []any            `json:"samples"`
	Violations  []Violation      `json:"violations"`
	Exhaustive  bool             `json:"exhaustive"`
	Caps        []string         `json:"caps"`
	Rule        string           `json:"rule"`
	Assumptions []string         `json:"assumptions"`
	Bounds      map[string]any   `json:"bounds"`
	Counters    map[string]int64 `json:"counters"`
	Notes       []string         `json:"notes"`
	WallS       float64          `json:"wall_s"`
}

// Run is the per-shard recorder. Safe for concurrent use.
type Run struct {
	mu       sync.Mutex
	res      Result
	distinct map[uint64]struct{}
	viol     map[string]*Violation
	classes  map[string]bool
	start    time.Time
	deadline time.Time
	out      string
	Seed     int64
	Replay   string // path of a replay file, "" in search mode
	maxDist  int
	expired  atomic.Bool
}

func envInt(k string, def int) int {
	if s := os.Getenv(k); s != "" {
		if n, err := strconv.Atoi(s); err == nil {
			return n
		}
	}
	return def
}

// Start reads the shard parameters from the environment.
func Start(property, level string) *Run {
	r := &Run{distinct: map[uint64]struct{}{}, viol: map[string]*Violation{}, classes: map[string]bool{}, start: time.Now(), maxDist: 400000}
	r.res.Property = property
	r.res.Level = level
	r.res.Tier = os.Getenv("VERIF_TIER")
	if r.res.Tier == "" {
		r.res.Tier = "quick"
	}
	r.res.Shard = envInt("VERIF_SHARD", 0)
	r.res.NShards = envInt("VERIF_NSHARDS", 1)
	r.Seed = int64(envInt("VERIF_SEED", 0))
	r.out = os.Getenv("VERIF_OUT")
	r.Replay = os.Getenv("VERIF_REPLAY")
	if d := envInt("VERIF_DEADLINE_S", 0); d > 0 {
		r.deadline = r.start.Add(time.Duration(d) * time.Second)
		// A real-clock timer started here (outside any synctest bubble): inside a
		// bubble time.Now() is virtual and would never reach the deadline.
		go func() {
			time.Sleep(time.Duration(d) * time.Second)
			r.expired.Store(true)
		}()
	}
	r.res.Exhaustive = true
	r.res.Bounds = map[string]any{}
	r.res.Counters = map[string]int64{}
	return r
}

func (r *Run) Tier() string     { return r.res.Tier }
func (r *Run) Thorough() bool   { return r.res.Tier == "thorough" }
func (r *Run) Shard() int       { return r.res.Shard }
func (r *Run) NShards() int     { return r.res.NShards }
func (r *Run) Property() string { return r.res.Property }

// Pick returns q for the quick tier and t for the thorough tier.
func Pick[T any](r *Run, q, t T) T {
	if r.Thorough() {
		return t
	}
	return q
}

// Mine reports whether case number i belongs to this shard.
func (r *Run) Mine(i int64) bool {
	return int(i%int64(r.res.NShards)) == r.res.Shard
}

// Expired reports whether the internal deadline passed; the caller must stop
// exploring and the run is recorded as not exhaustive (never a verdict).
func (r *Run) Expired() bool {
	if r.deadline.IsZero() {
		return false
	}
	if r.expired.Load() {
		r.Cap("internal deadline reached")
		return true
	}
	return false
}

func (r *Run) Cap(what string) {
	r.mu.Lock()
	defer r.mu.Unlock()
	r.res.Exhaustive = false
	for _, c := range r.res.Caps {
		if c == what {
			return
		}
	}
	r.res.Caps = append(r.res.Caps, what)
}

func (r *Run) Eval(n int64) {
	r.mu.Lock()
	r.res.Evaluations += n
	r.mu.Unlock()
}

func (r *Run) AddStates(states, transitions, traces int64) {
	r.mu.Lock()
	r.res.States += states
	r.res.Transitions += transitions
	r.res.Traces += traces
	r.mu.Unlock()
}

func (r *Run) Count(name string, n int64) {
	r.mu.Lock()
	r.res.Counters[name] += n
	r.mu.Unlock()
}

func (r *Run) Bound(name string, v any) {
	r.mu.Lock()
	r.res.Bounds[name] = v
	r.mu.Unlock()
}

func (r *Run) Note(format string, a ...any) {
	r.mu.Lock()
	if len(r.res.Notes) < 50 {
		r.res.Notes = append(r.res.Notes, fmt.Sprintf(format, a...))
	}
	r.mu.Unlock()
}

func (r *Run) Rule(s string)          { r.res.Rule = s }
func (r *Run) Assume(s ...string)     { r.res.Assumptions = append(r.res.Assumptions, s...) }
func Hash(s string) uint64            { h := fnv.New64a(); h.Write([]byte(s)); return h.Sum64() }
func (r *Run) NumDistinct() int       { r.mu.Lock(); defer r.mu.Unlock(); return len(r.distinct) }
func (r *Run) NumViolations() int     { r.mu.Lock(); defer r.mu.Unlock(); return len(r.viol) }
func (r *Run) Elapsed() time.Duration { return time.Since(r.start) }
func (r *Run) Counter(name string) int64 {
	r.mu.Lock()
	defer r.mu.Unlock()
	return r.res.Counters[name]
}

// Outcome records one distinct non-trivial observed outcome (by key).
// It reports whether the key was new.
func (r *Run) Outcome(key string) bool {
	h := Hash(key)
	r.mu.Lock()
	defer r.mu.Unlock()
	if _, ok := r.distinct[h]; ok {
		return false
	}
	if len(r.distinct) >= r.maxDist {
		return false
	}
	r.distinct[h] = struct{}{}
	return true
}

// Sample keeps a case for the evidence file: the first few, plus the first of
// every class.
func (r *Run) Sample(class string, x any) {
	r.mu.Lock()
	defer r.mu.Unlock()
	if r.classes[class] || len(r.res.Samples) >= 12 {
		return
	}
	r.classes[class] = true
	r.res.Samples = append(r.res.Samples, map[string]any{"class": class, "case": x})
}

// Violate records a violation; violations with one fingerprint are merged.
func (r *Run) Violate(v Violation) {
	v.Property = r.res.Property
	fp := v.Fingerprint()
	r.mu.Lock()
	defer r.mu.Unlock()
	if old, ok := r.viol[fp]; ok {
		old.Count++
		return
	}
	v.Count = 1
	r.viol[fp] = &v
}

// Finish writes the shard result.
func (r *Run) Finish() {
	r.mu.Lock()
	defer r.mu.Unlock()
	for h := range r.distinct {
		r.res.Distinct = append(r.res.Distinct, h)
	}
	sort.Slice(r.res.Distinct, func(i, j int) bool { return r.res.Distinct[i] < r.res.Distinct[j] })
	fps := make([]string, 0, len(r.viol))
	for fp := range r.viol {
		fps = append(fps, fp)
	}
	sort.Strings(fps)
	for _, fp := range fps {
		r.res.Violations = append(r.res.Violations, *r.viol[fp])
	}
	r.res.WallS = time.Since(r.start).Seconds()
	b, err := json.Marshal(r.res)
	if err != nil {
		fmt.Fprintln(os.Stderr, "vk: marshal result:", err)
		os.Exit(3)
	}
	if r.out == "" {
		// stand-alone run: print a summary
		fmt.Printf("vk: property=%s tier=%s evals=%d distinct=%d states=%d transitions=%d violations=%d exhaustive=%v caps=%v counters=%v\n",
			r.res.Property, r.res.Tier, r.res.Evaluations, len(r.res.Distinct), r.res.States, r.res.Transitions, len(r.res.Violations), r.res.Exhaustive, r.res.Caps, r.res.Counters)
		for _, v := range r.res.Violations {
			in, _ := json.Marshal(v.Input)
			fmt.Printf("vk: VIOLATION fp=%s clause=%q site=%q class=%q n=%d\n    detail: %s\n    input: %.600s\n", v.Fingerprint(), v.Clause, v.Site, v.Class, v.Count, v.Detail, in)
		}
		return
	}
	tmp := r.out + ".tmp"
	if err := os.WriteFile(tmp, b, 0o644); err != nil {
		fmt.Fprintln(os.Stderr, "vk: write result:", err)
		os.Exit(3)
	}
	if err := os.Rename(tmp, r.out); err != nil {
		fmt.Fprintln(os.Stderr, "vk: rename result:", err)
		os.Exit(3)
	}
}

// ReplayInput loads the "input" member of a replay file into v.
func (r *Run) ReplayInput(v any) error {
	b, err := os.ReadFile(r.Replay)
	if err != nil {
		return err
	}
	var f struct {
		Violation Violation       `json:"violation"`
		Input     json.RawMessage `json:"input"`
	}
	if err := json.Unmarshal(b, &f); err != nil {
		return err
	}
	if len(f.Input) == 0 {
		bb, _ := json.Marshal(f.Violation.Input)
		f.Input = bb
	}
	return json.Unmarshal(f.Input, v)
}
