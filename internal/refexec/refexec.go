// Package refexec is reference model R1 of DESIGN.md: a small, boring GraphQL
// executor over gqlparser's AST that follows the execution section of the
// specification (CollectFields with fragments / type conditions / @skip /
// @include, field merging in document order, argument and variable coercion
// with defaults, CompleteValue with non-null propagation, __typename). It is the
// "single server owning all data" of C01 and, run against a subgraph schema
// with a subgraph resolver, the engine of the subgraph simulator R2.
package refexec

import (
	"encoding/json"
	"fmt"
	"math"
	"math/big"
	"sort"
	"strconv"
	"strings"

	"github.com/vektah/gqlparser/v2/ast"
)

// Obj is an object value; "__typename" holds its runtime type.
type Obj = map[string]any

// Resolver supplies field values: nil, bool, string, int64/int/float64/json.Number,
// Obj, or []any of those.
type Resolver interface {
	Resolve(parentType *ast.Definition, parent Obj, f *ast.Field, args map[string]any, path []any) (any, error)
}

type Error struct {
	Message string `json:"message"`
	Path    []any  `json:"path,omitempty"`
}

type Result struct {
	Data   any     // map[string]any or nil
	Errors []Error // in raise order
}

// JSON renders the result as a GraphQL response (keys sorted; compare as values).
func (r *Result) JSON() []byte {
	m := map[string]any{"data": r.Data}
	if len(r.Errors) > 0 {
		m["errors"] = r.Errors
	}
	b, _ := json.Marshal(m)
	return b
}

type exec struct {
	schema *ast.Schema
	doc    *ast.QueryDocument
	vars   map[string]any
	res    Resolver
	errs   []Error
	// OnField is called for every completed leaf / object position (provenance)
	onField func(path []any, parentType string, parent Obj, f *ast.Field)
}

type raise struct{}

// Options of an execution.
type Options struct {
	OperationName string
	Variables     map[string]any // raw JSON-decoded variables (json.Number for numbers is fine)
	Root          Obj
	OnField       func(path []any, parentType string, parent Obj, f *ast.Field)
}

// Execute runs the (already validated: Definition pointers must be set)
// document against the resolver.
func Execute(schema *ast.Schema, doc *ast.QueryDocument, r Resolver, o Options) *Result {
	var op *ast.OperationDefinition
	for _, d := range doc.Operations {
		if o.OperationName == "" || d.Name == o.OperationName {
			op = d
			break
		}
	}
	if op == nil {
		return &Result{Errors: []Error{{Message: "operation not found"}}}
	}
	e := &exec{schema: schema, doc: doc, res: r, onField: o.OnField}
	vars, err := e.coerceVariables(op, o.Variables)
	if err != nil {
		return &Result{Errors: []Error{{Message: err.Error()}}}
	}
	e.vars = vars
	var rootType *ast.Definition
	switch op.Operation {
	case ast.Query:
		rootType = schema.Query
	case ast.Mutation:
		rootType = schema.Mutation
	case ast.Subscription:
		rootType = schema.Subscription
	}
	if rootType == nil {
		return &Result{Errors: []Error{{Message: "no root type"}}}
	}
	root := o.Root
	if root == nil {
		root = Obj{"__typename": rootType.Name}
	}
	var data any
	func() {
		defer func() {
			if p := recover(); p != nil {
				if _, ok := p.(raise); ok {
					data = nil
					return
				}
				panic(p)
			}
		}()
		data = e.executeSelectionSet(rootType, root, op.SelectionSet, nil)
	}()
	return &Result{Data: data, Errors: e.errs}
}

// ---- variables and input coercion

func (e *exec) coerceVariables(op *ast.OperationDefinition, raw map[string]any) (map[string]any, error) {
	out := map[string]any{}
	for _, vd := range op.VariableDefinitions {
		v, ok := raw[vd.Variable]
		if !ok {
			if vd.DefaultValue != nil {
				out[vd.Variable] = e.coerceInput(vd.Type, LitValue(vd.DefaultValue))
			}
			continue
		}
		out[vd.Variable] = e.coerceInput(vd.Type, v)
	}
	return out, nil
}

// coerceInput applies list coercion and input-object field defaults; it does
// not reject anything (validation is not the executor's job).
func (e *exec) coerceInput(t *ast.Type, v any) any {
	if v == nil {
		return nil
	}
	if t.Elem != nil {
		if l, ok := v.([]any); ok {
			out := make([]any, len(l))
			for i := range l {
				out[i] = e.coerceInput(t.Elem, l[i])
			}
			return out
		}
		return []any{e.coerceInput(t.Elem, v)}
	}
	def := e.schema.Types[t.NamedType]
	if def != nil && def.Kind == ast.InputObject {
		m, ok := v.(map[string]any)
		if !ok {
			return v
		}
		out := map[string]any{}
		for _, fd := range def.Fields {
			fv, has := m[fd.Name]
			if !has {
				if fd.DefaultValue != nil {
					out[fd.Name] = e.coerceInput(fd.Type, LitValue(fd.DefaultValue))
				}
				continue
			}
			out[fd.Name] = e.coerceInput(fd.Type, fv)
		}
		for k, fv := range m {
			if _, ok := out[k]; !ok && def.Fields.ForName(k) == nil {
				out[k] = fv
			}
		}
		return out
	}
	return v
}

func (e *exec) argValue(v *ast.Value) (any, bool) {
	switch v.Kind {
	case ast.Variable:
		val, ok := e.vars[v.Raw]
		return val, ok
	case ast.ListValue:
		out := []any{}
		for _, c := range v.Children {
			cv, _ := e.argValue(c.Value)
			out = append(out, cv)
		}
		return out, true
	case ast.ObjectValue:
		out := map[string]any{}
		for _, c := range v.Children {
			cv, ok := e.argValue(c.Value)
			if ok {
				out[c.Name] = cv
			}
		}
		return out, true
	default:
		return LitValue(v), true
	}
}

// LitValue evaluates a constant GraphQL literal: numbers are kept as exact
// decimal text (json.Number), strings as decoded by the parser.
func LitValue(v *ast.Value) any {
	if v == nil {
		return nil
	}
	switch v.Kind {
	case ast.IntValue, ast.FloatValue:
		return json.Number(v.Raw)
	case ast.StringValue, ast.BlockValue, ast.EnumValue:
		return v.Raw
	case ast.BooleanValue:
		return v.Raw == "true"
	case ast.NullValue:
		return nil
	case ast.ListValue:
		out := []any{}
		for _, c := range v.Children {
			out = append(out, LitValue(c.Value))
		}
		return out
	case ast.ObjectValue:
		out := map[string]any{}
		for _, c := range v.Children {
			out[c.Name] = LitValue(c.Value)
		}
		return out
	}
	return nil
}

func (e *exec) arguments(f *ast.Field) map[string]any {
	out := map[string]any{}
	if f.Definition == nil {
		return out
	}
	for _, ad := range f.Definition.Arguments {
		var val any
		has := false
		if a := f.Arguments.ForName(ad.Name); a != nil {
			val, has = e.argValue(a.Value)
		}
		if !has && ad.DefaultValue != nil {
			val = LitValue(ad.DefaultValue)
			has = true
		}
		if has {
			out[ad.Name] = e.coerceInput(ad.Type, val)
		}
	}
	return out
}

// ---- selection sets

func truthy(v any) bool { b, _ := v.(bool); return b }

func (e *exec) included(dirs ast.DirectiveList) bool {
	if d := dirs.ForName("skip"); d != nil {
		if a := d.Arguments.ForName("if"); a != nil {
			v, _ := e.argValue(a.Value)
			if truthy(v) {
				return false
			}
		}
	}
	if d := dirs.ForName("include"); d != nil {
		if a := d.Arguments.ForName("if"); a != nil {
			v, _ := e.argValue(a.Value)
			if !truthy(v) {
				return false
			}
		}
	}
	return true
}

func (e *exec) typeApplies(obj *ast.Definition, cond string) bool {
	if cond == "" || cond == obj.Name {
		return true
	}
	c := e.schema.Types[cond]
	if c == nil {
		return false
	}
	for _, p := range e.schema.GetPossibleTypes(c) {
		if p.Name == obj.Name {
			return true
		}
	}
	return false
}

type collected struct {
	keys   []string
	fields map[string][]*ast.Field
}

func (e *exec) collect(obj *ast.Definition, set ast.SelectionSet, c *collected, visited map[string]bool) {
	for _, s := range set {
		switch s := s.(type) {
		case *ast.Field:
			if !e.included(s.Directives) {
				continue
			}
			k := s.Alias
			if k == "" {
				k = s.Name
			}
			if _, ok := c.fields[k]; !ok {
				c.keys = append(c.keys, k)
			}
			c.fields[k] = append(c.fields[k], s)
		case *ast.InlineFragment:
			if !e.included(s.Directives) || !e.typeApplies(obj, s.TypeCondition) {
				continue
			}
			e.collect(obj, s.SelectionSet, c, visited)
		case *ast.FragmentSpread:
			if !e.included(s.Directives) || visited[s.Name] {
				continue
			}
			visited[s.Name] = true
			fr := e.doc.Fragments.ForName(s.Name)
			if fr == nil || !e.typeApplies(obj, fr.TypeCondition) {
				continue
			}
			e.collect(obj, fr.SelectionSet, c, visited)
		}
	}
}

func appendPath(p []any, x any) []any {
	out := make([]any, len(p)+1)
	copy(out, p)
	out[len(p)] = x
	return out
}

func (e *exec) executeSelectionSet(objType *ast.Definition, obj Obj, set ast.SelectionSet, path []any) map[string]any {
	c := &collected{fields: map[string][]*ast.Field{}}
	e.collect(objType, set, c, map[string]bool{})
	out := map[string]any{}
	for _, k := range c.keys {
		fs := c.fields[k]
		f := fs[0]
		fp := appendPath(path, k)
		if f.Name == "__typename" {
			out[k] = objType.Name
			continue
		}
		fd := objType.Fields.ForName(f.Name)
		if fd == nil {
			continue
		}
		if f.Definition == nil {
			f.Definition = fd
		}
		args := e.arguments(f)
		if e.onField != nil {
			e.onField(fp, objType.Name, obj, f)
		}
		val, err := e.res.Resolve(objType, obj, f, args, fp)
		if err != nil {
			e.errs = append(e.errs, Error{Message: err.Error(), Path: fp})
			val = nil
		}
		out[k] = e.completeCatch(fd.Type, fs, val, fp)
	}
	return out
}

// completeCatch completes a value and catches a propagating null at a
// nullable position.
func (e *exec) completeCatch(t *ast.Type, fs []*ast.Field, val any, path []any) (out any) {
	if !t.NonNull {
		defer func() {
			if p := recover(); p != nil {
				if _, ok := p.(raise); ok {
					out = nil
					return
				}
				panic(p)
			}
		}()
	}
	return e.complete(t, fs, val, path)
}

func (e *exec) complete(t *ast.Type, fs []*ast.Field, val any, path []any) any {
	if isNil(val) {
		if t.NonNull {
			// a resolver error already recorded at this path counts as the field error
			if !e.hasErrorAt(path) {
				e.errs = append(e.errs, Error{Message: "Cannot return null for non-nullable field", Path: path})
			}
			panic(raise{})
		}
		return nil
	}
	if t.Elem != nil {
		l, ok := val.([]any)
		if !ok {
			e.errs = append(e.errs, Error{Message: "expected list", Path: path})
			if t.NonNull {
				panic(raise{})
			}
			return nil
		}
		out := make([]any, len(l))
		for i := range l {
			out[i] = e.completeCatch(t.Elem, fs, l[i], appendPath(path, i))
		}
		return out
	}
	def := e.schema.Types[t.NamedType]
	if def == nil {
		return val
	}
	switch def.Kind {
	case ast.Object, ast.Interface, ast.Union:
		o, ok := val.(Obj)
		if !ok {
			e.errs = append(e.errs, Error{Message: "expected object", Path: path})
			if t.NonNull {
				panic(raise{})
			}
			return nil
		}
		rt := def
		if def.Kind != ast.Object {
			tn, _ := o["__typename"].(string)
			rt = e.schema.Types[tn]
			if rt == nil {
				e.errs = append(e.errs, Error{Message: "cannot resolve runtime type", Path: path})
				if t.NonNull {
					panic(raise{})
				}
				return nil
			}
		}
		var sub ast.SelectionSet
		for _, f := range fs {
			sub = append(sub, f.SelectionSet...)
		}
		return e.executeSelectionSet(rt, o, sub, path)
	default:
		return normScalar(val)
	}
}

func (e *exec) hasErrorAt(path []any) bool {
	for _, er := range e.errs {
		if samePath(er.Path, path) {
			return true
		}
	}
	return false
}

func samePath(a, b []any) bool {
	if len(a) != len(b) {
		return false
	}
	for i := range a {
		if fmt.Sprint(a[i]) != fmt.Sprint(b[i]) {
			return false
		}
	}
	return true
}

func isNil(v any) bool {
	if v == nil {
		return true
	}
	if o, ok := v.(Obj); ok && o == nil {
		return true
	}
	return false
}

func normScalar(v any) any {
	switch x := v.(type) {
	case int:
		return int64(x)
	case json.Number:
		if i, err := x.Int64(); err == nil {
			return i
		}
		f, _ := x.Float64()
		return f
	}
	return v
}

// ---- canonical text of values (argument echoing, comparisons)

// Canon renders any JSON-like value canonically: object keys sorted, integral
// numbers without fraction or exponent.
func Canon(v any) string {
	var sb strings.Builder
	canon(&sb, v)
	return sb.String()
}

func canon(sb *strings.Builder, v any) {
	switch x := v.(type) {
	case nil:
		sb.WriteString("null")
	case bool:
		sb.WriteString(strconv.FormatBool(x))
	case string:
		sb.WriteString(strconv.Quote(x))
	case int:
		sb.WriteString(strconv.Itoa(x))
	case int64:
		sb.WriteString(strconv.FormatInt(x, 10))
	case float64:
		if x == math.Trunc(x) && math.Abs(x) < 1e15 {
			sb.WriteString(strconv.FormatInt(int64(x), 10))
		} else if r, ok := new(big.Rat).SetString(strconv.FormatFloat(x, 'g', -1, 64)); ok {
			// the same exact form as a json.Number with that decimal text
			sb.WriteString(r.RatString())
		} else {
			sb.WriteString(strconv.FormatFloat(x, 'g', -1, 64))
		}
	case json.Number:
		// exact decimal comparison
		if r, ok := new(big.Rat).SetString(string(x)); ok {
			if r.IsInt() {
				sb.WriteString(r.Num().String())
			} else {
				sb.WriteString(r.RatString())
			}
		} else {
			sb.WriteString(string(x))
		}
	case []any:
		sb.WriteByte('[')
		for i, e := range x {
			if i > 0 {
				sb.WriteByte(',')
			}
			canon(sb, e)
		}
		sb.WriteByte(']')
	case map[string]any:
		keys := make([]string, 0, len(x))
		for k := range x {
			keys = append(keys, k)
		}
		sort.Strings(keys)
		sb.WriteByte('{')
		for i, k := range keys {
			if i > 0 {
				sb.WriteByte(',')
			}
			sb.WriteString(strconv.Quote(k))
			sb.WriteByte(':')
			canon(sb, x[k])
		}
		sb.WriteByte('}')
	case []Error:
		sb.WriteString(fmt.Sprint(len(x)))
	default:
		b, _ := json.Marshal(x)
		var y any
		if json.Unmarshal(b, &y) == nil {
			canon(sb, y)
		} else {
			sb.WriteString(fmt.Sprint(x))
		}
	}
}

// CanonJSON parses JSON bytes (numbers kept exact) and renders them canonically.
func CanonJSON(b []byte) (string, error) {
	d := json.NewDecoder(strings.NewReader(string(b)))
	d.UseNumber()
	var v any
	if err := d.Decode(&v); err != nil {
		return "", err
	}
	if d.More() {
		return "", fmt.Errorf("trailing data after JSON value")
	}
	return Canon(v), nil
}

// DecodeObject parses a JSON object keeping numbers exact.
func DecodeObject(b []byte) (map[string]any, error) {
	d := json.NewDecoder(strings.NewReader(string(b)))
	d.UseNumber()
	var v map[string]any
	if err := d.Decode(&v); err != nil {
		return nil, err
	}
	if d.More() {
		return nil, fmt.Errorf("trailing data after JSON value")
	}
	return v, nil
}
