package opgen

import (
	"fmt"
	"strings"

	gast "github.com/vektah/gqlparser/v2/ast"
)

// Deco is one validity-preserving decoration instance of a document: applied to
// a clone (located through IDs) it yields another valid document.
type Deco struct {
	Kind    string // decoration family
	Variant string // which variant at that target
	Target  int    // ID of the node it is anchored at
	Apply   func(d *Doc, ix *Index)
}

// Key orders decoration instances (used to enumerate unordered pairs once).
func (e Deco) Key() string { return fmt.Sprintf("%s/%08d/%s", e.Kind, e.Target, e.Variant) }

// Main returns the operation that is executed: the one named OpName, else the first.
func (d *Doc) Main() *Operation {
	if d.OpName != "" {
		for _, o := range d.Ops {
			if o.Name == d.OpName {
				return o
			}
		}
	}
	return d.Ops[0]
}

func mainOf(d *Doc) *Operation { return d.Main() }

// MainView is a document that shares the executed operation and all fragments
// with d and leaves the other operations out (the part of d the server looks at).
func (d *Doc) MainView() *Doc {
	return &Doc{Ops: []*Operation{d.Main()}, Frags: d.Frags, OpName: d.OpName, Next: d.Next}
}

func stripNonNull(t string) string { return strings.TrimSuffix(t, "!") }

func fieldSig(f *gast.FieldDefinition) string {
	var b strings.Builder
	b.WriteString(f.Type.String())
	for _, a := range f.Arguments {
		b.WriteString("," + a.Name + ":" + a.Type.String())
	}
	return b.String()
}

// wrapTypes lists the type conditions X such that `... on X { sel }` is valid
// where sel is valid on parent ("" = no type condition, only when allowEmpty).
func (s *Schema) wrapTypes(parent string, sel *Selection, allowEmpty bool) []string {
	var out []string
	if allowEmpty {
		out = append(out, "")
	}
	out = append(out, parent)
	if sel.Kind == KInline && sel.TypeCond == "" {
		return out
	}
	for _, y := range s.Composites() {
		if y == parent || !s.Overlap(parent, y) {
			continue
		}
		switch sel.Kind {
		case KField:
			if sel.Name == "__typename" {
				out = append(out, y)
				continue
			}
			pf, yf := s.Field(parent, sel.Name), s.Field(y, sel.Name)
			if pf != nil && yf != nil && fieldSig(pf) == fieldSig(yf) {
				out = append(out, y)
			}
		case KInline:
			if s.Overlap(y, sel.TypeCond) {
				out = append(out, y)
			}
		}
	}
	return out
}

var skipDirective = map[string]bool{"deprecated": true, "specifiedBy": true, "defer": true, "stream": true, "oneOf": true}

// directiveUsages returns the valid usages of a directive (required arguments
// only; all arguments when there are optional ones; literal true/false for
// skip / include).
func (s *Schema) directiveUsages(dd *gast.DirectiveDefinition) []*Directive {
	if dd.Name == "skip" || dd.Name == "include" {
		return []*Directive{NewDir(dd.Name, NewArg("if", Bool(false))), NewDir(dd.Name, NewArg("if", Bool(true)))}
	}
	out := []*Directive{NewDir(dd.Name, s.RequiredArgs(dd.Arguments)...)}
	var all []*Arg
	for _, a := range dd.Arguments {
		all = append(all, NewArg(a.Name, s.Witnesses(a.Type)[0].Fresh()))
	}
	if len(all) != len(out[0].Args) {
		out = append(out, NewDir(dd.Name, all...))
	}
	return out
}

func freshDir(x *Directive) *Directive {
	c := &Directive{Name: x.Name}
	for _, a := range x.Args {
		c.Args = append(c.Args, NewArg(a.Name, a.Value.Fresh()))
	}
	return c
}

func hasDir(ds []*Directive, name string) bool {
	for _, x := range ds {
		if x.Name == name {
			return true
		}
	}
	return false
}

func replaceSel(set *[]*Selection, id int, with ...*Selection) {
	out := make([]*Selection, 0, len(*set)+len(with))
	for _, x := range *set {
		if x.ID == id {
			out = append(out, with...)
		} else {
			out = append(out, x)
		}
	}
	*set = out
}

func insertAfter(set *[]*Selection, id int, add ...*Selection) {
	out := make([]*Selection, 0, len(*set)+len(add))
	for _, x := range *set {
		out = append(out, x)
		if x.ID == id {
			out = append(out, add...)
		}
	}
	*set = out
}

// Decorations enumerates every decoration instance applicable to the valid document d.
func Decorations(s *Schema, d *Doc) []Deco {
	var out []Deco
	add := func(kind, variant string, target int, f func(d *Doc, ix *Index)) {
		out = append(out, Deco{Kind: kind, Variant: variant, Target: target, Apply: f})
	}
	single := len(d.Ops) == 1
	subRoot := ""
	if r := s.Root("subscription"); r != nil {
		subRoot = r.Name
	}
	// fields that merge with an identical twin (and everything below them): their arguments must stay identical
	twinned := map[int]bool{}
	{
		var mark func(sel *Selection)
		mark = func(sel *Selection) {
			twinned[sel.ID] = true
			for _, x := range sel.Sel {
				mark(x)
			}
		}
		var scan func(ss []*Selection)
		scan = func(ss []*Selection) {
			for i, a := range ss {
				for j, b := range ss {
					if i != j && a.Kind == KField && b.Kind == KField && a.ResponseName() == b.ResponseName() {
						mark(a)
					}
				}
				scan(a.Sel)
			}
		}
		for _, o := range d.Ops {
			scan(o.Sel)
		}
		for _, f := range d.Frags {
			scan(f.Sel)
		}
	}
	var curField *Selection
	Walk(s, d.MainView(), &Visitor{
		Op: func(c *OpCtx) {
			if !single || c.Op.Name != "" {
				return
			}
			id := c.Op.ID
			add("opname", "selected", id, func(d *Doc, ix *Index) { ix.Op[id].Name = "Q1"; d.OpName = "Q1" })
			add("opname", "unselected", id, func(d *Doc, ix *Index) { ix.Op[id].Name = "Q1" })
			other := func() *Operation {
				return &Operation{Kind: "query", Name: "Q2", Sel: []*Selection{NewField("__typename", nil)}}
			}
			add("extra-op", "after", id, func(d *Doc, ix *Index) {
				ix.Op[id].Name = "Q1"
				d.OpName = "Q1"
				d.Ops = append(d.Ops, other())
			})
			add("extra-op", "before", id, func(d *Doc, ix *Index) {
				ix.Op[id].Name = "Q1"
				d.OpName = "Q1"
				d.Ops = append([]*Operation{other()}, d.Ops...)
			})
		},
		Field: func(c *FieldCtx) {
			id := c.Sel.ID
			curField = c.Sel
			if c.Sel.Alias == "" {
				add("alias", "", id, func(d *Doc, ix *Index) { ix.Sel[id].Alias = fmt.Sprintf("al%d", id) })
			}
			if c.Def == nil || twinned[id] {
				return
			}
			for _, ad := range c.Def.Arguments {
				present := false
				for _, a := range c.Sel.Args {
					if a.Name == ad.Name {
						present = true
					}
				}
				if present {
					continue
				}
				for wi, w := range s.Witnesses(ad.Type) {
					name, w := ad.Name, w
					add("optarg", fmt.Sprintf("%s#%d", name, wi), id, func(d *Doc, ix *Index) {
						f := ix.Sel[id]
						f.Args = append(f.Args, NewArg(name, w.Fresh()))
					})
				}
			}
		},
		Value: func(c *ValueCtx) {
			if c.InDefault || c.V.UsesVar() || c.OwnerKind == "variable" {
				return
			}
			if c.OwnerKind == "field" && curField != nil && twinned[curField.ID] {
				return
			}
			id := c.V.ID
			name := fmt.Sprintf("v%d", id)
			typ := c.Type.String()
			lit := c.V
			mk := func(variant, vtype string, withDefault bool) {
				add("var", c.Pos+"/"+variant, id, func(d *Doc, ix *Index) {
					slot := ix.Val[id]
					vd := &VarDef{Name: name, Type: vtype, Witness: lit.Fresh()}
					if withDefault {
						vd.Default = lit.Fresh()
					}
					*slot = Var(name)
					op := mainOf(d)
					op.Vars = append(op.Vars, vd)
				})
			}
			mk("exact", typ, false)
			if c.Pos == "arg" {
				if lit.K != VNull {
					mk("exact-default", typ, true)
				}
				if c.Type.NonNull {
					mk("nullable-with-default", stripNonNull(typ), true)
					if c.LocDefault {
						mk("nullable-location-default", stripNonNull(typ), false)
					}
				} else if lit.K != VNull {
					mk("stricter", typ+"!", false)
				}
			}
		},
		DirHost: func(c *DirHostCtx) {
			host := c.HostID
			for _, name := range s.DirectiveNames() {
				dd := s.S.Directives[name]
				if skipDirective[name] || !HasLocation(dd, c.Loc) {
					continue
				}
				if hasDir(c.Dirs, name) && !dd.IsRepeatable {
					continue
				}
				for ui, u := range s.directiveUsages(dd) {
					u := u
					add("dir", fmt.Sprintf("%s#%d", name, ui), host, func(d *Doc, ix *Index) {
						l := ix.Dirs[host]
						*l = append(*l, freshDir(u))
					})
					if dd.IsRepeatable && ui == 0 {
						add("dir", fmt.Sprintf("%s#twice", name), host, func(d *Doc, ix *Index) {
							l := ix.Dirs[host]
							*l = append(*l, freshDir(u), freshDir(u))
						})
					}
				}
			}
		},
		Set: func(c *SetCtx) {
			owner := c.OwnerID
			for _, sel := range c.Set {
				if sel.Kind == KSpread {
					continue
				}
				id := sel.ID
				for _, x := range s.wrapTypes(c.Parent, sel, true) {
					x := x
					add("inline-wrap", "on:"+x, id, func(d *Doc, ix *Index) {
						set := ix.Set[owner]
						replaceSel(set, id, NewInline(x, ix.Sel[id]))
					})
				}
				for _, x := range s.wrapTypes(c.Parent, sel, false) {
					x := x
					add("frag-wrap", "on:"+x, id, func(d *Doc, ix *Index) {
						fname := d.FreshName("F")
						set := ix.Set[owner]
						inner := ix.Sel[id]
						replaceSel(set, id, NewSpread(fname))
						d.Frags = append(d.Frags, &Fragment{Name: fname, TypeCond: x, Sel: []*Selection{inner}})
					})
				}
				// (not at a subscription root: a later alias on one of the two copies would make two root fields)
				if sel.Kind == KField && c.RootKind != "subscription" && c.Parent != subRoot {
					add("dup", "", id, func(d *Doc, ix *Index) {
						set := ix.Set[owner]
						insertAfter(set, id, FreshSel(ix.Sel[id]))
					})
				}
			}
		},
	})
	return out
}

// Decorate applies one decoration to a clone of d.
func Decorate(d *Doc, e Deco) *Doc {
	c := d.Clone()
	e.Apply(c, c.Index())
	c.Assign()
	c.Decorated = d.Decorated + 1
	return c
}
