// Package opgen is a small typed generator of GraphQL executable documents:
// its own document AST (every node carries an ID that survives cloning, so
// that decorations, rule-targeted mutations and shrinking can address nodes),
// a printer, a type-directed walker over a gqlparser schema, an exhaustive
// enumerator of valid-by-construction selection trees below explicit size
// bounds, a menu of validity-preserving decorations, the rule-targeted mutation
// operators of DESIGN.md appendix A.5 and a structured shrinker.
//
// Nothing in here is random; every enumeration is deterministic and ordered
// simplest-first.
package opgen

import (
	"strconv"
	"strings"
)

// SelKind distinguishes the three kinds of selections.
type SelKind uint8

const (
	KField SelKind = iota
	KInline
	KSpread
)

// VKind is the syntactic kind of a value literal.
type VKind uint8

const (
	VInt VKind = iota
	VFloat
	VString
	VBool
	VNull
	VEnum
	VList
	VObject
	VVar
)

func (k VKind) String() string {
	return [...]string{"Int", "Float", "String", "Boolean", "null", "Enum", "List", "Object", "Variable"}[k]
}

type Value struct {
	ID     int
	K      VKind
	S      string // raw text of Int/Float/Bool/Enum, content of String, name of Variable
	Items  []*Value
	Fields []*ObjField
}

type ObjField struct {
	ID    int
	Name  string
	Value *Value
}

type Arg struct {
	ID    int
	Name  string
	Value *Value
}

type Directive struct {
	ID   int
	Name string
	Args []*Arg
}

type VarDef struct {
	ID         int
	Name       string
	Type       string // printed type, e.g. "[Int!]"
	Default    *Value
	Directives []*Directive
	Witness    *Value // a literal of that type (never printed); lets the shrinker replace uses by a literal
}

type Selection struct {
	ID         int
	Kind       SelKind
	Alias      string // field
	Name       string // field name / spread fragment name
	TypeCond   string // inline fragment ("" = none)
	Args       []*Arg
	Directives []*Directive
	Sel        []*Selection
}

type Fragment struct {
	ID         int
	Name       string
	TypeCond   string
	Directives []*Directive
	Sel        []*Selection
}

type Operation struct {
	ID         int
	Kind       string // query | mutation | subscription
	Name       string
	Vars       []*VarDef
	Directives []*Directive
	Sel        []*Selection
}

// Doc is an executable document plus the operation name handed to the server.
type Doc struct {
	Ops    []*Operation
	Frags  []*Fragment
	OpName string
	Next   int // last ID handed out

	Decorated int // number of decorations applied to the base document
}

// ---------------------------------------------------------------- constructors

func Int(n int) *Value      { return &Value{K: VInt, S: strconv.Itoa(n)} }
func Float(s string) *Value { return &Value{K: VFloat, S: s} }
func Str(s string) *Value   { return &Value{K: VString, S: s} }
func Bool(b bool) *Value    { return &Value{K: VBool, S: strconv.FormatBool(b)} }
func Null() *Value          { return &Value{K: VNull} }
func Enum(s string) *Value  { return &Value{K: VEnum, S: s} }
func Var(name string) *Value {
	return &Value{K: VVar, S: name}
}
func List(items ...*Value) *Value { return &Value{K: VList, Items: items} }
func Obj(kv ...any) *Value {
	v := &Value{K: VObject}
	for i := 0; i+1 < len(kv); i += 2 {
		v.Fields = append(v.Fields, &ObjField{Name: kv[i].(string), Value: kv[i+1].(*Value)})
	}
	return v
}

func NewField(name string, args []*Arg, sel ...*Selection) *Selection {
	return &Selection{Kind: KField, Name: name, Args: args, Sel: sel}
}
func NewInline(typeCond string, sel ...*Selection) *Selection {
	return &Selection{Kind: KInline, TypeCond: typeCond, Sel: sel}
}
func NewSpread(name string) *Selection { return &Selection{Kind: KSpread, Name: name} }
func NewDir(name string, args ...*Arg) *Directive {
	return &Directive{Name: name, Args: args}
}
func NewArg(name string, v *Value) *Arg { return &Arg{Name: name, Value: v} }

// ResponseName of a field selection.
func (s *Selection) ResponseName() string {
	if s.Alias != "" {
		return s.Alias
	}
	return s.Name
}

// ---------------------------------------------------------------- IDs

// Assign gives an ID to every node that has none (ID 0), in document order.
func (d *Doc) Assign() *Doc {
	id := func(p *int) {
		if *p == 0 {
			d.Next++
			*p = d.Next
		}
	}
	var val func(v *Value)
	val = func(v *Value) {
		if v == nil {
			return
		}
		id(&v.ID)
		for _, it := range v.Items {
			val(it)
		}
		for _, f := range v.Fields {
			id(&f.ID)
			val(f.Value)
		}
	}
	args := func(as []*Arg) {
		for _, a := range as {
			id(&a.ID)
			val(a.Value)
		}
	}
	dirs := func(ds []*Directive) {
		for _, x := range ds {
			id(&x.ID)
			args(x.Args)
		}
	}
	var sels func(ss []*Selection)
	sels = func(ss []*Selection) {
		for _, s := range ss {
			id(&s.ID)
			args(s.Args)
			dirs(s.Directives)
			sels(s.Sel)
		}
	}
	for _, o := range d.Ops {
		id(&o.ID)
		for _, v := range o.Vars {
			id(&v.ID)
			val(v.Default)
			dirs(v.Directives)
		}
		dirs(o.Directives)
		sels(o.Sel)
	}
	for _, f := range d.Frags {
		id(&f.ID)
		dirs(f.Directives)
		sels(f.Sel)
	}
	return d
}

// ---------------------------------------------------------------- clone

func (v *Value) Clone() *Value {
	if v == nil {
		return nil
	}
	c := &Value{ID: v.ID, K: v.K, S: v.S}
	if v.Items != nil {
		c.Items = make([]*Value, len(v.Items))
		for i, it := range v.Items {
			c.Items[i] = it.Clone()
		}
	}
	if v.Fields != nil {
		c.Fields = make([]*ObjField, len(v.Fields))
		for i, f := range v.Fields {
			c.Fields[i] = &ObjField{ID: f.ID, Name: f.Name, Value: f.Value.Clone()}
		}
	}
	return c
}

// Fresh returns a deep copy without IDs (for inserting a witness a second time).
func (v *Value) Fresh() *Value {
	c := v.Clone()
	var z func(v *Value)
	z = func(v *Value) {
		if v == nil {
			return
		}
		v.ID = 0
		for _, it := range v.Items {
			z(it)
		}
		for _, f := range v.Fields {
			f.ID = 0
			z(f.Value)
		}
	}
	z(c)
	return c
}

func cloneArgs(as []*Arg) []*Arg {
	if as == nil {
		return nil
	}
	c := make([]*Arg, len(as))
	for i, a := range as {
		c[i] = &Arg{ID: a.ID, Name: a.Name, Value: a.Value.Clone()}
	}
	return c
}

func cloneDirs(ds []*Directive) []*Directive {
	if ds == nil {
		return nil
	}
	c := make([]*Directive, len(ds))
	for i, x := range ds {
		c[i] = &Directive{ID: x.ID, Name: x.Name, Args: cloneArgs(x.Args)}
	}
	return c
}

func CloneSels(ss []*Selection) []*Selection {
	if ss == nil {
		return nil
	}
	c := make([]*Selection, len(ss))
	for i, s := range ss {
		c[i] = s.Clone()
	}
	return c
}

func (s *Selection) Clone() *Selection {
	return &Selection{ID: s.ID, Kind: s.Kind, Alias: s.Alias, Name: s.Name, TypeCond: s.TypeCond,
		Args: cloneArgs(s.Args), Directives: cloneDirs(s.Directives), Sel: CloneSels(s.Sel)}
}

// FreshSel returns a deep copy of a selection without IDs.
func FreshSel(s *Selection) *Selection {
	c := s.Clone()
	d := &Doc{Ops: []*Operation{{Sel: []*Selection{c}}}}
	zeroIDs(d)
	return c
}

func zeroIDs(d *Doc) {
	var val func(v *Value)
	val = func(v *Value) {
		if v == nil {
			return
		}
		v.ID = 0
		for _, it := range v.Items {
			val(it)
		}
		for _, f := range v.Fields {
			f.ID = 0
			val(f.Value)
		}
	}
	args := func(as []*Arg) {
		for _, a := range as {
			a.ID = 0
			val(a.Value)
		}
	}
	dirs := func(ds []*Directive) {
		for _, x := range ds {
			x.ID = 0
			args(x.Args)
		}
	}
	var sels func(ss []*Selection)
	sels = func(ss []*Selection) {
		for _, s := range ss {
			s.ID = 0
			args(s.Args)
			dirs(s.Directives)
			sels(s.Sel)
		}
	}
	for _, o := range d.Ops {
		o.ID = 0
		for _, v := range o.Vars {
			v.ID = 0
			val(v.Default)
			dirs(v.Directives)
		}
		dirs(o.Directives)
		sels(o.Sel)
	}
	for _, f := range d.Frags {
		f.ID = 0
		dirs(f.Directives)
		sels(f.Sel)
	}
}

func (d *Doc) Clone() *Doc {
	c := &Doc{OpName: d.OpName, Next: d.Next, Decorated: d.Decorated}
	for _, o := range d.Ops {
		co := &Operation{ID: o.ID, Kind: o.Kind, Name: o.Name, Directives: cloneDirs(o.Directives), Sel: CloneSels(o.Sel)}
		for _, v := range o.Vars {
			co.Vars = append(co.Vars, &VarDef{ID: v.ID, Name: v.Name, Type: v.Type, Default: v.Default.Clone(),
				Directives: cloneDirs(v.Directives), Witness: v.Witness.Clone()})
		}
		c.Ops = append(c.Ops, co)
	}
	for _, f := range d.Frags {
		c.Frags = append(c.Frags, &Fragment{ID: f.ID, Name: f.Name, TypeCond: f.TypeCond, Directives: cloneDirs(f.Directives), Sel: CloneSels(f.Sel)})
	}
	return c
}

// ---------------------------------------------------------------- printer

func (v *Value) write(b *strings.Builder) {
	switch v.K {
	case VInt, VFloat, VBool, VEnum:
		b.WriteString(v.S)
	case VString:
		b.WriteString(strconv.Quote(v.S))
	case VNull:
		b.WriteString("null")
	case VVar:
		b.WriteByte('$')
		b.WriteString(v.S)
	case VList:
		b.WriteByte('[')
		for i, it := range v.Items {
			if i > 0 {
				b.WriteString(", ")
			}
			it.write(b)
		}
		b.WriteByte(']')
	case VObject:
		b.WriteByte('{')
		for i, f := range v.Fields {
			if i > 0 {
				b.WriteString(", ")
			}
			b.WriteString(f.Name)
			b.WriteString(": ")
			f.Value.write(b)
		}
		b.WriteByte('}')
	}
}

func (v *Value) String() string {
	var b strings.Builder
	v.write(&b)
	return b.String()
}

func writeArgs(b *strings.Builder, as []*Arg) {
	if len(as) == 0 {
		return
	}
	b.WriteByte('(')
	for i, a := range as {
		if i > 0 {
			b.WriteString(", ")
		}
		b.WriteString(a.Name)
		b.WriteString(": ")
		a.Value.write(b)
	}
	b.WriteByte(')')
}

func writeDirs(b *strings.Builder, ds []*Directive) {
	for _, d := range ds {
		b.WriteString(" @")
		b.WriteString(d.Name)
		writeArgs(b, d.Args)
	}
}

func writeSels(b *strings.Builder, ss []*Selection) {
	b.WriteString("{ ")
	for _, s := range ss {
		switch s.Kind {
		case KField:
			if s.Alias != "" {
				b.WriteString(s.Alias)
				b.WriteString(": ")
			}
			b.WriteString(s.Name)
			writeArgs(b, s.Args)
			writeDirs(b, s.Directives)
			if s.Sel != nil {
				b.WriteByte(' ')
				writeSels(b, s.Sel)
			}
		case KInline:
			b.WriteString("...")
			if s.TypeCond != "" {
				b.WriteString(" on ")
				b.WriteString(s.TypeCond)
			}
			writeDirs(b, s.Directives)
			b.WriteByte(' ')
			writeSels(b, s.Sel)
		case KSpread:
			b.WriteString("...")
			b.WriteString(s.Name)
			writeDirs(b, s.Directives)
		}
		b.WriteByte(' ')
	}
	b.WriteByte('}')
}

// String prints the document (operations first, then fragments).
func (d *Doc) String() string {
	var b strings.Builder
	for i, o := range d.Ops {
		if i > 0 {
			b.WriteByte(' ')
		}
		short := o.Kind == "query" && o.Name == "" && len(o.Vars) == 0 && len(o.Directives) == 0
		if !short {
			b.WriteString(o.Kind)
			if o.Name != "" {
				b.WriteByte(' ')
				b.WriteString(o.Name)
			}
			if len(o.Vars) > 0 {
				b.WriteByte('(')
				for j, v := range o.Vars {
					if j > 0 {
						b.WriteString(", ")
					}
					b.WriteByte('$')
					b.WriteString(v.Name)
					b.WriteString(": ")
					b.WriteString(v.Type)
					if v.Default != nil {
						b.WriteString(" = ")
						v.Default.write(&b)
					}
					writeDirs(&b, v.Directives)
				}
				b.WriteByte(')')
			}
			writeDirs(&b, o.Directives)
			b.WriteByte(' ')
		}
		writeSels(&b, o.Sel)
	}
	for _, f := range d.Frags {
		b.WriteString(" fragment ")
		b.WriteString(f.Name)
		b.WriteString(" on ")
		b.WriteString(f.TypeCond)
		writeDirs(&b, f.Directives)
		b.WriteByte(' ')
		writeSels(&b, f.Sel)
	}
	return b.String()
}

// ---------------------------------------------------------------- index

// Index locates nodes of one document by ID.
type Index struct {
	Sel     map[int]*Selection
	SelIn   map[int]*[]*Selection // selection ID -> the set that contains it
	Set     map[int]*[]*Selection // owner ID (operation, fragment, field, inline fragment) -> its selection set
	Dirs    map[int]*[]*Directive // host ID -> its directive list
	Dir     map[int]*Directive
	DirIn   map[int]*[]*Directive // directive ID -> list that contains it
	Args    map[int]*[]*Arg       // owner ID (field selection or directive) -> its arguments
	Arg     map[int]*Arg
	ArgIn   map[int]*[]*Arg
	Val     map[int]**Value // value ID -> the slot that holds it
	ObjF    map[int]*ObjField
	ObjFIn  map[int]*Value // object field ID -> containing object value
	VarDef  map[int]*VarDef
	VarOp   map[int]*Operation // vardef ID -> operation
	Op      map[int]*Operation
	Frag    map[int]*Fragment
	FragBy  map[string]*Fragment
	Parent  map[int]int // node ID -> ID of the enclosing node (0 for operations / fragments)
	present map[int]bool
}

func (ix *Index) Has(id int) bool { return ix.present[id] }

func (d *Doc) Index() *Index {
	ix := &Index{Sel: map[int]*Selection{}, SelIn: map[int]*[]*Selection{}, Set: map[int]*[]*Selection{}, Dirs: map[int]*[]*Directive{},
		Dir: map[int]*Directive{}, DirIn: map[int]*[]*Directive{}, Args: map[int]*[]*Arg{}, Arg: map[int]*Arg{}, ArgIn: map[int]*[]*Arg{},
		Val: map[int]**Value{}, ObjF: map[int]*ObjField{}, ObjFIn: map[int]*Value{}, VarDef: map[int]*VarDef{}, VarOp: map[int]*Operation{},
		Op: map[int]*Operation{}, Frag: map[int]*Fragment{}, FragBy: map[string]*Fragment{}, Parent: map[int]int{}, present: map[int]bool{}}
	var val func(slot **Value, parent int)
	val = func(slot **Value, parent int) {
		v := *slot
		if v == nil {
			return
		}
		ix.Val[v.ID] = slot
		ix.Parent[v.ID] = parent
		ix.present[v.ID] = true
		for i := range v.Items {
			val(&v.Items[i], v.ID)
		}
		for _, f := range v.Fields {
			ix.ObjF[f.ID] = f
			ix.ObjFIn[f.ID] = v
			ix.Parent[f.ID] = v.ID
			ix.present[f.ID] = true
			val(&f.Value, f.ID)
		}
	}
	args := func(owner int, as *[]*Arg) {
		ix.Args[owner] = as
		for _, a := range *as {
			ix.Arg[a.ID] = a
			ix.ArgIn[a.ID] = as
			ix.Parent[a.ID] = owner
			ix.present[a.ID] = true
			val(&a.Value, a.ID)
		}
	}
	dirs := func(host int, ds *[]*Directive) {
		ix.Dirs[host] = ds
		for _, x := range *ds {
			ix.Dir[x.ID] = x
			ix.DirIn[x.ID] = ds
			ix.Parent[x.ID] = host
			ix.present[x.ID] = true
			args(x.ID, &x.Args)
		}
	}
	var sels func(owner int, ss *[]*Selection)
	sels = func(owner int, ss *[]*Selection) {
		ix.Set[owner] = ss
		for _, s := range *ss {
			ix.Sel[s.ID] = s
			ix.SelIn[s.ID] = ss
			ix.Parent[s.ID] = owner
			ix.present[s.ID] = true
			if s.Kind == KField {
				args(s.ID, &s.Args)
			}
			dirs(s.ID, &s.Directives)
			if s.Kind != KSpread {
				sels(s.ID, &s.Sel)
			}
		}
	}
	for _, o := range d.Ops {
		ix.Op[o.ID] = o
		ix.present[o.ID] = true
		for _, v := range o.Vars {
			ix.VarDef[v.ID] = v
			ix.VarOp[v.ID] = o
			ix.Parent[v.ID] = o.ID
			ix.present[v.ID] = true
			val(&v.Default, v.ID)
			dirs(v.ID, &v.Directives)
		}
		dirs(o.ID, &o.Directives)
		sels(o.ID, &o.Sel)
	}
	for _, f := range d.Frags {
		ix.Frag[f.ID] = f
		ix.FragBy[f.Name] = f
		ix.present[f.ID] = true
		dirs(f.ID, &f.Directives)
		sels(f.ID, &f.Sel)
	}
	return ix
}

// ---------------------------------------------------------------- small helpers

// UsesVar reports whether the value mentions any variable.
func (v *Value) UsesVar() bool {
	if v == nil {
		return false
	}
	if v.K == VVar {
		return true
	}
	for _, it := range v.Items {
		if it.UsesVar() {
			return true
		}
	}
	for _, f := range v.Fields {
		if f.Value.UsesVar() {
			return true
		}
	}
	return false
}

func (d *Doc) frag(name string) *Fragment {
	for _, f := range d.Frags {
		if f.Name == name {
			return f
		}
	}
	return nil
}

// FreshName returns prefix+N for the smallest N >= 1 not used as a variable,
// fragment or operation name.
func (d *Doc) FreshName(prefix string) string {
	for n := 1; ; n++ {
		name := prefix + strconv.Itoa(n)
		used := false
		for _, o := range d.Ops {
			if o.Name == name {
				used = true
			}
			for _, v := range o.Vars {
				if v.Name == name {
					used = true
				}
			}
		}
		for _, f := range d.Frags {
			if f.Name == name {
				used = true
			}
		}
		if !used {
			return name
		}
	}
}

// usedVars collects the variable names used in the selections reachable from
// the operation (through fragments) and in its directives.
func (d *Doc) usedVars(o *Operation) map[string]bool {
	used := map[string]bool{}
	seen := map[string]bool{}
	var val func(v *Value)
	val = func(v *Value) {
		if v == nil {
			return
		}
		if v.K == VVar {
			used[v.S] = true
		}
		for _, it := range v.Items {
			val(it)
		}
		for _, f := range v.Fields {
			val(f.Value)
		}
	}
	dirs := func(ds []*Directive) {
		for _, x := range ds {
			for _, a := range x.Args {
				val(a.Value)
			}
		}
	}
	var sels func(ss []*Selection)
	sels = func(ss []*Selection) {
		for _, s := range ss {
			for _, a := range s.Args {
				val(a.Value)
			}
			dirs(s.Directives)
			if s.Kind == KSpread {
				if f := d.frag(s.Name); f != nil && !seen[f.Name] {
					seen[f.Name] = true
					dirs(f.Directives)
					sels(f.Sel)
				}
				continue
			}
			sels(s.Sel)
		}
	}
	dirs(o.Directives)
	sels(o.Sel)
	return used
}

// GC removes variable definitions that are no longer used and fragment
// definitions that are no longer reachable from any operation.
func (d *Doc) GC() {
	reach := map[string]bool{}
	var sels func(ss []*Selection)
	sels = func(ss []*Selection) {
		for _, s := range ss {
			if s.Kind == KSpread {
				if f := d.frag(s.Name); f != nil && !reach[f.Name] {
					reach[f.Name] = true
					sels(f.Sel)
				}
				continue
			}
			sels(s.Sel)
		}
	}
	for _, o := range d.Ops {
		sels(o.Sel)
	}
	kept := d.Frags[:0:0]
	for _, f := range d.Frags {
		if reach[f.Name] {
			kept = append(kept, f)
		}
	}
	d.Frags = kept
	for _, o := range d.Ops {
		used := d.usedVars(o)
		kv := o.Vars[:0:0]
		for _, v := range o.Vars {
			if used[v.Name] {
				kv = append(kv, v)
			}
		}
		o.Vars = kv
	}
}
