package opgen

import (
	"sort"
	"strings"
)

// step is one validity-preserving simplification of a document.
type step struct {
	feature    string // the construct the step removes
	retypes    int    // ID of an inline fragment whose removal changes the parent type of its content (0 = none)
	structural bool   // removes a construct as a whole (tried all at once first); false: edits argument values
	apply      func(c *Doc, ix *Index)
}

func dirFeature(x *Directive) string {
	if (x.Name == "skip" || x.Name == "include") && len(x.Args) == 1 {
		v := x.Args[0].Value
		val := v.String()
		if v.K == VVar {
			val = "$variable"
		}
		return "@" + x.Name + "(" + x.Args[0].Name + ": " + val + ")"
	}
	return "@" + x.Name
}

// simplifications enumerates the single simplification steps of d (each is
// applied to a clone). Validity preservation is by design of each step for the
// common case; the caller re-checks the result anyway.
func simplifications(s *Schema, d *Doc) []step {
	var out []step
	structural := true
	add := func(feature string, f func(c *Doc, ix *Index)) {
		out = append(out, step{feature: feature, apply: f, structural: structural})
	}
	ix := d.Index()
	inlineParent := map[int]string{}
	Walk(s, d, &Visitor{Inline: func(c *InlineCtx) { inlineParent[c.Sel.ID] = c.Parent }})
	retyping := func(sel *Selection) int {
		if sel.TypeCond == "" || sel.TypeCond == inlineParent[sel.ID] {
			return 0
		}
		return sel.ID
	}
	if len(d.Ops) > 1 {
		main := d.Main().ID
		add("second operation in the document", func(c *Doc, ix *Index) { c.Ops = []*Operation{ix.Op[main]} })
	}
	if len(d.Ops) == 1 && d.Ops[0].Name != "" {
		add("named operation", func(c *Doc, ix *Index) { c.Ops[0].Name = ""; c.OpName = "" })
	}
	sameName := func(sel *Selection) bool {
		if sel.Kind != KField {
			return false
		}
		for _, o := range *ix.SelIn[sel.ID] {
			if o != sel && o.Kind == KField && o.ResponseName() == sel.ResponseName() {
				return true
			}
		}
		return false
	}
	var ids []int
	for id := range ix.Sel {
		ids = append(ids, id)
	}
	sort.Ints(ids)
	for _, id := range ids {
		id := id
		sel := ix.Sel[id]
		if len(*ix.SelIn[id]) > 1 {
			what := "sibling selection"
			if sameName(sel) {
				what = FeatureSameResponseName
			}
			add(what, func(c *Doc, ix *Index) {
				if len(*ix.SelIn[id]) > 1 {
					replaceSel(ix.SelIn[id], id)
					c.GC()
				}
			})
		}
		switch sel.Kind {
		case KInline:
			what := "inline fragment with type condition"
			if sel.TypeCond == "" {
				what = "inline fragment without type condition"
			}
			if len(sel.Directives) == 0 {
				add(what, func(c *Doc, ix *Index) { replaceSel(ix.SelIn[id], id, ix.Sel[id].Sel...) })
				out[len(out)-1].retypes = retyping(sel)
			}
			if sel.TypeCond != "" {
				add("type condition of inline fragment", func(c *Doc, ix *Index) { ix.Sel[id].TypeCond = "" })
				out[len(out)-1].retypes = retyping(sel)
			}
		case KSpread:
			add("named fragment", func(c *Doc, ix *Index) {
				sp := ix.Sel[id]
				f := ix.FragBy[sp.Name]
				if f == nil {
					return
				}
				uses := 0
				for _, s := range ix.Sel {
					if s.Kind == KSpread && s.Name == sp.Name {
						uses++
					}
				}
				var in *Selection
				if uses == 1 {
					in = NewInline(f.TypeCond, f.Sel...) // keeps the IDs of the fragment's content
				} else {
					in = FreshSel(NewInline(f.TypeCond, f.Sel...))
				}
				replaceSel(ix.SelIn[id], id, in)
				c.GC()
			})
		case KField:
			if sel.Alias != "" {
				add("alias", func(c *Doc, ix *Index) { ix.Sel[id].Alias = "" })
			}
		}
	}
	ids = ids[:0]
	for id := range ix.Dir {
		ids = append(ids, id)
	}
	sort.Ints(ids)
	for _, id := range ids {
		id := id
		add(dirFeature(ix.Dir[id]), func(c *Doc, ix *Index) {
			l := ix.DirIn[id]
			kept := (*l)[:0:0]
			for _, x := range *l {
				if x.ID != id {
					kept = append(kept, x)
				}
			}
			*l = kept
			c.GC()
		})
	}
	ids = ids[:0]
	for id := range ix.Arg {
		ids = append(ids, id)
	}
	sort.Ints(ids)
	for _, id := range ids {
		id := id
		structural = false
		add("another argument", func(c *Doc, ix *Index) { removeArg(ix.ArgIn[id], id); c.GC() })
	}
	ids = ids[:0]
	for id := range ix.Val {
		ids = append(ids, id)
	}
	sort.Ints(ids)
	for _, id := range ids {
		id := id
		v := *ix.Val[id]
		switch v.K {
		case VVar:
			add("variable", func(c *Doc, ix *Index) {
				name := (*ix.Val[id]).S
				for _, o := range c.Ops {
					for _, vd := range o.Vars {
						if vd.Name == name && vd.Witness != nil {
							*ix.Val[id] = vd.Witness.Fresh()
							c.GC()
							return
						}
					}
				}
			})
		case VList:
			for i := range v.Items {
				i := i
				add("another list item", func(c *Doc, ix *Index) {
					l := *ix.Val[id]
					items := append([]*Value{}, l.Items[:i]...)
					l.Items = append(items, l.Items[i+1:]...)
					c.GC()
				})
			}
		case VObject:
			for i := range v.Fields {
				i := i
				add("another input object field", func(c *Doc, ix *Index) {
					o := *ix.Val[id]
					fs := append([]*ObjField{}, o.Fields[:i]...)
					o.Fields = append(fs, o.Fields[i+1:]...)
					c.GC()
				})
			}
		}
	}
	ids = ids[:0]
	for id := range ix.VarDef {
		ids = append(ids, id)
	}
	sort.Ints(ids)
	for _, id := range ids {
		id := id
		if ix.VarDef[id].Default != nil {
			add("variable default value", func(c *Doc, ix *Index) { ix.VarDef[id].Default = nil })
		}
	}
	return out
}

// FeatureSameResponseName names the removal of a field whose selection set holds another field with the same response name.
const FeatureSameResponseName = "another field with the same response name in the same selection set"

// Outcome of trying a simplified candidate.
type Outcome int

const (
	Inapplicable Outcome = iota // candidate not valid / mutation not applicable / oracles do not agree on it
	Vanished                    // well-formed candidate on which the failure is gone
	StillFails                  // same failure
)

// Shrink greedily simplifies the valid document base while try(candidate)
// reports StillFails. try must check that the candidate is still valid and
// that the same failure is still observed. The result is a local minimum: no
// single simplification step keeps the failure. needs lists the constructs
// whose removal from the result makes the failure vanish (the constructs the
// failure depends on, beyond the mutation itself).
func Shrink(s *Schema, base *Doc, protect []int, try func(c *Doc) Outcome, budget int) (small *Doc, needs []string) {
	cur := base
	// applyStep returns the simplified clone, or nil when the step does not apply / would remove a protected node.
	applyStep := func(from *Doc, st step) *Doc {
		if st.retypes != 0 {
			// the labels of the mutation were computed for the parent type of its site: keep that type
			fix := from.Index()
			if !fix.Has(st.retypes) {
				return nil
			}
			for _, p := range protect {
				for x := p; x != 0; x = fix.Parent[x] {
					if x == st.retypes {
						return nil
					}
				}
			}
		}
		c := from.Clone()
		func() {
			defer func() {
				if recover() != nil {
					c = nil
				}
			}()
			st.apply(c, c.Index())
		}()
		if c == nil {
			return nil
		}
		c.Assign()
		ix := c.Index()
		for _, p := range protect {
			if !ix.Has(p) {
				return nil
			}
		}
		if c.String() == from.String() {
			return nil
		}
		return c
	}
	// phase 0: one big step - everything that is removable without looking at argument values, judged once
	big := cur
	for _, st := range simplifications(s, cur) {
		if !st.structural {
			continue
		}
		if c := applyStep(big, st); c != nil {
			big = c
		}
	}
	if big != cur {
		budget--
		if try(big) == StillFails {
			cur = big
		}
	}
	// phase 1: linear passes until a pass makes no progress; that last pass tells which constructs are needed
	for {
		progress := false
		needSet := map[string]bool{}
		for _, st := range simplifications(s, cur) {
			if budget <= 0 {
				break
			}
			c := applyStep(cur, st)
			if c == nil {
				continue
			}
			budget--
			switch try(c) {
			case StillFails:
				cur = c
				progress = true
			case Vanished:
				needSet[st.feature] = true
			}
		}
		if !progress || budget <= 0 {
			for k := range needSet {
				needs = append(needs, k)
			}
			sort.Strings(needs)
			return cur, needs
		}
	}
}

// NeedsString renders the list returned by Shrink.
func NeedsString(needs []string) string {
	if len(needs) == 0 {
		return "nothing else"
	}
	return strings.Join(needs, "; ")
}

// HasSkipOnlyVariable reports whether the executed operation defines a variable
// with a default value whose every use is the `if` argument of @skip / @include.
func HasSkipOnlyVariable(d *Doc) bool {
	op := d.Main()
	type use struct{ total, asIf int }
	uses := map[string]*use{}
	for _, v := range op.Vars {
		if v.Default != nil {
			uses[v.Name] = &use{}
		}
	}
	if len(uses) == 0 {
		return false
	}
	var val func(v *Value, isIf bool)
	val = func(v *Value, isIf bool) {
		if v == nil {
			return
		}
		if v.K == VVar {
			if u := uses[v.S]; u != nil {
				u.total++
				if isIf {
					u.asIf++
				}
			}
		}
		for _, it := range v.Items {
			val(it, false)
		}
		for _, f := range v.Fields {
			val(f.Value, false)
		}
	}
	dirs := func(ds []*Directive) {
		for _, x := range ds {
			for _, a := range x.Args {
				val(a.Value, (x.Name == "skip" || x.Name == "include") && a.Name == "if")
			}
		}
	}
	seen := map[string]bool{}
	var sels func(ss []*Selection)
	sels = func(ss []*Selection) {
		for _, s := range ss {
			for _, a := range s.Args {
				val(a.Value, false)
			}
			dirs(s.Directives)
			if s.Kind == KSpread {
				if f := d.frag(s.Name); f != nil && !seen[f.Name] {
					seen[f.Name] = true
					dirs(f.Directives)
					sels(f.Sel)
				}
				continue
			}
			sels(s.Sel)
		}
	}
	dirs(op.Directives)
	sels(op.Sel)
	for _, u := range uses {
		if u.total > 0 && u.total == u.asIf {
			return true
		}
	}
	return false
}

// HasUnionSpreadInOtherUnion reports whether the document spreads a named
// fragment whose type condition is a union inside a selection set whose parent
// type is a different union.
func HasUnionSpreadInOtherUnion(s *Schema, d *Doc) bool {
	found := false
	Walk(s, d, &Visitor{Spread: func(c *SpreadCtx) {
		if c.Def != nil && c.Def.TypeCond != c.Parent && s.kindOf(c.Parent) == "union" && s.kindOf(c.Def.TypeCond) == "union" {
			found = true
		}
	}})
	return found
}
