package opgen

import (
	"fmt"

	gast "github.com/vektah/gqlparser/v2/ast"
)

// ---------------------------------------------------------------- witnesses

// Witnesses returns valid literals for an input type, simplest first. The first
// one is the canonical witness. Nullable types get `null` as last entry.
func (s *Schema) Witnesses(t *gast.Type) []*Value {
	return s.witnesses(t, map[string]bool{})
}

func (s *Schema) witnesses(t *gast.Type, stack map[string]bool) []*Value {
	var out []*Value
	if t.Elem != nil {
		items := s.witnesses(t.Elem, stack)
		var nonNull []*Value
		for _, it := range items {
			if it.K != VNull {
				nonNull = append(nonNull, it)
			}
		}
		if len(nonNull) > 0 {
			out = append(out, List(nonNull[0].Fresh()))
			second := nonNull[len(nonNull)-1]
			out = append(out, List(nonNull[0].Fresh(), second.Fresh()))
		}
		out = append(out, List())
		if len(nonNull) > 0 {
			out = append(out, nonNull[0].Fresh()) // list input coercion of a single item
		}
		if !t.Elem.NonNull {
			out = append(out, List(Null()))
		}
	} else {
		def := s.S.Types[t.NamedType]
		switch {
		case def == nil:
			panic("opgen: unknown type " + t.NamedType)
		case def.Kind == gast.Enum:
			out = append(out, Enum(def.EnumValues[0].Name))
			if len(def.EnumValues) > 1 {
				out = append(out, Enum(def.EnumValues[len(def.EnumValues)-1].Name))
			}
		case def.Kind == gast.InputObject:
			if stack[def.Name] {
				// recursion: required fields only, and only if that terminates
				min := s.minimalObject(def, stack)
				if min != nil {
					out = append(out, min)
				}
				break
			}
			stack[def.Name] = true
			if min := s.minimalObject(def, stack); min != nil {
				out = append(out, min)
			}
			full := &Value{K: VObject}
			for _, f := range def.Fields {
				ws := s.witnesses(f.Type, stack)
				if len(ws) == 0 || ws[0].K == VNull {
					continue
				}
				full.Fields = append(full.Fields, &ObjField{Name: f.Name, Value: ws[0].Fresh()})
			}
			if len(out) == 0 || full.String() != out[0].String() {
				out = append(out, full)
			}
			delete(stack, def.Name)
		case def.Kind == gast.Scalar:
			switch def.Name {
			case "Int":
				out = append(out, Int(1))
			case "Float":
				out = append(out, Float("1.5"), Int(2))
			case "String":
				out = append(out, Str("s"))
			case "Boolean":
				out = append(out, Bool(true))
			case "ID":
				out = append(out, Str("1"), Int(2))
			default: // custom scalar: every literal is acceptable
				out = append(out, Int(1), Str("s"), Obj("a", Int(1)), List(Int(1)))
			}
		default:
			panic("opgen: not an input type: " + t.NamedType)
		}
	}
	if !t.NonNull {
		out = append(out, Null())
	}
	return out
}

func (s *Schema) minimalObject(def *gast.Definition, stack map[string]bool) *Value {
	v := &Value{K: VObject, Fields: []*ObjField{}}
	for _, f := range def.Fields {
		if !f.Type.NonNull || f.DefaultValue != nil {
			continue
		}
		if f.Type.Elem == nil && stack[f.Type.NamedType] && f.Type.NamedType == def.Name {
			return nil // required self reference: no finite literal
		}
		ws := s.witnesses(f.Type, stack)
		if len(ws) == 0 {
			return nil
		}
		v.Fields = append(v.Fields, &ObjField{Name: f.Name, Value: ws[0].Fresh()})
	}
	return v
}

// RequiredArgs builds the canonical argument list: every required argument
// (non-null without default) with its canonical witness.
func (s *Schema) RequiredArgs(defs gast.ArgumentDefinitionList) []*Arg {
	var out []*Arg
	for _, a := range defs {
		if a.Type.NonNull && a.DefaultValue == nil {
			out = append(out, NewArg(a.Name, s.Witnesses(a.Type)[0].Fresh()))
		}
	}
	return out
}

// ---------------------------------------------------------------- base enumeration

// Bounds of the base space.
type Bounds struct {
	MaxNodes int // selection nodes (fields + inline fragments) per operation
	MaxDepth int // nesting depth of selection sets
}

// Gen enumerates every selection tree over a schema below the bounds: each
// selection set is a strictly increasing choice of "slots" of its parent type
// (fields in SDL order, then __typename, then one inline fragment per possible
// object type for abstract parents), fields carry exactly their required
// arguments with the canonical witness. Aliases, optional arguments, variables,
// directives, fragments and duplicates are decorations (deco.go).
type Gen struct {
	S    *Schema
	memo map[string][][]*Selection
}

func NewGen(s *Schema) *Gen { return &Gen{S: s, memo: map[string][][]*Selection{}} }

type slot struct {
	field  *gast.FieldDefinition // nil for __typename / inline
	inline string                // type condition of an inline fragment slot
}

func (g *Gen) slots(typeName string, root bool) []slot {
	def := g.S.Def(typeName)
	var out []slot
	if def.Kind != gast.Union {
		for _, f := range g.S.Fields(typeName) {
			out = append(out, slot{field: f})
		}
	}
	out = append(out, slot{}) // __typename
	if def.IsAbstractType() {
		for _, p := range g.S.Possible(typeName) {
			out = append(out, slot{inline: p})
		}
	}
	return out
}

// sets returns all selection sets on typeName with exactly size nodes, depth <= depth, using slots >= from.
func (g *Gen) sets(typeName string, size, depth, from int, noTypename bool) [][]*Selection {
	if size <= 0 || depth <= 0 {
		return nil
	}
	key := fmt.Sprintf("%s/%d/%d/%d/%v", typeName, size, depth, from, noTypename)
	if r, ok := g.memo[key]; ok {
		return r
	}
	var out [][]*Selection
	sl := g.slots(typeName, false)
	for j := from; j < len(sl); j++ {
		for s1 := 1; s1 <= size; s1++ {
			items := g.items(typeName, sl[j], s1, depth, noTypename)
			if len(items) == 0 {
				continue
			}
			if s1 == size {
				for _, it := range items {
					out = append(out, []*Selection{it})
				}
				continue
			}
			rests := g.sets(typeName, size-s1, depth, j+1, noTypename)
			for _, it := range items {
				for _, r := range rests {
					set := make([]*Selection, 0, 1+len(r))
					set = append(set, it)
					set = append(set, r...)
					if g.mergeable(typeName, set) {
						out = append(out, set)
					}
				}
			}
		}
	}
	g.memo[key] = out
	return out
}

func (g *Gen) items(typeName string, sl slot, size, depth int, noTypename bool) []*Selection {
	switch {
	case sl.field == nil && sl.inline == "":
		if size == 1 && !noTypename {
			return []*Selection{NewField("__typename", nil)}
		}
		return nil
	case sl.inline != "":
		var out []*Selection
		for _, sub := range g.sets(sl.inline, size-1, depth-1, 0, false) {
			out = append(out, NewInline(sl.inline, sub...))
		}
		return out
	default:
		f := sl.field
		if !g.S.IsComposite(f.Type) {
			if size == 1 {
				return []*Selection{NewField(f.Name, g.S.RequiredArgs(f.Arguments))}
			}
			return nil
		}
		var out []*Selection
		for _, sub := range g.sets(f.Type.Name(), size-1, depth-1, 0, false) {
			out = append(out, NewField(f.Name, g.S.RequiredArgs(f.Arguments), sub...))
		}
		return out
	}
}

// Bases returns every operation of the given kind below the bounds as its own
// document (IDs assigned), smallest first. Subscriptions have exactly one root
// field (no __typename at the root).
func (g *Gen) Bases(kind string, b Bounds) []*Doc {
	root := g.S.Root(kind)
	if root == nil {
		return nil
	}
	var out []*Doc
	for size := 1; size <= b.MaxNodes; size++ {
		var sets [][]*Selection
		if kind == "subscription" {
			sl := g.slots(root.Name, true)
			for _, x := range sl {
				if x.field == nil {
					continue
				}
				for _, it := range g.items(root.Name, x, size, b.MaxDepth, true) {
					sets = append(sets, []*Selection{it})
				}
			}
		} else {
			sets = g.sets(root.Name, size, b.MaxDepth, 0, false)
		}
		for _, set := range sets {
			d := &Doc{Ops: []*Operation{{Kind: kind, Sel: CloneSels(set)}}}
			zeroIDs(d)
			d.Assign()
			out = append(out, d)
		}
	}
	return out
}

// mergeable rejects the one way a base selection set can break field selection
// merging: the same field name selected directly on an abstract type and inside
// an inline fragment on a possible type (or inside two inline fragments) where
// the two field definitions differ (covariant field types, other arguments).
func (g *Gen) mergeable(typeName string, set []*Selection) bool {
	sig := map[string]string{}
	ok := true
	note := func(on string, f *Selection) {
		if f.Kind != KField || f.Name == "__typename" {
			return
		}
		def := g.S.Field(on, f.Name)
		if def == nil {
			return
		}
		s := fieldSig(def)
		if old, seen := sig[f.Name]; seen && old != s {
			ok = false
		}
		sig[f.Name] = s
	}
	for _, sel := range set {
		switch sel.Kind {
		case KField:
			note(typeName, sel)
		case KInline:
			for _, x := range sel.Sel {
				note(sel.TypeCond, x)
			}
		}
	}
	return ok
}
