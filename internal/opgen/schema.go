package opgen

import (
	"sort"
	"strings"

	"github.com/vektah/gqlparser/v2"
	gast "github.com/vektah/gqlparser/v2/ast"
)

// Schema is a gqlparser schema plus deterministic accessors. gqlparser is used
// here only as SDL parser / type table; labels never come from its validator.
type Schema struct {
	Name string
	SDL  string
	S    *gast.Schema
}

func Load(name, sdl string) *Schema {
	s, err := gqlparser.LoadSchema(&gast.Source{Name: name, Input: sdl})
	if err != nil {
		panic("opgen: schema " + name + ": " + err.Error())
	}
	return &Schema{Name: name, SDL: sdl, S: s}
}

func (s *Schema) Def(name string) *gast.Definition { return s.S.Types[name] }

func (s *Schema) Root(kind string) *gast.Definition {
	switch kind {
	case "query":
		return s.S.Query
	case "mutation":
		return s.S.Mutation
	case "subscription":
		return s.S.Subscription
	}
	return nil
}

// Fields of an object / interface type in SDL order, without introspection fields.
func (s *Schema) Fields(typeName string) []*gast.FieldDefinition {
	d := s.S.Types[typeName]
	if d == nil {
		return nil
	}
	var out []*gast.FieldDefinition
	for _, f := range d.Fields {
		if !strings.HasPrefix(f.Name, "__") {
			out = append(out, f)
		}
	}
	return out
}

func (s *Schema) Field(typeName, field string) *gast.FieldDefinition {
	d := s.S.Types[typeName]
	if d == nil || d.Kind == gast.Union {
		return nil
	}
	for _, f := range d.Fields {
		if f.Name == field && !strings.HasPrefix(f.Name, "__") {
			return f
		}
	}
	return nil
}

// Possible returns the object types a value of the composite type can have, sorted by name.
func (s *Schema) Possible(typeName string) []string {
	d := s.S.Types[typeName]
	if d == nil {
		return nil
	}
	var out []string
	switch d.Kind {
	case gast.Object:
		out = []string{d.Name}
	case gast.Interface, gast.Union:
		for _, p := range s.S.GetPossibleTypes(d) {
			if p.Kind == gast.Object {
				out = append(out, p.Name)
			}
		}
	}
	sort.Strings(out)
	return out
}

// Overlap reports whether two composite types have a common possible object type.
func (s *Schema) Overlap(a, b string) bool {
	pa := s.Possible(a)
	for _, x := range s.Possible(b) {
		for _, y := range pa {
			if x == y {
				return true
			}
		}
	}
	return false
}

// commonPossible counts the possible object types two composite types share.
func (s *Schema) commonPossible(a, b string) int {
	n := 0
	pa := s.Possible(a)
	for _, x := range s.Possible(b) {
		for _, y := range pa {
			if x == y {
				n++
			}
		}
	}
	return n
}

// Composites lists all user-defined composite type names sorted by name.
func (s *Schema) Composites() []string {
	var out []string
	for n, d := range s.S.Types {
		if d.IsCompositeType() && !d.BuiltIn && !strings.HasPrefix(n, "__") {
			out = append(out, n)
		}
	}
	sort.Strings(out)
	return out
}

// NonComposites lists user-defined scalar, enum and input object type names plus the built-in scalars in use.
func (s *Schema) NonComposites() []string {
	var out []string
	for n, d := range s.S.Types {
		if !d.IsCompositeType() && !strings.HasPrefix(n, "__") && (!d.BuiltIn || n == "String" || n == "Int") {
			out = append(out, n)
		}
	}
	sort.Strings(out)
	return out
}

func (s *Schema) IsComposite(t *gast.Type) bool {
	d := s.S.Types[t.Name()]
	return d != nil && d.IsCompositeType()
}

// DirLocation of a host kind.
func opLocation(kind string) gast.DirectiveLocation {
	switch kind {
	case "mutation":
		return gast.LocationMutation
	case "subscription":
		return gast.LocationSubscription
	}
	return gast.LocationQuery
}

func HasLocation(dd *gast.DirectiveDefinition, loc gast.DirectiveLocation) bool {
	for _, l := range dd.Locations {
		if l == loc {
			return true
		}
	}
	return false
}

// DirectiveNames in a fixed order (sorted), user-defined and built-in executable ones.
func (s *Schema) DirectiveNames() []string {
	var out []string
	for n := range s.S.Directives {
		out = append(out, n)
	}
	sort.Strings(out)
	return out
}

// ---------------------------------------------------------------- typed walk

type SetCtx struct {
	OwnerID  int
	Parent   string // type the selection set selects on
	Set      []*Selection
	RootKind string // operation kind when this is the root selection set of an operation
	Depth    int
	Frag     string // enclosing fragment definition ("" inside an operation)
}

type FieldCtx struct {
	Sel      *Selection
	Parent   string
	Def      *gast.FieldDefinition // nil for __typename
	RootKind string
	Depth    int
	Frag     string
}

type InlineCtx struct {
	Sel    *Selection
	Parent string
	Frag   string
}

type SpreadCtx struct {
	Sel    *Selection
	Parent string
	Def    *Fragment
	Frag   string
}

type ArgCtx struct {
	Arg       *Arg
	OwnerID   int
	OwnerKind string // "field" | "directive"
	OwnerName string
	Def       *gast.ArgumentDefinition
	Defs      gast.ArgumentDefinitionList
}

// ValueCtx describes one value position (recursively: list items, object fields).
type ValueCtx struct {
	V           *Value
	Type        *gast.Type // expected type at this position
	Pos         string     // "arg" | "item" | "field" | "default"
	OwnerKind   string     // "field" | "directive" | "variable"
	LocDefault  bool       // the location (argument / input field) has a default value
	Depth       int        // nesting below the argument / default value
	ContainerID int        // ID of the enclosing Arg / ObjField / list Value / VarDef
	InDefault   bool       // somewhere inside a variable default value (variables not allowed)
}

type DirHostCtx struct {
	HostID int
	Loc    gast.DirectiveLocation
	Dirs   []*Directive
}

type VarDefCtx struct {
	V  *VarDef
	Op *Operation
}

type OpCtx struct {
	Op *Operation
}

// Visitor callbacks; any may be nil.
type Visitor struct {
	Op      func(*OpCtx)
	Set     func(*SetCtx)
	Field   func(*FieldCtx)
	Inline  func(*InlineCtx)
	Spread  func(*SpreadCtx)
	Arg     func(*ArgCtx)
	Value   func(*ValueCtx)
	DirHost func(*DirHostCtx)
	VarDef  func(*VarDefCtx)
}

// ParseType parses a printed type reference.
func ParseType(s string) *gast.Type {
	nn := false
	if strings.HasSuffix(s, "!") {
		nn = true
		s = s[:len(s)-1]
	}
	if strings.HasPrefix(s, "[") {
		return &gast.Type{Elem: ParseType(s[1 : len(s)-1]), NonNull: nn}
	}
	return &gast.Type{NamedType: s, NonNull: nn}
}

// Walk traverses a VALID document with type information. Unknown names are
// tolerated (the sub-tree is walked without type information where possible).
func Walk(s *Schema, d *Doc, v *Visitor) {
	w := &walker{s: s, d: d, v: v}
	for _, o := range d.Ops {
		if v.Op != nil {
			v.Op(&OpCtx{Op: o})
		}
		for _, vd := range o.Vars {
			if v.VarDef != nil {
				v.VarDef(&VarDefCtx{V: vd, Op: o})
			}
			if vd.Default != nil {
				w.value(vd.Default, ParseType(vd.Type), "default", "variable", false, 0, vd.ID, true)
			}
			w.dirs(vd.ID, gast.LocationVariableDefinition, vd.Directives)
		}
		w.dirs(o.ID, opLocation(o.Kind), o.Directives)
		root := s.Root(o.Kind)
		if root != nil {
			w.set(o.ID, root.Name, o.Sel, o.Kind, 1, "")
		}
	}
	for _, f := range d.Frags {
		w.dirs(f.ID, gast.LocationFragmentDefinition, f.Directives)
		w.set(f.ID, f.TypeCond, f.Sel, "", 1, f.Name)
	}
}

type walker struct {
	s *Schema
	d *Doc
	v *Visitor
}

func (w *walker) dirs(host int, loc gast.DirectiveLocation, ds []*Directive) {
	if w.v.DirHost != nil {
		w.v.DirHost(&DirHostCtx{HostID: host, Loc: loc, Dirs: ds})
	}
	for _, x := range ds {
		dd := w.s.S.Directives[x.Name]
		if dd == nil {
			continue
		}
		w.args(x.ID, "directive", x.Name, x.Args, dd.Arguments)
	}
}

func (w *walker) args(owner int, kind, name string, as []*Arg, defs gast.ArgumentDefinitionList) {
	for _, a := range as {
		def := defs.ForName(a.Name)
		if w.v.Arg != nil {
			w.v.Arg(&ArgCtx{Arg: a, OwnerID: owner, OwnerKind: kind, OwnerName: name, Def: def, Defs: defs})
		}
		if def != nil {
			w.value(a.Value, def.Type, "arg", kind, def.DefaultValue != nil, 0, a.ID, false)
		}
	}
}

func (w *walker) value(v *Value, t *gast.Type, pos, ownerKind string, locDefault bool, depth int, container int, inDefault bool) {
	if v == nil || t == nil {
		return
	}
	if w.v.Value != nil {
		w.v.Value(&ValueCtx{V: v, Type: t, Pos: pos, OwnerKind: ownerKind, LocDefault: locDefault, Depth: depth, ContainerID: container, InDefault: inDefault})
	}
	switch v.K {
	case VList:
		if t.Elem != nil {
			for _, it := range v.Items {
				w.value(it, t.Elem, "item", ownerKind, false, depth+1, v.ID, inDefault)
			}
		}
	case VObject:
		def := w.s.S.Types[t.Name()]
		if t.Elem == nil && def != nil && def.Kind == gast.InputObject {
			for _, f := range v.Fields {
				fd := def.Fields.ForName(f.Name)
				if fd != nil {
					w.value(f.Value, fd.Type, "field", ownerKind, fd.DefaultValue != nil, depth+1, f.ID, inDefault)
				}
			}
		}
	}
}

func (w *walker) set(owner int, parent string, ss []*Selection, rootKind string, depth int, frag string) {
	if w.v.Set != nil {
		w.v.Set(&SetCtx{OwnerID: owner, Parent: parent, Set: ss, RootKind: rootKind, Depth: depth, Frag: frag})
	}
	for _, sel := range ss {
		switch sel.Kind {
		case KField:
			var def *gast.FieldDefinition
			if sel.Name != "__typename" {
				def = w.s.Field(parent, sel.Name)
			}
			if w.v.Field != nil {
				w.v.Field(&FieldCtx{Sel: sel, Parent: parent, Def: def, RootKind: rootKind, Depth: depth, Frag: frag})
			}
			if def != nil {
				w.args(sel.ID, "field", sel.Name, sel.Args, def.Arguments)
			}
			w.dirs(sel.ID, gast.LocationField, sel.Directives)
			if def != nil && sel.Sel != nil {
				w.set(sel.ID, def.Type.Name(), sel.Sel, "", depth+1, frag)
			}
		case KInline:
			if w.v.Inline != nil {
				w.v.Inline(&InlineCtx{Sel: sel, Parent: parent, Frag: frag})
			}
			w.dirs(sel.ID, gast.LocationInlineFragment, sel.Directives)
			tc := sel.TypeCond
			if tc == "" {
				tc = parent
			}
			// an inline fragment does not end the "root selection set" of a subscription
			w.set(sel.ID, tc, sel.Sel, rootKind, depth+1, frag)
		case KSpread:
			if w.v.Spread != nil {
				w.v.Spread(&SpreadCtx{Sel: sel, Parent: parent, Def: w.d.frag(sel.Name), Frag: frag})
			}
			w.dirs(sel.ID, gast.LocationFragmentSpread, sel.Directives)
		}
	}
}
