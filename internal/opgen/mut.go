package opgen

import (
	"fmt"
	"strings"

	gast "github.com/vektah/gqlparser/v2/ast"
)

// Rule families (one per GraphQL spec validation rule, October 2021 numbering).
const (
	RFieldsOnType      = "5.3.1 field selections exist on the type"
	RMerging           = "5.3.2 field selection merging"
	RLeaf              = "5.3.3 leaf field selections"
	RArgNames          = "5.4.1 argument names"
	RArgUnique         = "5.4.2 argument uniqueness"
	RArgRequired       = "5.4.2.1 required arguments"
	RFragUnique        = "5.5.1.1 fragment name uniqueness"
	RFragTypeExists    = "5.5.1.2 fragment spread type existence"
	RFragOnComposite   = "5.5.1.3 fragments on composite types"
	RSpreadDefined     = "5.5.2.1 fragment spread target defined"
	RFragCycles        = "5.5.2.2 fragment spreads must not form cycles"
	RSpreadPossible    = "5.5.2.3 fragment spread is possible"
	RValues            = "5.6.1 values of correct type"
	RInputFieldNames   = "5.6.2 input object field names"
	RInputFieldUnique  = "5.6.3 input object field uniqueness"
	RInputFieldReq     = "5.6.4 input object required fields"
	RDirDefined        = "5.7.1 directives are defined"
	RDirLocation       = "5.7.2 directives are in valid locations"
	RDirUnique         = "5.7.3 directives are unique per location"
	RVarUnique         = "5.8.1 variable uniqueness"
	RVarInputType      = "5.8.2 variables are input types"
	RVarDefined        = "5.8.3 all variable uses defined"
	RVarUsed           = "5.8.4 all variables used"
	RVarAllowed        = "5.8.5 all variable usages are allowed"
	RSubscriptionRoot  = "5.2.3.1 subscription single root field"
	RLoneAnonymous     = "5.2.2.1 lone anonymous operation"
	ROperationNameUniq = "5.2.1.1 operation name uniqueness"
)

// Mutation is one rule-targeted edit of a valid document (or a negative
// control: an edit that keeps it valid).
type Mutation struct {
	Rule    string // rule family the edit targets
	Op      string // operator variant
	Valid   bool   // label by construction: true = the mutant is still valid (negative control)
	Class   string // structural class of the edit site (no names of the input)
	Judge   bool   // false: outside the property statement, only observed
	Protect []int  // node IDs the edit needs; the shrinker never removes them
	Apply   func(d *Doc, ix *Index)
}

// Mutate applies a mutation to a clone of d.
func Mutate(d *Doc, m *Mutation) *Doc {
	c := d.Clone()
	m.Apply(c, c.Index())
	c.Assign()
	return c
}

func (s *Schema) kindOf(typeName string) string {
	d := s.S.Types[typeName]
	if d == nil {
		return "unknown"
	}
	switch d.Kind {
	case gast.Object:
		return "object"
	case gast.Interface:
		return "interface"
	case gast.Union:
		return "union"
	case gast.Enum:
		return "enum"
	case gast.InputObject:
		return "input object"
	case gast.Scalar:
		if d.BuiltIn {
			return d.Name
		}
		return "custom scalar"
	}
	return "unknown"
}

// typeShape abstracts a type reference: named types are replaced by their kind.
func (s *Schema) typeShape(t *gast.Type) string {
	nn := ""
	if t.NonNull {
		nn = "!"
	}
	if t.Elem != nil {
		return "[" + s.typeShape(t.Elem) + "]" + nn
	}
	return s.kindOf(t.NamedType) + nn
}

// wrongLiterals returns literals that are NOT coercible to the named type t.
func (s *Schema) wrongLiterals(t string) []*Value {
	def := s.S.Types[t]
	switch {
	case def.Kind == gast.Enum:
		return []*Value{Str(def.EnumValues[0].Name), Enum("ZZ"), Int(1), Bool(true)}
	case def.Kind == gast.InputObject:
		return []*Value{Int(1), Str("s")}
	}
	switch t {
	case "Int":
		return []*Value{Str("s"), Bool(true), Float("1.5"), Enum("ZZ")}
	case "Float":
		return []*Value{Str("s"), Bool(true)}
	case "String":
		return []*Value{Int(1), Bool(true), Enum("ZZ")}
	case "Boolean":
		return []*Value{Int(1), Str("true")}
	case "ID":
		return []*Value{Float("1.5"), Bool(true)}
	}
	return nil // custom scalar: nothing is wrong
}

func isCustomScalar(s *Schema, t string) bool {
	d := s.S.Types[t]
	return d != nil && d.Kind == gast.Scalar && !d.BuiltIn
}

func removeArg(as *[]*Arg, id int) {
	out := (*as)[:0:0]
	for _, a := range *as {
		if a.ID != id {
			out = append(out, a)
		}
	}
	*as = out
}

func litKind(v *Value) string {
	switch v.K {
	case VEnum:
		if v.S == "ZZ" {
			return "unknown enum value"
		}
		return "enum value"
	case VList:
		return "list"
	case VObject:
		return "object"
	}
	return v.K.String()
}

// twinKey identifies fields that merge with each other trivially.
func twinKey(f *Selection) string {
	var b strings.Builder
	b.WriteString(f.ResponseName() + "=" + f.Name)
	writeArgs(&b, f.Args)
	return b.String()
}

// Mutations enumerates every applicable instance of every operator on the valid document d.
func Mutations(s *Schema, d *Doc) []*Mutation {
	var out []*Mutation
	add := func(rule, op string, valid bool, class string, protect []int, f func(d *Doc, ix *Index)) {
		out = append(out, &Mutation{Rule: rule, Op: op, Valid: valid, Class: class, Judge: true, Protect: protect, Apply: f})
	}
	main := d.Main()
	mainID := main.ID
	single := len(d.Ops) == 1

	// response names already present anywhere (fresh aliases must not collide)
	twins := map[string]int{}
	names := map[string]bool{}
	view := d.MainView()
	Walk(s, view, &Visitor{Field: func(c *FieldCtx) { twins[twinKey(c.Sel)]++; names[c.Sel.ResponseName()] = true }})
	hasTwin := func(f *Selection) bool { return twins[twinKey(f)] > 1 }
	// field selection owning an argument value (for the twin check of controls)
	ownerField := map[int]*Selection{}
	var curField *Selection
	subRoot := ""
	if r := s.Root("subscription"); r != nil {
		subRoot = r.Name
	}

	firstOf := func(kind gast.DefinitionKind) string {
		for _, n := range s.sortedTypes() {
			if def := s.S.Types[n]; def.Kind == kind && !def.BuiltIn && !strings.HasPrefix(n, "__") {
				return n
			}
		}
		return ""
	}
	objT, ifaceT, unionT := firstOf(gast.Object), firstOf(gast.Interface), firstOf(gast.Union)
	enumT, inputT := firstOf(gast.Enum), firstOf(gast.InputObject)

	addVar := func(d *Doc, defs ...*VarDef) {
		op := mainOf(d)
		op.Vars = append(op.Vars, defs...)
	}

	Walk(s, view, &Visitor{
		Op: func(c *OpCtx) {
			if c.Op.ID != mainID {
				return
			}
			id := c.Op.ID
			add(RVarUsed, "unused variable", false, "variable defined but never used", []int{id}, func(d *Doc, ix *Index) {
				addVar(d, &VarDef{Name: "uu", Type: "Int"})
			})
			add(RVarUsed, "unused variable with default", false, "variable with default value defined but never used", []int{id}, func(d *Doc, ix *Index) {
				addVar(d, &VarDef{Name: "uu", Type: "Int", Default: Int(1)})
			})
			if single {
				other := func(name string) *Operation {
					return &Operation{Kind: "query", Name: name, Sel: []*Selection{NewField("__typename", nil)}}
				}
				if c.Op.Name == "" {
					m := &Mutation{Rule: RLoneAnonymous, Op: "anonymous plus named operation", Class: "anonymous operation first, named operation second, no operation name given", Protect: []int{id},
						Apply: func(d *Doc, ix *Index) { d.Ops = append(d.Ops, other("Q9")) }}
					out = append(out, m)
					m2 := &Mutation{Rule: ROperationNameUniq, Op: "two operations with the same name", Class: "two operations with one name, that name selected", Protect: []int{id},
						Apply: func(d *Doc, ix *Index) { ix.Op[id].Name = "Q9"; d.OpName = "Q9"; d.Ops = append(d.Ops, other("Q9")) }}
					out = append(out, m2)
					m3 := &Mutation{Rule: ROperationNameUniq, Op: "two operations with the same name, none selected", Class: "two operations with one name, no operation name given", Protect: []int{id},
						Apply: func(d *Doc, ix *Index) { ix.Op[id].Name = "Q9"; d.Ops = append(d.Ops, other("Q9")) }}
					out = append(out, m3)
				}
			}
			if c.Op.Kind == "subscription" {
				root := s.Root("subscription")
				// a second root field: another field of the root type, or the same one under an alias
				var second *Selection
				for _, f := range s.Fields(root.Name) {
					if !names[f.Name] && !s.IsComposite(f.Type) && len(s.RequiredArgs(f.Arguments)) == 0 {
						second = NewField(f.Name, nil)
						break
					}
				}
				if second != nil {
					sec := second
					add(RSubscriptionRoot, "second root field", false, "two different root fields", []int{id}, func(d *Doc, ix *Index) {
						o := ix.Op[id]
						o.Sel = append(o.Sel, FreshSel(sec))
					})
					add(RSubscriptionRoot, "second root field in inline fragment", false, "second root field inside an inline fragment on the root type", []int{id}, func(d *Doc, ix *Index) {
						o := ix.Op[id]
						o.Sel = append(o.Sel, NewInline(root.Name, FreshSel(sec)))
					})
					add(RSubscriptionRoot, "two root fields through fragment", false, "root selection is a fragment spread whose fragment has two fields", []int{id}, func(d *Doc, ix *Index) {
						o := ix.Op[id]
						d.Frags = append(d.Frags, &Fragment{Name: "SF1", TypeCond: root.Name, Sel: append(o.Sel, FreshSel(sec))})
						o.Sel = []*Selection{NewSpread("SF1")}
					})
				}
				add(RSubscriptionRoot, "__typename as second root field", false, "root field plus __typename", []int{id}, func(d *Doc, ix *Index) {
					o := ix.Op[id]
					o.Sel = append(o.Sel, NewField("__typename", nil))
				})
				if len(c.Op.Sel) == 1 && c.Op.Sel[0].Kind == KField {
					rootID := c.Op.Sel[0].ID
					add(RSubscriptionRoot, "same root field selected twice (control)", true, "the one root field selected twice, identically", []int{id, rootID}, func(d *Doc, ix *Index) {
						o := ix.Op[id]
						o.Sel = append(o.Sel, FreshSel(ix.Sel[rootID]))
					})
					for _, name := range s.DirectiveNames() {
						dd := s.S.Directives[name]
						if skipDirective[name] || name == "skip" || name == "include" || !HasLocation(dd, gast.LocationField) || hasDir(c.Op.Sel[0].Directives, name) {
							continue
						}
						usage := s.directiveUsages(dd)[0]
						add(RSubscriptionRoot, "same root field selected twice, one copy with a directive (control)", true, "the one root field selected twice, the copies differing in a directive", []int{id, rootID}, func(d *Doc, ix *Index) {
							o := ix.Op[id]
							cp := FreshSel(ix.Sel[rootID])
							cp.Directives = append(cp.Directives, freshDir(usage))
							o.Sel = append(o.Sel, cp)
						})
						break
					}
				}
				// aliases at the subscription root: the rule is about the FIELD (an introspection field stays one under any alias,
				// an ordinary field stays ordinary under an alias that starts with two underscores), directly and through fragments
				intro := func(alias string) *Selection {
					x := NewField("__typename", nil)
					x.Alias = alias
					return x
				}
				for _, al := range []string{"kind", "__k"} {
					al := al
					what := "aliased __typename"
					if al == "__k" {
						what = "__typename under an alias that starts with two underscores"
					}
					add(RSubscriptionRoot, what+" as only root field", false, what+" is the only root field", []int{id}, func(d *Doc, ix *Index) {
						ix.Op[id].Sel = []*Selection{intro(al)}
						d.GC()
					})
					add(RSubscriptionRoot, what+" as only root field, through a named fragment", false, what+" is the only root field, reached through a fragment on the subscription type", []int{id}, func(d *Doc, ix *Index) {
						ix.Op[id].Sel = []*Selection{NewSpread("SI1")}
						d.Frags = append(d.Frags, &Fragment{Name: "SI1", TypeCond: root.Name, Sel: []*Selection{intro(al)}})
						d.GC()
					})
					add(RSubscriptionRoot, what+" as only root field, through an inline fragment", false, what+" is the only root field, reached through a fragment on the subscription type", []int{id}, func(d *Doc, ix *Index) {
						ix.Op[id].Sel = []*Selection{NewInline(root.Name, intro(al))}
						d.GC()
					})
				}
				if len(c.Op.Sel) == 1 && c.Op.Sel[0].Kind == KField {
					rootID := c.Op.Sel[0].ID
					add(RSubscriptionRoot, "ordinary root field under an alias that starts with two underscores (control)", true, "ordinary root field under an alias that starts with two underscores", []int{id, rootID}, func(d *Doc, ix *Index) {
						ix.Sel[rootID].Alias = "__x"
					})
					add(RSubscriptionRoot, "ordinary root field under an alias that starts with two underscores, through a named fragment (control)", true, "ordinary root field under an alias that starts with two underscores, reached through a fragment on the subscription type", []int{id, rootID}, func(d *Doc, ix *Index) {
						f := ix.Sel[rootID]
						f.Alias = "__x"
						ix.Op[id].Sel = []*Selection{NewSpread("SI1")}
						d.Frags = append(d.Frags, &Fragment{Name: "SI1", TypeCond: root.Name, Sel: []*Selection{f}})
					})
					add(RSubscriptionRoot, "ordinary root field under an alias that starts with two underscores, through an inline fragment (control)", true, "ordinary root field under an alias that starts with two underscores, reached through a fragment on the subscription type", []int{id, rootID}, func(d *Doc, ix *Index) {
						f := ix.Sel[rootID]
						f.Alias = "__x"
						ix.Op[id].Sel = []*Selection{NewInline(root.Name, f)}
					})
				}
				add(RSubscriptionRoot, "__typename as only root field", false, "__typename is the only root field", []int{id}, func(d *Doc, ix *Index) {
					o := ix.Op[id]
					o.Sel = []*Selection{NewField("__typename", nil)}
					d.GC()
				})
			}
		},
		VarDef: func(c *VarDefCtx) {
			id := c.V.ID
			opID := c.Op.ID
			add(RVarUnique, "variable definition duplicated", false, "existing variable definition repeated", []int{id}, func(d *Doc, ix *Index) {
				v := ix.VarDef[id]
				o := ix.Op[opID]
				o.Vars = append(o.Vars, &VarDef{Name: v.Name, Type: v.Type})
			})
		},
		Field: func(c *FieldCtx) {
			id := c.Sel.ID
			curField = c.Sel
			for _, a := range c.Sel.Args {
				ownerField[a.ID] = c.Sel
			}
			pk := s.kindOf(c.Parent)
			add(RFieldsOnType, "field renamed to unknown name", false, "unknown field on "+pk, []int{id}, func(d *Doc, ix *Index) {
				f := ix.Sel[id]
				f.Name = "zz"
			})
			if c.Sel.Sel == nil {
				what := "__typename"
				if c.Def != nil {
					what = s.typeShape(c.Def.Type)
				}
				add(RLeaf, "leaf gets sub-selection", false, "sub-selection on leaf of type "+what, []int{id}, func(d *Doc, ix *Index) {
					ix.Sel[id].Sel = []*Selection{NewField("__typename", nil)}
				})
			} else if c.Def != nil {
				add(RLeaf, "composite loses sub-selection", false, "no sub-selection on field of type "+s.typeShape(c.Def.Type), []int{id}, func(d *Doc, ix *Index) {
					ix.Sel[id].Sel = nil
				})
			}
		},
		Arg: func(c *ArgCtx) {
			if c.Def == nil {
				return
			}
			id := c.Arg.ID
			owner := c.OwnerID
			add(RArgNames, "argument renamed to unknown name", false, "unknown argument on "+c.OwnerKind, []int{id}, func(d *Doc, ix *Index) {
				ix.Arg[id].Name = "zz"
			})
			add(RArgUnique, "argument duplicated", false, "same argument twice on "+c.OwnerKind, []int{id}, func(d *Doc, ix *Index) {
				a := ix.Arg[id]
				l := ix.Args[owner]
				*l = append(*l, NewArg(a.Name, a.Value.Fresh()))
			})
			if c.Def.Type.NonNull && c.Def.DefaultValue == nil {
				on := c.OwnerKind
				if on == "directive" {
					on = "custom directive"
					if c.OwnerName == "skip" || c.OwnerName == "include" {
						on = "@skip / @include"
					}
				}
				add(RArgRequired, "required argument removed", false, "required argument missing on "+on, []int{owner, id}, func(d *Doc, ix *Index) {
					removeArg(ix.Args[owner], id)
				})
			} else if !c.Arg.Value.UsesVar() {
				if f := ownerField[id]; f != nil && hasTwin(f) {
					return
				}
				what := "optional"
				if c.Def.Type.NonNull {
					what = "non-null with default"
				}
				add(RArgRequired, "optional argument removed (control)", true, what+" argument removed from "+c.OwnerKind, []int{owner, id}, func(d *Doc, ix *Index) {
					removeArg(ix.Args[owner], id)
				})
			}
		},
		Value: func(c *ValueCtx) {
			twin := c.OwnerKind == "field" && curField != nil && hasTwin(curField)
			s.valueMutations(d, c, func(rule, op string, valid bool, class string, protect []int, f func(d *Doc, ix *Index)) {
				if valid && twin {
					return // the field merges with an identical twin: changing one of them would create a conflict
				}
				add(rule, op, valid, class, protect, f)
			}, addVar, objT, ifaceT, unionT)
		},
		DirHost: func(c *DirHostCtx) {
			host := c.HostID
			loc := string(c.Loc)
			add(RDirDefined, "unknown directive", false, "unknown directive at "+loc, []int{host}, func(d *Doc, ix *Index) {
				l := ix.Dirs[host]
				*l = append(*l, NewDir("zz"))
			})
			// the argument-less type-system directive @oneOf (every schema has it) used in an operation
			add(RDirLocation, "type-system directive in an operation", false, "argument-less type-system directive @oneOf at "+loc, []int{host}, func(d *Doc, ix *Index) {
				l := ix.Dirs[host]
				*l = append(*l, NewDir("oneOf"))
			})
			add(RDirLocation, "type-system directive with an argument in an operation", false, "argument-less type-system directive @oneOf with an argument at "+loc, []int{host}, func(d *Doc, ix *Index) {
				l := ix.Dirs[host]
				*l = append(*l, NewDir("oneOf", NewArg("zz", Int(1))))
			})
			misplaced := 0
			for _, name := range s.DirectiveNames() {
				dd := s.S.Directives[name]
				if skipDirective[name] {
					continue
				}
				usage := s.directiveUsages(dd)[0]
				builtin := name == "skip" || name == "include"
				if name == "include" {
					usage = NewDir("include", NewArg("if", Bool(true))) // neutral: does not exclude the selection
				}
				twiceClass := "custom non-repeatable directive twice at " + loc
				if builtin {
					twiceClass = "@skip / @include with a literal argument twice at one location"
				}
				if c.Loc == gast.LocationFragmentDefinition {
					twiceClass = "non-repeatable directive twice at " + loc
				}
				executable := false
				for _, l := range dd.Locations {
					switch l {
					case gast.LocationQuery, gast.LocationMutation, gast.LocationSubscription, gast.LocationField, gast.LocationFragmentDefinition,
						gast.LocationFragmentSpread, gast.LocationInlineFragment, gast.LocationVariableDefinition:
						executable = true
					}
				}
				if !executable {
					continue
				}
				argless := len(dd.Arguments) == 0
				if !HasLocation(dd, c.Loc) {
					// at most two per host, but EVERY argument-less directive (a validator may stop looking at a directive
					// once it knows that nothing can be required of it)
					if misplaced++; misplaced > 2 && !argless {
						continue
					}
					mclass := "directive not allowed at " + loc
					if argless {
						mclass = "argument-less directive not allowed at " + loc
					}
					add(RDirLocation, "misplaced directive", false, mclass, []int{host}, func(d *Doc, ix *Index) {
						l := ix.Dirs[host]
						*l = append(*l, freshDir(usage))
					})
					continue
				}
				present := hasDir(c.Dirs, name)
				// (a fragment definition is removed by normalization before the argument rules run: one class for both variants there)
				arglessClass := func(variant string) string {
					if c.Loc == gast.LocationFragmentDefinition {
						return "argument given to an argument-less directive on a fragment definition"
					}
					return "unknown argument (" + variant + ") on argument-less directive at " + loc
				}
				if argless && !present {
					// an argument-less directive given an argument: a literal, an undefined variable
					add(RArgNames, "argument on argument-less directive", false, arglessClass("literal"), []int{host}, func(d *Doc, ix *Index) {
						l := ix.Dirs[host]
						*l = append(*l, NewDir(name, NewArg("zz", Int(1))))
					})
					add(RArgNames, "argument with undefined variable on argument-less directive", false, arglessClass("undefined variable"), []int{host}, func(d *Doc, ix *Index) {
						l := ix.Dirs[host]
						*l = append(*l, NewDir(name, NewArg("zz", Var("undef"))))
					})
				}
				if dd.IsRepeatable {
					if !present {
						add(RDirUnique, "repeatable directive twice (control)", true, "repeatable directive twice at "+loc, []int{host}, func(d *Doc, ix *Index) {
							l := ix.Dirs[host]
							*l = append(*l, freshDir(usage), freshDir(usage))
						})
					}
				} else if !present {
					add(RDirUnique, "non-repeatable directive twice", false, twiceClass, []int{host}, func(d *Doc, ix *Index) {
						l := ix.Dirs[host]
						*l = append(*l, freshDir(usage), freshDir(usage))
					})
				} else {
					add(RDirUnique, "existing non-repeatable directive repeated", false, twiceClass, []int{host}, func(d *Doc, ix *Index) {
						l := ix.Dirs[host]
						*l = append(*l, freshDir(usage))
					})
				}
				if !present && len(s.RequiredArgs(dd.Arguments)) > 0 {
					reqClass := "required argument missing on custom directive"
					if builtin {
						reqClass = "required argument missing on @skip / @include"
					}
					add(RArgRequired, "directive without its required argument", false, reqClass, []int{host}, func(d *Doc, ix *Index) {
						l := ix.Dirs[host]
						*l = append(*l, NewDir(name))
					})
				}
			}
		},
		Inline: func(c *InlineCtx) {
			if c.Sel.TypeCond == "" {
				return
			}
			id := c.Sel.ID
			for _, x := range s.Composites() {
				if s.kindOf(x) == "object" && !s.Overlap(c.Parent, x) {
					x := x
					add(RSpreadPossible, "existing inline fragment retargeted to impossible type", false, "existing inline fragment retargeted to an object type that can never apply", []int{id}, func(d *Doc, ix *Index) {
						ix.Sel[id].TypeCond = x
					})
					break
				}
			}
		},
		Spread: func(c *SpreadCtx) {
			id := c.Sel.ID
			add(RSpreadDefined, "existing spread renamed to undefined fragment", false, "spread of undefined fragment", []int{id}, func(d *Doc, ix *Index) {
				ix.Sel[id].Name = "Nope"
			})
			if c.Def != nil {
				fid := c.Def.ID
				defer func() { out[len(out)-1].Judge = false }()
				add(RFragUnique, "existing fragment definition duplicated", false, "two fragment definitions with one name", []int{id, fid}, func(d *Doc, ix *Index) {
					f := ix.Frag[fid]
					cp := &Fragment{Name: f.Name, TypeCond: f.TypeCond}
					for _, x := range f.Sel {
						cp.Sel = append(cp.Sel, FreshSel(x))
					}
					d.Frags = append(d.Frags, cp)
				})
			}
		},
		Set: func(c *SetCtx) {
			if c.RootKind == "subscription" || c.Parent == subRoot {
				return // inserting selections at a subscription root breaks the single root field rule as well
			}
			owner := c.OwnerID
			parent := c.Parent
			pk := s.kindOf(parent)
			ins := func(rule, op string, valid bool, class string, mk func() ([]*Selection, []*Fragment)) {
				add(rule, op, valid, class, []int{owner}, func(d *Doc, ix *Index) {
					sels, frags := mk()
					set := ix.Set[owner]
					*set = append(*set, sels...)
					d.Frags = append(d.Frags, frags...)
				})
			}
			tn := func() []*Selection { return []*Selection{NewField("__typename", nil)} }

			// 5.3.1 on abstract parents
			pdef := s.S.Types[parent]
			if pdef.IsAbstractType() {
				for _, p := range s.Possible(parent) {
					found := false
					for _, f := range s.Fields(p) {
						if s.Field(parent, f.Name) == nil && !s.IsComposite(f.Type) && len(s.RequiredArgs(f.Arguments)) == 0 {
							name := f.Name
							ins(RFieldsOnType, "member-only field on abstract type", false, "field of a possible type selected directly on "+pk, func() ([]*Selection, []*Fragment) {
								return []*Selection{NewField(name, nil)}, nil
							})
							found = true
							break
						}
					}
					if found {
						break
					}
				}
			}

			// 5.5.2.1
			ins(RSpreadDefined, "spread of undefined fragment", false, "spread of undefined fragment", func() ([]*Selection, []*Fragment) {
				return []*Selection{NewSpread("Nope")}, nil
			})
			// 5.5.1.1 two fragment definitions with one name
			notJudged := len(out)
			ins(RFragUnique, "two fragments with one name", false, "two fragment definitions with one name", func() ([]*Selection, []*Fragment) {
				return []*Selection{NewSpread("DF1")}, []*Fragment{
					{Name: "DF1", TypeCond: parent, Sel: tn()},
					{Name: "DF1", TypeCond: parent, Sel: []*Selection{NewField("__typename", nil), NewSpread("DF2")}},
					{Name: "DF2", TypeCond: parent, Sel: tn()}}
			})
			// which of two equally named definitions a spread "reaches" is not settled by the property statement: observed only
			out[notJudged].Judge = false
			if d.Decorated == 0 && c.OwnerID == mainID {
				// (only on undecorated documents, at the root: this one can take the process down, which costs a helper restart)
				ins(RFragCycles, "self-spreading fragment whose name is defined twice", false, "fragment spreading itself, a second fragment definition has the same name", func() ([]*Selection, []*Fragment) {
					return []*Selection{NewSpread("DF1")}, []*Fragment{
						{Name: "DF1", TypeCond: parent, Sel: []*Selection{NewSpread("DF1")}},
						{Name: "DF1", TypeCond: parent, Sel: []*Selection{NewField("__typename", nil), NewSpread("DF2")}},
						{Name: "DF2", TypeCond: parent, Sel: tn()}}
				})
			}
			// 5.5.2.2 cycles of length 1..3 and an acyclic chain as control
			for n := 1; n <= 3; n++ {
				n := n
				ins(RFragCycles, fmt.Sprintf("fragment cycle of length %d", n), false, fmt.Sprintf("fragment cycle of length %d", n), func() ([]*Selection, []*Fragment) {
					var fr []*Fragment
					for i := 1; i <= n; i++ {
						next := i%n + 1
						fr = append(fr, &Fragment{Name: fmt.Sprintf("CY%d", i), TypeCond: parent,
							Sel: []*Selection{NewField("__typename", nil), NewSpread(fmt.Sprintf("CY%d", next))}})
					}
					return []*Selection{NewSpread("CY1")}, fr
				})
			}
			ins(RFragCycles, "acyclic fragment chain (control)", true, "acyclic chain of three fragments", func() ([]*Selection, []*Fragment) {
				return []*Selection{NewSpread("CH1")}, []*Fragment{
					{Name: "CH1", TypeCond: parent, Sel: []*Selection{NewField("__typename", nil), NewSpread("CH2")}},
					{Name: "CH2", TypeCond: parent, Sel: []*Selection{NewField("__typename", nil), NewSpread("CH3")}},
					{Name: "CH3", TypeCond: parent, Sel: tn()},
				}
			})
			ins(RFragCycles, "one fragment spread twice (control)", true, "same fragment spread twice", func() ([]*Selection, []*Fragment) {
				return []*Selection{NewSpread("CH1"), NewSpread("CH1")}, []*Fragment{{Name: "CH1", TypeCond: parent, Sel: tn()}}
			})
			// 5.5.2.3. Abstract parent: EVERY other abstract type as type condition (every ordered pair of abstract
			// types; valid iff the sets of possible object types intersect) plus one object type on each side.
			// Object parent: one type of each kind (object, interface, union) on each side.
			seenImp, seenOv := map[string]bool{}, map[string]bool{}
			parentAbstract := pdef.IsAbstractType()
			for _, x := range s.Composites() {
				x := x
				xk := s.kindOf(x)
				if x == parent {
					continue
				}
				all := parentAbstract && xk != "object"
				if !s.Overlap(parent, x) {
					if seenImp[xk] && !all {
						continue
					}
					seenImp[xk] = true
					ins(RSpreadPossible, "inline fragment on impossible type", false, "inline fragment on "+xk+" that can never apply inside "+pk, func() ([]*Selection, []*Fragment) {
						return []*Selection{NewInline(x, tn()...)}, nil
					})
					ins(RSpreadPossible, "named fragment on impossible type", false, "spread of fragment on "+xk+" that can never apply inside "+pk, func() ([]*Selection, []*Fragment) {
						return []*Selection{NewSpread("IM1")}, []*Fragment{{Name: "IM1", TypeCond: x, Sel: tn()}}
					})
				} else {
					if seenOv[xk] && !all {
						continue
					}
					seenOv[xk] = true
					common := "several common possible types"
					if s.commonPossible(parent, x) == 1 {
						common = "exactly one common possible type"
					}
					if xk == "object" || !parentAbstract {
						common = ""
					} else {
						common = " (" + common + ")"
					}
					ins(RSpreadPossible, "inline fragment on overlapping type (control)", true, "inline fragment on overlapping "+xk+" inside "+pk+common, func() ([]*Selection, []*Fragment) {
						return []*Selection{NewInline(x, tn()...)}, nil
					})
					ins(RSpreadPossible, "named fragment on overlapping type (control)", true, "spread of fragment on overlapping "+xk+" inside "+pk+common, func() ([]*Selection, []*Fragment) {
						return []*Selection{NewSpread("PO1")}, []*Fragment{{Name: "PO1", TypeCond: x, Sel: tn()}}
					})
				}
			}
			// 5.5.1.3 / 5.5.1.2
			for _, x := range []string{"String", enumT, inputT} {
				if x == "" {
					continue
				}
				x := x
				xk := s.kindOf(x)
				if xk == "String" {
					xk = "scalar"
				}
				ins(RFragOnComposite, "inline fragment on non-composite type", false, "inline fragment on "+xk, func() ([]*Selection, []*Fragment) {
					return []*Selection{NewInline(x, tn()...)}, nil
				})
				if x == "String" || x == inputT {
					ins(RFragOnComposite, "named fragment on non-composite type", false, "named fragment on "+xk, func() ([]*Selection, []*Fragment) {
						return []*Selection{NewSpread("NC1")}, []*Fragment{{Name: "NC1", TypeCond: x, Sel: tn()}}
					})
				}
			}
			ins(RFragTypeExists, "inline fragment on unknown type", false, "inline fragment on unknown type", func() ([]*Selection, []*Fragment) {
				return []*Selection{NewInline("Nope", tn()...)}, nil
			})
			ins(RFragTypeExists, "named fragment on unknown type", false, "named fragment on unknown type", func() ([]*Selection, []*Fragment) {
				return []*Selection{NewSpread("UT1")}, []*Fragment{{Name: "UT1", TypeCond: "Nope", Sel: tn()}}
			})

			s.mergeMutations(parent, ins)
		},
	})
	return out
}

func (s *Schema) sortedTypes() []string {
	out := append([]string{}, s.Composites()...)
	out = append(out, s.NonComposites()...)
	return out
}

type addFn func(rule, op string, valid bool, class string, protect []int, f func(d *Doc, ix *Index))

func (s *Schema) valueMutations(d *Doc, c *ValueCtx, add addFn, addVar func(d *Doc, defs ...*VarDef), objT, ifaceT, unionT string) {
	v := c.V
	id := v.ID
	where := c.Pos + " of " + c.OwnerKind
	switch c.Pos {
	case "item":
		where = "list item"
	case "field":
		where = "input object field"
	case "arg":
		where = c.OwnerKind + " argument"
	case "default":
		where = "variable default value"
	}
	// variables: the nested positions share one code path in the implementation
	vwhere := where
	if c.Pos == "item" || c.Pos == "field" {
		vwhere = "nested in a list / input object literal"
	}
	t := c.Type
	named := t.Name()
	shape := s.typeShape(t)
	set := func(rule, op string, valid bool, class string, nv *Value) {
		add(rule, op, valid, class, []int{id}, func(d *Doc, ix *Index) {
			slot := ix.Val[id]
			n := nv.Fresh()
			*slot = n
			d.GC()
		})
	}

	if v.K == VVar {
		return
	}
	literal := !v.UsesVar()

	// ---- 5.6.1 wrong kinds (also valid when the old value mentioned a variable: it becomes unused, still invalid)
	if literal {
		if t.Elem == nil {
			for _, w := range s.wrongLiterals(named) {
				set(RValues, "literal of wrong kind", false, litKind(w)+" literal where "+s.kindOf(named)+" expected, "+where, w)
			}
			if !isCustomScalar(s, named) {
				ws := s.Witnesses(&gast.Type{NamedType: named, NonNull: true})
				if len(ws) > 0 {
					set(RValues, "list literal for non-list type", false, "list literal where "+s.kindOf(named)+" expected, "+where, List(ws[0]))
				}
			}
		} else {
			inner := t
			for inner.Elem != nil {
				inner = inner.Elem
			}
			if wl := s.wrongLiterals(inner.NamedType); len(wl) > 0 {
				set(RValues, "wrong-kind scalar for list type", false, litKind(wl[0])+" literal where list of "+s.kindOf(inner.NamedType)+" expected, "+where, wl[0])
				set(RValues, "list with wrong-kind item", false, "list literal with "+litKind(wl[0])+" item where list of "+s.kindOf(inner.NamedType)+" expected, "+where, List(wl[0]))
			}
		}
		if v.K != VNull {
			if t.NonNull {
				set(RValues, "null for non-null type", false, "null where a non-null type is expected, "+where, Null())
			} else if c.Pos != "default" {
				// (a null default would change whether the variable may be used in a non-null position)
				set(RValues, "null for nullable type (control)", true, "null where a nullable type is expected, "+where, Null())
			}
		}
		// other valid literals of the expected type (controls)
		n := 0
		for _, w := range s.Witnesses(t) {
			if w.String() == v.String() || w.K == VNull {
				continue
			}
			set(RValues, "another valid literal (control)", true, litKind(w)+" literal where "+shape+" expected, "+where, w)
			n++
			if n == 3 {
				break
			}
		}
	}

	// ---- input objects
	if v.K == VObject && t.Elem == nil {
		if def := s.S.Types[named]; def != nil && def.Kind == gast.InputObject {
			add(RInputFieldNames, "unknown input field", false, "unknown field in input object, "+where, []int{id}, func(d *Doc, ix *Index) {
				o := *ix.Val[id]
				o.Fields = append(o.Fields, &ObjField{Name: "zz", Value: Int(1)})
			})
			for _, f := range v.Fields {
				f := f
				fd := def.Fields.ForName(f.Name)
				if fd == nil {
					continue
				}
				fid := f.ID
				remove := func(d *Doc, ix *Index) {
					o := *ix.Val[id]
					kept := o.Fields[:0:0]
					for _, x := range o.Fields {
						if x.ID != fid {
							kept = append(kept, x)
						}
					}
					if kept == nil {
						kept = []*ObjField{}
					}
					o.Fields = kept
					d.GC()
				}
				add(RInputFieldUnique, "input field duplicated", false, "same field twice in input object, "+where, []int{id, fid}, func(d *Doc, ix *Index) {
					o := *ix.Val[id]
					x := ix.ObjF[fid]
					o.Fields = append(o.Fields, &ObjField{Name: x.Name, Value: x.Value.Fresh()})
				})
				if fd.Type.NonNull && fd.DefaultValue == nil {
					add(RInputFieldReq, "required input field removed", false, "required field missing in input object, "+where, []int{id, fid}, remove)
				} else if !f.Value.UsesVar() {
					add(RInputFieldReq, "optional input field removed (control)", true, "optional field removed from input object, "+where, []int{id, fid}, remove)
				}
			}
		}
	}

	// ---- variables (a literal is replaced by a variable)
	if !literal || c.InDefault {
		return
	}
	useVar := func(rule, op string, valid bool, class string, defs func() []*VarDef) {
		add(rule, op, valid, class, []int{id}, func(d *Doc, ix *Index) {
			slot := ix.Val[id]
			*slot = Var("mv")
			addVar(d, defs()...)
			d.GC()
		})
	}
	ts := t.String()
	vd := func(typ string, def *Value) func() []*VarDef {
		return func() []*VarDef {
			x := &VarDef{Name: "mv", Type: typ}
			if def != nil {
				x.Default = def.Fresh()
			}
			return []*VarDef{x}
		}
	}
	useVar(RVarDefined, "use of undefined variable", false, "undefined variable, "+vwhere, func() []*VarDef { return nil })
	useVar(RVarAllowed, "variable of exactly the expected type (control)", true, "variable of exactly the expected type, "+vwhere, vd(ts, nil))
	if c.Pos == "arg" {
		useVar(RVarUnique, "variable defined twice", false, "two definitions of one variable", func() []*VarDef {
			return []*VarDef{{Name: "mv", Type: ts}, {Name: "mv", Type: ts}}
		})
		for _, bad := range []struct{ typ, what string }{{objT, "object type"}, {"[" + objT + "]", "list of object type"}, {ifaceT, "interface type"}, {unionT, "union type"}, {"Nope", "unknown type"}} {
			if bad.typ == "" || bad.typ == "[]" {
				continue
			}
			useVar(RVarInputType, "variable of non-input type", false, "variable of "+bad.what, vd(bad.typ, nil))
		}
		useVar(RDirLocation, "misplaced directive", false, "directive not allowed at VARIABLE_DEFINITION", func() []*VarDef {
			return []*VarDef{{Name: "mv", Type: ts, Directives: []*Directive{NewDir("include", NewArg("if", Bool(true)))}}}
		})
		// default value of the wrong kind
		inner := t
		for inner.Elem != nil {
			inner = inner.Elem
		}
		if wl := s.wrongLiterals(inner.NamedType); len(wl) > 0 {
			useVar(RValues, "variable default of wrong kind", false, litKind(wl[0])+" literal where "+s.kindOf(inner.NamedType)+" expected, variable default value", vd(ts, wl[0]))
		}
		if t.NonNull {
			useVar(RValues, "null default for non-null variable", false, "null where a non-null type is expected, variable default value", vd(ts, Null()))
		}
	}
	// 5.8.5 positions
	if t.NonNull {
		nullable := stripNonNull(ts)
		if c.LocDefault {
			useVar(RVarAllowed, "nullable variable where the location has a default (control)", true, "nullable variable in non-null position that has a default value, "+vwhere, vd(nullable, nil))
		} else {
			useVar(RVarAllowed, "nullable variable in non-null position", false, "nullable variable in non-null position, "+vwhere, vd(nullable, nil))
			if v.K != VNull {
				useVar(RVarAllowed, "nullable variable with default in non-null position (control)", true, "nullable variable with default value in non-null position, "+vwhere, vd(nullable, v))
			}
		}
	} else {
		useVar(RVarAllowed, "non-null variable in nullable position (control)", true, "non-null variable in nullable position, "+vwhere, vd(ts+"!", nil))
	}
	if t.Elem != nil {
		// [E!] <- [E] ; [E] <- E
		if t.Elem.NonNull {
			loose := &gast.Type{Elem: &gast.Type{NamedType: t.Elem.NamedType, Elem: t.Elem.Elem}, NonNull: t.NonNull}
			useVar(RVarAllowed, "list variable with nullable items where non-null items expected", false, "list variable with nullable items where non-null items are expected, "+vwhere, vd(loose.String(), nil))
		}
		item := &gast.Type{NamedType: t.Elem.NamedType, Elem: t.Elem.Elem, NonNull: true}
		useVar(RVarAllowed, "item-typed variable in list position", false, "variable of the item type in list position, "+vwhere, vd(item.String(), nil))
	} else {
		useVar(RVarAllowed, "list variable in non-list position", false, "list variable in non-list position, "+vwhere, vd("["+named+"!]!", nil))
		// a variable of another type whose default value happens to fit the location
		for _, alt := range [][3]string{{"Int", "Float", "1"}, {"Float", "Int", "1"}, {"String", "ID", "s"}, {"ID", "String", "s"}, {"ID", "Int", "1"}} {
			if alt[0] != named {
				continue
			}
			def := Int(1)
			if alt[2] == "s" {
				def = Str("s")
			}
			useVar(RVarAllowed, "variable of another type with a default value that fits the location", false, "variable of another named type whose default value fits, "+vwhere, vd(alt[1], def))
		}
		other := "String"
		if named == "String" {
			other = "Int"
		}
		if !isCustomScalar(s, named) {
			useVar(RVarAllowed, "variable of another type", false, "variable of another named type, "+vwhere, vd(other+"!", nil))
		}
	}
}

// mergeMutations inserts pairs of fields with one response name into a selection set on parent.
func (s *Schema) mergeMutations(parent string, ins func(rule, op string, valid bool, class string, mk func() ([]*Selection, []*Fragment))) {
	pdef := s.S.Types[parent]
	_ = s.kindOf
	mkField := func(alias string, f *gast.FieldDefinition, args []*Arg) *Selection {
		x := NewField(f.Name, args)
		if args == nil {
			x.Args = s.RequiredArgs(f.Arguments)
		}
		x.Alias = alias
		if s.IsComposite(f.Type) {
			x.Sel = []*Selection{NewField("__typename", nil)}
		}
		return x
	}
	all := 3
	placements := func(rule, op string, valid bool, class string, a, b func() *Selection) {
		n := all
		all = 3
		ins(rule, op+", same selection set", valid, class, func() ([]*Selection, []*Fragment) {
			return []*Selection{a(), b()}, nil
		})
		if n < 2 {
			return
		}
		ins(rule, op+", through two named fragments", valid, class, func() ([]*Selection, []*Fragment) {
			return []*Selection{NewSpread("MA1"), NewSpread("MB1")}, []*Fragment{
				{Name: "MA1", TypeCond: parent, Sel: []*Selection{a()}}, {Name: "MB1", TypeCond: parent, Sel: []*Selection{b()}}}
		})
		if n < 3 {
			return
		}
		ins(rule, op+", one inside an inline fragment", valid, class, func() ([]*Selection, []*Fragment) {
			return []*Selection{a(), NewInline(parent, b())}, nil
		})
	}
	if pdef.Kind != gast.Union {
		var leaves []*gast.FieldDefinition
		for _, f := range s.Fields(parent) {
			if !s.IsComposite(f.Type) {
				leaves = append(leaves, f)
			}
		}
		// same parent, different fields: invalid whatever the types are; prefer two fields of the same type
		var f1, f2 *gast.FieldDefinition
		for i := 0; i < len(leaves) && f1 == nil; i++ {
			for j := i + 1; j < len(leaves); j++ {
				if leaves[i].Type.String() == leaves[j].Type.String() {
					f1, f2 = leaves[i], leaves[j]
					break
				}
			}
		}
		if f1 == nil && len(leaves) >= 2 {
			f1, f2 = leaves[0], leaves[1]
		}
		if f1 != nil {
			same := ""
			if f1.Type.String() == f2.Type.String() {
				same = " of the same type"
			}
			placements(RMerging, "two different fields under one response name", false, "different fields"+same+" under one response name",
				func() *Selection { return mkField("cx", f1, nil) }, func() *Selection { return mkField("cx", f2, nil) })
		}
		// differing arguments
		for _, f := range s.Fields(parent) {
			var arg *gast.ArgumentDefinition
			var w1, w2 *Value
			for _, a := range f.Arguments {
				if x, y := s.twoLiterals(a.Type); x != nil {
					arg, w1, w2 = a, x, y
					break
				}
			}
			if arg == nil {
				continue
			}
			f, arg := f, arg
			with := func(w *Value) func() *Selection {
				return func() *Selection {
					as := s.RequiredArgsExcept(f.Arguments, arg.Name)
					if w != nil {
						as = append(as, NewArg(arg.Name, w.Fresh()))
					}
					return mkField("cy", f, as)
				}
			}
			fk := "leaf"
			if s.IsComposite(f.Type) {
				fk = "composite"
			}
			placements(RMerging, "same field with different argument values", false, "same "+fk+" field twice under one response name with different argument values", with(w1), with(w2))
			all = 2
			placements(RMerging, "same field with identical arguments (control)", true, "same "+fk+" field twice with identical arguments", with(w1), with(w1))
			break
		}
		for _, f := range s.Fields(parent) {
			var arg *gast.ArgumentDefinition
			for _, a := range f.Arguments {
				if !a.Type.NonNull {
					arg = a
					break
				}
			}
			if arg == nil {
				continue
			}
			f, arg := f, arg
			w := s.Witnesses(arg.Type)[0]
			with := func(w *Value) func() *Selection {
				return func() *Selection {
					as := s.RequiredArgsExcept(f.Arguments, arg.Name)
					if w != nil {
						as = append(as, NewArg(arg.Name, w.Fresh()))
					}
					return mkField("cy", f, as)
				}
			}
			fk := "leaf"
			if s.IsComposite(f.Type) {
				fk = "composite"
			}
			all = 2
			placements(RMerging, "same field with and without an argument", false, "same "+fk+" field twice under one response name with different argument values", with(w), with(nil))
			break
		}
		// nested conflict below one composite field
		for _, f := range s.Fields(parent) {
			if !s.IsComposite(f.Type) || len(s.RequiredArgs(f.Arguments)) > 0 {
				continue
			}
			sub := s.S.Types[f.Type.Name()]
			if sub.Kind == gast.Union {
				continue
			}
			var ls []*gast.FieldDefinition
			for _, g := range s.Fields(sub.Name) {
				if !s.IsComposite(g.Type) && len(s.RequiredArgs(g.Arguments)) == 0 {
					ls = append(ls, g)
				}
			}
			if len(ls) < 2 {
				continue
			}
			f := f
			mk := func(inner *gast.FieldDefinition) func() *Selection {
				return func() *Selection {
					x := NewField(f.Name, nil, &Selection{Kind: KField, Alias: "cx", Name: inner.Name})
					x.Alias = "cw"
					return x
				}
			}
			all = 2
			placements(RMerging, "conflict below two occurrences of one composite field", false, "different fields under one response name one level below a repeated composite field", mk(ls[0]), mk(ls[1]))
			break
		}
	}
	// abstract parent: pairs under two non-overlapping object type conditions
	if pdef.IsAbstractType() {
		poss := s.Possible(parent)
		if len(poss) >= 2 {
			ta, tb := poss[0], poss[1]
			seen := map[string]bool{}
			for _, fa := range s.Fields(ta) {
				for _, fb := range s.Fields(tb) {
					if len(s.RequiredArgs(fa.Arguments)) > 0 || len(s.RequiredArgs(fb.Arguments)) > 0 {
						continue
					}
					ca, cb := s.IsComposite(fa.Type), s.IsComposite(fb.Type)
					leafKind := func(t *gast.Type) string {
						if s.S.Types[t.Name()].Kind == gast.Enum {
							return "enum"
						}
						return "scalar"
					}
					la, lb := fa.Type.Elem != nil, fb.Type.Elem != nil
					var class, op string
					valid := false
					switch {
					case ca != cb:
						lk := leafKind(fa.Type)
						if ca {
							lk = leafKind(fb.Type)
						}
						class, op = "fields of different type kinds (composite / scalar / enum)", "composite vs "+lk+" under one response name"
					case ca && cb && la != lb:
						class, op = "list and non-list composite field", "list vs non-list composite under one response name"
					case ca && cb && fa.Type.Name() != fb.Type.Name() && stripAllNonNull(fa.Type.String()) != stripAllNonNull(fb.Type.String()) && !la:
						class, op, valid = "composite fields of different types without conflicting sub-selections", "different composite types (control)", true
					case ca && cb:
						continue
					case fa.Type.String() == fb.Type.String() && fa.Name != fb.Name:
						class, op, valid = "different fields of identical type", "different fields of identical type (control)", true
					case fa.Type.String() == fb.Type.String():
						continue
					case stripAllNonNull(fa.Type.String()) == stripAllNonNull(fb.Type.String()):
						class, op = "fields differing in nullability only", "nullable vs non-null under one response name"
					case la != lb:
						class, op = "list and non-list leaf field", "list vs non-list under one response name"
					case leafKind(fa.Type) != leafKind(fb.Type):
						class, op = "fields of different type kinds (composite / scalar / enum)", "scalar vs enum under one response name"
					case leafKind(fa.Type) == "enum":
						class, op = "fields of different enum types", "different leaf types under one response name"
					default:
						class, op = "fields of different scalar types", "different leaf types under one response name"
					}
					if seen[op] {
						continue
					}
					seen[op] = true
					fa, fb := fa, fb
					a := func() *Selection { return NewInline(ta, mkField("cz", fa, nil)) }
					b := func() *Selection { return NewInline(tb, mkField("cz", fb, nil)) }
					ins(RMerging, op+", under two object type conditions", valid, class+" under one response name on two different object types", func() ([]*Selection, []*Fragment) {
						return []*Selection{a(), b()}, nil
					})
					ins(RMerging, op+", through two named fragments on object types", valid, class+" under one response name on two different object types", func() ([]*Selection, []*Fragment) {
						return []*Selection{NewSpread("MA1"), NewSpread("MB1")}, []*Fragment{
							{Name: "MA1", TypeCond: ta, Sel: []*Selection{mkField("cz", fa, nil)}}, {Name: "MB1", TypeCond: tb, Sel: []*Selection{mkField("cz", fb, nil)}}}
					})
				}
			}
			// same field name, same type, different argument values on two object types: valid
			for _, fa := range s.Fields(ta) {
				fb := s.Field(tb, fa.Name)
				if fb == nil || fieldSig(fa) != fieldSig(fb) || s.IsComposite(fa.Type) {
					continue
				}
				var opt *gast.ArgumentDefinition
				var w1, w2 *Value
				for _, a := range fa.Arguments {
					if x, y := s.twoLiterals(a.Type); x != nil {
						opt, w1, w2 = a, x, y
						break
					}
				}
				if opt == nil {
					continue
				}
				fa, opt := fa, opt
				ws := []*Value{w1, w2}
				mk := func(on string, w *Value) *Selection {
					as := append(s.RequiredArgsExcept(fa.Arguments, opt.Name), NewArg(opt.Name, w.Fresh()))
					return NewInline(on, mkField("cz", fa, as))
				}
				ins(RMerging, "same field with different arguments under two object type conditions (control)", true, "same field with different argument values in inline fragments on two different object types", func() ([]*Selection, []*Fragment) {
					return []*Selection{mk(ta, ws[0]), mk(tb, ws[1])}, nil
				})
				break
			}
		}
	}
	s.threeWayMutations(parent, ins)
}

// RequiredArgsExcept is RequiredArgs without the named argument.
func (s *Schema) RequiredArgsExcept(defs gast.ArgumentDefinitionList, except string) []*Arg {
	out := []*Arg{}
	for _, a := range s.RequiredArgs(defs) {
		if a.Name != except {
			out = append(out, a)
		}
	}
	return out
}

// twoLiterals returns two different non-null literals of a scalar / enum (or list of such) type.
func (s *Schema) twoLiterals(t *gast.Type) (*Value, *Value) {
	if t.Elem != nil {
		a, b := s.twoLiterals(t.Elem)
		if a == nil {
			return nil, nil
		}
		return List(a), List(b)
	}
	def := s.S.Types[t.NamedType]
	switch {
	case def.Kind == gast.Enum:
		if len(def.EnumValues) >= 2 {
			return Enum(def.EnumValues[0].Name), Enum(def.EnumValues[1].Name)
		}
	case def.Kind == gast.Scalar:
		switch def.Name {
		case "Int":
			return Int(1), Int(2)
		case "Float":
			return Float("1.5"), Float("2.5")
		case "String":
			return Str("s"), Str("t")
		case "Boolean":
			return Bool(true), Bool(false)
		case "ID":
			return Str("1"), Str("2")
		default:
			return Int(1), Int(2)
		}
	}
	return nil, nil
}

func stripAllNonNull(t string) string { return strings.ReplaceAll(t, "!", "") }

// threeWayMutations: three (and four) leaf selections with one response name at
// one path, spread over sibling object type conditions and the enclosing
// interface, in EVERY order. Two of them are identical (on object type ty and on
// the interface), the third - on the sibling object type tx - selects a different
// field of the same type, or the same field with another argument value: legal
// against the ty branch (tx and ty never overlap), a conflict with the
// interface-level selection (a tx object has both).
func (s *Schema) threeWayMutations(parent string, ins func(rule, op string, valid bool, class string, mk func() ([]*Selection, []*Fragment))) {
	pdef := s.S.Types[parent]
	if pdef.Kind != gast.Interface {
		return
	}
	poss := s.Possible(parent)
	if len(poss) < 2 {
		return
	}
	plain := func(f *gast.FieldDefinition) bool {
		return !s.IsComposite(f.Type) && len(s.RequiredArgs(f.Arguments)) == 0
	}
	sel := func(f *gast.FieldDefinition, args []*Arg) func() *Selection {
		return func() *Selection {
			var as []*Arg
			for _, a := range args {
				as = append(as, NewArg(a.Name, a.Value.Fresh()))
			}
			x := NewField(f.Name, as)
			x.Alias = "cz"
			return x
		}
	}
	type variant struct {
		what       string
		same, diff func() *Selection
		tx         string   // object type that carries the different selection
		others     []string // other possible types on which the identical selection is valid
	}
	var vs []variant
	othersFor := func(g *gast.FieldDefinition, tx string) []string {
		var out []string
		for _, ty := range poss {
			if gy := s.Field(ty, g.Name); ty != tx && gy != nil && fieldSig(gy) == fieldSig(g) {
				out = append(out, ty)
			}
		}
		return out
	}
	// a different field of the same type
search:
	for _, g := range s.Fields(parent) {
		if !plain(g) {
			continue
		}
		for _, tx := range poss {
			gx := s.Field(tx, g.Name)
			if gx == nil || fieldSig(gx) != fieldSig(g) {
				continue
			}
			for _, h := range s.Fields(tx) {
				if h.Name == g.Name || !plain(h) || h.Type.String() != g.Type.String() {
					continue
				}
				if o := othersFor(g, tx); len(o) > 0 {
					vs = append(vs, variant{"a different field of the same type", sel(g, nil), sel(h, nil), tx, o})
					break search
				}
			}
		}
	}
	// the same field with another argument value
	for _, g := range s.Fields(parent) {
		if s.IsComposite(g.Type) || len(g.Arguments) == 0 {
			continue
		}
		var arg *gast.ArgumentDefinition
		var w1, w2 *Value
		for _, a := range g.Arguments {
			if x, y := s.twoLiterals(a.Type); x != nil {
				arg, w1, w2 = a, x, y
				break
			}
		}
		if arg == nil {
			continue
		}
		tx := poss[len(poss)-1]
		if gx := s.Field(tx, g.Name); gx == nil || fieldSig(gx) != fieldSig(g) {
			continue
		}
		if o := othersFor(g, tx); len(o) > 0 {
			req := s.RequiredArgsExcept(g.Arguments, arg.Name)
			vs = append(vs, variant{"the same field with another argument value", sel(g, append(append([]*Arg{}, req...), NewArg(arg.Name, w1))), sel(g, append(append([]*Arg{}, req...), NewArg(arg.Name, w2))), tx, o})
		}
		break
	}
	type elem struct {
		name string // role in the order description
		on   string // type condition ("" = selected directly on the interface)
		mk   func() *Selection
	}
	emit := func(v variant, order []elem, valid bool, op, class string) {
		var names []string
		for _, e := range order {
			names = append(names, e.name)
		}
		where := strings.Join(names, ", ")
		ctl := ""
		if valid {
			ctl = " (control)"
		}
		ins(RMerging, op+", order: "+where+", inline"+ctl, valid, class, func() ([]*Selection, []*Fragment) {
			var out []*Selection
			for _, e := range order {
				if e.on == "" {
					out = append(out, e.mk())
				} else {
					out = append(out, NewInline(e.on, e.mk()))
				}
			}
			return out, nil
		})
		ins(RMerging, op+", order: "+where+", interface level inside an inline fragment on the interface"+ctl, valid, class, func() ([]*Selection, []*Fragment) {
			var out []*Selection
			for _, e := range order {
				on := e.on
				if on == "" {
					on = parent
				}
				out = append(out, NewInline(on, e.mk()))
			}
			return out, nil
		})
		ins(RMerging, op+", order: "+where+", through named fragments"+ctl, valid, class, func() ([]*Selection, []*Fragment) {
			var out []*Selection
			var fr []*Fragment
			for i, e := range order {
				on := e.on
				if on == "" {
					on = parent
				}
				name := fmt.Sprintf("TW%d", i+1)
				out = append(out, NewSpread(name))
				fr = append(fr, &Fragment{Name: name, TypeCond: on, Sel: []*Selection{e.mk()}})
			}
			return out, fr
		})
	}
	for _, v := range vs {
		a := elem{"object type condition (identical)", v.others[0], v.same}
		b := elem{"sibling object type condition (different)", v.tx, v.diff}
		p := elem{"interface", "", v.same}
		class := "three selections under one response name: identical on an object type condition and on the enclosing interface, " + v.what + " on a sibling object type condition"
		for _, order := range [][]elem{{a, b, p}, {a, p, b}, {b, a, p}, {b, p, a}, {p, a, b}, {p, b, a}} {
			emit(v, order, false, "three-way response name conflict", class)
		}
		// controls: all three identical; three sibling object type conditions without the interface level
		bs := elem{"sibling object type condition (identical)", v.tx, v.same}
		emit(v, []elem{a, bs, p}, true, "three identical selections under one response name", "three identical selections under one response name on two object type conditions and the enclosing interface")
		if len(v.others) >= 2 {
			c := elem{"second object type condition (identical)", v.others[1], v.same}
			emit(v, []elem{a, b, c}, true, "three sibling object type conditions under one response name", "three selections under one response name on three different object type conditions, "+v.what+" on one of them")
			class4 := "four selections under one response name: identical on two object type conditions and on the enclosing interface, " + v.what + " on a sibling object type condition"
			for _, order := range [][]elem{{a, c, b, p}, {a, b, c, p}, {b, a, c, p}, {p, a, c, b}} {
				emit(v, order, false, "four-way response name conflict", class4)
			}
		}
	}
}
