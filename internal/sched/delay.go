package sched

// Delay-bounded exploration (Emmi, Qadeer, Rakamaric: "Delay-bounded
// scheduling", POPL 2011) on top of the same RunOne machinery as Explorer.
//
// Explorer bounds preemptions only: whenever the running thread blocks or
// returns, EVERY enabled thread is explored for free. With 8-10 short-lived
// threads per execution (actors, trigger start-up goroutines, fan-out workers,
// context callbacks) these free choices alone multiply to 10^5..10^6 executions
// at preemption bound 0. DelayExplorer bounds them too: the reference is the
// deterministic scheduler "keep the running thread while it is enabled, else the
// enabled thread with the lowest logical id" (= alternative 0 of every point);
// taking alternative i of a thread choice costs i delays (UnitCost: 1), the
// clock pseudo thread always costs 1; an environment data choice (Choose) costs
// one deviation from the separate DevBound budget as in Explorer. All schedules
// whose total cost is <= Bound are executed, each exactly once.
//
// Nothing in sched.go is changed; C11 keeps using Explorer.

import (
	"strings"
	"testing/synctest"
)

type DelayExplorer struct {
	S        *Sched
	Bound    int  // delay budget
	UnitCost bool // every non-default thread choice costs 1 instead of its index
	DevBound int  // data-choice deviations
	Shard    int
	NShards  int
	ShardAt  int // recursion depth at which subtrees are dealt to shards (default 2)
	Expired  func() bool
	OnExec   func(sc *Scenario, x *Exec, outcome string, delays int)
	// OnDiverge is told about every attempt in which a schedule prefix did not replay
	// (the prefix is retried up to 3 times, then its subtree is skipped).
	OnDiverge func(sc *Scenario, x *Exec, prefix []int)
	Stats     Stats
	MaxExecs  int64
	// Skipped counts the prefixes whose subtree was given up after 3 diverged attempts
	// (Stats.Divergences counts every diverged attempt, including successfully retried ones).
	Skipped int64

	inner Explorer
}

func (e *DelayExplorer) cost(p *PointRec, alt int) int {
	if alt == 0 {
		return 0
	}
	if e.UnitCost || (alt < len(p.Labels) && strings.HasPrefix(p.Labels[alt], "clock@")) {
		return 1
	}
	return alt
}

// Explore runs the scenario under every schedule within the bounds.
func (e *DelayExplorer) Explore(sc *Scenario) {
	if e.Stats.Outcomes == nil {
		e.Stats.Outcomes = map[string]int64{}
		e.Stats.First = map[string][]int{}
	}
	if e.NShards <= 0 {
		e.NShards = 1
	}
	if e.ShardAt <= 0 {
		e.ShardAt = 2
	}
	e.inner.S = e.S
	e.explore(sc, nil, nil, 0)
	e.Stats.Divergences = e.inner.Stats.Divergences
}

// runChecked is Explorer.runChecked with a report of every diverged attempt.
func (e *DelayExplorer) runChecked(sc *Scenario, prefix []int, expect []string) (*Exec, string) {
	var x *Exec
	for attempt := 0; attempt < 3; attempt++ {
		x = e.S.RunOne(prefix, expect, func() { sc.Body(e.S) })
		if x.Diverged == "" {
			break
		}
		e.inner.Stats.Divergences++
		if e.OnDiverge != nil {
			e.OnDiverge(sc, x, prefix)
		}
		e.S.Finish()
		if sc.Cleanup != nil {
			sc.Cleanup()
		}
		synctest.Wait()
	}
	if x.Diverged != "" {
		e.Skipped++
		return x, ""
	}
	outcome, _ := sc.Check(e.S, x)
	e.S.Finish()
	if sc.Cleanup != nil {
		sc.Cleanup()
	}
	synctest.Wait()
	return x, outcome
}

func (e *DelayExplorer) explore(sc *Scenario, prefix []int, expect []string, depth int) {
	if e.Stats.Capped {
		return
	}
	if e.Expired != nil && e.Expired() {
		e.Stats.Capped = true
		return
	}
	if e.MaxExecs > 0 && e.Stats.Executions >= e.MaxExecs {
		e.Stats.Capped = true
		return
	}
	if depth == e.ShardAt {
		if int(hashPrefix(prefix)%uint64(e.NShards)) != e.Shard {
			return
		}
	}
	x, outcome := e.runChecked(sc, prefix, expect)
	if x.Diverged != "" {
		return
	}
	// cost of the executed schedule
	used, dev := 0, 0
	for i := range x.Points {
		p := &x.Points[i]
		if p.Data {
			if p.Chosen != 0 {
				dev++
			}
		} else {
			used += e.cost(p, p.Chosen)
		}
	}
	count := depth >= e.ShardAt || e.Shard == 0
	if count {
		e.Stats.Executions++
		e.Stats.Transitions += int64(len(x.Points))
		if len(x.Points) > e.Stats.MaxPoints {
			e.Stats.MaxPoints = len(x.Points)
		}
		if x.Deadlock {
			e.Stats.Deadlocks++
		}
		if x.Horizon {
			e.Stats.Horizons++
		}
		if _, ok := e.Stats.Outcomes[outcome]; !ok {
			e.Stats.First[outcome] = append([]int{}, x.Choices...)
		}
		e.Stats.Outcomes[outcome]++
		if e.OnExec != nil {
			e.OnExec(sc, x, outcome, used)
		}
	}
	labels := x.Trace()
	cd, cdev := 0, 0 // cost of the choices before point i
	for i := 0; i < len(x.Points); i++ {
		p := &x.Points[i]
		if i >= len(prefix) {
			if count {
				e.Stats.States++
			}
			for alt := 1; alt < p.N; alt++ {
				nd, ndev := cd, cdev
				if p.Data {
					ndev++
				} else {
					nd += e.cost(p, alt)
				}
				if nd > e.Bound || ndev > e.DevBound {
					continue
				}
				np := append(append(make([]int, 0, i+1), x.Choices[:i]...), alt)
				ne := append(append(make([]string, 0, i+1), labels[:i]...), p.Labels[alt])
				e.explore(sc, np, ne, depth+1)
			}
		}
		if p.Data {
			if p.Chosen != 0 {
				cdev++
			}
		} else {
			cd += e.cost(p, p.Chosen)
		}
	}
}
