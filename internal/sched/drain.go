package sched

import (
	"sort"
	"testing/synctest"
	"time"
)

// DrainInfo is the result of Drain.
type DrainInfo struct {
	Steps      int      // threads released while draining
	Horizon    bool     // maxSteps reached before quiescence
	Unfinished []string // named actors that still did not return
	Parked     []string // labels that are still parked (and disabled) afterwards
}

// RunDefault releases enabled threads in the canonical default order (the
// thread that ran last while it stays enabled, else the lowest logical thread
// id; data choices are answered with alternative 0) until no parked thread is
// enabled. Nothing is recorded and nothing branches: it deterministically
// extends an execution that RunOne has finished. It returns the number of
// releases and whether maxSteps stopped it.
//
// It must be called on the explorer goroutine, after RunOne returned and before
// Finish.
func (s *Sched) RunDefault(maxSteps int) (steps int, horizon bool) {
	last := -1
	for {
		synctest.Wait()
		s.mu.Lock()
		var best *parked
		for _, p := range s.parked {
			if !p.ready() {
				continue
			}
			if p.tid == last {
				best = p
				break
			}
			if best == nil || p.tid < best.tid {
				best = p
			}
		}
		s.mu.Unlock()
		if best == nil {
			return steps, false
		}
		if steps >= maxSteps {
			return steps, true
		}
		if best.nalt > 0 {
			best.answer = 0
		}
		last = best.tid
		steps++
		s.release(best)
	}
}

// Drain completes an execution whose schedule (and budget of explored virtual
// time advances) is used up: it runs the default schedule to quiescence, then
// `rounds` times advances the virtual clock by `step` and runs the default
// schedule again. A thread that only waits for a timer (ack time-out, idle
// close, ping interval, close handshake time-out) therefore finishes; what is
// still unfinished or parked afterwards waits for something that can never
// happen. stop (optional) ends the rounds early once it reports true at
// quiescence.
func (s *Sched) Drain(rounds int, step time.Duration, maxSteps int, stop func() bool) DrainInfo {
	var d DrainInfo
	n, h := s.RunDefault(maxSteps)
	d.Steps += n
	d.Horizon = d.Horizon || h
	for r := 0; r < rounds && !d.Horizon; r++ {
		if stop != nil && stop() {
			break
		}
		time.Sleep(step)
		n, h = s.RunDefault(maxSteps - d.Steps)
		d.Steps += n
		d.Horizon = d.Horizon || h
	}
	s.mu.Lock()
	for name, done := range s.actorSt {
		if !done {
			d.Unfinished = append(d.Unfinished, name)
		}
	}
	sort.Strings(d.Unfinished)
	for _, p := range s.parked {
		d.Parked = append(d.Parked, s.names[p.tid]+"@"+p.kind)
	}
	s.mu.Unlock()
	return d
}

// ActorDone reports whether the named actor (started with Go) has returned.
func (s *Sched) ActorDone(name string) bool {
	s.mu.Lock()
	defer s.mu.Unlock()
	return s.actorSt[name]
}
