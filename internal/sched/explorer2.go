package sched

// Explorer2 is Explorer with one more bound. Explorer (CHESS style preemption
// bounding) treats every context switch at a point where the thread that ran
// last is NOT enabled (it blocked, finished, or waits for a condition) as free
// and explores all of them; with many short lived environment actors and
// blocking I/O (scripted upstream, pipes) that alone is exponential. Explorer2
// keeps the preemption bound and the deviation bound and adds
//
//	SwitchBound: at a point where the thread that ran last is not enabled, the
//	             default continuation (lowest logical thread id) is free, any
//	             other choice costs one "switch" from this budget (< 0: unbounded,
//	             i.e. exactly Explorer's search),
//	TotalBound:  optional cap on preemptions + switches + deviations (0: none).
//
// The search is still exhaustive below the bounds: every schedule that differs
// from the deterministic default scheduler by at most Bound preemptions,
// SwitchBound non-default hand-overs and DevBound environment deviations.
type Explorer2 struct {
	S           *Sched
	Bound       int
	DevBound    int
	SwitchBound int
	TotalBound  int
	Shard       int
	NShards     int
	ShardAt     int
	Expired     func() bool
	OnExec      func(sc *Scenario, x *Exec, outcome string, f []Finding)
	Stats       Stats
	MaxExecs    int64
	// SkippedSubtrees counts prefixes that still diverged after the retries of
	// runChecked (Stats.Divergences counts every diverged attempt).
	SkippedSubtrees int64
}

// Cost reports the (preemptions, switches, deviations) of an execution under
// Explorer2's accounting.
func Cost(x *Exec) (pre, sw, dev int) {
	for _, p := range x.Points {
		if p.Chosen == 0 {
			continue
		}
		switch {
		case p.Data:
			dev++
		case p.RunningEnabled:
			pre++
		default:
			sw++
		}
	}
	return
}

func (e *Explorer2) Explore(sc *Scenario) {
	if e.Stats.Outcomes == nil {
		e.Stats.Outcomes = map[string]int64{}
		e.Stats.First = map[string][]int{}
	}
	if e.NShards <= 0 {
		e.NShards = 1
	}
	if e.ShardAt <= 0 {
		e.ShardAt = 2
	}
	e.explore(sc, nil, nil, 0)
}

func (e *Explorer2) explore(sc *Scenario, prefix []int, expect []string, depth int) {
	if e.Stats.Capped {
		return
	}
	if e.Expired != nil && e.Expired() {
		e.Stats.Capped = true
		return
	}
	if e.MaxExecs > 0 && e.Stats.Executions >= e.MaxExecs {
		e.Stats.Capped = true
		return
	}
	if depth == e.ShardAt {
		if int(hashPrefix(prefix)%uint64(e.NShards)) != e.Shard {
			return
		}
	}
	inner := &Explorer{S: e.S}
	x, outcome, fs := inner.runChecked(sc, prefix, expect)
	e.Stats.Divergences += inner.Stats.Divergences
	if x.Diverged != "" {
		e.SkippedSubtrees++
		return
	}
	count := depth >= e.ShardAt || e.Shard == 0
	if count {
		e.Stats.Executions++
		e.Stats.Transitions += int64(len(x.Points))
		if len(x.Points) > e.Stats.MaxPoints {
			e.Stats.MaxPoints = len(x.Points)
		}
		if x.Deadlock {
			e.Stats.Deadlocks++
		}
		if x.Horizon {
			e.Stats.Horizons++
		}
		if _, ok := e.Stats.Outcomes[outcome]; !ok {
			e.Stats.First[outcome] = append([]int{}, x.Choices...)
		}
		e.Stats.Outcomes[outcome]++
		if e.OnExec != nil {
			e.OnExec(sc, x, outcome, fs)
		}
	}
	pre, sw, dev := 0, 0, 0
	labels := x.Trace()
	for i := 0; i < len(x.Points); i++ {
		p := x.Points[i]
		if i >= len(prefix) {
			if count {
				e.Stats.States++
			}
			for alt := 1; alt < p.N; alt++ {
				cp, cs, cd := pre, sw, dev
				switch {
				case p.Data:
					cd++
				case p.RunningEnabled:
					cp++
				default:
					cs++
				}
				if cp > e.Bound || cd > e.DevBound || (e.SwitchBound >= 0 && cs > e.SwitchBound) {
					continue
				}
				if e.TotalBound > 0 && cp+cs+cd > e.TotalBound {
					continue
				}
				np := append(append(make([]int, 0, i+1), x.Choices[:i]...), alt)
				ne := append(append(make([]string, 0, i+1), labels[:i]...), p.Labels[alt])
				e.explore(sc, np, ne, depth+1)
			}
		}
		if p.Chosen != 0 {
			switch {
			case p.Data:
				dev++
			case p.RunningEnabled:
				pre++
			default:
				sw++
			}
		}
	}
}
