// Package sched is engine S of DESIGN.md: a cooperative scheduler and a
// stateless depth-first explorer with iterative preemption bounding. It runs
// inside one testing/synctest bubble: synctest.Wait() is the quiescence
// detector, time is virtual and advances only when the explorer chooses the
// "clock" pseudo thread.
//
// Threads reach the scheduler through Hook (installed as vsync.Hook by the
// build overlay: every Mutex/RWMutex lock, sync.Map method, atomic operation,
// WaitGroup Add/Done, Once, close/send/cancel statement of the instrumented
// packages) and through the explicit Point/Choose calls of harness actors.
package sched

import (
	"bytes"
	"fmt"
	"runtime"
	"sort"
	"strconv"
	"strings"
	"sync"
	"testing/synctest"
	"time"
)

func goid() int64 {
	var buf [64]byte
	n := runtime.Stack(buf[:], false)
	s := buf[len("goroutine "):n]
	i := bytes.IndexByte(s, ' ')
	id, _ := strconv.ParseInt(string(s[:i]), 10, 64)
	return id
}

type parked struct {
	tid   int
	g     int64
	kind  string
	ready func() bool
	grant chan struct{}
	// data choice
	nalt   int
	answer int
}

// PointRec is one decision of an execution.
type PointRec struct {
	N              int      // number of alternatives
	Chosen         int      // index taken
	RunningEnabled bool     // the thread that ran last was still enabled (switching away = preemption)
	Data           bool     // environment (data) choice instead of a thread choice
	Labels         []string // label of every alternative, canonical order
}

// Exec is the record of one complete execution.
type Exec struct {
	Points      []PointRec
	Choices     []int
	Deadlock    bool
	Horizon     bool
	Diverged    string
	Unfinished  []string // named actors that did not return
	Parked      []string // labels still parked at the end (disabled)
	Steps       int
	Preemptions int
	Deviations  int
}

// Trace renders the chosen labels.
func (x *Exec) Trace() []string {
	out := make([]string, 0, len(x.Points))
	for _, p := range x.Points {
		if p.Chosen < len(p.Labels) {
			out = append(out, p.Labels[p.Chosen])
		}
	}
	return out
}

type Sched struct {
	mu       sync.Mutex
	active   bool
	epoch    int
	parked   []*parked
	tids     map[int64]int // goid -> logical thread id (order of first appearance)
	names    map[int]string
	nextTid  int
	actors   int
	finished int
	actorSt  map[string]bool
	stale    map[int64]bool
	// clock pseudo thread
	ticks []time.Duration
	tick  int
	// replay
	prefix []int
	expect []string
	pos    int
	x      *Exec
	last   int
	// limits
	MaxSteps  int
	Panics    []string
	explorerG int64
}

func New() *Sched {
	return &Sched{tids: map[int64]int{}, names: map[int]string{}, stale: map[int64]bool{}, actorSt: map[string]bool{}, MaxSteps: 5000}
}

func yes() bool { return true }

func (s *Sched) tidOf(g int64, name string) int {
	if t, ok := s.tids[g]; ok {
		return t
	}
	t := s.nextTid
	s.nextTid++
	s.tids[g] = t
	if name == "" {
		name = "t" + strconv.Itoa(t)
	}
	s.names[t] = name
	return t
}

// Hook is the schedule point used by the shims.
func (s *Sched) Hook(kind string, obj any, ready func() bool) {
	s.park(kind, ready, 0)
}

// Point is an explicit, always enabled schedule point of a harness actor.
func (s *Sched) Point(label string) { s.park(label, yes, 0) }

// PointWhen is an explicit point that is enabled only while ready() holds.
func (s *Sched) PointWhen(label string, ready func() bool) { s.park(label, ready, 0) }

// Choose is an environment (data) choice with n alternatives. Alternative 0 is
// the default answer; any other answer costs one deviation.
func (s *Sched) Choose(label string, n int) int {
	if n <= 1 {
		return 0
	}
	return s.park(label, yes, n)
}

func (s *Sched) park(kind string, ready func() bool, nalt int) int {
	g := goid()
	s.mu.Lock()
	if !s.active || s.stale[g] || g == s.explorerG {
		s.mu.Unlock()
		for !ready() {
			runtime.Gosched()
		}
		return 0
	}
	p := &parked{g: g, kind: kind, ready: ready, grant: make(chan struct{}), nalt: nalt}
	p.tid = s.tidOf(g, "")
	s.parked = append(s.parked, p)
	s.mu.Unlock()
	<-p.grant
	return p.answer
}

// Go starts a named harness actor. Its logical thread id is fixed by the order
// of the Go calls; it parks at "<name>:start" before running f.
func (s *Sched) Go(name string, f func()) {
	s.mu.Lock()
	s.actors++
	s.actorSt[name] = false
	reg := make(chan struct{})
	s.mu.Unlock()
	go func() {
		g := goid()
		s.mu.Lock()
		s.tidOf(g, name)
		s.mu.Unlock()
		close(reg)
		defer func() {
			if r := recover(); r != nil {
				buf := make([]byte, 8192)
				n := runtime.Stack(buf, false)
				s.mu.Lock()
				s.Panics = append(s.Panics, fmt.Sprintf("actor %s: panic: %v\n%s", name, r, buf[:n]))
				s.mu.Unlock()
			}
			s.mu.Lock()
			s.finished++
			s.actorSt[name] = true
			s.mu.Unlock()
		}()
		s.Point(name + ":start")
		f()
	}()
	<-reg
}

// WaitFree is for the free-running mode (a Sched that is never activated: every
// point is a no-op yield, Go starts plain goroutines): it waits until all actors
// have returned or the time is up.
func (s *Sched) WaitFree(d time.Duration) bool {
	end := time.Now().Add(d)
	for time.Now().Before(end) {
		s.mu.Lock()
		done := s.finished == s.actors
		s.mu.Unlock()
		if done {
			return true
		}
		time.Sleep(200 * time.Microsecond)
	}
	return false
}

// SetClock gives the execution a budget of virtual time advances.
func (s *Sched) SetClock(ticks ...time.Duration) { s.ticks = ticks }

func (s *Sched) reset() {
	s.mu.Lock()
	for _, p := range s.parked {
		s.stale[p.g] = true
		close(p.grant)
	}
	s.parked = nil
	s.tids = map[int64]int{}
	s.names = map[int]string{}
	s.actorSt = map[string]bool{}
	s.nextTid = 0
	s.actors, s.finished = 0, 0
	s.ticks, s.tick = nil, 0
	s.Panics = nil
	s.epoch++
	s.mu.Unlock()
}

const clockTid = 1 << 30

type cand struct {
	p     *parked
	tid   int
	label string
	alt   int
}

// RunOne executes body under the schedule prefix (then default choices) and
// returns the record. body must only spawn actors (s.Go) and return.
func (s *Sched) RunOne(prefix []int, expect []string, body func()) *Exec {
	s.reset()
	s.explorerG = goid()
	x := &Exec{}
	s.x = x
	s.mu.Lock()
	s.active = true
	s.mu.Unlock()
	body()
	last := -1
	for {
		synctest.Wait()
		s.mu.Lock()
		var en []cand
		var dataP *parked
		for _, p := range s.parked {
			if p.ready() {
				if p.nalt > 0 && p.tid == last && dataP == nil {
					dataP = p
				}
				en = append(en, cand{p: p, tid: p.tid, label: s.names[p.tid] + "@" + p.kind})
			}
		}
		allDone := s.finished == s.actors
		s.mu.Unlock()

		// a data choice of the running thread is answered immediately (it is
		// not a thread switch): alternatives are the answers.
		if dataP != nil {
			pt := PointRec{N: dataP.nalt, Data: true}
			for a := 0; a < dataP.nalt; a++ {
				pt.Labels = append(pt.Labels, fmt.Sprintf("%s@%s=%d", s.names[dataP.tid], dataP.kind, a))
			}
			c := s.nextChoice(x, &pt, prefix, expect)
			if c < 0 {
				break
			}
			if c != 0 {
				x.Deviations++
			}
			dataP.answer = c
			s.release(dataP)
			continue
		}
		sort.SliceStable(en, func(i, j int) bool { return en[i].tid < en[j].tid })
		// a parked data-choice of a thread that is not running is an ordinary
		// thread candidate: once chosen, it becomes the running thread and its
		// data choice is answered in the next iteration.
		if s.tick < len(s.ticks) {
			en = append(en, cand{tid: clockTid, label: fmt.Sprintf("clock@advance(%s)", s.ticks[s.tick])})
		}
		if len(en) == 0 || (len(en) == 1 && en[0].tid == clockTid && allDone && s.noParked()) {
			if !allDone {
				x.Deadlock = true
			}
			break
		}
		if x.Steps >= s.MaxSteps {
			x.Horizon = true
			break
		}
		idx := -1
		for i, c := range en {
			if c.tid == last {
				idx = i
			}
		}
		if idx > 0 {
			r := en[idx]
			copy(en[1:idx+1], en[0:idx])
			en[0] = r
		}
		pt := PointRec{N: len(en), RunningEnabled: idx >= 0}
		for _, c := range en {
			pt.Labels = append(pt.Labels, c.label)
		}
		c := s.nextChoice(x, &pt, prefix, expect)
		if c < 0 {
			break
		}
		if pt.RunningEnabled && c != 0 {
			x.Preemptions++
		}
		ch := en[c]
		last = ch.tid
		x.Steps++
		if ch.tid == clockTid {
			d := s.ticks[s.tick]
			s.tick++
			time.Sleep(d)
			continue
		}
		if ch.p.nalt > 0 {
			// becomes running; answered next iteration
			continue
		}
		s.release(ch.p)
	}
	s.mu.Lock()
	for name, done := range s.actorSt {
		if !done {
			x.Unfinished = append(x.Unfinished, name)
		}
	}
	sort.Strings(x.Unfinished)
	for _, p := range s.parked {
		x.Parked = append(x.Parked, s.names[p.tid]+"@"+p.kind)
	}
	s.mu.Unlock()
	return x
}

func (s *Sched) noParked() bool {
	s.mu.Lock()
	defer s.mu.Unlock()
	return len(s.parked) == 0
}

func (s *Sched) nextChoice(x *Exec, pt *PointRec, prefix []int, expect []string) int {
	c := 0
	i := len(x.Points)
	if i < len(prefix) {
		c = prefix[i]
		if c >= pt.N {
			x.Diverged = fmt.Sprintf("replay divergence at point %d: want alternative %d of %d %v", i, c, pt.N, pt.Labels)
			return -1
		}
		if i < len(expect) && expect[i] != "" && expect[i] != pt.Labels[c] {
			x.Diverged = fmt.Sprintf("replay divergence at point %d: expected %q, alternatives %v", i, expect[i], pt.Labels)
			return -1
		}
	}
	pt.Chosen = c
	x.Points = append(x.Points, *pt)
	x.Choices = append(x.Choices, c)
	return c
}

func (s *Sched) release(p *parked) {
	s.mu.Lock()
	for i, q := range s.parked {
		if q == p {
			s.parked = append(s.parked[:i], s.parked[i+1:]...)
			break
		}
	}
	s.mu.Unlock()
	close(p.grant)
}

// Finish deactivates the scheduler and lets every goroutine that is still
// parked run freely (tear-down). Call it after the oracle looked at the state.
func (s *Sched) Finish() {
	s.mu.Lock()
	s.active = false
	for _, p := range s.parked {
		close(p.grant)
	}
	s.parked = nil
	s.mu.Unlock()
}

// ---------------------------------------------------------------------------
// Explorer

// Scenario is one closed system: Body spawns the actors on a fresh instance of
// the code under test; Check is the oracle for one complete execution (it runs
// while the scheduler is still active but quiescent) and returns an outcome key
// (for the distinct-outcome count) and violation descriptions; Cleanup tears
// the instance down (cancel root contexts), after which the bubble must become
// quiescent again.
type Scenario struct {
	Name    string
	Body    func(s *Sched)
	Check   func(s *Sched, x *Exec) (outcome string, violations []Finding)
	Cleanup func()
}

type Finding struct {
	Clause string
	Site   string
	Detail string
}

type Stats struct {
	Executions  int64
	Transitions int64
	States      int64 // distinct (scenario, choice-prefix) decision nodes visited = executions' branching points
	Divergences int64
	Deadlocks   int64
	Horizons    int64
	MaxPoints   int
	Capped      bool
	Outcomes    map[string]int64
	First       map[string][]int
}

type Explorer struct {
	S         *Sched
	Bound     int // preemption bound
	DevBound  int // deviation (data choice) bound
	Shard     int
	NShards   int
	ShardAt   int // recursion depth at which subtrees are dealt to shards (default 2)
	Expired   func() bool
	OnExec    func(sc *Scenario, x *Exec, outcome string, f []Finding)
	Stats     Stats
	MaxExecs  int64
	countRoot bool
}

func hashPrefix(p []int) uint64 {
	var h uint64 = 1469598103934665603
	for _, v := range p {
		h ^= uint64(v + 1)
		h *= 1099511628211
	}
	return h
}

// Explore runs the scenario under every schedule within the bounds.
func (e *Explorer) Explore(sc *Scenario) {
	if e.Stats.Outcomes == nil {
		e.Stats.Outcomes = map[string]int64{}
		e.Stats.First = map[string][]int{}
	}
	if e.NShards <= 0 {
		e.NShards = 1
	}
	if e.ShardAt <= 0 {
		e.ShardAt = 2
	}
	e.explore(sc, nil, nil, 0)
}

func (e *Explorer) runChecked(sc *Scenario, prefix []int, expect []string) (*Exec, string, []Finding) {
	var x *Exec
	for attempt := 0; attempt < 3; attempt++ {
		x = e.S.RunOne(prefix, expect, func() { sc.Body(e.S) })
		if x.Diverged == "" {
			break
		}
		e.Stats.Divergences++
		e.S.Finish()
		if sc.Cleanup != nil {
			sc.Cleanup()
		}
		synctest.Wait()
	}
	if x.Diverged != "" {
		return x, "", nil
	}
	outcome, fs := sc.Check(e.S, x)
	for _, p := range e.S.Panics {
		fs = append(fs, Finding{Clause: "no panic", Site: panicSite(p), Detail: p})
	}
	e.S.Finish()
	if sc.Cleanup != nil {
		sc.Cleanup()
	}
	synctest.Wait()
	return x, outcome, fs
}

func panicSite(p string) string {
	// first frame inside the repository
	for _, ln := range strings.Split(p, "\n") {
		ln = strings.TrimSpace(ln)
		if strings.HasPrefix(ln, "github.com/wundergraph/graphql-go-tools/") {
			if i := strings.LastIndex(ln, "("); i > 0 {
				ln = ln[:i]
			}
			return strings.TrimPrefix(ln, "github.com/wundergraph/graphql-go-tools/")
		}
	}
	return "unknown"
}

func (e *Explorer) explore(sc *Scenario, prefix []int, expect []string, depth int) {
	if e.Stats.Capped {
		return
	}
	if e.Expired != nil && e.Expired() {
		e.Stats.Capped = true
		return
	}
	if e.MaxExecs > 0 && e.Stats.Executions >= e.MaxExecs {
		e.Stats.Capped = true
		return
	}
	owned := true
	if depth == e.ShardAt {
		owned = int(hashPrefix(prefix)%uint64(e.NShards)) == e.Shard
		if !owned {
			return
		}
	}
	x, outcome, fs := e.runChecked(sc, prefix, expect)
	if x.Diverged != "" {
		return
	}
	count := depth >= e.ShardAt || e.Shard == 0
	if count {
		e.Stats.Executions++
		e.Stats.Transitions += int64(len(x.Points))
		if len(x.Points) > e.Stats.MaxPoints {
			e.Stats.MaxPoints = len(x.Points)
		}
		if x.Deadlock {
			e.Stats.Deadlocks++
		}
		if x.Horizon {
			e.Stats.Horizons++
		}
		if _, ok := e.Stats.Outcomes[outcome]; !ok {
			e.Stats.First[outcome] = append([]int{}, x.Choices...)
		}
		e.Stats.Outcomes[outcome]++
		if e.OnExec != nil {
			e.OnExec(sc, x, outcome, fs)
		}
	}
	pre, dev := 0, 0
	labels := x.Trace()
	for i := 0; i < len(x.Points); i++ {
		p := x.Points[i]
		if i >= len(prefix) {
			if count {
				e.Stats.States++
			}
			for alt := 1; alt < p.N; alt++ {
				cp, cd := pre, dev
				if p.Data {
					cd++
				} else if p.RunningEnabled {
					cp++
				}
				if cp > e.Bound || cd > e.DevBound {
					continue
				}
				np := append(append(make([]int, 0, i+1), x.Choices[:i]...), alt)
				ne := append(append(make([]string, 0, i+1), labels[:i]...), p.Labels[alt])
				e.explore(sc, np, ne, depth+1)
			}
		}
		if p.Chosen != 0 {
			if p.Data {
				dev++
			} else if p.RunningEnabled {
				pre++
			}
		}
	}
}
