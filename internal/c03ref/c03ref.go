// Package c03ref is the small reference GraphQL executor used by check C03
// ("any backend" of the property): it executes an operation that was parsed by
// gqlparser against a tiny fixed data universe with ARGUMENT-ECHOING resolvers,
// i.e. the value of every field that takes arguments is a deterministic function
// of its parent object and its *coerced* argument values (defaults applied,
// absent distinguished from null, single values coerced to lists). A changed
// argument value, a dropped or duplicated field, a wrongly evaluated
// @skip/@include or a wrongly injected default therefore changes the response.
//
// Implemented from the GraphQL specification (October 2021): CoerceVariableValues
// (6.1.2), CollectFields (6.3.2), CoerceArgumentValues (6.4.1), input coercion
// of 3.x (Int, String, Boolean, ID, enums, lists incl. single-value coercion,
// input objects with defaults), CompleteValue with non-null propagation and
// MergeSelectionSets (6.4.3). It does not depend on the repository under test.
package c03ref

import (
	"encoding/json"
	"fmt"
	"sort"
	"strconv"
	"strings"

	"github.com/vektah/gqlparser/v2"
	"github.com/vektah/gqlparser/v2/ast"
	"github.com/vektah/gqlparser/v2/gqlerror"
	"github.com/vektah/gqlparser/v2/parser"
	"github.com/vektah/gqlparser/v2/validator"
)

// LoadSchema parses and validates the SDL with gqlparser (prelude included).
func LoadSchema(sdl string) (*ast.Schema, error) {
	s, err := gqlparser.LoadSchema(&ast.Source{Name: "schema", Input: sdl})
	if err != nil {
		return nil, err
	}
	return s, nil
}

// Parse parses q and validates it with gqlparser's default rule set.
// perr is a syntax error, verrs the validation errors (with rule names).
func Parse(schema *ast.Schema, q string) (doc *ast.QueryDocument, perr error, verrs gqlerror.List) {
	doc, err := parser.ParseQuery(&ast.Source{Input: q})
	if err != nil {
		return nil, err, nil
	}
	verrs = validator.Validate(schema, doc)
	return doc, nil, verrs
}

// Obj is one object of the data universe.
type Obj struct {
	Type string         // concrete object type name
	ID   string         // identity, part of every echoed value
	F    map[string]any // field name -> scalar | *Obj | []any | nil ; fields not listed are echo fields
}

// Absent marks "no value" (different from null) during input coercion.
type absent struct{}

// Exec executes operation opName ("" = the only one) of doc on root.
// vars is the raw variables object (JSON decoded with UseNumber, or nil).
// It returns the data value and the list of errors (request or field errors).
func Exec(schema *ast.Schema, doc *ast.QueryDocument, opName string, vars map[string]any, root *Obj) (data any, errs []string) {
	var op *ast.OperationDefinition
	for _, o := range doc.Operations {
		if opName == "" || o.Name == opName {
			op = o
			break
		}
	}
	if op == nil {
		return nil, []string{"operation not found"}
	}
	x := &executor{schema: schema, doc: doc}
	cv, err := x.coerceVariables(op, vars)
	if err != nil {
		return nil, []string{"variables: " + err.Error()}
	}
	x.vars = cv
	rootType := schema.Query
	if op.Operation == ast.Mutation {
		rootType = schema.Mutation
	}
	if rootType == nil {
		return nil, []string{"no root type"}
	}
	v, ok := x.executeSelectionSets([]ast.SelectionSet{op.SelectionSet}, rootType.Name, root)
	if !ok {
		return nil, x.errs
	}
	return v, x.errs
}

// CoerceVariables exposes CoerceVariableValues for the validity oracle.
func CoerceVariables(schema *ast.Schema, doc *ast.QueryDocument, opName string, vars map[string]any) (map[string]any, error) {
	for _, o := range doc.Operations {
		if opName == "" || o.Name == opName {
			x := &executor{schema: schema, doc: doc}
			return x.coerceVariables(o, vars)
		}
	}
	return nil, fmt.Errorf("operation not found")
}

type executor struct {
	schema *ast.Schema
	doc    *ast.QueryDocument
	vars   map[string]any
	errs   []string
}

func (x *executor) errorf(format string, a ...any) {
	x.errs = append(x.errs, fmt.Sprintf(format, a...))
}

// ---------------------------------------------------------------- input coercion

func (x *executor) coerceVariables(op *ast.OperationDefinition, vars map[string]any) (map[string]any, error) {
	out := map[string]any{}
	declared := map[string]bool{}
	for _, vd := range op.VariableDefinitions {
		declared[vd.Variable] = true
		val, provided := vars[vd.Variable]
		if !provided {
			if vd.DefaultValue != nil {
				dv, err := x.coerceLiteral(vd.Type, vd.DefaultValue, nil)
				if err != nil {
					return nil, fmt.Errorf("default of $%s: %v", vd.Variable, err)
				}
				if _, abs := dv.(absent); !abs {
					out[vd.Variable] = dv
				}
				continue
			}
			if vd.Type.NonNull {
				return nil, fmt.Errorf("$%s of type %s is required", vd.Variable, vd.Type.String())
			}
			continue
		}
		if val == nil {
			if vd.Type.NonNull {
				return nil, fmt.Errorf("$%s of type %s must not be null", vd.Variable, vd.Type.String())
			}
			out[vd.Variable] = nil
			continue
		}
		cv, err := x.coerceJSON(vd.Type, val)
		if err != nil {
			return nil, fmt.Errorf("$%s: %v", vd.Variable, err)
		}
		out[vd.Variable] = cv
	}
	return out, nil
}

func (x *executor) coerceJSON(t *ast.Type, v any) (any, error) {
	if v == nil {
		if t.NonNull {
			return nil, fmt.Errorf("null for %s", t.String())
		}
		return nil, nil
	}
	if t.Elem != nil {
		if l, ok := v.([]any); ok {
			out := make([]any, len(l))
			for i, e := range l {
				ce, err := x.coerceJSON(t.Elem, e)
				if err != nil {
					return nil, fmt.Errorf("[%d]: %v", i, err)
				}
				out[i] = ce
			}
			return out, nil
		}
		ce, err := x.coerceJSON(t.Elem, v)
		if err != nil {
			return nil, err
		}
		return []any{ce}, nil
	}
	def := x.schema.Types[t.NamedType]
	if def == nil {
		return nil, fmt.Errorf("unknown type %s", t.NamedType)
	}
	switch def.Kind {
	case ast.Scalar:
		return coerceScalarJSON(def.Name, v)
	case ast.Enum:
		s, ok := v.(string)
		if !ok || def.EnumValues.ForName(s) == nil {
			return nil, fmt.Errorf("%v is not a value of enum %s", v, def.Name)
		}
		return s, nil
	case ast.InputObject:
		m, ok := v.(map[string]any)
		if !ok {
			return nil, fmt.Errorf("%v is not an object for %s", v, def.Name)
		}
		for k := range m {
			if def.Fields.ForName(k) == nil {
				return nil, fmt.Errorf("unknown field %s of %s", k, def.Name)
			}
		}
		out := map[string]any{}
		for _, f := range def.Fields {
			fv, provided := m[f.Name]
			if !provided {
				if f.DefaultValue != nil {
					dv, err := x.coerceLiteral(f.Type, f.DefaultValue, nil)
					if err != nil {
						return nil, err
					}
					out[f.Name] = dv
				} else if f.Type.NonNull {
					return nil, fmt.Errorf("field %s.%s is required", def.Name, f.Name)
				}
				continue
			}
			cv, err := x.coerceJSON(f.Type, fv)
			if err != nil {
				return nil, fmt.Errorf("%s: %v", f.Name, err)
			}
			out[f.Name] = cv
		}
		return out, nil
	}
	return nil, fmt.Errorf("%s is not an input type", def.Name)
}

func coerceScalarJSON(name string, v any) (any, error) {
	switch name {
	case "Int":
		switch n := v.(type) {
		case json.Number:
			i, err := strconv.ParseInt(n.String(), 10, 32)
			if err != nil {
				return nil, fmt.Errorf("%s is not an Int", n)
			}
			return i, nil
		case float64:
			if n == float64(int32(n)) {
				return int64(n), nil
			}
		case int:
			return int64(n), nil
		case int64:
			return n, nil
		}
		return nil, fmt.Errorf("%v is not an Int", v)
	case "Float":
		switch n := v.(type) {
		case json.Number:
			f, err := strconv.ParseFloat(n.String(), 64)
			if err != nil {
				return nil, fmt.Errorf("%s is not a Float", n)
			}
			return f, nil
		case float64:
			return n, nil
		case int:
			return float64(n), nil
		case int64:
			return float64(n), nil
		}
		return nil, fmt.Errorf("%v is not a Float", v)
	case "String":
		if s, ok := v.(string); ok {
			return s, nil
		}
		return nil, fmt.Errorf("%v is not a String", v)
	case "Boolean":
		if b, ok := v.(bool); ok {
			return b, nil
		}
		return nil, fmt.Errorf("%v is not a Boolean", v)
	case "ID":
		switch n := v.(type) {
		case string:
			return n, nil
		case json.Number:
			if _, err := strconv.ParseInt(n.String(), 10, 64); err == nil {
				return n.String(), nil
			}
		}
		return nil, fmt.Errorf("%v is not an ID", v)
	}
	return nil, fmt.Errorf("scalar %s is not modelled", name)
}

// coerceLiteral coerces a literal (possibly containing variables) to type t.
// vars == nil means "constant context" (defaults). A variable without a runtime
// value yields absent{}.
func (x *executor) coerceLiteral(t *ast.Type, v *ast.Value, vars map[string]any) (any, error) {
	if v.Kind == ast.Variable {
		if vars == nil {
			return nil, fmt.Errorf("variable in constant")
		}
		val, ok := vars[v.Raw]
		if !ok {
			return absent{}, nil
		}
		if val == nil && t.NonNull {
			return nil, fmt.Errorf("null variable $%s for %s", v.Raw, t.String())
		}
		return val, nil // already coerced against its declared type
	}
	if v.Kind == ast.NullValue {
		if t.NonNull {
			return nil, fmt.Errorf("null for %s", t.String())
		}
		return nil, nil
	}
	if t.Elem != nil {
		if v.Kind == ast.ListValue {
			out := make([]any, 0, len(v.Children))
			for _, c := range v.Children {
				ce, err := x.coerceLiteral(t.Elem, c.Value, vars)
				if err != nil {
					return nil, err
				}
				if _, abs := ce.(absent); abs {
					if t.Elem.NonNull {
						return nil, fmt.Errorf("absent variable in list of %s", t.Elem.String())
					}
					ce = nil
				}
				out = append(out, ce)
			}
			return out, nil
		}
		ce, err := x.coerceLiteral(t.Elem, v, vars)
		if err != nil {
			return nil, err
		}
		return []any{ce}, nil
	}
	def := x.schema.Types[t.NamedType]
	if def == nil {
		return nil, fmt.Errorf("unknown type %s", t.NamedType)
	}
	switch def.Kind {
	case ast.Scalar:
		switch def.Name {
		case "Int":
			if v.Kind == ast.IntValue {
				i, err := strconv.ParseInt(v.Raw, 10, 32)
				if err != nil {
					return nil, err
				}
				return i, nil
			}
		case "Float":
			if v.Kind == ast.IntValue || v.Kind == ast.FloatValue {
				f, err := strconv.ParseFloat(v.Raw, 64)
				if err != nil {
					return nil, err
				}
				return f, nil
			}
		case "String":
			if v.Kind == ast.StringValue || v.Kind == ast.BlockValue {
				return v.Raw, nil
			}
		case "Boolean":
			if v.Kind == ast.BooleanValue {
				return v.Raw == "true", nil
			}
		case "ID":
			if v.Kind == ast.StringValue || v.Kind == ast.IntValue {
				return v.Raw, nil
			}
		}
		return nil, fmt.Errorf("literal %s is not a %s", v.String(), def.Name)
	case ast.Enum:
		if v.Kind != ast.EnumValue || def.EnumValues.ForName(v.Raw) == nil {
			return nil, fmt.Errorf("literal %s is not a value of %s", v.String(), def.Name)
		}
		return v.Raw, nil
	case ast.InputObject:
		if v.Kind != ast.ObjectValue {
			return nil, fmt.Errorf("literal %s is not an object for %s", v.String(), def.Name)
		}
		given := map[string]*ast.Value{}
		for _, c := range v.Children {
			if def.Fields.ForName(c.Name) == nil {
				return nil, fmt.Errorf("unknown field %s of %s", c.Name, def.Name)
			}
			given[c.Name] = c.Value
		}
		out := map[string]any{}
		for _, f := range def.Fields {
			var cv any = absent{}
			if gv, ok := given[f.Name]; ok {
				var err error
				cv, err = x.coerceLiteral(f.Type, gv, vars)
				if err != nil {
					return nil, fmt.Errorf("%s: %v", f.Name, err)
				}
			}
			if _, abs := cv.(absent); abs {
				if f.DefaultValue != nil {
					dv, err := x.coerceLiteral(f.Type, f.DefaultValue, nil)
					if err != nil {
						return nil, err
					}
					out[f.Name] = dv
				} else if f.Type.NonNull {
					return nil, fmt.Errorf("field %s.%s is required", def.Name, f.Name)
				}
				continue
			}
			out[f.Name] = cv
		}
		return out, nil
	}
	return nil, fmt.Errorf("%s is not an input type", def.Name)
}

// coerceArguments is CoerceArgumentValues of the specification.
func (x *executor) coerceArguments(fd *ast.FieldDefinition, args ast.ArgumentList) (map[string]any, error) {
	out := map[string]any{}
	for _, ad := range fd.Arguments {
		var cv any = absent{}
		if a := args.ForName(ad.Name); a != nil {
			var err error
			cv, err = x.coerceLiteral(ad.Type, a.Value, x.vars)
			if err != nil {
				return nil, fmt.Errorf("argument %s: %v", ad.Name, err)
			}
		}
		if _, abs := cv.(absent); abs {
			if ad.DefaultValue != nil {
				dv, err := x.coerceLiteral(ad.Type, ad.DefaultValue, nil)
				if err != nil {
					return nil, err
				}
				out[ad.Name] = dv
			} else if ad.Type.NonNull {
				return nil, fmt.Errorf("argument %s of type %s is required", ad.Name, ad.Type.String())
			}
			continue
		}
		out[ad.Name] = cv
	}
	return out, nil
}

// ---------------------------------------------------------------- execution

type collected struct {
	key    string
	fields []*ast.Field
}

func (x *executor) includes(dl ast.DirectiveList) (bool, error) {
	if d := dl.ForName("skip"); d != nil {
		b, err := x.boolArg(d)
		if err != nil {
			return false, err
		}
		if b {
			return false, nil
		}
	}
	if d := dl.ForName("include"); d != nil {
		b, err := x.boolArg(d)
		if err != nil {
			return false, err
		}
		if !b {
			return false, nil
		}
	}
	return true, nil
}

func (x *executor) boolArg(d *ast.Directive) (bool, error) {
	a := d.Arguments.ForName("if")
	if a == nil {
		return false, fmt.Errorf("@%s without if", d.Name)
	}
	switch a.Value.Kind {
	case ast.BooleanValue:
		return a.Value.Raw == "true", nil
	case ast.Variable:
		v, ok := x.vars[a.Value.Raw]
		if !ok || v == nil {
			return false, fmt.Errorf("@%s(if: $%s) without a value", d.Name, a.Value.Raw)
		}
		b, ok := v.(bool)
		if !ok {
			return false, fmt.Errorf("@%s(if: $%s) is not a Boolean", d.Name, a.Value.Raw)
		}
		return b, nil
	}
	return false, fmt.Errorf("@%s(if:) is not a Boolean", d.Name)
}

func (x *executor) typeApplies(objType string, cond string) bool {
	if cond == "" || cond == objType {
		return true
	}
	def := x.schema.Types[cond]
	if def == nil {
		return false
	}
	for _, p := range x.schema.GetPossibleTypes(def) {
		if p.Name == objType {
			return true
		}
	}
	return false
}

func (x *executor) collect(objType string, set ast.SelectionSet, visited map[string]bool, out *[]*collected, idx map[string]int) bool {
	for _, s := range set {
		switch s := s.(type) {
		case *ast.Field:
			inc, err := x.includes(s.Directives)
			if err != nil {
				x.errorf("%v", err)
				return false
			}
			if !inc {
				continue
			}
			key := s.Alias
			if key == "" {
				key = s.Name
			}
			if i, ok := idx[key]; ok {
				(*out)[i].fields = append((*out)[i].fields, s)
			} else {
				idx[key] = len(*out)
				*out = append(*out, &collected{key: key, fields: []*ast.Field{s}})
			}
		case *ast.InlineFragment:
			inc, err := x.includes(s.Directives)
			if err != nil {
				x.errorf("%v", err)
				return false
			}
			if !inc || !x.typeApplies(objType, s.TypeCondition) {
				continue
			}
			if !x.collect(objType, s.SelectionSet, visited, out, idx) {
				return false
			}
		case *ast.FragmentSpread:
			inc, err := x.includes(s.Directives)
			if err != nil {
				x.errorf("%v", err)
				return false
			}
			if !inc || visited[s.Name] {
				continue
			}
			visited[s.Name] = true
			fd := x.doc.Fragments.ForName(s.Name)
			if fd == nil {
				x.errorf("unknown fragment %s", s.Name)
				return false
			}
			if !x.typeApplies(objType, fd.TypeCondition) {
				continue
			}
			if !x.collect(objType, fd.SelectionSet, visited, out, idx) {
				return false
			}
		}
	}
	return true
}

// executeSelectionSets returns (value, ok); ok == false means "null this
// object and propagate" (a non-null child failed or a request level error).
func (x *executor) executeSelectionSets(sets []ast.SelectionSet, objType string, obj *Obj) (any, bool) {
	var coll []*collected
	idx := map[string]int{}
	visited := map[string]bool{}
	for _, set := range sets {
		if !x.collect(objType, set, visited, &coll, idx) {
			return nil, false
		}
	}
	def := x.schema.Types[objType]
	res := map[string]any{}
	for _, c := range coll {
		f := c.fields[0]
		if f.Name == "__typename" {
			res[c.key] = objType
			continue
		}
		fd := def.Fields.ForName(f.Name)
		if fd == nil {
			x.errorf("no field %s on %s", f.Name, objType)
			return nil, false
		}
		args, err := x.coerceArguments(fd, f.Arguments)
		var val any
		if err != nil {
			x.errorf("%s.%s: %v", objType, f.Name, err)
			val = nil
		} else {
			val = x.resolve(obj, fd, args)
			// a custom directive is part of what the backend is asked: echo the coerced
			// arguments of the @tag directives of an echo field - but only when they are
			// unambiguous, i.e. EVERY selection merged under this response key carries the
			// same @tag arguments (directives of merged duplicates that differ are not part
			// of the response and are not judged)
			if sv, ok := val.(string); ok && len(fd.Arguments) > 0 {
				first, same := "", true
				for i, fl := range c.fields {
					cur := ""
					for _, d := range fl.Directives {
						if dd := x.schema.Directives[d.Name]; dd != nil && d.Name == "tag" {
							da, derr := x.coerceArguments(&ast.FieldDefinition{Name: "@tag", Arguments: dd.Arguments}, d.Arguments)
							if derr != nil {
								cur += "@tag(?)"
							} else {
								cur += "@tag(" + Canonical(da) + ")"
							}
						}
					}
					if i == 0 {
						first = cur
					} else if cur != first {
						same = false
					}
				}
				if same {
					sv += first
				}
				val = sv
			}
		}
		cv, ok := x.complete(fd.Type, c.fields, val)
		if !ok {
			return nil, false
		}
		res[c.key] = cv
	}
	return res, true
}

func (x *executor) resolve(obj *Obj, fd *ast.FieldDefinition, args map[string]any) any {
	if v, ok := obj.F[fd.Name]; ok {
		if len(fd.Arguments) == 0 {
			return v
		}
	}
	// echo resolver: value = f(parent identity, field, coerced arguments)
	return obj.ID + "." + fd.Name + "(" + Canonical(args) + ")"
}

func (x *executor) complete(t *ast.Type, fields []*ast.Field, val any) (any, bool) {
	if t.NonNull {
		nt := *t
		nt.NonNull = false
		v, ok := x.complete(&nt, fields, val)
		if !ok {
			return nil, false
		}
		if v == nil {
			x.errorf("null for non-null %s", t.String())
			return nil, false
		}
		return v, true
	}
	if val == nil {
		return nil, true
	}
	if t.Elem != nil {
		l, ok := val.([]any)
		if !ok {
			x.errorf("resolver returned a non-list for %s", t.String())
			return nil, true
		}
		out := make([]any, len(l))
		for i, e := range l {
			cv, ok := x.complete(t.Elem, fields, e)
			if !ok {
				return nil, true // a nullable list swallows the failed non-null item
			}
			out[i] = cv
		}
		return out, true
	}
	def := x.schema.Types[t.NamedType]
	switch def.Kind {
	case ast.Scalar, ast.Enum:
		return val, true
	case ast.Object, ast.Interface, ast.Union:
		o, ok := val.(*Obj)
		if !ok {
			x.errorf("resolver returned a non-object for %s", t.String())
			return nil, true
		}
		sets := make([]ast.SelectionSet, 0, len(fields))
		for _, f := range fields {
			sets = append(sets, f.SelectionSet)
		}
		v, ok := x.executeSelectionSets(sets, o.Type, o)
		if !ok {
			return nil, true // nullable position swallows
		}
		return v, true
	}
	return nil, true
}

// Canonical renders a coerced value deterministically (object keys sorted;
// absent keys stay absent, null is printed as null).
func Canonical(v any) string {
	var b strings.Builder
	canon(&b, v)
	return b.String()
}

func canon(b *strings.Builder, v any) {
	switch t := v.(type) {
	case nil:
		b.WriteString("null")
	case map[string]any:
		keys := make([]string, 0, len(t))
		for k := range t {
			keys = append(keys, k)
		}
		sort.Strings(keys)
		b.WriteByte('{')
		for i, k := range keys {
			if i > 0 {
				b.WriteByte(',')
			}
			b.WriteString(k)
			b.WriteByte(':')
			canon(b, t[k])
		}
		b.WriteByte('}')
	case []any:
		b.WriteByte('[')
		for i, e := range t {
			if i > 0 {
				b.WriteByte(',')
			}
			canon(b, e)
		}
		b.WriteByte(']')
	case string:
		b.WriteString(strconv.Quote(t))
	case int64:
		b.WriteString(strconv.FormatInt(t, 10))
	case float64:
		b.WriteString(strconv.FormatFloat(t, 'g', -1, 64) + "f")
	case bool:
		b.WriteString(strconv.FormatBool(t))
	case json.Number:
		b.WriteString(t.String())
	default:
		fmt.Fprintf(b, "?%T(%v)", v, v)
	}
}
