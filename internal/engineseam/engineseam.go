// Package engineseam keeps the checks that replay the engine's admission
// sequence (Normalize -> ValidateForSchema -> Normalize(ExtractVariables) ->
// variables mapper -> variables validation) bound to the tree under test: the
// option lists are READ from execution/engine/execution_engine.go (honouring
// VERIF_EXTRA_OVERLAY replacements) and rebuilt from a registry of the exported
// constructors, instead of being copied into each check. An option or rule the
// registry does not know is an infrastructure error, never a silent drift.
package engineseam

import (
	"encoding/json"
	"fmt"
	"os"
	"regexp"
	"strings"

	"github.com/wundergraph/graphql-go-tools/v2/pkg/astnormalization"
	"github.com/wundergraph/graphql-go-tools/v2/pkg/astvalidation"
	"github.com/wundergraph/graphql-go-tools/v2/pkg/astvisitor"
)

const enginePath = "execution/engine/execution_engine.go"

// Seam is the admission sequence as written in the engine's source.
type Seam struct {
	First               []string // option names of the first Normalize call
	Prevalidation       []string // rule names inside WithPrevalidationRules
	Second              []string // option names of the second Normalize call
	ValidatesAbsentVars bool     // absent / null variables are validated like {}
}

func source() (string, error) {
	path := "/repo/" + enginePath
	if repo := os.Getenv("VERIF_REPO"); repo != "" {
		path = repo + "/" + enginePath
	}
	if ov := os.Getenv("VERIF_EXTRA_OVERLAY"); ov != "" {
		if b, err := os.ReadFile(ov); err == nil {
			var m map[string]string
			if json.Unmarshal(b, &m) == nil {
				if p, ok := m[enginePath]; ok {
					path = p
				}
			}
		}
	}
	b, err := os.ReadFile(path)
	return string(b), err
}

var optRe = regexp.MustCompile(`astnormalization\.(With[A-Za-z]+)\(`)
var ruleRe = regexp.MustCompile(`astvalidation\.([A-Za-z]+)\(\)`)

// Load parses the engine source.
func Load() (*Seam, error) {
	src, err := source()
	if err != nil {
		return nil, err
	}
	i := strings.Index(src, "func (e *ExecutionEngine) Execute(")
	if i < 0 {
		return nil, fmt.Errorf("engineseam: Execute not found")
	}
	body := src[i:]
	calls := strings.Split(body, "operation.Normalize(")
	if len(calls) < 3 {
		return nil, fmt.Errorf("engineseam: expected two operation.Normalize calls in Execute, found %d", len(calls)-1)
	}
	s := &Seam{}
	callText := func(t string) string {
		// up to the matching close of the call: the first line that is just ")" at call indentation
		if j := strings.Index(t, "\n\t\t)"); j >= 0 {
			return t[:j]
		}
		if j := strings.Index(t, "\n\t)"); j >= 0 {
			return t[:j]
		}
		return t
	}
	first := callText(calls[1])
	for _, m := range optRe.FindAllStringSubmatch(first, -1) {
		s.First = append(s.First, m[1])
	}
	if k := strings.Index(first, "WithPrevalidationRules("); k >= 0 {
		for _, m := range ruleRe.FindAllStringSubmatch(first[k:], -1) {
			s.Prevalidation = append(s.Prevalidation, m[1])
		}
	}
	second := callText(calls[2])
	for _, m := range optRe.FindAllStringSubmatch(second, -1) {
		s.Second = append(s.Second, m[1])
	}
	s.ValidatesAbsentVars = strings.Contains(body, `== "null"`)
	if len(s.First) == 0 || len(s.Second) == 0 {
		return nil, fmt.Errorf("engineseam: could not read the option lists (first %v, second %v)", s.First, s.Second)
	}
	return s, nil
}

var options = map[string]func() astnormalization.Option{
	"WithRemoveFragmentDefinitions":             astnormalization.WithRemoveFragmentDefinitions,
	"WithRemoveUnusedVariables":                 astnormalization.WithRemoveUnusedVariables,
	"WithInlineFragmentSpreads":                 astnormalization.WithInlineFragmentSpreads,
	"WithEnableDefer":                           astnormalization.WithEnableDefer,
	"WithExtractVariables":                      astnormalization.WithExtractVariables,
	"WithRemoveNotMatchingOperationDefinitions": astnormalization.WithRemoveNotMatchingOperationDefinitions,
	"WithNormalizeDefinition":                   astnormalization.WithNormalizeDefinition,
}

var rules = map[string]func() astvalidation.Rule{
	"DeferStreamOnValidOperations":   astvalidation.DeferStreamOnValidOperations,
	"DeferStreamHaveUniqueLabels":    astvalidation.DeferStreamHaveUniqueLabels,
	"DirectivesAreInValidLocations":  astvalidation.DirectivesAreInValidLocations,
	"StreamAppliedToListFieldsOnly":  astvalidation.StreamAppliedToListFieldsOnly,
	"DirectivesAreUniquePerLocation": astvalidation.DirectivesAreUniquePerLocation,
	"DirectivesAreDefined":           astvalidation.DirectivesAreDefined,
	// every other zero-argument operation rule of the package, so that adding
	// one of them to the engine's list does not need a change here
	"AllVariableUsesDefined":              astvalidation.AllVariableUsesDefined,
	"AllVariablesUsed":                    astvalidation.AllVariablesUsed,
	"ArgumentUniqueness":                  astvalidation.ArgumentUniqueness,
	"DocumentContainsExecutableOperation": astvalidation.DocumentContainsExecutableOperation,
	"Fragments":                           astvalidation.Fragments,
	"KnownArguments":                      astvalidation.KnownArguments,
	"LoneAnonymousOperation":              astvalidation.LoneAnonymousOperation,
	"OperationNameUniqueness":             astvalidation.OperationNameUniqueness,
	"RequiredArguments":                   astvalidation.RequiredArguments,
	"SubscriptionSingleRootField":         astvalidation.SubscriptionSingleRootField,
	"ValidateEmptySelectionSets":          astvalidation.ValidateEmptySelectionSets,
	"FieldSelections":                     astvalidation.FieldSelections,
	"VariableUniqueness":                  astvalidation.VariableUniqueness,
	"VariablesAreInputTypes":              astvalidation.VariablesAreInputTypes,
}

func build(names []string, prevalidation []string) ([]astnormalization.Option, error) {
	var out []astnormalization.Option
	for _, n := range names {
		if n == "WithPrevalidationRules" {
			var rs []func(walker *astvisitor.Walker)
			for _, r := range prevalidation {
				f, ok := rules[r]
				if !ok {
					return nil, fmt.Errorf("engineseam: the engine uses prevalidation rule %s which the registry does not know", r)
				}
				rs = append(rs, f())
			}
			out = append(out, astnormalization.WithPrevalidationRules(rs...))
			continue
		}
		f, ok := options[n]
		if !ok {
			return nil, fmt.Errorf("engineseam: the engine uses normalization option %s which the registry does not know", n)
		}
		out = append(out, f())
	}
	return out, nil
}

// FirstOptions / SecondOptions return the option lists of the two Normalize calls.
func (s *Seam) FirstOptions() ([]astnormalization.Option, error) {
	return build(s.First, s.Prevalidation)
}
func (s *Seam) SecondOptions() ([]astnormalization.Option, error) { return build(s.Second, nil) }

// Must loads the seam and both option lists or panics (infrastructure error).
func Must() (*Seam, []astnormalization.Option, []astnormalization.Option) {
	s, err := Load()
	if err != nil {
		panic(err)
	}
	a, err := s.FirstOptions()
	if err != nil {
		panic(err)
	}
	b, err := s.SecondOptions()
	if err != nil {
		panic(err)
	}
	return s, a, b
}

// VariablesToValidate mirrors the engine's guard: which bytes (if any) are
// handed to the variables validator.
func (s *Seam) VariablesToValidate(variables []byte) ([]byte, bool) {
	v := variables
	if s.ValidatesAbsentVars && (len(v) == 0 || string(v) == "null") {
		v = []byte("{}")
	}
	if len(v) > 0 && v[0] == '{' {
		return v, true
	}
	return nil, false
}
