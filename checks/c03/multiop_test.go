package c03

import (
	"fmt"
	"strings"

	"verif/internal/c03ref"
	"verif/internal/vk"
)

// Fourth family: documents with TWO operations that declare the same variable name
// with DIFFERENT defaults; each operation is executed in turn (operationName), in both
// orders of the document. Oracles: (a) the engine's sequence on (document, operationName)
// gives the same operation and variables as on the document that contains only that
// operation; (b) the reference executor gives the same response for the selected
// operation before and after normalization.

const clMultiOp = "normalizing one operation of a document with several operations gives the same result as normalizing that operation alone"

type mopTmpl struct {
	Var   string // variable name and type, e.g. "$s: Boolean"
	Group string // operations are paired within a group (same variable declaration)
	Body  string
	Defs  [2]string
	Class string
}

var mopTmpls = []mopTmpl{
	{"$s: Boolean", "bool", `{ f @skip(if: $s) a { id } }`, [2]string{"true", "false"}, "variable default used in @skip / @include"},
	{"$s: Boolean", "bool", `{ a { id n @include(if: $s) } }`, [2]string{"true", "false"}, "variable default used in @skip / @include"},
	{"$m: Int", "int", `{ f(l: [1, $m]) }`, [2]string{"2", "3"}, "variable default used inside a list literal"},
	{"$m: Int", "int", `{ f(o: {r: $m}) }`, [2]string{"2", "3"}, "variable default used inside an object literal"},
	{"$m: Int", "int", `{ f(x: $m) g(r: $m) }`, [2]string{"2", "3"}, "variable default used as argument"},
	{"$m: String", "string", `{ f(o: {r: 1, o: $m}) }`, [2]string{`"x"`, `"y"`}, "variable default used inside an object literal"},
	{"$m: String", "string", `{ f(s: $m) }`, [2]string{`"x"`, `"y"`}, "variable default used as argument"},
}

type mopOp struct {
	T   int
	Def int
}

func (o mopOp) text(name string) string {
	t := mopTmpls[o.T]
	return fmt.Sprintf("query %s(%s = %s) %s", name, t.Var, t.Defs[o.Def], t.Body)
}

type mopCase struct {
	First, Second mopOp  // operations A and B in document order
	Exec          string // "A" or "B"
	Vars          string
}

func (m mopCase) doc() string { return m.First.text("A") + " " + m.Second.text("B") }
func (m mopCase) selected() mopOp {
	if m.Exec == "A" {
		return m.First
	}
	return m.Second
}

func mopCases() []mopCase {
	var ops []mopOp
	for t := range mopTmpls {
		ops = append(ops, mopOp{t, 0}, mopOp{t, 1})
	}
	var out []mopCase
	for _, a := range ops {
		for _, b := range ops {
			if mopTmpls[a.T].Group != mopTmpls[b.T].Group || mopTmpls[a.T].Defs[a.Def] == mopTmpls[b.T].Defs[b.Def] {
				continue // same variable declaration, DIFFERENT defaults
			}
			for _, ex := range []string{"A", "B"} {
				for _, v := range []string{"", "{}"} {
					out = append(out, mopCase{First: a, Second: b, Exec: ex, Vars: v})
				}
			}
		}
	}
	return out
}

func (c *checker) evalMultiOp(m mopCase) (fs []finding, detail string) {
	doc := m.doc()
	single := m.selected().text(m.Exec)
	gdoc, perr, verrs := c03ref.Parse(c.gschema, doc)
	if perr != nil || len(verrs) > 0 {
		return nil, ""
	}
	vars, _ := decodeVars([]byte(m.Vars))
	resp0, errs0 := c03ref.Exec(c.gschema, gdoc, m.Exec, vars, c.root)
	if len(errs0) > 0 {
		return nil, ""
	}
	var multi, alone normResult
	if p, site, text := catch(func() {
		multi = normalizeOp(doc, []byte(m.Vars), m.Exec)
		alone = normalizeOp(single, []byte(m.Vars), m.Exec)
	}); p {
		return []finding{{clPanic, "panic in " + site + " (document with two operations)", text}}, doc
	}
	detail = fmt.Sprintf("document: %s\noperationName: %s variables: %s\nnormalized: %s | %s %s %s\nthe operation alone normalizes to: %s | %s %s %s",
		doc, m.Exec, m.Vars, multi.Printed, multi.Vars, multi.Stage, multi.Err, alone.Printed, alone.Vars, alone.Stage, alone.Err)
	if multi.Stage != alone.Stage {
		fs = append(fs, finding{clMultiOp, "two-operation document / normalization fails only in one of the two spellings", ""})
		return fs, detail
	}
	if multi.Stage != "" {
		return nil, detail
	}
	if multi.Printed != alone.Printed || !sameJSON(multi.Vars, alone.Vars) {
		fs = append(fs, finding{clMultiOp, "two-operation document / normalized operation or variables differ from the one-operation document", ""})
	}
	if ndoc, nperr, _ := c03ref.Parse(c.gschema, multi.Printed); nperr == nil {
		resp1, errs1 := c.execute(ndoc, multi.Vars)
		if len(errs1) > 0 {
			fs = append(fs, finding{clMeaning, "two-operation document / normalized operation has execution errors", strings.Join(errs1, "; ")})
		} else if d := diffKind(resp0, stripPlaceholder(resp1)); d != "" {
			fs = append(fs, finding{clMeaning, "two-operation document / response differs",
				fmt.Sprintf("original response of operation %s: %s\nnormalized response: %s", m.Exec, showJSON(resp0), showJSON(resp1))})
		}
	}
	return fs, detail
}

func runMultiOp(run *vk.Run, c *checker) {
	cases := mopCases()
	run.Bound("two_operation_documents", len(cases))
	reported := map[string]bool{}
	for i, m := range cases {
		if !run.Mine(int64(i)) {
			continue
		}
		fs, detail := c.evalMultiOp(m)
		run.Eval(1)
		run.Count("two_operation_documents", 1)
		for _, f := range fs {
			class := mopTmpls[m.selected().T].Class + "; the other operation declares the same variable with another default"
			key := f.Clause + f.Kind + class
			v := vk.Violation{Clause: f.Clause, Site: f.Kind, Class: class, Detail: detail + "\n" + f.Detail,
				Input: replayInput{Text: m.doc(), Vars: m.Vars, MultiOp: &m}}
			if reported[key] {
				v.Detail = ""
			}
			reported[key] = true
			run.Violate(v)
		}
	}
}
