// Package c03 checks property C03: normalization preserves operation meaning
// and validity, is idempotent, and is canonical on the equivalence classes the
// property names. Bounded exhaustive enumeration (no randomness): every base
// operation below explicit bounds x every decoration at every site (<=1 quick,
// <=2 thorough), judged by a reference executor over gqlparser's AST, by
// gqlparser's validator and by the repository's own validator.
package c03

import (
	"encoding/json"
	"fmt"
	"runtime/debug"
	"sort"
	"strings"
	"testing"

	"verif/internal/c03ref"
	"verif/internal/vk"
)

type replayInput struct {
	Base    *Op      `json:"base"`
	Decs    []Dec    `json:"decs"`
	Text    string   `json:"text"`
	Vars    string   `json:"variables"`
	Hist    []int    `json:"history,omitempty"` // third seam: indices into histPool
	MultiOp *mopCase `json:"multiop,omitempty"` // document with two operations
}

type tierBounds struct {
	depth, width, nodes  int // base operations judged with <=1 decoration
	pairNodes            int // base operations (<= this many selections) judged with <=2 decorations
	pairDepth, pairWidth int
	pairArgsSecond       bool
	extNodes             int // thorough: additional bases up to this many selections, <=1 decoration, evaluated last
}

func TestCheck(t *testing.T) {
	run := vk.Start("C03", "exploration")
	defer run.Finish()
	run.Rule("every base operation (all selection trees of the schema below depth/width/size bounds, argument menus) x every decoration " +
		"(alias, self-alias, in-set duplicate, contiguous run wrapped in inline/named/nested fragments without / with the same / with the interface type condition, " +
		"a fragment on the interface / union with one nested type-conditioned fragment per implementer under a concrete parent type (inline / named, both orders), " +
		"a custom executable directive @tag at every kind of site (field, inline fragment, fragment spread, operation) with a literal / a variable used only there / a variable shared with a field argument, each variable also named like a canonical name and with a second spelling, " +
		"the same literal at two argument positions of similar types ([T] vs [T!], [[T]] vs [[T]!], [T]! vs [T!]!, T vs T!, [T] vs [T]!, T vs [T], Int vs Float, String vs ID, [In] vs [In!]) in both orders, " +
		"2 and 3 directives from {@skip/@include literal true/false, through variables with both values, custom @tag} in every order on every field (directly, on a fragment spread, on an inline fragment) of the bases with <=2 selections and on the type-conditioned inline fragments of the bases with 3 selections, each without / with a first-in-document directive that removes / keeps a sibling (single decoration only), " +
		"a field next to a copy of itself where one of the two is self-aliased (directly, through an inline / named fragment, with split selection), " +
		"negative int / float literals (argument, list, nested list, input object, Float position, directive argument) written in the operation / in an inline fragment / in a named fragment / in a nested named fragment, " +
		"__typename, @skip/@include literal/variable/defaulted variable with both values, argument value menus incl. null, list coercion, nested input objects, " +
		"written as literal / variable / variable named like a generated one / defaulted variable / defaulted variable overridden by a value or by null / literal mixing variables, " +
		"omitted optional argument, unused variable, variable renaming, operation name) at every applicable site, all combinations of <=1 (quick) / <=2 (thorough, smaller bases) decorations; " +
		"distinct = distinct printed normalized operations")
	run.Assume(
		"reference executor internal/c03ref (GraphQL Oct-2021 CollectFields / CoerceVariableValues / CoerceArgumentValues / list and input-object coercion) with argument-echoing resolvers over a fixed universe (both implementers, null nullable field, empty list) stands for 'any backend'",
		"an operation is judged only when gqlparser's validator AND the repository's validator accept the ORIGINAL and the reference executor runs it without errors; disagreements are counted as oracle_split",
		"the response key __internal__typename_placeholder (added by the normalizer for emptied selection sets, documented as ignored by the planner) is removed before responses are compared",
		"normalized variables = request variables after normalization with their keys renamed by the mapping the variables mapper returns (what the resolver sees through RemapVariables)",
		"second seam (cases with <=1 decoration): ONE graphql.Request.Normalize call with the package's default options must be idempotent too (the engine's sequence runs the walkers twice and would hide what a single pass leaves undone)",
		"third seam: all ordered pairs of a pool of 18 operations on ONE re-used astnormalization.OperationNormalizer; the result for the second operation must equal that of a fresh normalizer (only the first failing predecessor per last operation is reported)",
		"documents with two operations that declare the same variable with different defaults (used in @skip/@include, inside list / object literals, as argument), both document orders, each operation executed by name with no / empty variables: same result as the one-operation document, same reference response",
		"canonical classes: root = base + every decoration the property sentence does not list; members add in-place fragment structure, in-set duplicates, variable renaming, literal<->variable; the operation name is held fixed; one of several equal literals turned into a variable is not a member (documented contract of the variables mapper)",
	)
	var b tierBounds
	if run.Thorough() {
		b = tierBounds{depth: 4, width: 3, nodes: 5, pairNodes: 3, pairDepth: 3, pairWidth: 2, pairArgsSecond: true}
	} else {
		b = tierBounds{depth: 3, width: 2, nodes: 4, pairNodes: 0}
	}
	run.Bound("base_max_depth", b.depth)
	run.Bound("base_max_width", b.width)
	run.Bound("base_max_selections", b.nodes)
	run.Bound("max_decorations", vk.Pick(run, 1, 2))
	run.Bound("pairs_base_max_selections", b.pairNodes)
	run.Bound("pairs_base_max_depth", b.pairDepth)
	run.Bound("pairs_base_max_width", b.pairWidth)
	run.Bound("schema", "1 schema: 5 output types (interface with 2 implementers, union), enum, recursive input object with defaults/required/list/nested list members")

	debug.SetGCPercent(400)
	c, err := newChecker()
	if err != nil {
		t.Fatalf("INFRA: %v", err)
	}
	if err := selfTest(c); err != nil {
		t.Fatalf("INFRA: self test of the reference executor / schema table: %v", err)
	}

	if run.Replay != "" {
		var in replayInput
		if err := run.ReplayInput(&in); err != nil {
			t.Fatal(err)
		}
		if in.MultiOp != nil {
			for i := 0; i < 3; i++ {
				fs, detail := c.evalMultiOp(*in.MultiOp)
				fmt.Printf("replay %d: %s\n", i, detail)
				for _, f := range fs {
					fmt.Printf("  FAILED %s [%s]\n    %s\n", f.Clause, f.Kind, f.Detail)
					run.Violate(vk.Violation{Clause: f.Clause, Site: f.Kind, Class: mopTmpls[in.MultiOp.selected().T].Class + "; the other operation declares the same variable with another default", Detail: detail, Input: in})
				}
			}
			run.Eval(3)
			return
		}
		if len(in.Hist) > 0 {
			for i := 0; i < 3; i++ {
				f, fresh, reused := evalHistory(in.Hist)
				fmt.Printf("replay %d: history %v\n  fresh   %v\n  re-used %v\n", i, in.Hist, fresh, reused)
				if f != nil {
					fmt.Printf("  FAILED %s [%s]\n", f.Clause, f.Kind)
					run.Violate(vk.Violation{Clause: f.Clause, Site: f.Kind, Class: "last operation: " + histPool[in.Hist[len(in.Hist)-1]].Class, Detail: f.Detail, Input: in})
				}
			}
			run.Eval(3)
			return
		}
		c.singlePass = len(in.Decs) <= 1
		for i := 0; i < 3; i++ {
			c.roots = map[string]*rootInfo{}
			r, ok := c.evalCase(in.Base, in.Decs, needAll)
			if !ok {
				t.Fatalf("replay: decorations do not apply")
			}
			fmt.Printf("replay %d: %s | %s\n  status=%s normalized=%s | %s\n", i, r.V.Text, r.V.Vars, r.V.Status, r.V.Norm.Printed, r.V.Norm.Vars)
			for _, f := range r.Findings {
				site, class := classify(in.Base, in.Decs, f)
				fmt.Printf("  FAILED %s [%s]\n    %s\n", f.Clause, f.Kind, f.Detail)
				run.Violate(vk.Violation{Clause: f.Clause, Site: site, Class: class, Detail: f.Detail, Input: in})
			}
		}
		run.Eval(3)
		return
	}

	all := bases(b.depth, b.width, b.nodes)
	run.Count("base_operations_total", 0)
	if run.Shard() == 0 {
		run.Count("base_operations_total", int64(len(all)))
	}
	shrunk := map[string]*vk.Violation{}
	evals := 0
	noted := map[string]bool{}
	nextDeadlineCheck := 1000
	expired := false

	recheckOnly := false // the case was already recorded; only its clause-4 findings are new
	record := func(base *Op, decs []Dec, r caseResult) {
		evals++
		if recheckOnly {
			if r.V.Status != "judged" {
				return
			}
			if r.CanonChk {
				run.Count("canonical_form_checked", 1)
				run.Count("canonical_form_checked_in_the_other_order_of_the_pair", 1)
			}
		} else {
			run.Eval(1)
		}
		switch {
		case recheckOnly:
		default:
			switch r.V.Status {
			case "judged":
				run.Count("judged", 1)
				if r.V.Twin {
					run.Count("repo_validator_asked_about_inlined_twin", 1)
				}
			case "rejected":
				run.Count("rejected_invalid_by_both_validators", 1)
				run.Count("rejected:"+r.V.Why, 1)
				return
			case "oracle_split":
				run.Count("oracle_split", 1)
				run.Count("oracle_split:"+r.V.Why, 1)
				if !noted[r.V.Why] {
					noted[r.V.Why] = true
					run.Note("oracle_split (%s): %s | %s", r.V.Why, r.V.Text, r.V.Vars)
				}
				return
			default:
				run.Count("not_judged", 1)
				run.Count("not_judged:"+strings.SplitN(r.V.Why, ":", 2)[0], 1)
				return
			}
		}
		if !recheckOnly && r.V.Norm.Printed != "" {
			if run.Outcome(r.V.Norm.Printed) && len(decs) <= 1 {
				run.Sample(decKinds(decs), map[string]any{"operation": r.V.Text, "variables": string(r.V.Vars), "normalized": r.V.Norm.Printed, "normalized_variables": string(r.V.Norm.Vars)})
			}
		}
		if recheckOnly {
		} else if r.CanonChk {
			run.Count("canonical_form_checked", 1)
		} else if r.CanonWhy != "" {
			run.Count("canonical_form_not_judged: "+r.CanonWhy, 1)
		}
		for _, f := range r.Findings {
			// shrink (memoised per shard on clause, failure kind and the structural
			// descriptors of the case, also for every intermediate reduction)
			memoKey := func(b *Op, ds []Dec) string { return f.Clause + "\x00" + f.Kind + "\x00" + preClass(b, ds) }
			memo := memoKey(base, decs)
			if old := shrunk[memo]; old != nil {
				run.Count("violating_cases_not_shrunk_again", 1)
				run.Violate(*old)
				continue
			}
			var hit *vk.Violation
			sb, sd, _ := c.shrink(base, decs, f, func(b *Op, ds []Dec) bool {
				hit = shrunk[memoKey(b, ds)]
				return hit != nil
			})
			if hit != nil {
				run.Count("violating_cases_shrunk_onto_known_case", 1)
				shrunk[memo] = hit
				run.Violate(*hit)
				continue
			}
			run.Count("violating_cases_shrunk_fully", 1)
			savedRoots := c.roots
			c.roots = map[string]*rootInfo{}
			sr, ok := c.evalCase(sb, sd, needAll)
			c.roots = savedRoots
			ff := &f
			if ok {
				if g := hasFinding(sr.Findings, f.Clause, f.Kind); g != nil {
					ff = g
				}
			}
			site, class := classify(sb, sd, *ff)
			text, vars := "", ""
			if sr.Op != nil {
				text, vars = sr.V.Text, string(sr.V.Vars)
			}
			detail := fmt.Sprintf("operation: %s\nvariables: %s\nnormalized: %s\nnormalized variables: %s\n%s",
				text, vars, sr.V.Norm.Printed, sr.V.Norm.Vars, ff.Detail)
			viol := vk.Violation{Clause: f.Clause, Site: site, Class: class, Detail: detail,
				Input: replayInput{Base: sb, Decs: sd, Text: text, Vars: vars}}
			shrunk[memo] = &viol
			shrunk[memoKey(sb, sd)] = &viol
			run.Violate(viol)
		}
	}

	flushClasses := func(prefix string) {
		for _, ri := range c.roots {
			if !ri.ok || ri.members < 2 {
				continue
			}
			run.Count(prefix+"classes", 1)
			run.Count(prefix+"class_members", int64(ri.members))
			switch {
			case ri.members <= 4:
				run.Count(prefix+"classes_size_2_4", 1)
			case ri.members <= 16:
				run.Count(prefix+"classes_size_5_16", 1)
			case ri.members <= 64:
				run.Count(prefix+"classes_size_17_64", 1)
			case ri.members <= 256:
				run.Count(prefix+"classes_size_65_256", 1)
			default:
				run.Count(prefix+"classes_size_over_256", 1)
			}
		}
		c.roots = map[string]*rootInfo{}
	}

	checkDeadline := func() bool {
		if expired {
			return true
		}
		if evals >= nextDeadlineCheck {
			nextDeadlineCheck = evals + 1000
			if run.Expired() {
				expired = true
			}
		}
		return expired
	}

	// singles: the base and every single decoration of it
	singles := func(base *Op) {
		c.singlePass = true
		defer func() { c.singlePass = false }()
		run.Count("base_operations", 1)
		seen := map[string]bool{base.key(): true}
		r, _ := c.evalCase(base, nil, needAll)
		record(base, nil, r)
		if r.V.Status != "judged" {
			run.Count("base_not_judged", 1)
		}
		for _, d1 := range append(decorations(base, true), singleDecorations(base)...) {
			if checkDeadline() {
				return
			}
			op1, ok := build(base, []Dec{d1})
			if !ok {
				continue
			}
			if k := op1.key(); !seen[k] {
				seen[k] = true
				r, _ := c.evalCase(base, []Dec{d1}, needAll)
				run.Count("decorated_variants_1", 1)
				if d1.Kind == "mdir" {
					run.Count("decorated_variants_1_several_directives", 1)
				}
				record(base, []Dec{d1}, r)
			}
		}
		flushClasses("")
	}
	// pairs: every decoration of every singly decorated variant (sites are
	// enumerated on the decorated operation, so a decoration of a decoration -
	// wrap the wrapper, skip the duplicate - is reached)
	pairsOf := func(base *Op) {
		run.Count("base_operations_with_pairs", 1)
		// seen: 1 = evaluated; 2 = evaluated, but clause 4 could not be judged in that order
		// of the two decorations (class decoration first) - the same text reached in the
		// other order is then judged for clause 4 only
		seen := map[string]int{base.key(): 1}
		d1s := decorations(base, true)
		for _, d1 := range d1s {
			if op1, ok := build(base, []Dec{d1}); ok {
				seen[op1.key()] = 1
			}
		}
		for _, d1 := range d1s {
			op1, ok := build(base, []Dec{d1})
			if !ok {
				continue
			}
			for _, d2 := range decorations(op1, b.pairArgsSecond) {
				if checkDeadline() {
					return
				}
				decs := []Dec{d1, d2}
				op2, ok := build(base, decs)
				if !ok {
					continue
				}
				k := op2.key()
				switch seen[k] {
				case 1:
					continue
				case 2:
					if _, differs, ok := classRoot(base, decs); !ok || !differs {
						continue
					}
					seen[k] = 1
					r, _ := c.evalCase(base, decs, needCanon)
					recheckOnly = true
					record(base, decs, r)
					recheckOnly = false
					continue
				}
				r, _ := c.evalCase(base, decs, needAll)
				seen[k] = 1
				if r.CanonWhy == "non-class decoration applied after a class decoration" {
					seen[k] = 2
				}
				run.Count("decorated_variants_2", 1)
				record(base, decs, r)
			}
		}
		flushClasses("pairs_")
	}

	// third seam: histories on one re-used normalizer
	runHistories(run)
	// documents with two operations, each executed by name
	runMultiOp(run, c)

	// pass A: <=1 decoration on every base below the size bound
	// pass B (thorough): <=2 decorations on the small bases
	for bi, base := range all {
		if run.Mine(int64(bi)) && !checkDeadline() {
			singles(base)
		}
	}
	if b.pairNodes > 0 {
		// the pair spaces of the bases differ by a factor of 50: assign bases to shards
		// by deterministic longest-processing-time-first on the estimate (#decorations)^2
		var small []*Op
		var cost []int
		for _, base := range all {
			if base.nodeCount() <= b.pairNodes && depthOf(base.Sel) <= b.pairDepth && widthOf(base) <= b.pairWidth {
				small = append(small, base)
				n := len(decorations(base, true))
				cost = append(cost, n*n)
			}
		}
		order := make([]int, len(small))
		for i := range order {
			order[i] = i
		}
		sort.SliceStable(order, func(x, y int) bool { return cost[order[x]] > cost[order[y]] })
		load := make([]int, run.NShards())
		for _, i := range order {
			min := 0
			for s := range load {
				if load[s] < load[min] {
					min = s
				}
			}
			load[min] += cost[i]
			if min == run.Shard() && !checkDeadline() {
				pairsOf(small[i])
			}
		}
		if run.Shard() == 0 {
			run.Count("base_operations_with_pairs_total", int64(len(small)))
		}
	}
}

func decKinds(decs []Dec) string {
	if len(decs) == 0 {
		return "base"
	}
	var s []string
	for _, d := range decs {
		k := d.Kind
		if d.Kind == "wrap" || d.Kind == "arg" {
			k += ":" + d.Form
		}
		s = append(s, k)
	}
	return strings.Join(s, "+")
}

// preClass: descriptor of the unshrunk case (used only to avoid shrinking the
// same kind of failing case thousands of times).
func preClass(base *Op, decs []Dec) string {
	var s []string
	op := base.clone()
	for _, d := range decs {
		desc, _ := describe(op, d)
		s = append(s, desc)
		apply(op, d)
	}
	return strings.Join(s, ";") + "|" + baseFeatures(base)
}

func depthOf(sel []*Node) int {
	d := 0
	for _, n := range sel {
		sub := depthOf(n.Sel)
		if n.K == 'f' {
			sub++
		}
		if sub > d {
			d = sub
		}
	}
	return d
}

func widthOf(op *Op) int {
	w := 0
	for _, s := range op.sets() {
		if len(*s.Sel) > w {
			w = len(*s.Sel)
		}
	}
	return w
}

// selfTest pins the reference executor to worked examples (GraphQL spec 6.3.2
// field collection / merging, @skip/@include, 3.11 list coercion, 6.4.1 argument
// defaults) and checks the generator's schema table against the SDL.
func selfTest(c *checker) error {
	for name, td := range types {
		def := c.gschema.Types[name]
		if def == nil {
			return fmt.Errorf("type %s not in SDL", name)
		}
		for _, f := range td.Fields {
			fd := def.Fields.ForName(f.Name)
			if fd == nil {
				return fmt.Errorf("field %s.%s not in SDL", name, f.Name)
			}
			if fd.Type.Name() != f.Ret {
				return fmt.Errorf("field %s.%s returns %s, table says %s", name, f.Name, fd.Type.Name(), f.Ret)
			}
			if len(fd.Arguments) != len(f.Args) {
				return fmt.Errorf("field %s.%s: argument count", name, f.Name)
			}
			for i, a := range f.Args {
				if fd.Arguments[i].Name != a.Name || fd.Arguments[i].Type.String() != a.Type {
					return fmt.Errorf("argument %s.%s(%s: %s) differs from SDL %s", name, f.Name, a.Name, a.Type, fd.Arguments[i].Type.String())
				}
			}
		}
	}
	cases := []struct{ q, vars, want string }{
		{`{ a { n id } }`, ``, `{"a":{"id":"a1","n":"A-one"}}`},
		{`{ a { n a { n a { id } } } }`, ``, `{"a":{"a":{"a":null,"n":null},"n":"A-one"}}`},
		{`{ a { id } a { n } }`, ``, `{"a":{"id":"a1","n":"A-one"}}`},
		{`{ is { id ... on B { b as { id } } ... on A { n } } }`, ``, `{"is":[{"id":"a1","n":"A-one"},{"as":[],"b":5,"id":"b1"}]}`},
		{`{ us { __typename ...F } } fragment F on I { id }`, ``, `{"us":[{"__typename":"B","id":"b1"},{"__typename":"A","id":"a2"}]}`},
		{`query($s: Boolean!) { a { n @skip(if: $s) id @include(if: $s) } }`, `{"s":true}`, `{"a":{"id":"a1"}}`},
		{`query($s: Boolean = true) { a { n @skip(if: $s) id } }`, `{}`, `{"a":{"id":"a1"}}`},
		{`{ f }`, ``, `{"f":"Q.f({s:\"sd\"})"}`},
		{`{ f(x: null, s: null) }`, ``, `{"f":"Q.f({s:null,x:null})"}`},
		{`query($v: Int) { f(x: $v) }`, `{}`, `{"f":"Q.f({s:\"sd\"})"}`},
		{`query($v: Int = 4) { f(x: $v) }`, `{"v":null}`, `{"f":"Q.f({s:\"sd\",x:null})"}`},
		{`query($v: Int = 4) { f(x: $v) }`, ``, `{"f":"Q.f({s:\"sd\",x:4})"}`},
		{`{ f(l: 1, ll: 2) }`, ``, `{"f":"Q.f({l:[1],ll:[[2]],s:\"sd\"})"}`},
		{`{ f(ll: [1, 2]) }`, ``, `{"f":"Q.f({ll:[[1],[2]],s:\"sd\"})"}`},
		{`query($v: [[Int]]) { f(ll: $v) }`, `{"v":3}`, `{"f":"Q.f({ll:[[3]],s:\"sd\"})"}`},
		{`{ f(o: {r: 1, l: {r: 2, o: null}}) }`, ``, `{"f":"Q.f({o:{e:\"Y\",l:[{e:\"Y\",o:null,r:2}],o:\"od\",r:1},s:\"sd\"})"}`},
		{`query($r: Int!) { f(o: {r: $r}) }`, `{"r":1}`, `{"f":"Q.f({o:{e:\"Y\",o:\"od\",r:1},s:\"sd\"})"}`},
		{`query($m: String) { f(o: {r: 1, o: $m}) }`, `{}`, `{"f":"Q.f({o:{e:\"Y\",o:\"od\",r:1},s:\"sd\"})"}`},
		{`{ g(r: 2) x: g(r: 3, d: 1) }`, ``, `{"g":"Q.g({d:7,r:2})","x":"Q.g({d:1,r:3})"}`},
		{`{ a { k(x: 1) a { k } } }`, ``, `{"a":{"a":{"k":"a2.k({})"},"k":"a1.k({x:1})"}}`},
	}
	for _, tc := range cases {
		doc, perr, verrs := c03ref.Parse(c.gschema, tc.q)
		if perr != nil || len(verrs) > 0 {
			return fmt.Errorf("self test %s: %v %v", tc.q, perr, verrs)
		}
		resp, errs := c.execute(doc, []byte(tc.vars))
		if len(errs) > 0 {
			return fmt.Errorf("self test %s: errors %v", tc.q, errs)
		}
		got, _ := json.Marshal(resp)
		if string(got) != tc.want {
			return fmt.Errorf("self test %s %s:\n got  %s\n want %s", tc.q, tc.vars, got, tc.want)
		}
	}
	// error cases
	for _, tc := range []struct{ q, vars string }{
		{`query($v: Int!) { f(x: $v) }`, `{}`},
		{`query($v: Int!) { f(x: $v) }`, `{"v":null}`},
		{`query($v: Int) { f(x: $v) }`, `{"v":"1"}`},
		{`query($v: In) { f(o: $v) }`, `{"v":{}}`},
		{`query($v: Int) { g(r: $v) }`, `{}`},
	} {
		doc, perr, _ := c03ref.Parse(c.gschema, tc.q)
		if perr != nil {
			return fmt.Errorf("self test %s: %v", tc.q, perr)
		}
		if _, errs := c.execute(doc, []byte(tc.vars)); len(errs) == 0 {
			return fmt.Errorf("self test %s %s: expected an error", tc.q, tc.vars)
		}
	}
	return nil
}
