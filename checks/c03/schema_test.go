package c03

import (
	"verif/internal/c03ref"
)

// The one schema of the check: rich in input types (scalars, enum, list, nested
// list, input object with required field, defaults, recursive list / object
// members) and abstract types (interface with two implementers, union), a custom
// executable directive, and fields whose argument types differ only in one
// nullability level, the list depth or a similar scalar (t, tn, tl).
const sdl = `
schema { query: Query }
directive @tag(name: String, n: Int, l: [Int], o: In) repeatable on FIELD | FRAGMENT_SPREAD | INLINE_FRAGMENT | QUERY
type Query {
  a: A
  is: [I]
  us: [U]
  f(x: Int, s: String = "sd", e: E, l: [Int], ll: [[Int]], o: In, ol: [In]): String
  g(r: Int!, d: Int! = 7): String
  t(i: Int, l: [Int], li: [Int!], ll: [[Int]], lli: [[Int]!], fl: Float, s: String, id: ID, ol: [In], oli: [In!]): String
  tn(i: Int!): String
  tl(l: [Int]!, li: [Int!]!): String
}
type A implements I { id: ID! n: String k(x: Int, o: In): String a: A }
type B implements I { id: ID! n: String b: Int as: [A] }
interface I { id: ID! n: String }
union U = A | B
enum E { X Y }
input In { r: Int! o: String = "od" e: E = Y l: [In!] ll: [[Int]] n: In }
`

// argDef / fieldDef: the generator's view of the schema (checked against the
// gqlparser-loaded SDL at start-up by selfTestSchemaTable).
type argDef struct {
	Name string
	Type string // printed GraphQL type
}

type fieldDef struct {
	Name   string
	Ret    string // named return type
	Args   []argDef
	NoBase bool // not part of the base enumeration (reached through decorations only)
}

type typeDef struct {
	Name     string
	Kind     byte // 'o' object, 'i' interface, 'u' union
	Fields   []fieldDef
	Possible []string // for abstract types
	Impl     []string // interfaces of an object type
}

var types = map[string]*typeDef{
	"Query": {Name: "Query", Kind: 'o', Fields: []fieldDef{
		{Name: "a", Ret: "A"},
		{Name: "is", Ret: "I"},
		{Name: "us", Ret: "U"},
		{Name: "f", Ret: "String", Args: []argDef{{"x", "Int"}, {"s", "String"}, {"e", "E"}, {"l", "[Int]"}, {"ll", "[[Int]]"}, {"o", "In"}, {"ol", "[In]"}}},
		{Name: "g", Ret: "String", Args: []argDef{{"r", "Int!"}, {"d", "Int!"}}},
		// "twin type" fields: argument types that differ only in one nullability level / list depth / similar scalar
		{Name: "t", Ret: "String", NoBase: true, Args: []argDef{{"i", "Int"}, {"l", "[Int]"}, {"li", "[Int!]"}, {"ll", "[[Int]]"}, {"lli", "[[Int]!]"}, {"fl", "Float"}, {"s", "String"}, {"id", "ID"}, {"ol", "[In]"}, {"oli", "[In!]"}}},
		{Name: "tn", Ret: "String", NoBase: true, Args: []argDef{{"i", "Int!"}}},
		{Name: "tl", Ret: "String", NoBase: true, Args: []argDef{{"l", "[Int]!"}, {"li", "[Int!]!"}}},
	}},
	"A": {Name: "A", Kind: 'o', Impl: []string{"I"}, Fields: []fieldDef{
		{Name: "id", Ret: "ID"},
		{Name: "n", Ret: "String"},
		{Name: "k", Ret: "String", Args: []argDef{{"x", "Int"}, {"o", "In"}}},
		{Name: "a", Ret: "A"},
	}},
	"B": {Name: "B", Kind: 'o', Impl: []string{"I"}, Fields: []fieldDef{
		{Name: "id", Ret: "ID"},
		{Name: "n", Ret: "String"},
		{Name: "b", Ret: "Int"},
		{Name: "as", Ret: "A"},
	}},
	"I": {Name: "I", Kind: 'i', Possible: []string{"A", "B"}, Fields: []fieldDef{
		{Name: "id", Ret: "ID"},
		{Name: "n", Ret: "String"},
	}},
	"U": {Name: "U", Kind: 'u', Possible: []string{"A", "B"}},
}

func isComposite(t string) bool { _, ok := types[t]; return ok }

func (t *typeDef) field(name string) *fieldDef {
	for i := range t.Fields {
		if t.Fields[i].Name == name {
			return &t.Fields[i]
		}
	}
	return nil
}

// The data universe: both implementers, an object referenced twice (a1 through
// Query.a and Query.is), a nullable field that is null (a2.n, a2.a), an empty
// list (b1.as). Fields with arguments (f, g, k) are echo fields.
func universe() *c03ref.Obj {
	a2 := &c03ref.Obj{Type: "A", ID: "a2", F: map[string]any{"id": "a2", "n": nil, "a": nil}}
	a1 := &c03ref.Obj{Type: "A", ID: "a1", F: map[string]any{"id": "a1", "n": "A-one", "a": a2}}
	b1 := &c03ref.Obj{Type: "B", ID: "b1", F: map[string]any{"id": "b1", "n": "B-one", "b": int64(5), "as": []any{}}}
	return &c03ref.Obj{Type: "Query", ID: "Q", F: map[string]any{
		"a":  a1,
		"is": []any{a1, b1},
		"us": []any{b1, a2},
	}}
}
