package c03

import (
	"fmt"
	"strings"
)

// Dec is one local decoration, addressed by node ids so that it survives the
// removal of unrelated selections (shrinking).
//
// Canon says what the decoration is with respect to clause 4 (canonical form):
//
//	"self"  not in the list of the property sentence: the class root carries it too
//	"pure"  fragment structure in place / in-set duplicate / variable renaming:
//	        the class root does not carry it at all
//	"form"  literal <-> variable: the class root carries the same argument value
//	        written as a literal (Residue)
type Dec struct {
	Kind string `json:"kind"`
	ID   int    `json:"id,omitempty"`  // node (field / fragment) or first node of a run; 0 = operation level
	ID2  int    `json:"id2,omitempty"` // last node of a run
	Arg  string `json:"arg,omitempty"`
	Form string `json:"form,omitempty"`
	Val  int    `json:"val,omitempty"` // index into the value / mix menu
}

func (d Dec) String() string {
	s := d.Kind
	if d.Form != "" {
		s += ":" + d.Form
	}
	if d.Arg != "" {
		s += fmt.Sprintf("(%s#%d)", d.Arg, d.Val)
	}
	return s
}

// ---------------------------------------------------------------- argument value menus

type menuVal struct {
	V     Val
	Class string // structural class of the value (used in fingerprints)
}

// value menus by argument type, simplest first
var valueMenu = map[string][]menuVal{
	"Int":     {{vInt(1), "int"}, {vInt(2), "int"}, {vNull(), "null"}},
	"Int!":    {{vInt(2), "int"}, {vInt(3), "int"}},
	"String":  {{vStr("t"), "string"}, {vNull(), "null"}},
	"E":       {{vEnum("X"), "enum"}},
	"[Int]":   {{vList(vInt(1), vInt(2)), "list"}, {vInt(1), "single value for a list type"}, {vNull(), "null"}, {vList(vInt(1), vNull()), "list with null item"}, {vList(), "empty list"}},
	"[[Int]]": {{vList(vList(vInt(1)), vList(vInt(2), vInt(3))), "nested list"}, {vInt(1), "single value for a list type"}, {vList(vInt(1), vInt(2)), "value needing list coercion below its top level"}, {vList(vList(vInt(1), vNull())), "nested list with null item"}, {vNull(), "null"}},
	"In": {
		{vObj("r", vInt(1)), "object"},
		{vObj("r", vInt(1), "o", vStr("x")), "object"},
		{vObj("r", vInt(1), "o", vNull()), "object with null for defaulted field"},
		{vObj("r", vInt(2), "l", vList(vObj("r", vInt(3)))), "object with list of objects"},
		{vObj("r", vInt(2), "l", vObj("r", vInt(3))), "value needing list coercion below its top level"},
		{vObj("r", vInt(2), "n", vObj("r", vInt(3))), "object with nested object"},
		{vObj("r", vInt(1), "ll", vInt(4)), "value needing list coercion below its top level"},
		{vNull(), "null"},
	},
	"[In]": {
		{vList(vObj("r", vInt(1))), "list of objects"},
		{vObj("r", vInt(1)), "single value for a list type"},
		{vList(vNull(), vObj("r", vInt(1))), "list of objects with null item"},
		{vList(vObj("r", vInt(1)), vObj("r", vInt(2), "o", vStr("x"))), "list of objects"},
	},
}

// mixVal: a literal that mixes literals and variables, and the same value
// written without variables (the class root form).
type mixVal struct {
	V     Val
	Lit   Val
	Vars  []VarDef
	JSON  map[string]any
	Class string
}

var mixMenu = map[string][]mixVal{
	"In": {
		{V: vObj("r", vVar("m")), Lit: vObj("r", vInt(1)), Vars: []VarDef{{N: "m", T: "Int!"}}, JSON: map[string]any{"m": 1}, Class: "literal containing a variable"},
		{V: vObj("r", vInt(1), "o", vVar("m")), Lit: vObj("r", vInt(1), "o", vStr("x")), Vars: []VarDef{{N: "m", T: "String"}}, JSON: map[string]any{"m": "x"}, Class: "literal containing a variable"},
		{V: vObj("r", vInt(2), "l", vList(vObj("r", vVar("m")))), Lit: vObj("r", vInt(2), "l", vList(vObj("r", vInt(3)))), Vars: []VarDef{{N: "m", T: "Int!"}}, JSON: map[string]any{"m": 3}, Class: "literal containing a variable"},
		{V: vObj("r", vInt(2), "l", vVar("m")), Lit: vObj("r", vInt(2), "l", vList(vObj("r", vInt(3)))), Vars: []VarDef{{N: "m", T: "[In!]"}}, JSON: map[string]any{"m": []any{map[string]any{"r": 3}}}, Class: "literal containing a variable"},
		{V: vObj("r", vVar("m"), "n", vObj("r", vVar("m"))), Lit: vObj("r", vInt(1), "n", vObj("r", vInt(1))), Vars: []VarDef{{N: "m", T: "Int!"}}, JSON: map[string]any{"m": 1}, Class: "literal containing a variable"},
		{V: vObj("r", vInt(1), "o", vVar("m")), Lit: vObj("r", vInt(1), "o", vStr("dv")), Vars: []VarDef{{N: "m", T: "String", Def: &Val{K: 's', S: "dv"}}}, JSON: nil, Class: "literal containing a defaulted variable that has no value"},
	},
	"[Int]": {
		{V: vList(vInt(1), vVar("m")), Lit: vList(vInt(1), vInt(2)), Vars: []VarDef{{N: "m", T: "Int"}}, JSON: map[string]any{"m": 2}, Class: "literal containing a variable"},
		{V: vList(vInt(1), vVar("m")), Lit: vList(vInt(1), vInt(2)), Vars: []VarDef{{N: "m", T: "Int", Def: &Val{K: 'i', S: "2"}}}, JSON: nil, Class: "literal containing a defaulted variable that has no value"},
	},
	"[[Int]]": {
		{V: vList(vList(vInt(1)), vList(vVar("m"))), Lit: vList(vList(vInt(1)), vList(vInt(2))), Vars: []VarDef{{N: "m", T: "Int"}}, JSON: map[string]any{"m": 2}, Class: "literal containing a variable"},
	},
	"[In]": {
		{V: vList(vObj("r", vVar("m"))), Lit: vList(vObj("r", vInt(1))), Vars: []VarDef{{N: "m", T: "Int!"}}, JSON: map[string]any{"m": 1}, Class: "literal containing a variable"},
	},
}

func nullable(t string) bool { return !strings.HasSuffix(t, "!") }

// argForms lists the forms in which value mv can be written for an argument of type t.
//
//	lit          literal
//	var          $v<id>: T with the JSON value
//	varA         the same, but the variable is called "a" (the first name the extractor generates)
//	vardef       $v: T' = literal, no JSON value (T' = T without a trailing !)
//	vardefgiven  $v: T' = <other literal>, JSON value given
//	vardefnull   $v: T' = <other literal>, JSON null (value menu entry null only)
//	varNN        $v: T! used in a nullable position (not a canonical variant: the declared type differs)
func argForms(t string, mv menuVal) []string {
	if mv.V.K == 'n' {
		return []string{"lit", "var", "vardefnull"}
	}
	forms := []string{"lit", "var", "varA", "vardef", "vardefgiven"}
	if nullable(t) {
		forms = append(forms, "varNN")
	}
	return forms
}

// otherLiteral is a well-typed literal different from every menu value of t.
func otherLiteral(t string) Val {
	switch strings.TrimSuffix(t, "!") {
	case "Int":
		return vInt(9)
	case "String":
		return vStr("other")
	case "E":
		return vEnum("Y")
	case "[Int]":
		return vList(vInt(9))
	case "[[Int]]":
		return vList(vList(vInt(9)))
	case "In":
		return vObj("r", vInt(9))
	case "[In]":
		return vList(vObj("r", vInt(9)))
	}
	return vNull()
}

// ---------------------------------------------------------------- enumeration of sites

func scopeKind(t string) string {
	switch types[t].Kind {
	case 'i':
		return "interface"
	case 'u':
		return "union"
	}
	return "object"
}

// decorations lists every decoration applicable to op, simplest kinds first.
// withArgs=false leaves the (numerous) argument decorations out.
func decorations(op *Op, withArgs bool) []Dec {
	var out []Dec
	sets := op.sets()
	// alias, self-alias
	for _, s := range sets {
		for _, n := range *s.Sel {
			if n.K == 'f' && n.Alias == "" {
				out = append(out, Dec{Kind: "alias", ID: n.ID}, Dec{Kind: "selfalias", ID: n.ID})
			}
		}
	}
	// duplicates in the same selection set
	for _, s := range sets {
		for i, n := range *s.Sel {
			if n.K == 's' {
				continue
			}
			out = append(out, Dec{Kind: "dup", ID: n.ID, Form: "adjacent"})
			if i != len(*s.Sel)-1 {
				out = append(out, Dec{Kind: "dup", ID: n.ID, Form: "end"})
			}
		}
	}
	// self-aliased twin
	for _, s := range sets {
		for _, n := range *s.Sel {
			if n.K != 'f' || n.Alias != "" {
				continue
			}
			for _, f := range selfTwinForms {
				if strings.HasPrefix(f, "split") && len(n.Sel) < 2 {
					continue
				}
				out = append(out, Dec{Kind: "selftwin", ID: n.ID, Form: f})
			}
		}
	}
	// fragment structure in place
	for _, s := range sets {
		sel := *s.Sel
		for i := range sel {
			for j := i; j < len(sel); j++ {
				for _, form := range wrapForms(s.Type, sel[i:j+1]) {
					out = append(out, Dec{Kind: "wrap", ID: sel[i].ID, ID2: sel[j].ID, Form: form})
				}
			}
		}
	}
	// __typename
	for _, s := range sets {
		has := false
		for _, n := range *s.Sel {
			if n.K == 'f' && n.Name == "__typename" && n.Alias == "" {
				has = true
			}
		}
		if !has {
			id := 0
			if s.Owner != nil {
				id = s.Owner.ID
			} else if s.Frag >= 0 {
				continue
			}
			out = append(out, Dec{Kind: "typename", ID: id})
		}
	}
	// fragment on the interface / union with one nested type-conditioned fragment per
	// implementer, under a CONCRETE parent type (only one of the nested fragments can apply)
	for _, s := range sets {
		td := types[s.Type]
		if td.Kind != 'o' || len(td.Impl) == 0 || s.Owner == nil {
			continue
		}
		for _, form := range absFragForms {
			out = append(out, Dec{Kind: "absfrag", ID: s.Owner.ID, Form: form})
		}
	}
	// @skip / @include
	for _, s := range sets {
		for _, n := range *s.Sel {
			if len(n.Dirs) > 0 {
				continue
			}
			for _, dn := range []string{"skip", "include"} {
				for _, form := range []string{"litT", "litF", "varT", "varF", "vardefT", "vardefF"} {
					out = append(out, Dec{Kind: dn, ID: n.ID, Form: form})
				}
			}
		}
	}
	// custom directive that survives normalization, at every kind of site
	for _, f := range []string{"lit", "var", "varA", "varZ"} {
		out = append(out, Dec{Kind: "tag", Arg: "op", Form: f})
	}
	for _, s := range sets {
		for _, n := range *s.Sel {
			shared := hasIntArgX(s.Type, n)
			for _, f := range []string{"lit", "var", "varA", "varZ"} {
				out = append(out, Dec{Kind: "tag", ID: n.ID, Form: f})
			}
			if tagNestedForms && hasIntArgX(s.Type, n) {
				for _, f := range []string{"listvar", "listvarA", "objvar", "objvarA", "listshared", "listsharedA"} {
					out = append(out, Dec{Kind: "tag", ID: n.ID, Form: f})
				}
			}
			if shared {
				for _, f := range []string{"shared", "sharedA", "sharedZ"} {
					out = append(out, Dec{Kind: "tag", ID: n.ID, Form: f}, Dec{Kind: "tag", ID: n.ID, Arg: "op", Form: f})
				}
			}
			if n.K == 'f' {
				for _, where := range []string{"spread", "inl"} {
					out = append(out, Dec{Kind: "tag", ID: n.ID, Arg: where, Form: "var"}, Dec{Kind: "tag", ID: n.ID, Arg: where, Form: "varA"})
					if shared {
						out = append(out, Dec{Kind: "tag", ID: n.ID, Arg: where, Form: "shared"})
					}
				}
			}
		}
	}
	// negative number literals, in the operation and inside fragments
	for i := range negMenu {
		for _, f := range negForms {
			out = append(out, Dec{Kind: "neg", Val: i, Form: f})
		}
	}
	// the same literal at two positions of similar types, both orders
	for i := range twinMenu {
		out = append(out, Dec{Kind: "twin", Val: i, Form: "fwd"}, Dec{Kind: "twin", Val: i, Form: "rev"})
	}
	// operation level
	out = append(out, Dec{Kind: "unusedvar"})
	if len(op.Vars) > 0 {
		out = append(out, Dec{Kind: "rename"})
	}
	if op.Name == "" {
		out = append(out, Dec{Kind: "opname"})
	}
	if !withArgs {
		return out
	}
	// arguments
	for _, s := range sets {
		td := types[s.Type]
		for _, n := range *s.Sel {
			if n.K != 'f' {
				continue
			}
			fd := td.field(n.Name)
			if fd == nil || len(fd.Args) == 0 {
				continue
			}
			for _, a := range n.Args {
				if nullable(argType(fd, a.N)) {
					out = append(out, Dec{Kind: "omit", ID: n.ID, Arg: a.N})
				}
			}
			for _, ad := range fd.Args {
				for vi, mv := range valueMenu[ad.Type] {
					for _, form := range argForms(ad.Type, mv) {
						out = append(out, Dec{Kind: "arg", ID: n.ID, Arg: ad.Name, Val: vi, Form: form})
					}
				}
				for mi := range mixMenu[ad.Type] {
					out = append(out, Dec{Kind: "mix", ID: n.ID, Arg: ad.Name, Val: mi})
				}
			}
		}
	}
	return out
}

func argType(fd *fieldDef, name string) string {
	for _, a := range fd.Args {
		if a.Name == name {
			return a.Type
		}
	}
	return ""
}

// twinMenu: the SAME literal at two argument positions whose types are different but
// similar (one nullability level, list depth, similar scalar). Variable extraction
// re-uses an extracted variable only for an equal value at an EQUAL type.
type twinSel struct {
	Field string
	Args  []Arg
}

type twinEntry struct {
	Sels  []twinSel
	Class string
}

var (
	l12  = vList(vInt(1), vInt(2))
	ll1  = vList(vList(vInt(1)))
	lobj = vList(vObj("r", vInt(1)))
)

var twinMenu = []twinEntry{
	{[]twinSel{{"t", []Arg{{"l", l12}, {"li", l12}}}}, "equal literals at [T] and [T!]"},
	{[]twinSel{{"t", []Arg{{"ll", ll1}, {"lli", ll1}}}}, "equal literals at [[T]] and [[T]!]"},
	{[]twinSel{{"tl", []Arg{{"l", l12}, {"li", l12}}}}, "equal literals at [T]! and [T!]!"},
	{[]twinSel{{"t", []Arg{{"i", vInt(1)}}}, {"tn", []Arg{{"i", vInt(1)}}}}, "equal literals at T and T!"},
	{[]twinSel{{"t", []Arg{{"l", l12}}}, {"tl", []Arg{{"l", l12}, {"li", vList(vInt(3))}}}}, "equal literals at [T] and [T]!"},
	{[]twinSel{{"t", []Arg{{"i", vInt(1)}, {"l", vInt(1)}}}}, "equal literals at T and [T] (single value)"},
	{[]twinSel{{"t", []Arg{{"l", vInt(1)}, {"ll", vInt(1)}}}}, "equal literals at [T] and [[T]] (single value)"},
	{[]twinSel{{"t", []Arg{{"i", vInt(1)}, {"fl", vInt(1)}}}}, "equal literals at Int and Float"},
	{[]twinSel{{"t", []Arg{{"s", vStr("s")}, {"id", vStr("s")}}}}, "equal literals at String and ID"},
	{[]twinSel{{"t", []Arg{{"ol", lobj}, {"oli", lobj}}}}, "equal literals at [In] and [In!]"},
}

// tag decoration: @tag(name: ...) / @tag(n: ...) - a custom executable directive that
// SURVIVES normalization - at every kind of site.
//
//	Arg (where)  ""      on the node itself (field, inline fragment, fragment spread)
//	             op      on the operation
//	             spread  the field is wrapped in a named fragment, the directive sits on the spread
//	             inl     the field is wrapped in `... @tag(..) { field }`
//	Form (what)  lit     @tag(name: "x")
//	             var     @tag(name: $tg<id>), the variable is used only there
//	             varA    the same, the variable is called "a" (a name the variables mapper hands out)
//	             varZ    the same with another spelling (member of the class of var: differs only in the variable name)
//	             shared  @tag(n: $tg<id>) and the same variable as field argument x
//	             sharedA / sharedZ   the same with the other spellings
//
// tagNestedForms: variables used ONLY inside a list / object argument of the directive
// (listvar, objvar), the same named "a" (listvarA, objvarA), and with the variable also
// used as field argument x (listshared). They reproduce the defect fixed in 4650230
// (the variables mapper did not look inside list / object values of directive arguments).
const tagNestedForms = true

func tagVarName(d Dec) string {
	switch {
	case strings.HasSuffix(d.Form, "A"):
		return "a"
	case strings.HasSuffix(d.Form, "Z"):
		return fmt.Sprintf("zq_tg%d", d.ID)
	}
	return fmt.Sprintf("tg%d", d.ID)
}

func hasIntArgX(t string, n *Node) bool {
	if n == nil || n.K != 'f' || types[t] == nil {
		return false
	}
	fd := types[t].field(n.Name)
	return fd != nil && len(fd.Args) > 0 && fd.Args[0].Name == "x" && fd.Args[0].Type == "Int"
}

// ---- several directives on one node ("mdir", judged as a single decoration only)
//
// Form = "<where>/<sibling>/<atom,atom[,atom]>"
//
//	where    on      the directives sit on the node itself (field, inline fragment)
//	         spread  the field is wrapped in a named fragment, the directives sit on the spread
//	         inl     the field is wrapped in `... <directives> { field }`
//	sibling  none | rem | keep : a new FIRST root selection `zs: __typename @skip(if: true|false)`,
//	         whose directive is the first directive of the whole document and evaluates to remove / keep
//	atoms    sT sF iT iF      @skip / @include with a literal
//	         svT svF ivT ivF  the same through a Boolean! variable with that value
//	         tg               the custom directive @tag(name: "x")
var mdirAtoms = []string{"tg", "sF", "iT", "sT", "iF", "svF", "ivT", "svT", "ivF"} // simplest first

func mdirName(atom string) string {
	switch atom[0] {
	case 's':
		return "skip"
	case 'i':
		return "include"
	}
	return "tag"
}

// mdirEffect: what the directive evaluates to.
func mdirEffect(atom string) string {
	switch atom {
	case "tg":
		return "custom"
	case "sT", "svT", "iF", "ivF":
		return "remove"
	}
	return "keep"
}

// mdirSequences: all orders of 2 and 3 atoms with at most one @skip and one @include
// and one @tag.
func mdirSequences() [][]string {
	var out [][]string
	var rec func(cur []string)
	rec = func(cur []string) {
		if len(cur) >= 2 {
			out = append(out, append([]string(nil), cur...))
		}
		if len(cur) == 3 {
			return
		}
		for _, a := range mdirAtoms {
			n := 0
			for _, c := range cur {
				if mdirName(c) == mdirName(a) {
					n++
				}
			}
			if n >= 1 {
				continue
			}
			rec(append(cur, a))
		}
	}
	rec(nil)
	return out
}

var mdirSeqs = mdirSequences()

func parseMdir(form string) (where, sib string, atoms []string, ok bool) {
	p := strings.Split(form, "/")
	if len(p) != 3 || p[2] == "" {
		return "", "", nil, false
	}
	return p[0], p[1], strings.Split(p[2], ","), true
}

// singleDecorations: decorations that are enumerated only as the single decoration
// of a base (never as a member of a pair): 2 and 3 directives in every order on every
// node of the bases with <= 2 selections and on the type-conditioned inline fragments
// of the bases with 3 selections, x the three siblings.
func singleDecorations(op *Op) []Dec {
	var out []Dec
	nc := op.nodeCount()
	if nc > 3 {
		return nil
	}
	for _, s := range op.sets() {
		for _, n := range *s.Sel {
			var wheres []string
			switch {
			case n.K == 'f' && nc <= 2:
				wheres = []string{"on", "spread", "inl"}
			case n.K == 'i' && nc <= 3:
				wheres = []string{"on"}
			}
			for _, w := range wheres {
				for _, sib := range []string{"none", "rem", "keep"} {
					for _, seq := range mdirSeqs {
						out = append(out, Dec{Kind: "mdir", ID: n.ID, Form: w + "/" + sib + "/" + strings.Join(seq, ",")})
					}
				}
			}
		}
	}
	return out
}

// selfTwinForms: a field next to a copy of itself, ONE of the two written with a self
// alias (`x: x`), the copy directly behind it / in an inline fragment / in a named
// fragment; "split": the two halves of a composite field's selection instead of two copies.
var selfTwinForms = []string{"direct-orig", "direct-copy", "inl-orig", "inl-copy", "frag-orig", "frag-copy", "split-orig", "split-copy"}

// negMenu: NEGATIVE number literals (direct / in a list / in an input object / as a
// directive argument) on a new root selection `t(...)`, written in the operation ("plain",
// the class root) or inside an inline fragment / a named fragment / a nested named
// fragment (the value copiers of fragment inlining).
type negEntry struct {
	Args  []Arg
	Tag   *Val // @tag(n: <value>) on the field
	Class string
}

func vRaw(s string) Val { return Val{K: 'i', S: s} }

var negMenu = []negEntry{
	{Args: []Arg{{"i", vRaw("-5")}}, Class: "negative int literal as argument"},
	{Args: []Arg{{"l", vList(vRaw("-1"), vInt(2))}}, Class: "negative int literal in a list"},
	{Args: []Arg{{"ll", vList(vList(vRaw("-1")))}}, Class: "negative int literal in a nested list"},
	{Args: []Arg{{"ol", vList(vObj("r", vRaw("-10"), "ll", vList(vList(vRaw("-3")))))}}, Class: "negative int literal in an input object"},
	{Args: []Arg{{"fl", vRaw("-1.5")}}, Class: "negative float literal as argument"},
	{Args: []Arg{{"fl", vRaw("-2")}}, Class: "negative int literal at a Float position"},
	{Args: []Arg{{"i", vInt(1)}}, Tag: &Val{K: 'i', S: "-3"}, Class: "negative int literal as directive argument"},
}

var negForms = []string{"plain", "inl", "frag", "nested"}

// absFragForms: `... on I { id ... on A { zk: k } ... on B { b } }` (inline / named fragment,
// on the interface I / on the union U, both orders of the nested fragments), simplest first.
var absFragForms = []string{"inlIAB", "inlIBA", "fragIAB", "fragIBA", "inlUAB", "inlUBA", "fragUAB", "fragUBA"}

// wrapForms: in which ways the run can be wrapped in place on scope type t.
//
//	inl       ... { run }
//	inlT      ... on T { run }
//	frag      ...F   fragment F on T { run }
//	nested    ...F1  fragment F1 on T { ...F2 }  fragment F2 on T { run }
//	inlI/fragI  ... on I { run } / fragment on I, on an implementer, when the run only selects interface fields
//	inlIT     ... on I { ... on T { run } } on an implementer
func wrapForms(t string, run []*Node) []string {
	forms := []string{"inl", "inlT", "frag", "nested"}
	td := types[t]
	if td.Kind == 'o' && len(td.Impl) > 0 {
		onlyIface := true
		iface := types[td.Impl[0]]
		for _, n := range run {
			if n.K != 'f' || (n.Name != "__typename" && iface.field(n.Name) == nil) {
				onlyIface = false
			}
		}
		if onlyIface {
			forms = append(forms, "inlI", "fragI")
		}
		forms = append(forms, "inlIT")
	}
	return forms
}

// ---------------------------------------------------------------- application

// apply applies d to op in place; ok=false when the site does not exist (any more).
func apply(op *Op, d Dec) bool {
	switch d.Kind {
	case "alias", "selfalias":
		n, set, _ := op.find(d.ID)
		if n == nil || n.K != 'f' || n.Alias != "" {
			return false
		}
		if d.Kind == "selfalias" {
			n.Alias = n.Name
			return true
		}
		alias := fmt.Sprintf("x%d", n.ID)
		for _, c := range *set.Sel {
			if c.Alias == alias || c.Name == alias {
				return false
			}
		}
		n.Alias = alias
		return true
	case "dup":
		n, set, idx := op.find(d.ID)
		if n == nil || n.K == 's' {
			return false
		}
		c := n.clone()
		reID(op, c)
		sel := *set.Sel
		if d.Form == "end" {
			if idx == len(sel)-1 {
				return false
			}
			*set.Sel = append(sel, c)
		} else {
			ns := append([]*Node(nil), sel[:idx+1]...)
			ns = append(ns, c)
			ns = append(ns, sel[idx+1:]...)
			*set.Sel = ns
		}
		return true
	case "wrap":
		n1, set, i := op.find(d.ID)
		n2, set2, j := op.find(d.ID2)
		if n1 == nil || n2 == nil || set.Sel != set2.Sel || j < i {
			return false
		}
		sel := *set.Sel
		run := append([]*Node(nil), sel[i:j+1]...)
		ok := false
		for _, f := range wrapForms(set.Type, run) {
			if f == d.Form {
				ok = true
			}
		}
		if !ok {
			return false
		}
		t := set.Type
		var w *Node
		var newFrags []Frag // appended after the selection set was rewritten (set.Sel may point into op.Frags)
		switch d.Form {
		case "inl":
			w = &Node{ID: op.newID(), K: 'i', Sel: run}
		case "inlT":
			w = &Node{ID: op.newID(), K: 'i', HasCond: true, Cond: t, Sel: run}
		case "inlI":
			w = &Node{ID: op.newID(), K: 'i', HasCond: true, Cond: types[t].Impl[0], Sel: run}
		case "inlIT":
			inner := &Node{ID: op.newID(), K: 'i', HasCond: true, Cond: t, Sel: run}
			w = &Node{ID: op.newID(), K: 'i', HasCond: true, Cond: types[t].Impl[0], Sel: []*Node{inner}}
		case "frag", "fragI":
			cond := t
			if d.Form == "fragI" {
				cond = types[t].Impl[0]
			}
			name := fmt.Sprintf("F%d", len(op.Frags)+1)
			w = &Node{ID: op.newID(), K: 's', Name: name}
			newFrags = append(newFrags, Frag{N: name, Cond: cond, Sel: run})
		case "nested":
			n1 := fmt.Sprintf("F%d", len(op.Frags)+1)
			n2 := fmt.Sprintf("F%d", len(op.Frags)+2)
			w = &Node{ID: op.newID(), K: 's', Name: n1}
			in := &Node{ID: op.newID(), K: 's', Name: n2}
			newFrags = append(newFrags, Frag{N: n1, Cond: t, Sel: []*Node{in}}, Frag{N: n2, Cond: t, Sel: run})
		default:
			return false
		}
		ns := append([]*Node(nil), sel[:i]...)
		ns = append(ns, w)
		ns = append(ns, sel[j+1:]...)
		*set.Sel = ns
		op.Frags = append(op.Frags, newFrags...)
		return true
	case "selftwin":
		n, set, idx := op.find(d.ID)
		if n == nil || n.K != 'f' || n.Alias != "" {
			return false
		}
		p := strings.Split(d.Form, "-")
		if len(p) != 2 {
			return false
		}
		c := n.clone()
		reID(op, c)
		if p[0] == "split" {
			if len(n.Sel) < 2 {
				return false
			}
			c.Sel = c.Sel[1:]
			n.Sel = n.Sel[:1]
		}
		switch p[1] {
		case "orig":
			n.Alias = n.Name
		case "copy":
			c.Alias = c.Name
		default:
			return false
		}
		w := c
		var nf []Frag
		switch p[0] {
		case "direct", "split":
		case "inl":
			w = &Node{ID: op.newID(), K: 'i', Sel: []*Node{c}}
		case "frag":
			name := fmt.Sprintf("F%d", len(op.Frags)+1)
			w = &Node{ID: op.newID(), K: 's', Name: name}
			nf = append(nf, Frag{N: name, Cond: set.Type, Sel: []*Node{c}})
		default:
			return false
		}
		sel := *set.Sel
		ns := append([]*Node(nil), sel[:idx+1]...)
		ns = append(ns, w)
		ns = append(ns, sel[idx+1:]...)
		*set.Sel = ns
		op.Frags = append(op.Frags, nf...)
		return true
	case "mdir":
		where, sib, atoms, ok := parseMdir(d.Form)
		if !ok {
			return false
		}
		n, set, idx := op.find(d.ID)
		if n == nil || n.K == 's' || len(n.Dirs) > 0 {
			return false
		}
		if where != "on" && n.K != 'f' {
			return false
		}
		var dirs []Dir
		for _, a := range atoms {
			known := false
			for _, k := range mdirAtoms {
				if k == a {
					known = true
				}
			}
			if !known {
				return false
			}
			val := strings.HasSuffix(a, "T")
			switch {
			case a == "tg":
				dirs = append(dirs, Dir{N: "tag", A: "name", If: vStr("x")})
			case len(a) == 2:
				dirs = append(dirs, Dir{N: mdirName(a), If: vBool(val)})
			default:
				vn := fmt.Sprintf("%s%d", map[string]string{"skip": "sk", "include": "in"}[mdirName(a)], n.ID)
				if op.hasVar(vn) {
					return false
				}
				op.addVar(VarDef{N: vn, T: "Boolean!"}, true, val)
				dirs = append(dirs, Dir{N: mdirName(a), If: vVar(vn)})
			}
		}
		switch where {
		case "on":
			n.Dirs = dirs
		case "spread", "inl":
			sel := *set.Sel
			var w *Node
			var nf []Frag
			if where == "inl" {
				w = &Node{ID: op.newID(), K: 'i', Dirs: dirs, Sel: []*Node{n}}
			} else {
				name := fmt.Sprintf("F%d", len(op.Frags)+1)
				w = &Node{ID: op.newID(), K: 's', Name: name, Dirs: dirs}
				nf = append(nf, Frag{N: name, Cond: set.Type, Sel: []*Node{n}})
			}
			ns := append([]*Node(nil), sel[:idx]...)
			ns = append(ns, w)
			ns = append(ns, sel[idx+1:]...)
			*set.Sel = ns
			op.Frags = append(op.Frags, nf...)
		default:
			return false
		}
		switch sib {
		case "none":
		case "rem", "keep":
			zs := &Node{ID: op.newID(), K: 'f', Alias: "zs", Name: "__typename", Dirs: []Dir{{N: "skip", If: vBool(sib == "rem")}}}
			op.Sel = append([]*Node{zs}, op.Sel...)
		default:
			return false
		}
		return true
	case "neg":
		if d.Val >= len(negMenu) {
			return false
		}
		for _, c := range op.Sel {
			if c.K == 'f' && c.Alias == "" && c.Name == "t" {
				return false
			}
		}
		e := negMenu[d.Val]
		n := &Node{ID: op.newID(), K: 'f', Name: "t", Args: append([]Arg(nil), e.Args...)}
		if e.Tag != nil {
			n.Dirs = []Dir{{N: "tag", A: "n", If: *e.Tag}}
		}
		w := n
		var nf []Frag
		switch d.Form {
		case "plain":
		case "inl":
			w = &Node{ID: op.newID(), K: 'i', HasCond: true, Cond: "Query", Sel: []*Node{n}}
		case "frag":
			name := fmt.Sprintf("F%d", len(op.Frags)+1)
			w = &Node{ID: op.newID(), K: 's', Name: name}
			nf = append(nf, Frag{N: name, Cond: "Query", Sel: []*Node{n}})
		case "nested":
			n1 := fmt.Sprintf("F%d", len(op.Frags)+1)
			n2 := fmt.Sprintf("F%d", len(op.Frags)+2)
			w = &Node{ID: op.newID(), K: 's', Name: n1}
			in := &Node{ID: op.newID(), K: 's', Name: n2}
			nf = append(nf, Frag{N: n1, Cond: "Query", Sel: []*Node{in}}, Frag{N: n2, Cond: "Query", Sel: []*Node{n}})
		default:
			return false
		}
		op.Sel = append(append([]*Node(nil), op.Sel...), w)
		op.Frags = append(op.Frags, nf...)
		return true
	case "twin":
		if d.Val >= len(twinMenu) {
			return false
		}
		e := twinMenu[d.Val]
		var nodes []*Node
		for _, ts := range e.Sels {
			for _, c := range op.Sel {
				if c.K == 'f' && c.Alias == "" && c.Name == ts.Field {
					return false
				}
			}
			args := append([]Arg(nil), ts.Args...)
			if d.Form == "rev" {
				for i, j := 0, len(args)-1; i < j; i, j = i+1, j-1 {
					args[i], args[j] = args[j], args[i]
				}
			}
			nodes = append(nodes, &Node{ID: op.newID(), K: 'f', Name: ts.Field, Args: args})
		}
		if d.Form == "rev" {
			for i, j := 0, len(nodes)-1; i < j; i, j = i+1, j-1 {
				nodes[i], nodes[j] = nodes[j], nodes[i]
			}
		} else if d.Form != "fwd" {
			return false
		}
		op.Sel = append(append([]*Node(nil), op.Sel...), nodes...)
		return true
	case "tag":
		shared := strings.HasPrefix(d.Form, "shared")
		var n *Node
		var set selSet
		var idx int
		if d.ID != 0 {
			n, set, idx = op.find(d.ID)
			if n == nil {
				return false
			}
		} else if d.Arg != "op" || shared {
			return false
		}
		if shared && !hasIntArgX(set.Type, n) {
			return false
		}
		if (d.Arg == "spread" || d.Arg == "inl") && n.K != 'f' {
			return false
		}
		dir := Dir{N: "tag", A: "name"}
		switch d.Form {
		case "lit":
			dir.If = vStr("x")
		case "var", "varA", "varZ":
			vn := tagVarName(d)
			if op.hasVar(vn) {
				return false
			}
			op.addVar(VarDef{N: vn, T: "String"}, true, "x")
			dir.If = vVar(vn)
		case "listvar", "listvarA", "objvar", "objvarA", "listshared", "listsharedA":
			// needs a second variable in a field argument: x gets $zx<id> (value 2)
			vn := tagVarName(d)
			zn := fmt.Sprintf("zx%d", d.ID)
			if op.hasVar(vn) || op.hasVar(zn) || !hasIntArgX(set.Type, n) {
				return false
			}
			for _, a := range n.Args {
				if a.N == "x" && a.V.hasVar() {
					return false
				}
			}
			if strings.HasPrefix(d.Form, "obj") {
				op.addVar(VarDef{N: vn, T: "Int!"}, true, 1)
				dir.A, dir.If = "o", vObj("r", vVar(vn))
			} else {
				op.addVar(VarDef{N: vn, T: "Int"}, true, 1)
				dir.A, dir.If = "l", vList(vVar(vn))
			}
			op.addVar(VarDef{N: zn, T: "Int"}, true, 2)
			na := []Arg{{N: "x", V: vVar(zn)}}
			for _, a := range n.Args {
				if a.N != "x" {
					na = append(na, a)
				}
			}
			n.Args = na
			if strings.HasPrefix(d.Form, "listshared") {
				// control: the variable is also used directly, on an extra root selection
				op.Sel = append(append([]*Node(nil), op.Sel...), &Node{ID: op.newID(), K: 'f', Alias: "zc", Name: "f", Args: []Arg{{N: "x", V: vVar(vn)}}})
			}
		case "shared", "sharedA", "sharedZ":
			vn := tagVarName(d)
			if op.hasVar(vn) {
				return false
			}
			for _, a := range n.Args {
				if a.N == "x" && a.V.hasVar() {
					return false
				}
			}
			op.addVar(VarDef{N: vn, T: "Int"}, true, 1)
			dir.A = "n"
			dir.If = vVar(vn)
			na := []Arg{{N: "x", V: vVar(vn)}}
			for _, a := range n.Args {
				if a.N != "x" {
					na = append(na, a)
				}
			}
			n.Args = na
		default:
			return false
		}
		switch d.Arg {
		case "":
			n.Dirs = append(append([]Dir(nil), n.Dirs...), dir)
		case "op":
			op.Dirs = append(op.Dirs, dir)
		case "spread", "inl":
			sel := *set.Sel
			var w *Node
			var nf []Frag
			if d.Arg == "inl" {
				w = &Node{ID: op.newID(), K: 'i', Dirs: []Dir{dir}, Sel: []*Node{n}}
			} else {
				name := fmt.Sprintf("F%d", len(op.Frags)+1)
				w = &Node{ID: op.newID(), K: 's', Name: name, Dirs: []Dir{dir}}
				nf = append(nf, Frag{N: name, Cond: set.Type, Sel: []*Node{n}})
			}
			ns := append([]*Node(nil), sel[:idx]...)
			ns = append(ns, w)
			ns = append(ns, sel[idx+1:]...)
			*set.Sel = ns
			op.Frags = append(op.Frags, nf...)
		default:
			return false
		}
		return true
	case "absfrag":
		var set selSet
		found := false
		for _, c := range op.sets() {
			if c.Owner != nil && c.Owner.ID == d.ID {
				set, found = c, true
			}
		}
		if !found {
			return false
		}
		td := types[set.Type]
		if td == nil || td.Kind != 'o' || len(td.Impl) == 0 {
			return false
		}
		okForm := false
		for _, f := range absFragForms {
			if f == d.Form {
				okForm = true
			}
		}
		if !okForm {
			return false
		}
		onA := &Node{ID: op.newID(), K: 'i', HasCond: true, Cond: "A", Sel: []*Node{{ID: op.newID(), K: 'f', Alias: "zk", Name: "k"}}}
		onB := &Node{ID: op.newID(), K: 'i', HasCond: true, Cond: "B", Sel: []*Node{{ID: op.newID(), K: 'f', Name: "b"}}}
		var inner []*Node
		cond := "U"
		if strings.Contains(d.Form, "I") {
			cond = td.Impl[0]
			inner = append(inner, &Node{ID: op.newID(), K: 'f', Name: "id"})
		}
		if strings.HasSuffix(d.Form, "AB") {
			inner = append(inner, onA, onB)
		} else {
			inner = append(inner, onB, onA)
		}
		var w *Node
		var nf []Frag
		if strings.HasPrefix(d.Form, "inl") {
			w = &Node{ID: op.newID(), K: 'i', HasCond: true, Cond: cond, Sel: inner}
		} else {
			name := fmt.Sprintf("F%d", len(op.Frags)+1)
			w = &Node{ID: op.newID(), K: 's', Name: name}
			nf = append(nf, Frag{N: name, Cond: cond, Sel: inner})
		}
		*set.Sel = append(append([]*Node(nil), (*set.Sel)...), w)
		op.Frags = append(op.Frags, nf...)
		return true
	case "typename":
		var sel *[]*Node
		if d.ID == 0 {
			sel = &op.Sel
		} else {
			n, _, _ := op.find(d.ID)
			if n == nil || len(n.Sel) == 0 {
				return false
			}
			sel = &n.Sel
		}
		for _, c := range *sel {
			if c.K == 'f' && c.Name == "__typename" && c.Alias == "" {
				return false
			}
		}
		*sel = append(*sel, &Node{ID: op.newID(), K: 'f', Name: "__typename"})
		return true
	case "skip", "include":
		n, _, _ := op.find(d.ID)
		if n == nil || len(n.Dirs) > 0 {
			return false
		}
		val := strings.HasSuffix(d.Form, "T")
		vn := fmt.Sprintf("s%d", n.ID)
		switch d.Form[:len(d.Form)-1] {
		case "lit":
			n.Dirs = append(n.Dirs, Dir{N: d.Kind, If: vBool(val)})
		case "var":
			if op.hasVar(vn) {
				return false
			}
			op.addVar(VarDef{N: vn, T: "Boolean!"}, true, val)
			n.Dirs = append(n.Dirs, Dir{N: d.Kind, If: vVar(vn)})
		case "vardef":
			if op.hasVar(vn) {
				return false
			}
			dv := vBool(val)
			op.addVar(VarDef{N: vn, T: "Boolean", Def: &dv}, false, nil)
			n.Dirs = append(n.Dirs, Dir{N: d.Kind, If: vVar(vn)})
		default:
			return false
		}
		return true
	case "unusedvar":
		if op.hasVar("unused") {
			return false
		}
		op.addVar(VarDef{N: "unused", T: "Int"}, true, 3)
		return true
	case "opname":
		if op.Name != "" {
			return false
		}
		op.Name = "Q"
		return true
	case "rename":
		if len(op.Vars) == 0 {
			return false
		}
		m := map[string]string{}
		for _, v := range op.Vars {
			m[v.N] = "zq_" + v.N
		}
		for i := range op.Dirs {
			op.Dirs[i].If = op.Dirs[i].If.renameVars(m)
		}
		for _, s := range op.sets() {
			for _, n := range *s.Sel {
				for i := range n.Args {
					n.Args[i].V = n.Args[i].V.renameVars(m)
				}
				for i := range n.Dirs {
					n.Dirs[i].If = n.Dirs[i].If.renameVars(m)
				}
			}
		}
		nv := make([]VarDef, 0, len(op.Vars))
		for i := len(op.Vars) - 1; i >= 0; i-- { // also reverse the order of the definitions
			v := op.Vars[i]
			v.N = m[v.N]
			nv = append(nv, v)
		}
		op.Vars = nv
		nj := map[string]any{}
		for k, v := range op.JSON {
			if r, ok := m[k]; ok {
				nj[r] = v
			} else {
				nj[k] = v
			}
		}
		if op.JSON != nil {
			op.JSON = nj
		}
		return true
	case "omit":
		n, _, _ := op.find(d.ID)
		if n == nil {
			return false
		}
		for i, a := range n.Args {
			if a.N == d.Arg {
				if a.V.hasVar() {
					return false // keep it simple: would leave an unused variable behind
				}
				n.Args = append(append([]Arg(nil), n.Args[:i]...), n.Args[i+1:]...)
				return true
			}
		}
		return false
	case "arg", "mix":
		n, set, _ := op.find(d.ID)
		if n == nil || n.K != 'f' {
			return false
		}
		td := types[set.Type]
		if td == nil {
			return false
		}
		fd := td.field(n.Name)
		if fd == nil {
			return false
		}
		t := argType(fd, d.Arg)
		if t == "" {
			return false
		}
		var v Val
		if d.Kind == "mix" {
			menu := mixMenu[t]
			if d.Val >= len(menu) {
				return false
			}
			m := menu[d.Val]
			if d.Form == "lit" { // residue form
				v = m.Lit
			} else {
				ren := map[string]string{}
				for _, vd := range m.Vars {
					nn := fmt.Sprintf("%s%d", vd.N, n.ID)
					if op.hasVar(nn) {
						return false
					}
					ren[vd.N] = nn
				}
				for _, vd := range m.Vars {
					val, provided := m.JSON[vd.N]
					nvd := vd
					nvd.N = ren[vd.N]
					op.addVar(nvd, provided, val)
				}
				v = m.V.renameVars(ren)
			}
		} else {
			menu := valueMenu[t]
			if d.Val >= len(menu) {
				return false
			}
			mv := menu[d.Val]
			okForm := false
			for _, f := range argForms(t, mv) {
				if f == d.Form {
					okForm = true
				}
			}
			if !okForm {
				return false
			}
			vn := fmt.Sprintf("v%d", n.ID) + d.Arg
			if d.Form == "varA" {
				vn = "a"
			}
			if d.Form != "lit" && op.hasVar(vn) {
				return false
			}
			nt := strings.TrimSuffix(t, "!")
			switch d.Form {
			case "lit":
				v = mv.V
			case "var", "varA":
				op.addVar(VarDef{N: vn, T: t}, true, mv.V.toJSON())
				v = vVar(vn)
			case "varNN":
				op.addVar(VarDef{N: vn, T: t + "!"}, true, mv.V.toJSON())
				v = vVar(vn)
			case "vardef":
				dv := mv.V
				op.addVar(VarDef{N: vn, T: nt, Def: &dv}, false, nil)
				v = vVar(vn)
			case "vardefgiven":
				dv := otherLiteral(t)
				op.addVar(VarDef{N: vn, T: nt, Def: &dv}, true, mv.V.toJSON())
				v = vVar(vn)
			case "vardefnull":
				dv := otherLiteral(t)
				op.addVar(VarDef{N: vn, T: nt, Def: &dv}, true, nil)
				v = vVar(vn)
			default:
				return false
			}
		}
		// replace or add the argument (arguments stay in schema order)
		old := -1
		for i, a := range n.Args {
			if a.N == d.Arg {
				old = i
			}
		}
		if old >= 0 {
			if n.Args[old].V.hasVar() {
				return false // replacing a variable argument would leave an unused variable behind
			}
			n.Args = append([]Arg(nil), n.Args...)
			n.Args[old].V = v
			return true
		}
		var na []Arg
		added := false
		for _, ad := range fd.Args {
			if ad.Name == d.Arg {
				na = append(na, Arg{N: d.Arg, V: v})
				added = true
				continue
			}
			for _, a := range n.Args {
				if a.N == ad.Name {
					na = append(na, a)
				}
			}
		}
		if !added {
			return false
		}
		n.Args = na
		return true
	}
	return false
}

// reID gives fresh ids to a copied subtree.
func reID(op *Op, n *Node) {
	n.ID = op.newID()
	for _, c := range n.Sel {
		reID(op, c)
	}
}

// canon classifies a decoration for clause 4 (see Dec).
func (d Dec) canon() string {
	switch d.Kind {
	case "dup", "wrap", "rename", "selftwin":
		return "pure"
	case "arg":
		switch d.Form {
		case "var", "varA", "vardef", "vardefgiven", "vardefnull":
			return "form"
		}
		return "self"
	case "mix":
		if d.Form == "lit" {
			return "self"
		}
		return "form"
	case "tag":
		switch d.Form {
		case "varA", "varZ", "sharedA", "sharedZ", "listvarA", "objvarA", "listsharedA":
			return "form" // differs from var / shared only in the variable name
		}
		return "self"
	case "neg":
		if d.Form != "plain" {
			return "form" // differs from the plain spelling only in fragment structure
		}
		return "self"
	}
	return "self"
}

// residue is what the class root keeps of d.
func (d Dec) residue() (Dec, bool) {
	switch d.canon() {
	case "pure":
		return Dec{}, false
	case "form":
		r := d
		r.Form = "lit"
		if d.Kind == "tag" {
			r.Form = strings.TrimRight(d.Form, "AZ")
		}
		if d.Kind == "neg" {
			r.Form = "plain"
		}
		return r, true
	}
	return d, true
}

// build applies the decorations in order to a copy of base.
func build(base *Op, decs []Dec) (*Op, bool) {
	op := base.clone()
	for _, d := range decs {
		if !apply(op, d) {
			return nil, false
		}
	}
	return op, true
}

// classRoot returns the root of the canonical-form class of (base, decs):
// base plus the residues, or ok=false when the variant is not judged for
// clause 4 (a non-"pure" decoration applied after a "pure" one may refer to
// nodes the pure one created, and is no longer a decoration of the same class).
func classRoot(base *Op, decs []Dec) (root *Op, differs bool, ok bool) {
	seenPure := false
	var res []Dec
	for _, d := range decs {
		c := d.canon()
		if c == "pure" {
			seenPure = true
			differs = true
			continue
		}
		if seenPure {
			return nil, false, false
		}
		if c == "form" {
			differs = true
		}
		r, _ := d.residue()
		res = append(res, r)
	}
	if !differs {
		return nil, false, true
	}
	root, ok = build(base, res)
	return root, true, ok
}
