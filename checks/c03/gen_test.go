package c03

// Base operations: ALL selection trees over the schema with
//   - at most maxDepth nested field levels (inline fragments do not count),
//   - at most maxWidth selections per selection set,
//   - at most maxNodes selections (fields + inline fragments) in total,
// where every selection set takes its selections from the type's slot menu in
// menu order, one variant per slot (no repeated response name: repetitions are
// the business of the "dup" decoration), every composite field has a sub
// selection, abstract types get their interface fields plus one type-conditioned
// inline fragment per possible type, and fields with arguments range over
// their base argument menu.

type baseArgs struct {
	Args []Arg
	Vars []VarDef
	JSON map[string]any
}

// base argument menus (simplest first). Everything else about arguments is
// reached through the "arg" decorations.
var baseArgMenu = map[string][]baseArgs{
	"Query.f": {
		{},
		{Args: []Arg{{"x", vInt(1)}}},
		{Args: []Arg{{"o", vObj("r", vInt(1))}}},
		{Args: []Arg{{"x", vVar("v")}}, Vars: []VarDef{{N: "v", T: "Int"}}, JSON: map[string]any{"v": 1}},
	},
	"Query.g": {
		{Args: []Arg{{"r", vInt(2)}}},
	},
	"A.k": {
		{},
		{Args: []Arg{{"x", vInt(1)}}},
	},
}

type tmpl struct {
	nodes []*Node // selections of one set (IDs unassigned)
	size  int
	vars  []VarDef
	json  map[string]any
}

type generator struct {
	maxDepth, maxWidth int
	memo               map[[3]any][]tmpl
}

type slot struct {
	variants []tmpl // each variant = exactly one selection (plus its subtree)
}

func (g *generator) slots(typ string, depth, budget int) []slot {
	td := types[typ]
	var out []slot
	if td.Kind == 'u' {
		out = append(out, slot{variants: []tmpl{{nodes: []*Node{{K: 'f', Name: "__typename"}}, size: 1}}})
	}
	for _, fd := range td.Fields {
		if fd.NoBase {
			continue
		}
		var s slot
		if isComposite(fd.Ret) {
			if depth > 1 && budget > 1 {
				for _, sub := range g.sets(fd.Ret, depth-1, budget-1) {
					s.variants = append(s.variants, tmpl{nodes: []*Node{{K: 'f', Name: fd.Name, Sel: sub.nodes}}, size: 1 + sub.size, vars: sub.vars, json: sub.json})
				}
			}
		} else if menu, ok := baseArgMenu[typ+"."+fd.Name]; ok {
			for _, m := range menu {
				s.variants = append(s.variants, tmpl{nodes: []*Node{{K: 'f', Name: fd.Name, Args: m.Args}}, size: 1, vars: m.Vars, json: m.JSON})
			}
		} else {
			s.variants = append(s.variants, tmpl{nodes: []*Node{{K: 'f', Name: fd.Name}}, size: 1})
		}
		if len(s.variants) > 0 {
			out = append(out, s)
		}
	}
	for _, p := range td.Possible {
		var s slot
		if budget > 1 {
			for _, sub := range g.sets(p, depth, budget-1) {
				s.variants = append(s.variants, tmpl{nodes: []*Node{{K: 'i', HasCond: true, Cond: p, Sel: sub.nodes}}, size: 1 + sub.size, vars: sub.vars, json: sub.json})
			}
		}
		if len(s.variants) > 0 {
			out = append(out, s)
		}
	}
	return out
}

// sets enumerates every selection set on typ with 1..maxWidth selections and
// total size <= budget, in order of increasing first-slot index (simplest first
// inside a slot).
func (g *generator) sets(typ string, depth, budget int) []tmpl {
	key := [3]any{typ, depth, budget}
	if r, ok := g.memo[key]; ok {
		return r
	}
	slots := g.slots(typ, depth, budget)
	var out []tmpl
	var rec func(si int, cur tmpl, width int)
	rec = func(si int, cur tmpl, width int) {
		if len(cur.nodes) > 0 {
			out = append(out, cur)
		}
		if width == g.maxWidth {
			return
		}
		for i := si; i < len(slots); i++ {
			for _, v := range slots[i].variants {
				if cur.size+v.size > budget {
					continue
				}
				next := tmpl{size: cur.size + v.size}
				next.nodes = append(append([]*Node(nil), cur.nodes...), v.nodes...)
				next.vars = mergeVars(cur.vars, v.vars)
				next.json = mergeJSON(cur.json, v.json)
				rec(i+1, next, width+1)
			}
		}
	}
	rec(0, tmpl{}, 0)
	g.memo[key] = out
	return out
}

func mergeVars(a, b []VarDef) []VarDef {
	if len(b) == 0 {
		return a
	}
	out := append([]VarDef(nil), a...)
	for _, v := range b {
		dup := false
		for _, w := range out {
			if w.N == v.N {
				dup = true
			}
		}
		if !dup {
			out = append(out, v)
		}
	}
	return out
}

func mergeJSON(a, b map[string]any) map[string]any {
	if len(b) == 0 {
		return a
	}
	out := map[string]any{}
	for k, v := range a {
		out[k] = v
	}
	for k, v := range b {
		out[k] = v
	}
	return out
}

// bases returns all base operations below the bounds, smallest first.
func bases(maxDepth, maxWidth, maxNodes int) []*Op {
	g := &generator{maxDepth: maxDepth, maxWidth: maxWidth, memo: map[[3]any][]tmpl{}}
	ts := g.sets("Query", maxDepth, maxNodes)
	// stable order: by size, then generation order
	var out []*Op
	for size := 1; size <= maxNodes; size++ {
		for _, t := range ts {
			if t.size != size {
				continue
			}
			op := &Op{Sel: cloneSel(t.nodes), Vars: append([]VarDef(nil), t.vars...)}
			if len(t.json) > 0 {
				op.JSON = mergeJSON(nil, t.json)
			}
			assignIDs(op)
			out = append(out, op)
		}
	}
	return out
}

func assignIDs(op *Op) {
	op.Next = 1
	for _, s := range op.sets() {
		for _, n := range *s.Sel {
			n.ID = op.newID()
		}
	}
}
