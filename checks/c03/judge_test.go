package c03

import (
	"encoding/json"
	"fmt"
	"reflect"
	"sort"
	"strings"

	gast "github.com/vektah/gqlparser/v2/ast"

	"verif/internal/c03ref"
)

const (
	clMeaning   = "normalized operation with normalized variables produces the same response as the original"
	clValidity  = "normalized operation and variables are still valid"
	clIdem      = "normalizing an already normalized operation changes neither its printed form nor its variables"
	clCanon     = "operations that differ only in fragment structure, duplicated fields, variable names or literal-versus-variable arguments reach the same printed form"
	clPanic     = "normalization must not panic"
	clSelfCheck = "INFRA: reference executor disagrees on a variant and its class root (bug in the check, not in the repository)"
)

const placeholderAlias = "__internal_typename" // literal.INTERNAL_TYPENAME

// which clauses judge has to evaluate
const (
	needMeaning = 1 << iota
	needValidity
	needIdem
	needCanon
	needAll  = needMeaning | needValidity | needIdem | needCanon
	needNone = 0
)

func needFor(clause string) int {
	switch clause {
	case clMeaning:
		return needMeaning
	case clValidity:
		return needValidity
	case clIdem:
		return needIdem
	case clCanon:
		return needCanon
	}
	return needAll
}

type finding struct {
	Clause string
	Kind   string // failure kind (stable, no input text)
	Detail string
}

type verdict struct {
	Status   string // judged | rejected | oracle_split | not_judged:<why>
	Why      string
	Findings []finding
	Norm     normResult
	Text     string
	Vars     []byte
	Twin     bool
	Resp0    any // reference response of the original
}

// inlinedTwin rewrites every fragment spread as `... on <type condition> { selections }`.
func inlinedTwin(op *Op) *Op {
	t := op.clone()
	frags := map[string]Frag{}
	for _, f := range t.Frags {
		frags[f.N] = f
	}
	var rewrite func(sel []*Node, depth int) []*Node
	rewrite = func(sel []*Node, depth int) []*Node {
		out := make([]*Node, 0, len(sel))
		for _, n := range sel {
			if n.K == 's' && depth < 8 {
				f := frags[n.Name]
				out = append(out, &Node{ID: n.ID, K: 'i', HasCond: true, Cond: f.Cond, Dirs: n.Dirs, Sel: rewrite(cloneSel(f.Sel), depth+1)})
				continue
			}
			n.Sel = rewrite(n.Sel, depth)
			out = append(out, n)
		}
		return out
	}
	t.Sel = rewrite(t.Sel, 0)
	t.Frags = nil
	return t
}

const kindLeftoverPlaceholder = "printed form differs from the class root only by a leftover __internal_typename placeholder"

// withoutPlaceholder removes the normalizer's placeholder selection from a printed operation.
func withoutPlaceholder(printed string) string {
	s := strings.ReplaceAll(printed, placeholderAlias+": __typename", "")
	return strings.Join(strings.Fields(strings.NewReplacer("{", " { ", "}", " } ").Replace(s)), " ")
}

func hasSelfAlias(op *Op) bool {
	for _, s := range op.sets() {
		for _, n := range *s.Sel {
			if n.K == 'f' && n.Alias != "" && n.Alias == n.Name {
				return true
			}
		}
	}
	return false
}

func withoutSelfAliases(op *Op) *Op {
	t := op.clone()
	for _, s := range t.sets() {
		for _, n := range *s.Sel {
			if n.K == 'f' && n.Alias == n.Name {
				n.Alias = ""
			}
		}
	}
	return t
}

type checker struct {
	gschema *gast.Schema
	root    *c03ref.Obj
	// memo of class roots of the current base: key -> normalized print ("" + err when not usable)
	roots map[string]*rootInfo
	// singlePass: also judge idempotence of ONE Request.Normalize call (second seam)
	singlePass bool
}

type rootInfo struct {
	ok      bool
	printed string
	resp    any
	text    string
	vars    []byte
	members int
}

func newChecker() (*checker, error) {
	gs, err := c03ref.LoadSchema(sdl)
	if err != nil {
		return nil, err
	}
	if err := loadRepoSchema(); err != nil {
		return nil, err
	}
	return &checker{gschema: gs, root: universe(), roots: map[string]*rootInfo{}}, nil
}

func stripPlaceholder(v any) any {
	switch t := v.(type) {
	case map[string]any:
		out := make(map[string]any, len(t))
		for k, e := range t {
			if k == placeholderAlias {
				continue
			}
			out[k] = stripPlaceholder(e)
		}
		return out
	case []any:
		out := make([]any, len(t))
		for i, e := range t {
			out[i] = stripPlaceholder(e)
		}
		return out
	}
	return v
}

// diffKind describes the first difference between two response values.
func diffKind(a, b any) string {
	switch ta := a.(type) {
	case map[string]any:
		tb, ok := b.(map[string]any)
		if !ok {
			return "object replaced by another kind of value"
		}
		for _, k := range sortedKeys(ta) {
			vb, ok := tb[k]
			if !ok {
				return "response key missing after normalization"
			}
			if d := diffKind(ta[k], vb); d != "" {
				return d
			}
		}
		for k := range tb {
			if _, ok := ta[k]; !ok {
				return "additional response key after normalization"
			}
		}
		return ""
	case []any:
		tb, ok := b.([]any)
		if !ok || len(ta) != len(tb) {
			return "list differs"
		}
		for i := range ta {
			if d := diffKind(ta[i], tb[i]); d != "" {
				return d
			}
		}
		return ""
	}
	if !reflect.DeepEqual(a, b) {
		if _, ok := a.(string); ok {
			if _, ok := b.(string); ok {
				return "field value differs (echo of the coerced arguments)"
			}
		}
		return "leaf value differs"
	}
	return ""
}

func showJSON(v any) string {
	b, _ := json.Marshal(v)
	return string(b)
}

// execute runs the reference executor on (query text, variables).
func (c *checker) execute(doc *gast.QueryDocument, vars []byte) (any, []string) {
	m, err := decodeVars(vars)
	if err != nil {
		return nil, []string{"variables: " + err.Error()}
	}
	return c03ref.Exec(c.gschema, doc, "", m, c.root)
}

// judge evaluates clauses 1-3 (and "no panic") on one operation.
func (c *checker) judge(op *Op, need int) (v verdict) {
	v.Text = op.Text()
	v.Vars = op.VarsJSON()
	// --- is the ORIGINAL valid? (gqlparser and the repository's validator must both accept)
	doc, perr, verrs := c03ref.Parse(c.gschema, v.Text)
	if perr != nil {
		v.Status, v.Why = "not_judged", "generator produced a syntax error: "+perr.Error()
		return v
	}
	repoOK, repoMsg := repoValidate(v.Text)
	if !repoOK && len(op.Frags) > 0 && strings.Contains(repoMsg, "forms fragment cycle") {
		// The repository's validator presupposes inlined fragment spreads (the engine
		// validates after stage 1) and reports ANY remaining spread as a "cycle".
		// Ask it about the syntactic twin in which every spread is written as the
		// equivalent inline fragment.
		repoOK, repoMsg = repoValidate(inlinedTwin(op).Text())
		v.Twin = true
	}
	if !repoOK && strings.Contains(repoMsg, "differing fields") && hasSelfAlias(op) {
		// The repository's validator compares alias bytes, so on a pristine document it
		// reports `x: x` next to `x` as a conflict; the engine never sees that (stage 1
		// removes self aliases before it validates). Ask it about the syntactic twin
		// without self aliases (and without spreads).
		repoOK, repoMsg = repoValidate(withoutSelfAliases(inlinedTwin(op)).Text())
		v.Twin = true
	}
	gqlOK := len(verrs) == 0
	switch {
	case !gqlOK && !repoOK:
		v.Status, v.Why = "rejected", verrs[0].Rule
		return v
	case gqlOK != repoOK:
		v.Status = "oracle_split"
		if gqlOK {
			v.Why = "repo rejects: " + msgKind(repoMsg)
		} else {
			v.Why = "gqlparser rejects: " + verrs[0].Rule
		}
		return v
	}
	resp0, errs0 := c.execute(doc, v.Vars)
	if len(errs0) > 0 {
		v.Status, v.Why = "not_judged", "original has execution errors"
		return v
	}
	v.Status = "judged"
	v.Resp0 = resp0

	// --- normalize
	var n normResult
	if p, site, text := catch(func() { n = normalize(v.Text, v.Vars) }); p {
		v.Findings = append(v.Findings, finding{clPanic, "panic in " + site, fmt.Sprintf("panic: %s", text)})
		return v
	}
	v.Norm = n
	if n.Stage != "" {
		kind := n.Stage + " fails: " + msgKind(n.Err)
		if n.Stage == "engine variables validation" {
			kind = "the engine's variables validation rejects the normalized variables"
		}
		v.Findings = append(v.Findings, finding{clValidity, kind,
			fmt.Sprintf("the engine's normalization sequence rejects a valid operation at %s: %s", n.Stage, n.Err)})
		return v
	}

	if need&(needMeaning|needValidity|needIdem) == 0 {
		return v
	}
	// --- clause 2: validity of (printed, vars)
	ndoc, nperr, nverrs := c03ref.Parse(c.gschema, n.Printed)
	if nperr != nil {
		v.Findings = append(v.Findings, finding{clValidity, "printed normalized operation does not parse (gqlparser)", nperr.Error()})
		return v
	}
	validityDone := need&needValidity == 0
	if !validityDone && len(nverrs) > 0 {
		v.Findings = append(v.Findings, finding{clValidity, "gqlparser rejects: " + nverrs[0].Rule, nverrs[0].Message})
		validityDone = true
	}
	if !validityDone {
		if ok, which, msg := repoValidateBoth(n.Printed, n.Vars); !ok {
			v.Findings = append(v.Findings, finding{clValidity, which + msgKind(msg), msg})
			validityDone = true
		}
	}

	// --- clause 1: meaning
	var resp1 any
	var errs1 []string
	if need&(needMeaning|needValidity) != 0 {
		resp1, errs1 = c.execute(ndoc, n.Vars)
	}
	if need&(needMeaning|needValidity) == 0 {
	} else if len(errs1) > 0 {
		kind := "normalized operation has execution errors"
		if strings.HasPrefix(errs1[0], "variables:") {
			kind = "normalized variables do not coerce"
			if !validityDone {
				v.Findings = append(v.Findings, finding{clValidity, kind, errs1[0]})
			}
		}
		v.Findings = append(v.Findings, finding{clMeaning, kind, strings.Join(errs1, "; ")})
	} else if d := diffKind(resp0, stripPlaceholder(resp1)); d != "" {
		v.Findings = append(v.Findings, finding{clMeaning, d,
			fmt.Sprintf("original response %s\nnormalized response %s", showJSON(resp0), showJSON(resp1))})
	}

	// --- clause 3: idempotence
	if need&needIdem == 0 {
		return v
	}
	var n2 normResult
	if p, site, text := catch(func() { n2 = normalize(n.Printed, n.Vars) }); p {
		v.Findings = append(v.Findings, finding{clPanic, "panic in " + site + " (second normalization)", fmt.Sprintf("panic: %s", text)})
	} else if n2.Stage != "" {
		v.Findings = append(v.Findings, finding{clIdem, "second normalization fails at " + n2.Stage + ": " + msgKind(n2.Err),
			fmt.Sprintf("normalizing the normalized operation again fails at %s: %s", n2.Stage, n2.Err)})
	} else {
		if n2.Printed != n.Printed {
			v.Findings = append(v.Findings, finding{clIdem, "printed operation changes",
				fmt.Sprintf("second normalization prints %s", n2.Printed)})
		}
		if !sameJSON(n2.Vars, n.Vars) {
			v.Findings = append(v.Findings, finding{clIdem, "variables change",
				fmt.Sprintf("second normalization yields variables %s", n2.Vars)})
		}
	}
	// --- clause 3 on the second seam: one Normalize call with the default options
	if c.singlePass {
		var s1, s2 normResult
		if p, site, text := catch(func() { s1 = normalizeOnce(v.Text, v.Vars) }); p {
			v.Findings = append(v.Findings, finding{clPanic, "panic in " + site + " (single Normalize call)", fmt.Sprintf("panic: %s", text)})
		} else if s1.Stage == "" {
			if p, site, text := catch(func() { s2 = normalizeOnce(s1.Printed, s1.Vars) }); p {
				v.Findings = append(v.Findings, finding{clPanic, "panic in " + site + " (second single Normalize call)", fmt.Sprintf("panic: %s", text)})
			} else if s2.Stage != "" {
				v.Findings = append(v.Findings, finding{clIdem, "single Normalize call: a second call fails: " + msgKind(s2.Err),
					fmt.Sprintf("one Request.Normalize(schema) call prints %s variables %s\na second call on that output fails: %s", s1.Printed, s1.Vars, s2.Err)})
			} else {
				if s2.Printed != s1.Printed {
					v.Findings = append(v.Findings, finding{clIdem, "single Normalize call: printed operation changes",
						fmt.Sprintf("one Request.Normalize(schema) call (default options) prints %s\na second call on that output prints %s", s1.Printed, s2.Printed)})
				}
				if !sameJSON(s2.Vars, s1.Vars) {
					v.Findings = append(v.Findings, finding{clIdem, "single Normalize call: variables change",
						fmt.Sprintf("one Request.Normalize(schema) call yields variables %s\na second call yields %s", s1.Vars, s2.Vars)})
				}
			}
		}
	}
	_ = resp0
	return v
}

// ---------------------------------------------------------------- one case

type caseResult struct {
	V        verdict
	Op       *Op
	Findings []finding
	CanonChk bool
	CanonWhy string // why a variant of a class was not judged for clause 4
}

// evalCase builds base+decs, judges clauses 1-3 and, where the variant belongs
// to a class, clause 4 against the class root.
func (c *checker) evalCase(base *Op, decs []Dec, need int) (r caseResult, ok bool) {
	op, ok := build(base, decs)
	if !ok {
		return r, false
	}
	r.Op = op
	r.V = c.judge(op, need)
	r.Findings = r.V.Findings
	if r.V.Status != "judged" || r.V.Norm.Stage != "" || r.V.Norm.Printed == "" {
		return r, true
	}
	if need&needCanon == 0 {
		return r, true
	}
	root, differs, rok := classRoot(base, decs)
	if !rok {
		r.CanonWhy = "non-class decoration applied after a class decoration"
		return r, true
	}
	if !differs || root == nil {
		return r, true
	}
	if sharedLiteral(root, decs) {
		r.CanonWhy = "one of several equal literals turned into a variable"
		return r, true
	}
	ri := c.rootInfo(root)
	if !ri.ok {
		r.CanonWhy = "class root not judged or not normalizable"
		return r, true
	}
	r.CanonChk = true
	ri.members++
	if ri.printed != r.V.Norm.Printed {
		kind := "printed form differs from the class root"
		if withoutPlaceholder(r.V.Norm.Printed) == withoutPlaceholder(ri.printed) {
			kind = kindLeftoverPlaceholder
		}
		r.Findings = append(r.Findings, finding{clCanon, kind,
			fmt.Sprintf("class root %s variables %s\n  normalizes to %s\nvariant normalizes to %s", ri.text, ri.vars, ri.printed, r.V.Norm.Printed)})
	}
	// self-check of the check: variant and root must mean the same
	if diffKind(ri.resp, r.V.Resp0) != "" {
		r.Findings = append(r.Findings, finding{clSelfCheck, "variant and class root differ in meaning",
			fmt.Sprintf("root %s -> %s\nvariant -> %s", ri.text, showJSON(ri.resp), showJSON(r.V.Resp0))})
	}
	return r, true
}

func (c *checker) rootInfo(root *Op) *rootInfo {
	k := root.key()
	if ri, ok := c.roots[k]; ok {
		return ri
	}
	ri := &rootInfo{text: root.Text(), vars: root.VarsJSON()}
	c.roots[k] = ri
	v := c.judge(root, needNone)
	if v.Status != "judged" || v.Norm.Stage != "" || v.Norm.Printed == "" {
		return ri
	}
	ri.ok, ri.printed, ri.resp, ri.members = true, v.Norm.Printed, v.Resp0, 1
	return ri
}

// sharedLiteral: the variables mapper's documented contract is that
// f(a: 1, b: 1) is the same as f(a: $a, b: $a) but different from f(a: $a, b: $b);
// turning ONE of two equal literals (same type, same value) into a variable is
// therefore not a member of the class and is not judged for clause 4.
func sharedLiteral(root *Op, decs []Dec) bool {
	for _, d := range decs {
		if d.canon() != "form" || (d.Kind != "arg" && d.Kind != "mix") {
			continue
		}
		n, set, _ := root.find(d.ID)
		if n == nil {
			return true
		}
		fd := types[set.Type].field(n.Name)
		var mine string
		for _, a := range n.Args {
			if a.N == d.Arg {
				mine = argType(fd, a.N) + "\x00" + a.V.String()
			}
		}
		count := 0
		for _, s := range root.sets() {
			td := types[s.Type]
			for _, m := range *s.Sel {
				if m.K != 'f' || td == nil {
					continue
				}
				mfd := td.field(m.Name)
				if mfd == nil {
					continue
				}
				for _, a := range m.Args {
					if !a.V.hasVar() && argType(mfd, a.N)+"\x00"+a.V.String() == mine {
						count++
					}
				}
			}
		}
		if count > 1 {
			return true
		}
	}
	return false
}

// ---------------------------------------------------------------- shrinking

func hasFinding(fs []finding, clause, kind string) *finding {
	for i := range fs {
		if fs[i].Clause == clause && fs[i].Kind == kind {
			return &fs[i]
		}
	}
	return nil
}

func (c *checker) stillFails(base *Op, decs []Dec, f finding) bool {
	saved := c.roots
	c.roots = map[string]*rootInfo{}
	defer func() { c.roots = saved }()
	r, ok := c.evalCase(base, decs, needFor(f.Clause))
	if !ok {
		return false
	}
	return hasFinding(r.Findings, f.Clause, f.Kind) != nil
}

func removeNode(op *Op, id int) bool {
	n, set, idx := op.find(id)
	if n == nil || len(*set.Sel) < 2 {
		return false
	}
	sel := *set.Sel
	*set.Sel = append(append([]*Node(nil), sel[:idx]...), sel[idx+1:]...)
	return true
}

// hoist replaces the parent of the node by the node's own siblings' parent
// level is not possible in general (types differ); instead we only remove.

func pruneVars(op *Op) {
	used := op.usedVars()
	var nv []VarDef
	for _, v := range op.Vars {
		if used[v.N] {
			nv = append(nv, v)
		} else {
			delete(op.JSON, v.N)
		}
	}
	op.Vars = nv
	if len(op.JSON) == 0 {
		op.JSON = nil
	}
}

func allIDs(op *Op) []int {
	var ids []int
	for _, s := range op.sets() {
		for _, n := range *s.Sel {
			ids = append(ids, n.ID)
		}
	}
	sort.Ints(ids)
	return ids
}

// simpler returns simpler replacements of decoration d (same node, same kind).
func simpler(d Dec, op *Op) []Dec {
	var out []Dec
	switch d.Kind {
	case "mix":
		for _, c := range decorations(op, true) {
			if c.Kind == "mix" && c.ID == d.ID {
				if c.Arg == d.Arg && c.Val == d.Val {
					break
				}
				c.Form = d.Form
				out = append(out, c)
			}
		}
	case "arg":
		for _, c := range decorations(op, true) {
			if c.Kind == "arg" && c.ID == d.ID && c.Form == d.Form {
				if c.Arg == d.Arg && c.Val == d.Val {
					break
				}
				out = append(out, c)
			}
		}
		for _, f := range []string{"lit", "var", "vardef"} {
			if f == d.Form {
				break
			}
			c := d
			c.Form = f
			out = append(out, c)
		}
	case "wrap":
		for _, f := range []string{"inl", "inlT", "frag"} {
			if f == d.Form {
				break
			}
			c := d
			c.Form = f
			out = append(out, c)
		}
		if d.ID != d.ID2 {
			c := d
			c.ID2 = d.ID
			out = append(out, c)
			c = d
			c.ID = d.ID2
			out = append(out, c)
		}
	case "skip", "include":
		for _, f := range []string{"litT", "litF", "varT", "varF"} {
			if f == d.Form {
				break
			}
			if strings.HasSuffix(f, "T") != strings.HasSuffix(d.Form, "T") {
				continue
			}
			c := d
			c.Form = f
			out = append(out, c)
		}
	case "selftwin":
		for _, f := range selfTwinForms {
			if f == d.Form {
				break
			}
			c := d
			c.Form = f
			out = append(out, c)
		}
	case "mdir":
		where, sib, atoms, ok := parseMdir(d.Form)
		if !ok {
			break
		}
		mk := func(w, sb string, at []string) Dec {
			c := d
			c.Form = w + "/" + sb + "/" + strings.Join(at, ",")
			return c
		}
		if sib != "none" {
			out = append(out, mk(where, "none", atoms))
		}
		if where != "on" {
			out = append(out, mk("on", sib, atoms))
		}
		if len(atoms) > 1 {
			for i := range atoms {
				at := append(append([]string(nil), atoms[:i]...), atoms[i+1:]...)
				out = append(out, mk(where, sib, at))
			}
		}
		for i, a := range atoms {
			for _, b := range mdirAtoms {
				if b == a {
					break
				}
				at := append([]string(nil), atoms...)
				at[i] = b
				out = append(out, mk(where, sib, at))
			}
		}
	case "neg":
		for v := 0; v <= d.Val; v++ {
			for _, f := range negForms {
				if v == d.Val && f == d.Form {
					break
				}
				if (f == "plain") != (d.Form == "plain") || (f == "inl") != (d.Form == "inl") {
					continue
				}
				out = append(out, Dec{Kind: "neg", Val: v, Form: f})
			}
		}
	case "twin":
		for v := 0; v <= d.Val; v++ {
			for _, f := range []string{"fwd", "rev"} {
				if v == d.Val && f == d.Form {
					break
				}
				out = append(out, Dec{Kind: "twin", Val: v, Form: f})
			}
		}
	case "tag":
		for _, where := range []string{"", "op"} {
			if where == d.Arg {
				break
			}
			c := d
			c.Arg = where
			if where == "op" && !strings.HasPrefix(d.Form, "shared") {
				c.ID = 0
			}
			out = append(out, c)
		}
		if strings.HasSuffix(d.Form, "Z") {
			c := d
			c.Form = strings.TrimSuffix(d.Form, "Z") + "A"
			out = append(out, c)
		}
	case "absfrag":
		for _, f := range absFragForms {
			if f == d.Form {
				break
			}
			c := d
			c.Form = f
			out = append(out, c)
		}
	case "dup":
		if d.Form == "end" {
			c := d
			c.Form = "adjacent"
			out = append(out, c)
		}
	}
	return out
}

// shrink minimises (base, decs) while the same (clause, failure kind) is reported.
//
// known(base, decs) is consulted after every successful reduction: when the
// reduced case is of a kind that was already shrunk, shrinking stops there
// (the caller reuses the earlier result).
func (c *checker) shrink(base *Op, decs []Dec, f finding, known func(*Op, []Dec) bool) (*Op, []Dec, bool) {
	base = base.clone()
	decs = append([]Dec(nil), decs...)
	for round := 0; round < 20; round++ {
		progress := false
		if round > 0 && known != nil && known(base, decs) {
			return base, decs, true
		}
		// 1. drop a decoration
		for i := len(decs) - 1; i >= 0; i-- {
			cand := append(append([]Dec(nil), decs[:i]...), decs[i+1:]...)
			if c.stillFails(base, cand, f) {
				decs = cand
				progress = true
			}
		}
		if progress && known != nil && known(base, decs) {
			return base, decs, true
		}
		// 2. simplify a decoration
		for i := range decs {
			prefix, ok := build(base, decs[:i])
			if !ok {
				continue
			}
			for _, s := range simpler(decs[i], prefix) {
				cand := append([]Dec(nil), decs...)
				cand[i] = s
				if c.stillFails(base, cand, f) {
					decs = cand
					progress = true
					break
				}
			}
		}
		// 3. remove a base selection
		for _, id := range allIDs(base) {
			cand := base.clone()
			if !removeNode(cand, id) {
				continue
			}
			pruneVars(cand)
			if c.stillFails(cand, decs, f) {
				base = cand
				progress = true
			}
		}
		// 3b. replace the whole operation by one root selection's subtree is not type-correct; skip
		// 4. remove a base argument
		for _, id := range allIDs(base) {
			n, _, _ := base.find(id)
			if n == nil {
				continue
			}
			for ai := len(n.Args) - 1; ai >= 0; ai-- {
				cand := base.clone()
				cn, _, _ := cand.find(id)
				cn.Args = append(append([]Arg(nil), cn.Args[:ai]...), cn.Args[ai+1:]...)
				pruneVars(cand)
				if c.stillFails(cand, decs, f) {
					base = cand
					progress = true
					n, _, _ = base.find(id)
				}
			}
		}
		if !progress {
			break
		}
	}
	return base, decs, false
}

// ---------------------------------------------------------------- classification

func nodeShape(n *Node) string {
	switch n.K {
	case 'i':
		return "inline fragment"
	case 's':
		return "fragment spread"
	}
	if len(n.Sel) > 0 {
		return "composite field"
	}
	if len(n.Args) > 0 {
		return "leaf field with arguments"
	}
	return "leaf field"
}

// describe renders one decoration as a structural class (no ids, no names of
// generated variables): kind, form, scope kind, argument type and value class.
func describe(op *Op, d Dec) (desc, feature string) {
	n, set, _ := op.find(d.ID)
	scope := ""
	if n != nil {
		scope = scopeKind(set.Type)
	}
	switch d.Kind {
	case "alias":
		return "alias on " + nodeShape(n), "alias"
	case "selfalias":
		return "self-alias on " + nodeShape(n), "remove_self_aliasing"
	case "dup":
		return fmt.Sprintf("duplicate (%s) of %s in %s scope", d.Form, nodeShape(n), scope), "field_deduplication / selection merging"
	case "wrap":
		return fmt.Sprintf("run wrapped as %s in %s scope", d.Form, scope), "fragment inlining"
	case "selftwin":
		how := "directly"
		switch {
		case strings.HasPrefix(d.Form, "inl"), strings.HasPrefix(d.Form, "frag"):
			how = "through a fragment"
		case strings.HasPrefix(d.Form, "split"):
			how = "with split selection"
		}
		return fmt.Sprintf("%s next to a self-aliased copy of itself (%s)", nodeShape(n), how), "remove_self_aliasing + selection merging"
	case "mdir":
		_, sib, atoms, _ := parseMdir(d.Form)
		var eff []string
		vars := false
		for _, a := range atoms {
			eff = append(eff, mdirEffect(a))
			if len(a) == 3 {
				vars = true
			}
		}
		desc := fmt.Sprintf("%d directives [%s] on one node", len(atoms), strings.Join(eff, ", "))
		if vars {
			desc += ", through variables"
		}
		switch sib {
		case "rem":
			desc += "; the first directive of the document removes another node"
		case "keep":
			desc += "; the first directive of the document keeps another node"
		}
		return desc, "directive_include_skip (several directives on one node)"
	case "neg":
		cl := "?"
		if d.Val < len(negMenu) {
			cl = negMenu[d.Val].Class
		}
		switch d.Form {
		case "inl":
			cl += " inside an inline fragment"
		case "frag", "nested":
			cl += " inside a named fragment"
		}
		return cl, "fragment inlining (copied values) / variables_extraction"
	case "twin":
		cl := "?"
		if d.Val < len(twinMenu) {
			cl = twinMenu[d.Val].Class
		}
		return cl, "variables_extraction (re-use of an extracted variable for an equal literal)"
	case "tag":
		where := "the operation"
		switch d.Arg {
		case "":
			where = "field"
			if n != nil && n.K != 'f' {
				where = nodeShape(n)
			}
		case "spread":
			where = "fragment spread"
		case "inl":
			where = "inline fragment"
		}
		what := "a literal"
		switch {
		case strings.HasPrefix(d.Form, "listshared"):
			what = "a variable inside a list argument that is also a field argument"
		case strings.HasPrefix(d.Form, "list"), strings.HasPrefix(d.Form, "obj"):
			what = "a variable used only inside a list / object argument"
		case strings.HasPrefix(d.Form, "shared"):
			what = "a variable that is also a field argument"
		case strings.HasPrefix(d.Form, "var"):
			what = "a variable used only there"
		}
		if strings.HasSuffix(d.Form, "A") {
			what += ", named like a canonical name"
		}
		return fmt.Sprintf("custom directive on %s with %s", where, what), "variables_mapper / directive arguments"
	case "absfrag":
		on := "interface"
		if strings.Contains(d.Form, "U") {
			on = "union"
		}
		kind := "inline fragment"
		if strings.HasPrefix(d.Form, "frag") {
			kind = "named fragment"
		}
		return fmt.Sprintf("%s on the %s with nested fragments on several implementers under a concrete parent type", kind, on), "inline_selections_from_inline_fragments / fragment inlining"
	case "typename":
		return "__typename added", "__typename"
	case "skip", "include":
		return fmt.Sprintf("@%s %s on %s", d.Kind, d.Form, nodeShape(n)), "directive_include_skip"
	case "unusedvar":
		return "unused variable", "variables_unused_deletion"
	case "opname":
		return "operation name", "operation name"
	case "rename":
		return "variables renamed and reordered", "variables_mapper"
	case "omit":
		return "optional argument omitted", "argument omitted"
	case "mix":
		t := ""
		if n != nil {
			if fd := types[set.Type].field(n.Name); fd != nil {
				t = argType(fd, d.Arg)
			}
		}
		cl := "?"
		if m := mixMenu[t]; d.Val < len(m) {
			cl = m[d.Val].Class
		}
		if d.Form == "lit" {
			return fmt.Sprintf("argument: %s (written without variables)", cl), "variables_extraction"
		}
		return fmt.Sprintf("argument: %s", cl), "variables_extraction of a literal that contains variables"
	case "arg":
		t := ""
		if n != nil {
			if fd := types[set.Type].field(n.Name); fd != nil {
				t = argType(fd, d.Arg)
			}
		}
		cl := "?"
		if m := valueMenu[t]; d.Val < len(m) {
			cl = m[d.Val].Class
		}
		feature = "variables_extraction"
		switch {
		case strings.Contains(cl, "single value") || strings.Contains(cl, "list coercion"):
			feature = "input_coercion_for_list"
		case strings.HasPrefix(d.Form, "vardef"):
			feature = "variables_default_value_extraction"
		case strings.HasPrefix(cl, "object") || strings.Contains(cl, "objects"):
			feature = "inject_input_default_values / variables_extraction"
		}
		return fmt.Sprintf("argument: %s as %s", cl, d.Form), feature
	}
	return d.Kind, d.Kind
}

func baseFeatures(op *Op) string {
	fs := map[string]bool{}
	for _, s := range op.sets() {
		if k := scopeKind(s.Type); k != "object" {
			fs[k+" scope"] = true
		}
		for _, n := range *s.Sel {
			if n.K == 'i' {
				fs["type-conditioned fragment"] = true
			}
			for _, a := range n.Args {
				if a.V.hasVar() {
					fs["variable argument"] = true
				} else {
					fs["literal argument"] = true
				}
			}
		}
	}
	return strings.Join(sortedKeys(fs), ", ")
}

// classify computes (site, class) of a shrunk failing case.
func classify(base *Op, decs []Dec, f finding) (site, class string) {
	var descs []string
	feats := map[string]bool{}
	op := base.clone()
	for _, d := range decs {
		// describe against the operation the decoration is applied to
		desc, feat := describe(op, d)
		descs = append(descs, desc)
		feats[feat] = true
		apply(op, d)
	}
	if len(decs) == 0 {
		feats["base operation"] = true
		descs = append(descs, "undecorated operation ("+baseFeatures(base)+")")
	}
	site = strings.Join(sortedKeys(feats), " + ") + " / " + f.Kind
	class = strings.Join(descs, "; ")
	if f.Kind == kindLeftoverPlaceholder {
		// the failure kind identifies the defect; how the emptied selection set got next to
		// other selections (which fragment form, duplicate, self-aliased twin) does not matter
		site = "directive_include_skip + flattening / " + f.Kind
		class = "selection set emptied by @skip/@include, then flattened or merged into a selection set that is not empty"
	}
	return
}
