package c03

import (
	"fmt"

	"github.com/wundergraph/graphql-go-tools/v2/pkg/astnormalization"
	"github.com/wundergraph/graphql-go-tools/v2/pkg/astparser"
	"github.com/wundergraph/graphql-go-tools/v2/pkg/astprinter"
	"github.com/wundergraph/graphql-go-tools/v2/pkg/operationreport"

	"verif/internal/vk"
)

// Third seam: ONE OperationNormalizer re-used for a history of operations (the
// documented hot-path usage). Normalization must be a function of (operation,
// variables): the result for the last operation of every history (all ordered pairs
// and triples... of a small pool - here: all ordered PAIRS) must equal the result of a
// fresh normalizer (printed operation and variables).

const clHistory = "a re-used OperationNormalizer normalizes an operation exactly like a fresh one (normalization is a function of operation and variables)"

type histOp struct {
	Q, Vars string
	Class   string
}

var histPool = []histOp{
	{`query($v: Int = 2){ g(r: $v) }`, `{}`, "defaulted nullable variable at a non-null position"},
	{`query($v: Int = 2){ g(r: $v) }`, `{"v":3}`, "defaulted nullable variable at a non-null position, value given"},
	{`query($v: Int = 2){ f(x: $v) }`, `{"v":null}`, "defaulted nullable variable at a nullable position, explicit null"},
	{`query($v: Int = 2){ f(x: $v) }`, `{}`, "defaulted nullable variable at a nullable position"},
	{`query($v: Int = 2, $w: Int = 3){ g(r: $v, d: $w) }`, `{}`, "two defaulted nullable variables at non-null positions"},
	{`query($w: Int = 3){ f(x: $w) }`, `{"w":null}`, "defaulted nullable variable at a nullable position, explicit null"},
	{`query($v: Int){ f(x: $v) }`, `{"v":1}`, "plain variable"},
	{`{ f(x: 1) g(r: 2) }`, ``, "literals to extract"},
	{`query($s: Boolean = true){ f @skip(if: $s) a { id } }`, `{}`, "defaulted variable in @skip"},
	{`query($s: Boolean = true){ a { id } f(x: 1) @include(if: $s) }`, `{"s":false}`, "defaulted variable in @include, value given"},
	{`query($v: [Int] = [1]){ f(l: $v) }`, `{}`, "defaulted list variable"},
	{`query($v: In = {r: 1}){ f(o: $v) }`, `{}`, "defaulted input object variable"},
	{`query($v: Int = 2){ ...F } fragment F on Query { g(r: $v) }`, `{}`, "defaulted nullable variable at a non-null position inside a named fragment"},
	{`query($v: Int = 2){ tn(i: $v) t(i: $v) }`, `{"v":1}`, "defaulted nullable variable at a non-null and a nullable position"},
	{`query($v: String = "a"){ f(s: $v) }`, `{"v":null}`, "defaulted nullable String variable at a nullable position, explicit null"},
	{`query($v: String = "a", $u: Int = 1){ f(s: $v) g(r: $u) }`, `{}`, "two defaulted variables, one at a non-null position"},
	{`query($v: Int = 2, $u: Int = 1){ f(x: $v) g(r: $u) }`, `{"v":null}`, "two defaulted variables, the nullable-position one explicit null"},
	{`{ a { ...F } } fragment F on A { id k(x: 1) }`, ``, "named fragment with a literal"},
}

func newHistNormalizer() *astnormalization.OperationNormalizer {
	return astnormalization.NewWithOpts(
		astnormalization.WithExtractVariables(),
		astnormalization.WithRemoveFragmentDefinitions(),
		astnormalization.WithInlineFragmentSpreads(),
		astnormalization.WithRemoveUnusedVariables(),
	)
}

func histNormalize(n *astnormalization.OperationNormalizer, h histOp) (printed, vars, errText string) {
	doc, rep := astparser.ParseGraphqlDocumentString(h.Q)
	if rep.HasErrors() {
		return "", "", "parse: " + rep.Error()
	}
	if h.Vars != "" {
		doc.Input.Variables = []byte(h.Vars)
	}
	var report operationreport.Report
	n.NormalizeOperation(&doc, repoSchema.Document(), &report)
	if report.HasErrors() {
		return "", "", report.Error()
	}
	out, err := astprinter.PrintString(&doc)
	if err != nil {
		return "", "", err.Error()
	}
	return out, string(doc.Input.Variables), ""
}

// evalHistory runs the history (indices into histPool) on one normalizer and compares
// the result of its last operation with a fresh normalizer.
func evalHistory(hist []int) (f *finding, fresh, reused [3]string) {
	last := histPool[hist[len(hist)-1]]
	var p, v, e string
	if pn, site, text := catch(func() { p, v, e = histNormalize(newHistNormalizer(), last) }); pn {
		return &finding{clPanic, "panic in " + site + " (fresh normalizer)", text}, fresh, reused
	}
	fresh = [3]string{p, v, e}
	n := newHistNormalizer()
	if pn, site, text := catch(func() {
		for _, i := range hist {
			p, v, e = histNormalize(n, histPool[i])
		}
	}); pn {
		return &finding{clPanic, "panic in " + site + " (re-used normalizer)", text}, fresh, reused
	}
	reused = [3]string{p, v, e}
	switch {
	case fresh[2] != reused[2]:
		return &finding{clHistory, "re-used OperationNormalizer / one of the two fails", fmt.Sprintf("fresh: %q re-used: %q", fresh[2], reused[2])}, fresh, reused
	case fresh[0] != reused[0]:
		return &finding{clHistory, "re-used OperationNormalizer / printed operation differs", ""}, fresh, reused
	case !sameJSON([]byte(fresh[1]), []byte(reused[1])):
		return &finding{clHistory, "re-used OperationNormalizer / variables differ", ""}, fresh, reused
	}
	return nil, fresh, reused
}

// runHistories enumerates all ordered pairs of the pool. For every last operation only
// the first failing predecessor is reported (the class is that of the last operation).
func runHistories(run *vk.Run) {
	run.Bound("history_pool", len(histPool))
	run.Bound("history_length", 2)
	for j := range histPool {
		if !run.Mine(int64(j)) {
			continue
		}
		reported := map[string]bool{}
		for i := range histPool {
			hist := []int{i, j}
			f, fresh, reused := evalHistory(hist)
			run.Eval(1)
			run.Count("histories_on_a_re-used_normalizer", 1)
			run.Outcome("history:" + reused[0] + reused[1] + reused[2])
			if f == nil || reported[f.Clause+f.Kind] {
				continue
			}
			reported[f.Clause+f.Kind] = true
			detail := fmt.Sprintf("history on ONE OperationNormalizer (extract variables, remove fragment definitions, inline spreads, remove unused variables):\n 1. %s | %s\n 2. %s | %s\nfresh normalizer for 2.: %s | %s %s\nre-used normalizer:     %s | %s %s\n%s",
				histPool[i].Q, histPool[i].Vars, histPool[j].Q, histPool[j].Vars, fresh[0], fresh[1], fresh[2], reused[0], reused[1], reused[2], f.Detail)
			run.Violate(vk.Violation{Clause: f.Clause, Site: f.Kind, Class: "last operation: " + histPool[j].Class, Detail: detail,
				Input: replayInput{Hist: hist, Text: histPool[j].Q, Vars: histPool[j].Vars}})
		}
	}
}
