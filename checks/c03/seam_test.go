package c03

import (
	"verif/internal/engineseam"

	"bytes"
	"encoding/json"
	"fmt"
	"reflect"
	"regexp"
	"runtime/debug"
	"strings"

	"github.com/wundergraph/graphql-go-tools/execution/graphql"
	"github.com/wundergraph/graphql-go-tools/v2/pkg/astnormalization"
	"github.com/wundergraph/graphql-go-tools/v2/pkg/astprinter"
	"github.com/wundergraph/graphql-go-tools/v2/pkg/operationreport"
	"github.com/wundergraph/graphql-go-tools/v2/pkg/variablesvalidation"
)

// The seam: exactly the sequence of ExecutionEngine.Execute
// (execution/engine/execution_engine.go), driven through the same exported
// API (graphql.Request), up to and including the variables mapper.

var repoSchema *graphql.Schema

func loadRepoSchema() error {
	s, err := graphql.NewSchemaFromString(sdl)
	if err != nil {
		return err
	}
	repoSchema = s
	return nil
}

type normResult struct {
	Stage   string // "" = success, else the stage that failed
	Err     string
	Printed string // astprinter output of the normalized operation
	RawVars []byte // request variables after normalization (keyed by the ORIGINAL names)
	Vars    []byte // the same, keyed by the names the variables mapper gave (what the resolver sees through RemapVariables)
	Remap   map[string]string
}

func errText(err error, errs fmt.Stringer) string {
	s := ""
	if err != nil {
		s = err.Error()
	}
	if errs != nil {
		if t := errs.String(); t != "" {
			s += " " + t
		}
	}
	return strings.TrimSpace(s)
}

type errsStringer struct{ e interface{ Error() string } }

func (e errsStringer) String() string {
	if e.e == nil {
		return ""
	}
	return e.e.Error()
}

func normalize(query string, vars []byte) (res normResult) { return normalizeOp(query, vars, "") }

// normalizeOp: the same with an operation name (documents with several operations).
func normalizeOp(query string, vars []byte, opName string) (res normResult) {
	req := &graphql.Request{Query: query, OperationName: opName}
	if len(vars) > 0 {
		req.Variables = append([]byte(nil), vars...)
	}
	// 1. normalize without variable extraction (as the engine does)
	r1, err := req.Normalize(repoSchema, seamFirst...)
	if err != nil || !r1.Successful {
		return normResult{Stage: "Normalize (stage 1)", Err: errText(err, errsStringer{r1.Errors})}
	}
	// 2. validate
	vr, err := req.ValidateForSchema(repoSchema)
	if err != nil || !vr.Valid {
		return normResult{Stage: "ValidateForSchema", Err: errText(err, errsStringer{vr.Errors})}
	}
	// 3. extract variables
	r2, err := req.Normalize(repoSchema, seamSecond...)
	if err != nil || !r2.Successful {
		return normResult{Stage: "Normalize (extract variables)", Err: errText(err, errsStringer{r2.Errors})}
	}
	// 4. canonical variable names
	var rep operationreport.Report
	remap := astnormalization.NewVariablesMapper().NormalizeOperation(req.Document(), repoSchema.Document(), &rep)
	if rep.HasErrors() {
		return normResult{Stage: "VariablesMapper", Err: rep.Error()}
	}
	printed, err := astprinter.PrintString(req.Document())
	if err != nil {
		return normResult{Stage: "astprinter", Err: err.Error()}
	}
	res = normResult{Printed: printed, RawVars: append([]byte(nil), req.Variables...), Remap: remap}
	// 5. the engine validates the variables against the remapped operation
	if len(req.Variables) > 0 && req.Variables[0] == '{' {
		vv := variablesvalidation.NewVariablesValidator(variablesvalidation.VariablesValidatorOptions{})
		if err := vv.ValidateWithRemap(req.Document(), repoSchema.Document(), req.Variables, remap); err != nil {
			res.Stage = "engine variables validation"
			res.Err = err.Error()
			return res
		}
	}
	v, err := remapVars(res.RawVars, remap)
	if err != nil {
		res.Stage = "variables remap"
		res.Err = err.Error()
		return res
	}
	res.Vars = v
	return res
}

// normalizeOnce is the second seam: ONE call of graphql.Request.Normalize with the
// package's default option set (extract variables, remove fragment definitions,
// remove unused variables, inline fragment spreads) - what a caller that does not
// go through ExecutionEngine.Execute gets. The engine's sequence runs the operation
// walkers twice and thereby repairs whatever a single pass leaves undone; this seam
// does not. Only idempotence is judged on it.
func normalizeOnce(query string, vars []byte) (res normResult) {
	req := &graphql.Request{Query: query}
	if len(vars) > 0 {
		req.Variables = append([]byte(nil), vars...)
	}
	r, err := req.Normalize(repoSchema)
	if err != nil || !r.Successful {
		return normResult{Stage: "Normalize (single call)", Err: errText(err, errsStringer{r.Errors})}
	}
	printed, err := astprinter.PrintString(req.Document())
	if err != nil {
		return normResult{Stage: "astprinter", Err: err.Error()}
	}
	return normResult{Printed: printed, RawVars: append([]byte(nil), req.Variables...), Vars: append([]byte(nil), req.Variables...)}
}

// remapVars renames the keys of the variables object the way the variables
// mapper renamed the variables of the operation (mapping: new name -> old name).
func remapVars(raw []byte, remap map[string]string) ([]byte, error) {
	if len(bytes.TrimSpace(raw)) == 0 {
		return nil, nil
	}
	var m map[string]json.RawMessage
	if err := json.Unmarshal(raw, &m); err != nil {
		return nil, fmt.Errorf("variables are not a JSON object: %v (%s)", err, raw)
	}
	out := map[string]json.RawMessage{}
	consumed := map[string]bool{}
	for _, nn := range sortedKeys(remap) {
		old := remap[nn]
		if v, ok := m[old]; ok {
			out[nn] = v
			consumed[old] = true
		}
	}
	for _, k := range sortedKeys(m) {
		if consumed[k] {
			continue
		}
		if _, clash := out[k]; clash {
			return nil, fmt.Errorf("variable %q was not renamed by the mapper but its name was given to another variable", k)
		}
		out[k] = m[k]
	}
	if len(out) == 0 {
		return []byte("{}"), nil
	}
	return json.Marshal(out)
}

// repoValidate runs the repository's operation validator on a pristine parse.
func repoValidate(query string) (ok bool, msg string) {
	req := &graphql.Request{Query: query}
	vr, err := req.ValidateForSchema(repoSchema)
	if err != nil {
		return false, err.Error()
	}
	if !vr.Valid {
		if vr.Errors == nil {
			return false, "invalid"
		}
		return false, vr.Errors.Error()
	}
	return true, ""
}

// repoValidateBoth runs the repository's operation validator and then (as the
// engine does: only when a variables object is present) its variables validator
// on a pristine parse of (query, vars).
func repoValidateBoth(query string, vars []byte) (ok bool, which, msg string) {
	req := &graphql.Request{Query: query}
	vr, err := req.ValidateForSchema(repoSchema)
	if err != nil {
		return false, "repository validator rejects: ", err.Error()
	}
	if !vr.Valid {
		m := ""
		if vr.Errors != nil {
			m = vr.Errors.Error()
		}
		return false, "repository validator rejects: ", m
	}
	if len(vars) == 0 || vars[0] != '{' {
		return true, "", ""
	}
	vv := variablesvalidation.NewVariablesValidator(variablesvalidation.VariablesValidatorOptions{})
	if err := vv.Validate(req.Document(), repoSchema.Document(), vars); err != nil {
		return false, "repository variables validator rejects: ", err.Error()
	}
	return true, "", ""
}

func decodeVars(b []byte) (map[string]any, error) {
	if len(bytes.TrimSpace(b)) == 0 {
		return nil, nil
	}
	d := json.NewDecoder(bytes.NewReader(b))
	d.UseNumber()
	var m map[string]any
	if err := d.Decode(&m); err != nil {
		return nil, err
	}
	return m, nil
}

func sameJSON(a, b []byte) bool {
	ma, ea := decodeVars(a)
	mb, eb := decodeVars(b)
	if ea != nil || eb != nil {
		return false
	}
	if len(ma) == 0 && len(mb) == 0 {
		return true
	}
	return reflect.DeepEqual(ma, mb)
}

var (
	reQuoted = regexp.MustCompile(`"[^"]*"|'[^']*'|\$[A-Za-z_0-9]+`)
	reNum    = regexp.MustCompile(`[0-9]+`)
	// "variable: m1 defined on operation: Q but never used" -> names after a colon are input text
	reColonName = regexp.MustCompile(`: ?[A-Za-z_][A-Za-z0-9_]*`)
)

// msgKind strips names, numbers and positions from an error message.
func msgKind(s string) string {
	if i := strings.Index(s, ", locations:"); i >= 0 {
		s = s[:i]
	}
	s = reQuoted.ReplaceAllString(s, "_")
	s = reColonName.ReplaceAllString(s, ":")
	s = reNum.ReplaceAllString(s, "N")
	s = strings.Join(strings.Fields(s), " ")
	if len(s) > 90 {
		s = s[:90]
	}
	return s
}

var reFrame = regexp.MustCompile(`(?m)^(github\.com/wundergraph/graphql-go-tools/[^\s(]+(?:\([^)]*\))?[^\s(]*)\(`)

func panicSite(stack string) string {
	if m := reFrame.FindStringSubmatch(stack); m != nil {
		return m[1]
	}
	return "unknown frame"
}

func catch(f func()) (panicked bool, site, text string) {
	defer func() {
		if r := recover(); r != nil {
			st := string(debug.Stack())
			panicked = true
			site = panicSite(st)
			text = fmt.Sprint(r)
		}
	}()
	f()
	return
}

// The engine's admission sequence is read from the tree under test (see
// internal/engineseam) instead of being copied here.
var seam, seamFirst, seamSecond = engineseam.Must()
