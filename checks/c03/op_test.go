package c03

import (
	"encoding/json"
	"sort"
	"strconv"
	"strings"
)

// ---------------------------------------------------------------- values

// Val is a GraphQL input value (literal, possibly containing variables).
type Val struct {
	K byte   `json:"k"`           // 'i' int 's' string 'b' bool 'n' null 'e' enum 'l' list 'o' object 'v' variable
	S string `json:"s,omitempty"` // raw text (i, s, b, e) or variable name (v)
	L []Val  `json:"l,omitempty"` // list items
	O []OF   `json:"o,omitempty"` // object fields in written order
}

type OF struct {
	N string `json:"n"`
	V Val    `json:"v"`
}

func vInt(i int) Val         { return Val{K: 'i', S: strconv.Itoa(i)} }
func vStr(s string) Val      { return Val{K: 's', S: s} }
func vBool(b bool) Val       { return Val{K: 'b', S: strconv.FormatBool(b)} }
func vNull() Val             { return Val{K: 'n'} }
func vEnum(s string) Val     { return Val{K: 'e', S: s} }
func vVar(s string) Val      { return Val{K: 'v', S: s} }
func vList(items ...Val) Val { return Val{K: 'l', L: items} }
func vObj(kv ...any) Val {
	v := Val{K: 'o'}
	for i := 0; i+1 < len(kv); i += 2 {
		v.O = append(v.O, OF{N: kv[i].(string), V: kv[i+1].(Val)})
	}
	return v
}

func (v Val) print(b *strings.Builder) {
	switch v.K {
	case 'i', 'b', 'e':
		b.WriteString(v.S)
	case 's':
		b.WriteString(strconv.Quote(v.S))
	case 'n':
		b.WriteString("null")
	case 'v':
		b.WriteString("$" + v.S)
	case 'l':
		b.WriteByte('[')
		for i, e := range v.L {
			if i > 0 {
				b.WriteString(", ")
			}
			e.print(b)
		}
		b.WriteByte(']')
	case 'o':
		b.WriteByte('{')
		for i, f := range v.O {
			if i > 0 {
				b.WriteString(", ")
			}
			b.WriteString(f.N + ": ")
			f.V.print(b)
		}
		b.WriteByte('}')
	}
}

func (v Val) String() string { var b strings.Builder; v.print(&b); return b.String() }

// toJSON is the JSON (variables) form of a variable-free value.
func (v Val) toJSON() any {
	switch v.K {
	case 'i':
		n, _ := strconv.Atoi(v.S)
		return n
	case 's', 'e':
		return v.S
	case 'b':
		return v.S == "true"
	case 'n':
		return nil
	case 'l':
		out := make([]any, len(v.L))
		for i, e := range v.L {
			out[i] = e.toJSON()
		}
		return out
	case 'o':
		out := map[string]any{}
		for _, f := range v.O {
			out[f.N] = f.V.toJSON()
		}
		return out
	}
	return nil
}

func (v Val) hasVar() bool {
	switch v.K {
	case 'v':
		return true
	case 'l':
		for _, e := range v.L {
			if e.hasVar() {
				return true
			}
		}
	case 'o':
		for _, f := range v.O {
			if f.V.hasVar() {
				return true
			}
		}
	}
	return false
}

func (v Val) varNames(out map[string]bool) {
	switch v.K {
	case 'v':
		out[v.S] = true
	case 'l':
		for _, e := range v.L {
			e.varNames(out)
		}
	case 'o':
		for _, f := range v.O {
			f.V.varNames(out)
		}
	}
}

func (v Val) renameVars(m map[string]string) Val {
	switch v.K {
	case 'v':
		if n, ok := m[v.S]; ok {
			return vVar(n)
		}
	case 'l':
		out := Val{K: 'l', L: make([]Val, len(v.L))}
		for i, e := range v.L {
			out.L[i] = e.renameVars(m)
		}
		return out
	case 'o':
		out := Val{K: 'o', O: make([]OF, len(v.O))}
		for i, f := range v.O {
			out.O[i] = OF{N: f.N, V: f.V.renameVars(m)}
		}
		return out
	}
	return v
}

// ---------------------------------------------------------------- operations

type Arg struct {
	N string `json:"n"`
	V Val    `json:"v"`
}

type Dir struct {
	N  string `json:"n"`           // skip | include | tag
	A  string `json:"a,omitempty"` // argument name ("" = if)
	If Val    `json:"if"`
}

func (d Dir) print(b *strings.Builder) {
	a := d.A
	if a == "" {
		a = "if"
	}
	b.WriteString(" @" + d.N + "(" + a + ": ")
	d.If.print(b)
	b.WriteByte(')')
}

// Node is one selection.
type Node struct {
	ID      int     `json:"id"`
	K       byte    `json:"k"` // 'f' field 'i' inline fragment 's' fragment spread
	Alias   string  `json:"alias,omitempty"`
	Name    string  `json:"name,omitempty"` // field name | spread name
	Args    []Arg   `json:"args,omitempty"`
	Dirs    []Dir   `json:"dirs,omitempty"`
	HasCond bool    `json:"hascond,omitempty"`
	Cond    string  `json:"cond,omitempty"`
	Sel     []*Node `json:"sel,omitempty"`
}

type VarDef struct {
	N   string `json:"n"`
	T   string `json:"t"`
	Def *Val   `json:"def,omitempty"`
}

type Frag struct {
	N    string  `json:"n"`
	Cond string  `json:"cond"`
	Sel  []*Node `json:"sel"`
}

// Op is one operation document plus its variable values.
type Op struct {
	Name  string         `json:"name,omitempty"`
	Vars  []VarDef       `json:"vars,omitempty"`
	Dirs  []Dir          `json:"dirs,omitempty"` // directives on the operation itself
	Sel   []*Node        `json:"sel"`
	Frags []Frag         `json:"frags,omitempty"`
	JSON  map[string]any `json:"json,omitempty"` // variable values; absent key = not provided
	Next  int            `json:"next"`           // next free node id
}

func (n *Node) clone() *Node {
	c := *n
	c.Args = append([]Arg(nil), n.Args...)
	c.Dirs = append([]Dir(nil), n.Dirs...)
	c.Sel = cloneSel(n.Sel)
	return &c
}

func cloneSel(s []*Node) []*Node {
	if s == nil {
		return nil
	}
	out := make([]*Node, len(s))
	for i, n := range s {
		out[i] = n.clone()
	}
	return out
}

func (o *Op) clone() *Op {
	c := &Op{Name: o.Name, Next: o.Next}
	c.Vars = append([]VarDef(nil), o.Vars...)
	c.Dirs = append([]Dir(nil), o.Dirs...)
	c.Sel = cloneSel(o.Sel)
	for _, f := range o.Frags {
		c.Frags = append(c.Frags, Frag{N: f.N, Cond: f.Cond, Sel: cloneSel(f.Sel)})
	}
	if o.JSON != nil {
		c.JSON = make(map[string]any, len(o.JSON))
		for k, v := range o.JSON {
			c.JSON[k] = v
		}
	}
	return c
}

func (o *Op) newID() int { id := o.Next; o.Next++; return id }

func printSel(b *strings.Builder, sel []*Node) {
	b.WriteString("{")
	for _, n := range sel {
		b.WriteByte(' ')
		switch n.K {
		case 'f':
			if n.Alias != "" {
				b.WriteString(n.Alias + ": ")
			}
			b.WriteString(n.Name)
			if len(n.Args) > 0 {
				b.WriteByte('(')
				for i, a := range n.Args {
					if i > 0 {
						b.WriteString(", ")
					}
					b.WriteString(a.N + ": ")
					a.V.print(b)
				}
				b.WriteByte(')')
			}
		case 'i':
			b.WriteString("...")
			if n.HasCond {
				b.WriteString(" on " + n.Cond)
			}
		case 's':
			b.WriteString("..." + n.Name)
		}
		for _, d := range n.Dirs {
			d.print(b)
		}
		if n.K != 's' && (n.K == 'i' || len(n.Sel) > 0) {
			b.WriteByte(' ')
			printSel(b, n.Sel)
		}
	}
	b.WriteString(" }")
}

// Text prints the document.
func (o *Op) Text() string {
	var b strings.Builder
	if o.Name != "" || len(o.Vars) > 0 || len(o.Dirs) > 0 {
		b.WriteString("query")
		if o.Name != "" {
			b.WriteString(" " + o.Name)
		}
		if len(o.Vars) > 0 {
			b.WriteByte('(')
			for i, v := range o.Vars {
				if i > 0 {
					b.WriteString(", ")
				}
				b.WriteString("$" + v.N + ": " + v.T)
				if v.Def != nil {
					b.WriteString(" = ")
					v.Def.print(&b)
				}
			}
			b.WriteByte(')')
		}
		for _, d := range o.Dirs {
			d.print(&b)
		}
		b.WriteByte(' ')
	}
	printSel(&b, o.Sel)
	for _, f := range o.Frags {
		b.WriteString(" fragment " + f.N + " on " + f.Cond + " ")
		printSel(&b, f.Sel)
	}
	return b.String()
}

// VarsJSON renders the variables object (nil when there are no variables at all).
func (o *Op) VarsJSON() []byte {
	if len(o.JSON) == 0 && len(o.Vars) == 0 {
		return nil
	}
	m := o.JSON
	if m == nil {
		m = map[string]any{}
	}
	b, _ := json.Marshal(m)
	return b
}

func (o *Op) key() string { return o.Text() + "\x00" + string(o.VarsJSON()) }

// selSet identifies one selection set: the slice, the type it selects on and
// the node owning it (nil for the operation root or a fragment definition).
type selSet struct {
	Sel   *[]*Node
	Type  string
	Owner *Node
	Frag  int // index into Frags, or -1
}

// sets lists every selection set of the document in pre-order.
func (o *Op) sets() []selSet {
	var out []selSet
	var walk func(sel *[]*Node, typ string, owner *Node, frag int)
	walk = func(sel *[]*Node, typ string, owner *Node, frag int) {
		out = append(out, selSet{Sel: sel, Type: typ, Owner: owner, Frag: frag})
		for _, n := range *sel {
			switch n.K {
			case 'f':
				if len(n.Sel) > 0 {
					td := types[typ]
					if td == nil {
						continue
					}
					fd := td.field(n.Name)
					if fd == nil {
						continue
					}
					walk(&n.Sel, fd.Ret, n, frag)
				}
			case 'i':
				t := typ
				if n.HasCond {
					t = n.Cond
				}
				walk(&n.Sel, t, n, frag)
			}
		}
	}
	walk(&o.Sel, "Query", nil, -1)
	for i := range o.Frags {
		walk(&o.Frags[i].Sel, o.Frags[i].Cond, nil, i)
	}
	return out
}

// find returns the node with the id, the set containing it and its index.
func (o *Op) find(id int) (n *Node, set selSet, idx int) {
	for _, s := range o.sets() {
		for i, c := range *s.Sel {
			if c.ID == id {
				return c, s, i
			}
		}
	}
	return nil, selSet{}, -1
}

func (o *Op) nodeCount() int {
	c := 0
	for _, s := range o.sets() {
		c += len(*s.Sel)
	}
	return c
}

func (o *Op) hasVar(name string) bool {
	for _, v := range o.Vars {
		if v.N == name {
			return true
		}
	}
	return false
}

func (o *Op) addVar(v VarDef, provided bool, val any) {
	if !o.hasVar(v.N) {
		o.Vars = append(o.Vars, v)
	}
	if provided {
		if o.JSON == nil {
			o.JSON = map[string]any{}
		}
		o.JSON[v.N] = val
	}
}

// usedVars returns the variables referenced anywhere in the document.
func (o *Op) usedVars() map[string]bool {
	used := map[string]bool{}
	for _, d := range o.Dirs {
		d.If.varNames(used)
	}
	for _, s := range o.sets() {
		for _, n := range *s.Sel {
			for _, a := range n.Args {
				a.V.varNames(used)
			}
			for _, d := range n.Dirs {
				d.If.varNames(used)
			}
		}
	}
	return used
}

func sortedKeys[V any](m map[string]V) []string {
	out := make([]string, 0, len(m))
	for k := range m {
		out = append(out, k)
	}
	sort.Strings(out)
	return out
}
