package c20

// A targeted family of base operations that the (depth, width, size) bounds of
// the quick tier do not reach: abstract-typed fields selected WITHOUT any
// inline fragment - interface fields only, __typename only, both - at every
// position where the data source plans them differently:
//
//   - as root fields (planned by the visitor),
//   - nested (through plain object fields and member fragments, up to
//     deepLevels levels) inside the answer of EVERY field resolver and
//     @requires field with a composite result (planned by buildFieldMessage).
//
// The operations are exempt from the depth bound (a chain root -> ... ->
// resolver -> object -> abstract -> leaf is 4-6 levels deep) but tiny; they go
// through the same reformulations as every base operation, including
// "members" (the fields moved into fragments on every possible type).

import (
	"sort"
	"strings"

	gast "github.com/vektah/gqlparser/v2/ast"
)

const deepLevels = 2

func (g *gen) plainScalarFields(def *gast.Definition, max int) []*gast.FieldDefinition {
	var out []*gast.FieldDefinition
	for _, f := range def.Fields {
		if strings.HasPrefix(f.Name, "__") || len(f.Arguments) > 0 || g.fieldKind(def, f) != "plain" || f.Type.Elem != nil {
			continue
		}
		if t := g.e.schema.Types[f.Type.Name()]; t != nil && (t.Kind == gast.Scalar || t.Kind == gast.Enum) {
			out = append(out, f)
			if len(out) == max {
				break
			}
		}
	}
	return out
}

// fragmentFreeLeaves: the selections of an abstract type that use no fragment.
func (g *gen) fragmentFreeLeaves(def *gast.Definition) [][]*Sel {
	tn := func() *Sel { return &Sel{Kind: kField, Name: "__typename"} }
	out := [][]*Sel{{tn()}}
	if def.Kind == gast.Interface {
		fs := g.plainScalarFields(def, 2)
		if len(fs) > 0 {
			out = append(out, []*Sel{g.fieldNode(def, fs[0])})
			out = append(out, []*Sel{g.fieldNode(def, fs[0]), tn()})
			out = append(out, []*Sel{tn(), g.fieldNode(def, fs[0])})
		}
		if len(fs) > 1 {
			out = append(out, []*Sel{g.fieldNode(def, fs[0]), g.fieldNode(def, fs[1])})
		}
	}
	return out
}

func (g *gen) possibleSorted(def *gast.Definition) []*gast.Definition {
	poss := append([]*gast.Definition(nil), g.e.schema.GetPossibleTypes(def)...)
	sort.Slice(poss, func(i, j int) bool { return poss[i].Name < poss[j].Name })
	return poss
}

// abstractBelow: every selection on typeName that leads through plain
// composite fields (and member fragments) to a fragment-free selection of an
// abstract-typed plain field, at most levels object levels down.
func (g *gen) abstractBelow(typeName string, levels int) [][]*Sel {
	def := g.e.schema.Types[typeName]
	if def == nil {
		return nil
	}
	var out [][]*Sel
	if def.Kind == gast.Interface || def.Kind == gast.Union {
		for _, m := range g.possibleSorted(def) {
			for _, sub := range g.abstractBelow(m.Name, levels) {
				out = append(out, []*Sel{{Kind: kInline, TypeCond: m.Name, Sel: sub}})
			}
		}
		return out
	}
	for _, f := range def.Fields {
		if strings.HasPrefix(f.Name, "__") || g.fieldKind(def, f) != "plain" {
			continue
		}
		ft := g.e.schema.Types[f.Type.Name()]
		if !isComposite(ft) {
			continue
		}
		if ft.Kind == gast.Interface || ft.Kind == gast.Union {
			for _, leaf := range g.fragmentFreeLeaves(ft) {
				n := g.fieldNode(def, f)
				n.Sel = leaf
				out = append(out, []*Sel{n})
			}
			continue
		}
		if levels > 0 {
			for _, sub := range g.abstractBelow(ft.Name, levels-1) {
				n := g.fieldNode(def, f)
				n.Sel = sub
				out = append(out, []*Sel{n})
			}
		}
	}
	return out
}

type pathStep struct {
	parent string
	field  *gast.FieldDefinition // nil: fragment on frag
	frag   string
}

// pathTo: a shortest chain of selections from a menu root field to an object of type target.
func (g *gen) pathTo(target string) []pathStep {
	type node struct {
		typ  string
		path []pathStep
	}
	q := g.e.schema.Types["Query"]
	var queue []node
	seen := map[string]bool{}
	for _, name := range append(append([]string{}, queryMenu...), "_entities") {
		f := q.Fields.ForName(name)
		if f == nil {
			continue
		}
		queue = append(queue, node{f.Type.Name(), []pathStep{{parent: "Query", field: f}}})
	}
	for len(queue) > 0 {
		n := queue[0]
		queue = queue[1:]
		if n.typ == target {
			return n.path
		}
		if seen[n.typ] {
			continue
		}
		seen[n.typ] = true
		def := g.e.schema.Types[n.typ]
		if def == nil {
			continue
		}
		ext := func(s pathStep, t string) {
			queue = append(queue, node{t, append(append([]pathStep{}, n.path...), s)})
		}
		if def.Kind == gast.Interface || def.Kind == gast.Union {
			// only the entity union is crossed: a resolver below a member fragment of an ordinary union is a known defect of its own
			if n.typ == "_Entity" {
				for _, m := range g.possibleSorted(def) {
					ext(pathStep{parent: n.typ, frag: m.Name}, m.Name)
				}
			}
			continue
		}
		for _, f := range def.Fields {
			if strings.HasPrefix(f.Name, "__") {
				continue
			}
			if k := g.fieldKind(def, f); k != "plain" {
				continue
			}
			if ft := g.e.schema.Types[f.Type.Name()]; isComposite(ft) {
				ext(pathStep{parent: n.typ, field: f}, ft.Name)
			}
		}
	}
	return nil
}

func (g *gen) wrapPath(path []pathStep, inner []*Sel) []*Sel {
	cur := inner
	for i := len(path) - 1; i >= 0; i-- {
		s := path[i]
		if s.field == nil {
			cur = []*Sel{{Kind: kInline, TypeCond: s.frag, Sel: cur}}
			continue
		}
		n := g.fieldNode(g.e.schema.Types[s.parent], s.field)
		n.Sel = cur
		cur = []*Sel{n}
	}
	return cur
}

// deepAbstractOps: the constructors of the family, in a fixed order.
func (g *gen) deepAbstractOps() []func() *Op {
	var out []func() *Op
	fed := g.fedConfig()
	add := func(opType string, root []*Sel) {
		out = append(out, func() *Op {
			if len(root) == 1 && root[0].Name == "_entities" {
				return g.finalize("query", root, fed, map[string]any{"representations": representations(entityTypes(root))})
			}
			return g.finalize(opType, root, nil, nil)
		})
	}
	type lateOp struct {
		opType string
		root   []*Sel
	}
	var late []lateOp // appended after the abstract family, whose indices (shards) stay what they were
	// 1. abstract root fields
	for _, rt := range []struct {
		typ, op string
		menu    []string
	}{{"Query", "query", queryMenu}, {"Mutation", "mutation", mutationMenu}} {
		def := g.e.schema.Types[rt.typ]
		for _, name := range rt.menu {
			f := def.Fields.ForName(name)
			ft := g.e.schema.Types[f.Type.Name()]
			if ft == nil || (ft.Kind != gast.Interface && ft.Kind != gast.Union) {
				continue
			}
			for _, leaf := range g.fragmentFreeLeaves(ft) {
				n := g.fieldNode(def, f)
				n.Sel = leaf
				add(rt.op, []*Sel{n})
			}
		}
	}
	// 2. below the answer of every field resolver / @requires field with a composite result
	var typeNames []string
	for name := range g.e.schema.Types {
		typeNames = append(typeNames, name)
	}
	sort.Strings(typeNames)
	for _, tn := range typeNames {
		def := g.e.schema.Types[tn]
		if def.Kind != gast.Object || strings.HasPrefix(tn, "__") || tn == "Query" || tn == "Mutation" {
			continue
		}
		var path []pathStep
		var entityPath []pathStep
		if tn == "Product" || tn == "Storage" || tn == "Warehouse" {
			entityPath = []pathStep{{parent: "Query", field: g.e.schema.Types["Query"].Fields.ForName("_entities")}, {parent: "_Entity", frag: tn}}
		}
		for _, f := range def.Fields {
			k := g.fieldKind(def, f)
			if k != "resolver" && k != "requires" {
				continue
			}
			ft := g.e.schema.Types[f.Type.Name()]
			if !isComposite(ft) {
				continue
			}
			// 3. a plain composite field BEFORE a nested field resolver inside the selection of this resolver
			// (the other order is the reorder reformulation of that selection)
			if k == "resolver" && ft.Kind == gast.Object {
				if path == nil {
					path = g.pathTo(tn)
				}
				for _, sub := range g.plainThenResolver(ft) {
					if entityPath != nil {
						n := g.fieldNode(def, f)
						n.Sel = cloneSels(sub)
						late = append(late, lateOp{"query", g.wrapPath(entityPath, []*Sel{n})})
					}
					if path != nil && !(entityPath != nil && len(path) == 2 && path[1].field == nil) {
						n := g.fieldNode(def, f)
						n.Sel = cloneSels(sub)
						late = append(late, lateOp{"query", g.wrapPath(path, []*Sel{n})})
					}
				}
			}
			subs := g.abstractBelow(ft.Name, deepLevels)
			if ft.Kind == gast.Interface || ft.Kind == gast.Union {
				// the abstract answer of the resolver / @requires field itself, without a fragment
				subs = append(g.fragmentFreeLeaves(ft), subs...)
			}
			if len(subs) == 0 {
				continue
			}
			if path == nil {
				if path = g.pathTo(tn); path == nil {
					break
				}
			}
			for _, sub := range subs {
				// @requires fields only directly below an entity fragment; resolvers of entity types there too
				if entityPath != nil {
					n := g.fieldNode(def, f)
					n.Sel = sub
					add("query", g.wrapPath(entityPath, []*Sel{n}))
				}
				if k == "resolver" && !(entityPath != nil && len(path) == 2 && path[1].field == nil) {
					n := g.fieldNode(def, f)
					n.Sel = sub
					add("query", g.wrapPath(path, []*Sel{n}))
				}
			}
		}
	}
	for _, l := range late {
		add(l.opType, l.root)
	}
	return out
}

// plainThenResolver: the selections [p {leaf}, r2] of an object type: p a plain
// object / list-of-object field, r2 a field resolver of the same type (the
// first one that returns a scalar and the first one that returns an object).
func (g *gen) plainThenResolver(def *gast.Definition) [][]*Sel {
	leafOf := func(d *gast.Definition) *Sel {
		fs := g.plainScalarFields(d, 1)
		if len(fs) == 0 {
			return nil
		}
		return g.fieldNode(d, fs[0])
	}
	var plains, resolvers []*Sel
	haveScalar, haveObject := false, false
	for _, f := range def.Fields {
		if strings.HasPrefix(f.Name, "__") {
			continue
		}
		ft := g.e.schema.Types[f.Type.Name()]
		switch g.fieldKind(def, f) {
		case "plain":
			if ft != nil && ft.Kind == gast.Object {
				if l := leafOf(ft); l != nil {
					n := g.fieldNode(def, f)
					n.Sel = []*Sel{l}
					plains = append(plains, n)
				}
			}
		case "resolver":
			switch {
			case ft != nil && (ft.Kind == gast.Scalar || ft.Kind == gast.Enum) && !haveScalar:
				haveScalar = true
				resolvers = append(resolvers, g.fieldNode(def, f))
			case ft != nil && ft.Kind == gast.Object && !haveObject:
				if l := leafOf(ft); l != nil {
					haveObject = true
					n := g.fieldNode(def, f)
					n.Sel = []*Sel{l}
					resolvers = append(resolvers, n)
				}
			}
		}
	}
	var out [][]*Sel
	for _, p := range plains {
		for _, r := range resolvers {
			out = append(out, []*Sel{p, r})
		}
	}
	return out
}
