package c20

// Binding to the code under test: the repo's mapped schema, proto and
// mapping.DefaultGRPCMapping(), grpcdatasource.NewDataSource(transport, cfg).Load
// with the deterministic service of service_test.go as transport, and the
// gqlparser-loaded copy of the same schema for the oracle.

import (
	"context"
	"encoding/json"
	"fmt"
	"os"
	"path/filepath"
	"runtime/debug"
	"sort"
	"strings"

	"github.com/vektah/gqlparser/v2"
	gast "github.com/vektah/gqlparser/v2/ast"

	"github.com/wundergraph/graphql-go-tools/v2/pkg/ast"
	"github.com/wundergraph/graphql-go-tools/v2/pkg/astparser"
	grpcdatasource "github.com/wundergraph/graphql-go-tools/v2/pkg/engine/datasource/grpc_datasource"
	"github.com/wundergraph/graphql-go-tools/v2/pkg/engine/plan"
	"github.com/wundergraph/graphql-go-tools/v2/pkg/grpctest"
	"github.com/wundergraph/graphql-go-tools/v2/pkg/grpctest/mapping"
)

const federationPrelude = `
directive @key(fields: openfed__FieldSet!, resolvable: Boolean = true) repeatable on OBJECT | INTERFACE
directive @external on FIELD_DEFINITION | OBJECT
directive @requires(fields: openfed__FieldSet!) on FIELD_DEFINITION
`

type env struct {
	def      ast.Document // the repo's schema document (with base schema)
	compiler *grpcdatasource.RPCCompiler
	mapping  *grpcdatasource.GRPCMapping
	schema   *gast.Schema // gqlparser view of the same SDL
	svc      *service
}

func repoRoot() string {
	if r := os.Getenv("VERIF_REPO"); r != "" {
		return r
	}
	return "/repo"
}

func newEnv(salt uint64) (*env, error) {
	def, err := grpctest.GraphQLSchema()
	if err != nil {
		return nil, fmt.Errorf("repo schema: %w", err)
	}
	protoSchema, err := grpctest.ProtoSchema()
	if err != nil {
		return nil, fmt.Errorf("repo proto: %w", err)
	}
	m := mapping.DefaultGRPCMapping()
	compiler, err := grpcdatasource.NewProtoCompiler(protoSchema, m)
	if err != nil {
		return nil, fmt.Errorf("proto compiler: %w", err)
	}
	sdl, err := os.ReadFile(filepath.Join(repoRoot(), "v2/pkg/grpctest/testdata/products.graphqls"))
	if err != nil {
		return nil, fmt.Errorf("schema SDL: %w", err)
	}
	schema, gerr := gqlparser.LoadSchema(&gast.Source{Name: "products.graphqls", Input: federationPrelude + string(sdl)})
	if gerr != nil {
		return nil, fmt.Errorf("gqlparser schema: %v", gerr)
	}
	e := &env{def: def, compiler: compiler, mapping: m, schema: schema}
	membersOf = func(typeName string) []string {
		d := schema.Types[typeName]
		if d == nil || (d.Kind != gast.Interface && d.Kind != gast.Union) {
			return nil
		}
		var out []string
		for _, p := range schema.GetPossibleTypes(d) {
			out = append(out, p.Name)
		}
		sort.Strings(out)
		return out
	}
	e.svc = &service{salt: salt, mapping: m, gqlType: e.buildNullabilityTable()}
	return e, nil
}

// buildNullabilityTable maps "<proto message>.<proto field>" to the GraphQL
// type stored there, using only the schema and the mapping (the conventions the
// data source itself relies on: object type T <-> message T, root field <->
// <Response>.<target>, resolver / required field <-> <RPC>Result.<target>).
func (e *env) buildNullabilityTable() map[string]*gast.Type {
	t := map[string]*gast.Type{}
	target := func(typeName, field string) string {
		if n, ok := e.mapping.FindFieldMapping(typeName, field); ok {
			return n
		}
		return field
	}
	for _, def := range e.schema.Types {
		if def.Kind != gast.Object || strings.HasPrefix(def.Name, "__") {
			continue
		}
		for _, f := range def.Fields {
			if strings.HasPrefix(f.Name, "__") {
				continue
			}
			switch {
			case def.Name == "Query":
				if c, ok := e.mapping.QueryRPCs[f.Name]; ok {
					t[c.Response+"."+target("Query", f.Name)] = f.Type
				}
			case def.Name == "Mutation":
				if c, ok := e.mapping.MutationRPCs[f.Name]; ok {
					t[c.Response+"."+target("Mutation", f.Name)] = f.Type
				}
			default:
				if rc := e.mapping.FindResolveTypeFieldMapping(def.Name, f.Name); rc != nil {
					t[rc.RPC+"Result."+rc.FieldMappingData.TargetName] = f.Type
					continue
				}
				if f.Directives.ForName("requires") != nil {
					for _, ec := range e.mapping.EntityRPCs[def.Name] {
						if rf, ok := ec.RequiredFields[f.Name]; ok {
							t[rf.RPC+"Result."+rf.TargetName] = f.Type
						}
					}
					continue
				}
				t[def.Name+"."+target(def.Name, f.Name)] = f.Type
			}
		}
	}
	return t
}

type runResult struct {
	PlanErr string   // NewDataSource refused the operation (not judged)
	LoadErr string   // Load returned a Go error
	Panic   string   // panic value + first repo frame
	Site    string   // panic frame
	Resp    []byte   // bytes returned by Load
	Calls   []string // RPC methods invoked (sorted)
}

func (e *env) fedConfigs(op *Op) plan.FederationFieldConfigurations {
	var out plan.FederationFieldConfigurations
	for _, f := range op.Fed {
		out = append(out, plan.FederationFieldConfiguration{TypeName: f.TypeName, FieldName: f.FieldName, SelectionSet: f.SelectionSet})
	}
	return out
}

var repoFrame = "github.com/wundergraph/graphql-go-tools/"

func panicSite(stack string) string {
	lines := strings.Split(stack, "\n")
	for _, l := range lines {
		l = strings.TrimSpace(l)
		if strings.HasPrefix(l, repoFrame) && !strings.Contains(l, "/verif/") {
			if i := strings.LastIndexByte(l, '('); i > 0 {
				l = l[:i]
			}
			return strings.TrimPrefix(l, repoFrame)
		}
	}
	return "unknown frame"
}

// run plans and loads one operation through the public seam.
func (e *env) run(op *Op) (res runResult) {
	query := op.String()
	defer func() {
		if r := recover(); r != nil {
			st := string(debug.Stack())
			res.Panic = fmt.Sprint(r)
			res.Site = panicSite(st)
		}
	}()
	doc, report := astparser.ParseGraphqlDocumentString(query)
	if report.HasErrors() {
		panic("c20 harness: generated operation does not parse: " + query + ": " + report.Error())
	}
	ds, err := grpcdatasource.NewDataSource(e.svc, grpcdatasource.DataSourceConfig{
		Operation:         &doc,
		Definition:        &e.def,
		SubgraphName:      "Products",
		Compiler:          e.compiler,
		Mapping:           e.mapping,
		FederationConfigs: e.fedConfigs(op),
	})
	if err != nil {
		res.PlanErr = err.Error()
		return res
	}
	qb, _ := json.Marshal(query)
	vars := op.Vars
	if len(vars) == 0 {
		vars = json.RawMessage("{}")
	}
	input := []byte(`{"query":` + string(qb) + `,"body":{"variables":` + string(vars) + `}}`)
	e.svc.reset()
	out, err := ds.Load(context.Background(), nil, input)
	if err != nil {
		res.LoadErr = err.Error()
		return res
	}
	res.Resp = append([]byte(nil), out...)
	res.Calls = e.svc.callList()
	return res
}

// validate checks the generated operation with the independent validator; an
// invalid operation is a generator bug, never an input for the data source.
func (e *env) validate(op *Op) error {
	doc, err := gqlparser.LoadQuery(e.schema, op.String())
	if err != nil {
		return fmt.Errorf("%v", err)
	}
	_ = doc
	return nil
}

// parentTypeOf resolves the static type of the selection list at path.
func (e *env) parentTypeOf(o *Op, path []int) string {
	cur := "Query"
	if o.OpType == "mutation" {
		cur = "Mutation"
	}
	list := o.Root
	for _, i := range path {
		if i < 0 || i >= len(list) {
			return ""
		}
		n := list[i]
		switch n.Kind {
		case kField:
			def := e.schema.Types[cur]
			if def == nil {
				return ""
			}
			fd := def.Fields.ForName(n.Name)
			if fd == nil {
				return ""
			}
			cur = fd.Type.Name()
		case kInline:
			if n.TypeCond != "" {
				cur = n.TypeCond
			}
		default:
			return ""
		}
		list = n.Sel
	}
	return cur
}

// build plans op once (NewDataSource) over the given transport.
func (e *env) build(op *Op, tr grpcdatasource.RPCTransport) (ds *grpcdatasource.DataSource, res runResult) {
	defer func() {
		if r := recover(); r != nil {
			st := string(debug.Stack())
			res.Panic = fmt.Sprint(r)
			res.Site = panicSite(st)
			ds = nil
		}
	}()
	doc, report := astparser.ParseGraphqlDocumentString(op.String())
	if report.HasErrors() {
		panic("c20 harness: generated operation does not parse: " + op.String() + ": " + report.Error())
	}
	d, err := grpcdatasource.NewDataSource(tr, grpcdatasource.DataSourceConfig{
		Operation:         &doc,
		Definition:        &e.def,
		SubgraphName:      "Products",
		Compiler:          e.compiler,
		Mapping:           e.mapping,
		FederationConfigs: e.fedConfigs(op),
	})
	if err != nil {
		res.PlanErr = err.Error()
		return nil, res
	}
	return d, res
}

// loadOn performs one Load of op with the given variables on an existing instance.
func (e *env) loadOn(ctx context.Context, ds *grpcdatasource.DataSource, op *Op, vars json.RawMessage) (res runResult) {
	defer func() {
		if r := recover(); r != nil {
			st := string(debug.Stack())
			res.Panic = fmt.Sprint(r)
			res.Site = panicSite(st)
		}
	}()
	qb, _ := json.Marshal(op.String())
	if len(vars) == 0 {
		vars = json.RawMessage("{}")
	}
	input := []byte(`{"query":` + string(qb) + `,"body":{"variables":` + string(vars) + `}}`)
	out, err := ds.Load(ctx, nil, input)
	if err != nil {
		res.LoadErr = err.Error()
		return res
	}
	res.Resp = append([]byte(nil), out...)
	return res
}
