// Check C20: gRPC data source answers are consistent projections of the service
// data. Engine E: every base operation below (depth, width, size) bounds over a
// menu of root fields of the repo's mapped test schema, every single (thorough:
// also every pair of) reformulation(s), run through
// grpcdatasource.NewDataSource(transport, cfg).Load with a deterministic
// semantic service as transport. See DESIGN.md section 3 C20.
package c20

import (
	"encoding/json"
	"fmt"
	"os"
	"runtime/debug"
	"sort"
	"strings"
	"testing"

	gast "github.com/vektah/gqlparser/v2/ast"

	"verif/internal/vk"
)

const (
	clausePanic = "planning and loading never panic"
	clauseShape = "the answer has exactly the shape of the selection"
	clauseError = "a valid operation on a convention-abiding service is answered with data"
	clauseValue = "a reformulation never changes the value of a field position"
)

// caseInput is everything needed to re-run one case (replay file).
type caseInput struct {
	Salt     uint64     `json:"salt"`
	Base     *Op        `json:"base"`
	Reforms  []Reform   `json:"reforms"`
	ListMode int        `json:"list_mode,omitempty"` // state of every list wrapper of the service (index into listModeNames)
	History  []int      `json:"history,omitempty"`   // sequential Loads on one instance (indices into variantNames)
	Inter    *interCase `json:"inter,omitempty"`     // two interleaved Loads on one instance
	Key      string     `json:"key,omitempty"`       // the finding key this case was shrunk for
}

type evaluated struct {
	op  *Op
	res runResult
	j   *judgement // nil unless Load returned bytes
}

type finding struct {
	Clause string
	Kind   string // stable problem kind
	Where  string // construct family of the position
	Detail string
}

func (f finding) key() string { return f.Clause + " | " + f.Kind + " | " + coarse(f.Where) }

// coarse reduces a construct family to its kind (plain / resolver / requires
// field); panic frames, error classes and the fixed words stay as they are.
func coarse(where string) string {
	for _, k := range []string{"plain", "resolver", "requires"} {
		if strings.HasPrefix(where, k+" ") {
			return k + " field"
		}
	}
	return where
}

type checker struct {
	t    *testing.T
	run  *vk.Run
	e    *env
	g    *gen
	salt uint64

	shrinkCache map[string][]string // pre-class -> fingerprints obtained by real shrinking
	inShrink    bool
	genInvalid  []string
}

// ---------------------------------------------------------------------------
// construct families (coarse, stable names used in Site / Class)

func family(class string) string {
	if class == "__typename" || class == "entity" || class == "response" || strings.HasPrefix(class, "object of type") {
		return class
	}
	parts := strings.SplitN(class, " ", 3)
	if len(parts) < 2 {
		return class
	}
	kind, shape := parts[0], parts[1]
	base := strings.Trim(shape, "[]!")
	var what string
	switch {
	case strings.HasPrefix(base, "object:"):
		what = "object"
	case strings.HasPrefix(base, "interface:"), strings.HasPrefix(base, "union:"):
		what = "abstract"
	default:
		what = "scalar"
	}
	lists := strings.Count(shape, "[")
	switch {
	case lists >= 2:
		what = "nested list of " + what
	case lists == 1 && strings.HasSuffix(shape, "]!"):
		what = "list of " + what
	case lists == 1:
		what = "nullable list of " + what
	}
	return kind + " " + what
}

func (c *checker) cls(typeName, field string) string {
	if v, ok := c.g.classOf[typeName+"."+field]; ok {
		return v
	}
	def := c.e.schema.Types[typeName]
	if def == nil {
		return "unknown"
	}
	fd := def.Fields.ForName(field)
	if fd == nil {
		return "unknown"
	}
	v := c.g.constructClass(def, fd)
	c.g.classOf[typeName+"."+field] = v
	return v
}

func (c *checker) famOf(typeName, field string) string { return family(c.cls(typeName, field)) }

// ---------------------------------------------------------------------------
// evaluation

func (c *checker) eval(op *Op) *evaluated {
	c.run.Eval(1)
	ev := &evaluated{op: op, res: c.e.run(op)}
	if ev.res.Resp != nil {
		ev.j = c.e.judge(op, ev.res.Resp, c.famOf)
	}
	return ev
}

// own findings of one evaluated operation (panic, error answer, shape)
func (c *checker) ownFindings(ev *evaluated, role string) []finding {
	var out []finding
	switch {
	case ev.res.Panic != "":
		out = append(out, finding{Clause: clausePanic, Kind: "panic", Where: ev.res.Site,
			Detail: fmt.Sprintf("%s operation %s\n  variables %s\n  panic: %s", role, ev.op.String(), clip(string(ev.op.Vars), 300), ev.res.Panic)})
	case ev.res.LoadErr != "":
		out = append(out, finding{Clause: clauseError, Kind: "Load returned a Go error", Where: errorClass(ev.res.LoadErr),
			Detail: fmt.Sprintf("%s operation %s: %s", role, ev.op.String(), ev.res.LoadErr)})
	case ev.j != nil:
		for _, p := range ev.j.problems {
			cl := clauseShape
			switch p.Kind {
			case "error answer":
				cl = clauseError
			case "two selections of one field disagree":
				cl = clauseValue
			}
			kind, where := p.Kind, p.Where
			switch kind {
			case "selected response key is missing", "response key that was not selected", "object fits the selection of no possible type":
				// one sub-clause of the shape oracle: the keys of an object are exactly the selected response keys of its runtime type
				kind, where = "response keys are not exactly the selected keys", "object"
			}
			out = append(out, finding{Clause: cl, Kind: kind, Where: where,
				Detail: fmt.Sprintf("%s operation %s\n  variables %s\n  answer %s\n  at %s: %s", role, ev.op.String(), clip(string(ev.op.Vars), 300), clip(string(ev.res.Resp), 700), p.Path, p.Msg)})
		}
	}
	return out
}

// diffFindings compares the common field positions of q and q'.
func (c *checker) diffFindings(q, q2 *evaluated) []finding {
	if q.j == nil || q2.j == nil {
		return nil
	}
	var out []finding
	seen := map[string]bool{}
	for _, pos := range sortedKeys(q.j.pos) {
		v1 := q.j.pos[pos]
		v2, ok := q2.j.pos[pos]
		if !ok || v1 == v2 {
			continue
		}
		where := q.j.posWhere[pos]
		if seen[where] {
			continue
		}
		seen[where] = true
		out = append(out, finding{Clause: clauseValue, Kind: "value differs", Where: where,
			Detail: fmt.Sprintf("q  = %s\n  q' = %s\n  variables %s\n  position %s (%s in q, %s in q'): %s vs %s\n  answer(q)  = %s\n  answer(q') = %s",
				q.op.String(), q2.op.String(), clip(string(q.op.Vars), 300), pos, q.j.posPath[pos], q2.j.posPath[pos], v1, v2, clip(string(q.res.Resp), 600), clip(string(q2.res.Resp), 600))})
	}
	return out
}

func clip(s string, n int) string {
	if len(s) > n {
		return s[:n] + "…"
	}
	return s
}

// applyAll applies the reformulations in order; nil when one does not apply or
// the result is not a valid operation.
func (c *checker) applyAll(base *Op, rs []Reform) *Op {
	cur := base
	next := maxID(base) + 100
	for _, r := range rs {
		cur = apply(cur, r, c.e.parentTypeOf, &next)
		if cur == nil {
			return nil
		}
	}
	return cur
}

// caseFindings: findings of the case (base, reforms). With no reforms: the
// base operation's own findings. With reforms: q' own findings + differences.
func (c *checker) caseFindings(baseEv *evaluated, rs []Reform) ([]finding, *evaluated) {
	if len(rs) == 0 {
		return c.ownFindings(baseEv, "base"), nil
	}
	q2 := c.applyAll(baseEv.op, rs)
	if q2 == nil {
		return nil, nil
	}
	if err := c.e.validate(q2); err != nil {
		if !c.inShrink {
			c.genInvalid = append(c.genInvalid, q2.String()+": "+err.Error())
		}
		return nil, nil
	}
	ev2 := c.eval(q2)
	if ev2.res.PlanErr != "" {
		return nil, ev2
	}
	out := c.ownFindings(ev2, "reformulated")
	if len(rs) == 1 && rs[0].Kind == "drop" {
		// q' is itself a base operation of the enumeration: its own findings are reported there
		out = nil
	}
	// a finding that the base operation shows as well belongs to the base case
	baseKeys := map[string]bool{}
	for _, f := range c.ownFindings(baseEv, "base") {
		baseKeys[f.key()] = true
	}
	var res []finding
	for _, f := range out {
		if !baseKeys[f.key()] {
			res = append(res, f)
		}
	}
	res = append(res, c.diffFindings(baseEv, ev2)...)
	return res, ev2
}

// ---------------------------------------------------------------------------
// shrinking and classification

func reformKinds(rs []Reform) string {
	if len(rs) == 0 {
		return "base"
	}
	var ks []string
	for _, r := range rs {
		ks = append(ks, r.Kind)
	}
	sort.Strings(ks)
	return strings.Join(ks, "+")
}

func rootKind(op *Op) string {
	if len(op.Fed) > 0 {
		return "entities"
	}
	return "operation"
}

// removals: every operation obtained from op by deleting one selection node
// (lists never become empty), plus, for entity operations, by deleting one
// representation.
func (c *checker) removals(op *Op) []*Op {
	var out []*Op
	var paths [][]int
	var walk func(path []int, list []*Sel)
	walk = func(path []int, list []*Sel) {
		for i, s := range list {
			p := append(append([]int(nil), path...), i)
			if len(list) > 1 {
				paths = append(paths, p)
			}
			walk(p, s.Sel)
		}
	}
	walk(nil, op.Root)
	for _, p := range paths {
		cp := op.clone()
		lp := listAt(cp, p[:len(p)-1])
		k := p[len(p)-1]
		*lp = append(append([]*Sel{}, (*lp)[:k]...), (*lp)[k+1:]...)
		cp.fixVars(c.g)
		out = append(out, cp)
	}
	// replace one non-root field by the simplest leaf of its parent type (same ID: it stands at the same position)
	var walk2 func(path []int, typeName string, list []*Sel)
	walk2 = func(path []int, typeName string, list []*Sel) {
		def := c.e.schema.Types[typeName]
		if def == nil {
			return
		}
		for i, s := range list {
			p := append(append([]int(nil), path...), i)
			switch s.Kind {
			case kInline:
				t := s.TypeCond
				if t == "" {
					t = typeName
				}
				walk2(p, t, s.Sel)
			case kField:
				if s.Name == "__typename" {
					continue
				}
				fd := def.Fields.ForName(s.Name)
				if fd == nil {
					continue
				}
				if len(path) > 0 {
					if leaf := c.simplestLeaf(def); leaf != "" && leaf != s.Name {
						clash := false
						for _, o := range list {
							if o.Kind == kField && o.key() == leaf {
								clash = true
							}
						}
						if !clash {
							cp := op.clone()
							lp := listAt(cp, path)
							(*lp)[i] = &Sel{Kind: kField, ID: s.ID, Name: leaf}
							cp.fixVars(c.g)
							out = append(out, cp)
						}
					}
					// ... or by the simplest field of the same kind (resolver / requires field returning a scalar)
					if kind := c.g.fieldKind(def, fd); kind != "plain" {
						if alt := c.simplestOfKind(def, kind); alt != nil && alt.Name != s.Name {
							clash := false
							for _, o := range list {
								if o.Kind == kField && o.key() == alt.Name {
									clash = true
								}
							}
							if !clash {
								cp := op.clone()
								lp := listAt(cp, path)
								n := c.g.fieldNode(def, alt)
								n.ID = s.ID
								(*lp)[i] = n
								c.addVars(cp, n)
								cp.fixVars(c.g)
								out = append(out, cp)
							}
						}
					}
				}
				walk2(p, fd.Type.Name(), s.Sel)
			}
		}
	}
	rootName := "Query"
	if op.OpType == "mutation" {
		rootName = "Mutation"
	}
	walk2(nil, rootName, op.Root)
	if len(op.Fed) > 0 {
		var vars map[string]any
		if json.Unmarshal(op.Vars, &vars) == nil {
			if reps, ok := vars["representations"].([]any); ok && len(reps) > 1 {
				for k := range reps {
					nr := append(append([]any{}, reps[:k]...), reps[k+1:]...)
					nv := map[string]any{}
					for kk, vv := range vars {
						nv[kk] = vv
					}
					nv["representations"] = nr
					cp := op.clone()
					b, _ := json.Marshal(nv)
					cp.Vars = b
					out = append(out, cp)
				}
			}
		}
	}
	return out
}

// simplestLeaf: the first plain scalar field without arguments of an object / interface type.
func (c *checker) simplestLeaf(def *gast.Definition) string {
	if def.Kind != gast.Object && def.Kind != gast.Interface {
		return ""
	}
	for _, f := range def.Fields {
		if strings.HasPrefix(f.Name, "__") || len(f.Arguments) > 0 || c.g.fieldKind(def, f) != "plain" || f.Type.Elem != nil {
			continue
		}
		if t := c.e.schema.Types[f.Type.Name()]; t != nil && t.Kind == gast.Scalar {
			return f.Name
		}
	}
	return ""
}

// simplestOfKind: the first resolver / requires field of def that returns a scalar.
func (c *checker) simplestOfKind(def *gast.Definition, kind string) *gast.FieldDefinition {
	for _, f := range def.Fields {
		if strings.HasPrefix(f.Name, "__") || c.g.fieldKind(def, f) != kind || f.Type.Elem != nil {
			continue
		}
		if t := c.e.schema.Types[f.Type.Name()]; t != nil && t.Kind == gast.Scalar {
			return f
		}
	}
	return nil
}

// addVars declares (and gives the canonical value to) the variables of node n.
func (c *checker) addVars(o *Op, n *Sel) {
	var vars map[string]any
	if json.Unmarshal(o.Vars, &vars) != nil {
		return
	}
	have := map[string]bool{}
	for _, d := range o.VarDefs {
		have[d.Name] = true
	}
	for _, a := range n.Args {
		if !have[a.Var] {
			o.VarDefs = append(o.VarDefs, c.g.varDefs[a.Var])
			vars[a.Var] = c.g.varVals[a.Var]
		}
	}
	b, _ := json.Marshal(vars)
	o.Vars = b
}

// fixVars drops variables that are no longer used.
func (o *Op) fixVars(g *gen) {
	used := o.usedVars()
	var vars map[string]any
	if json.Unmarshal(o.Vars, &vars) != nil {
		return
	}
	var defs []VarDef
	for _, d := range o.VarDefs {
		if used[d.Name] {
			defs = append(defs, d)
		} else {
			delete(vars, d.Name)
		}
	}
	o.VarDefs = defs
	// representations only for the entity types that still have a fragment
	if reps, ok := vars["representations"].([]any); ok && len(o.Fed) > 0 {
		ts := entityTypes(o.Root)
		var keep []any
		for _, r := range reps {
			if m, ok := r.(map[string]any); ok {
				if tn, _ := m["__typename"].(string); ts[tn] {
					keep = append(keep, r)
				}
			}
		}
		vars["representations"] = keep
	}
	b, _ := json.Marshal(vars)
	o.Vars = b
}

// reformCandidates: reformulation lists of the same kinds as rs that apply to base.
func (c *checker) reformCandidates(base *Op, rs []Reform) [][]Reform {
	if len(rs) == 0 {
		return [][]Reform{nil}
	}
	var out [][]Reform
	for _, r1 := range sites(base, c.e.parentTypeOf) {
		if r1.Kind != rs[0].Kind {
			continue
		}
		if len(rs) == 1 {
			out = append(out, []Reform{r1})
			continue
		}
		mid := c.applyAll(base, []Reform{r1})
		if mid == nil {
			continue
		}
		for _, r2 := range sites(mid, c.e.parentTypeOf) {
			if r2.Kind == rs[1].Kind {
				out = append(out, []Reform{r1, r2})
			}
		}
	}
	return out
}

// reproduces: does (base, rs) show a finding with the given key? Returns it.
func (c *checker) reproduces(base *Op, rs []Reform, key string) (*finding, bool) {
	if c.e.validate(base) != nil {
		return nil, false
	}
	bev := c.eval(base)
	if bev.res.PlanErr != "" {
		return nil, false
	}
	fs, _ := c.caseFindings(bev, rs)
	for i := range fs {
		if fs[i].key() == key {
			return &fs[i], true
		}
	}
	return nil, false
}

func (c *checker) shrink(in caseInput, f finding) (caseInput, finding) {
	key := f.key()
	cur, curF := in, f
	c.inShrink = true
	defer func() { c.inShrink = false }()
	budget := 400
	for progress := true; progress && budget > 0; {
		progress = false
		// fewer reformulations first
		if len(cur.Reforms) == 2 {
			for k := 0; k < 2 && !progress; k++ {
				// any single reformulation of that kind (the second one was addressed relative to the result of the first)
				for _, one := range c.reformCandidates(cur.Base, []Reform{cur.Reforms[k]}) {
					if budget <= 0 {
						break
					}
					budget--
					if nf, ok := c.reproduces(cur.Base, one, key); ok {
						cur.Reforms, curF, progress = one, *nf, true
						break
					}
				}
			}
			if progress {
				continue
			}
		}
		for _, cand := range c.removals(cur.Base) {
			if budget <= 0 {
				break
			}
			found := false
			for _, rs := range c.reformCandidates(cand, cur.Reforms) {
				budget--
				if nf, ok := c.reproduces(cand, rs, key); ok {
					cur.Base, cur.Reforms, curF, found = cand, rs, *nf, true
					break
				}
				if budget <= 0 {
					break
				}
			}
			if found {
				progress = true
				break
			}
		}
	}
	c.run.Count("shrink_runs", int64(400-budget))
	if budget <= 0 {
		c.run.Count("shrink_budget_exhausted", 1)
	}
	return cur, curF
}

// features: the coarse structural flags of the (shrunk) base operation - a
// closed vocabulary of field kinds and of the relations between them that the
// data source treats differently. Type shapes (scalar / object / list ...) are
// deliberately not part of the class: the shrinker already replaces fields by
// the simplest field of their kind.
func (c *checker) features(op *Op) string {
	set := map[string]bool{}
	type ctx struct {
		underResolver, underPlainOfResolver, underNullableList, underNestedList, inMemberFragment bool
	}
	var walk func(typeName string, list []*Sel, x ctx, depth int)
	walk = func(typeName string, list []*Sel, x ctx, depth int) {
		def := c.e.schema.Types[typeName]
		for _, s := range list {
			switch s.Kind {
			case kInline:
				t := s.TypeCond
				if t == "" {
					t = typeName
				}
				nx := x
				if def != nil && t != typeName && typeName != "_Entity" {
					set["fragment on a possible type"] = true
					nx.inMemberFragment = true
				}
				walk(t, s.Sel, nx, depth)
			case kField:
				if s.Name == "__typename" {
					set["__typename"] = true
					continue
				}
				if def == nil {
					continue
				}
				fd := def.Fields.ForName(s.Name)
				if fd == nil {
					continue
				}
				kind := c.g.fieldKind(def, fd)
				nx := x
				if depth > 0 {
					switch kind {
					case "resolver":
						set["field resolver"] = true
						if x.underPlainOfResolver {
							set["field resolver below a plain field inside the selection of a field resolver"] = true
						} else if x.underResolver {
							set["field resolver directly below a field resolver"] = true
						}
						if x.underNestedList {
							set["field resolver below a nested list"] = true
						}
						if x.underNullableList {
							set["field resolver below a nullable list"] = true
						}
						if x.inMemberFragment {
							set["field resolver inside a fragment on a possible type"] = true
						}
						nx.underResolver = true
						nx.underPlainOfResolver = false
					case "requires":
						set["@requires field"] = true
					}
				}
				if fd.Type.Elem != nil && isComposite(c.e.schema.Types[fd.Type.Name()]) {
					if fd.Type.Elem.Elem != nil {
						nx.underNestedList = true
					} else if !fd.Type.NonNull {
						nx.underNullableList = true
					}
				}
				if kind == "plain" && x.underResolver && isComposite(c.e.schema.Types[fd.Type.Name()]) {
					nx.underPlainOfResolver = true
				}
				nx.inMemberFragment = false
				if x.inMemberFragment && kind != "resolver" {
					// fields below a plain member field are still reached through the oneof arm
					nx.inMemberFragment = true
				}
				walk(fd.Type.Name(), s.Sel, nx, depth+1)
			}
		}
	}
	root := "Query"
	if op.OpType == "mutation" {
		root = "Mutation"
	}
	walk(root, op.Root, ctx{}, 0)
	if len(op.Root) > 1 {
		set["two root fields"] = true
	}
	if len(op.Fed) > 0 && len(entityTypes(op.Root)) > 1 {
		set["several entity types"] = true
	}
	if len(set) == 0 {
		return "plain fields only"
	}
	return strings.Join(sortedKeys(set), ", ")
}

func (c *checker) classOfCase(in caseInput) string {
	return rootKind(in.Base) + "; " + caseLabel(in) + "; " + c.features(in.Base)
}

// report shrinks (unless this pre-class is already settled), classifies and records.
func (c *checker) report(in caseInput, f finding) {
	// the service state of the case holds while it is shrunk / classified
	saved := c.e.svc.listMode
	c.e.svc.listMode = in.ListMode
	defer func() { c.e.svc.listMode = saved }()
	pre := f.key() + " || " + rootKind(in.Base) + " || " + caseLabel(in) + " || " + c.features(in.Base)
	if fps := c.shrinkCache[pre]; len(fps) >= 2 && fps[0] == fps[1] {
		parts := strings.SplitN(fps[0], "\x00", 3)
		c.run.Violate(vk.Violation{Clause: parts[0], Site: parts[1], Class: parts[2], Detail: f.Detail, Input: in})
		c.run.Count("violations_attributed_without_shrinking", 1)
		return
	}
	var small caseInput
	var sf finding
	switch {
	case in.Inter != nil:
		small, sf = c.shrinkInter(in, f)
	case len(in.History) > 0:
		small, sf = c.shrinkHistory(in, f)
	default:
		small, sf = c.shrink(in, f)
	}
	small.Key = f.key()
	v := vk.Violation{Clause: sf.Clause, Site: sf.Kind + " @ " + coarse(sf.Where), Class: c.classOfCase(small), Detail: sf.Detail, Input: small}
	c.shrinkCache[pre] = append(c.shrinkCache[pre], v.Clause+"\x00"+v.Site+"\x00"+v.Class)
	c.run.Violate(v)
}

// ---------------------------------------------------------------------------
// outcomes

func skeleton(v any) string {
	switch x := v.(type) {
	case nil:
		return "0"
	case map[string]any:
		var b strings.Builder
		b.WriteString("{")
		for _, k := range sortedKeys(x) {
			b.WriteString(k + ":" + skeleton(x[k]) + ",")
		}
		b.WriteString("}")
		return b.String()
	case []any:
		var b strings.Builder
		b.WriteString("[")
		for _, e := range x {
			b.WriteString(skeleton(e) + ",")
		}
		b.WriteString("]")
		return b.String()
	case string:
		return "s"
	case bool:
		return "b"
	default:
		return "n"
	}
}

func planErrClass(msg string) string {
	msg = strings.TrimPrefix(msg, "unable to plan operation: ")
	if i := strings.Index(msg, ", locations:"); i >= 0 {
		msg = msg[:i]
	}
	return errorClass(msg)
}

// ---------------------------------------------------------------------------
// the exploration

func (c *checker) exploreBase(base *Op, pairs bool) {
	run := c.run
	if err := c.e.validate(base); err != nil {
		c.genInvalid = append(c.genInvalid, base.String()+": "+err.Error())
		return
	}
	bev := c.eval(base)
	run.Count("base_operations", 1)
	if bev.res.PlanErr != "" {
		cl := planErrClass(bev.res.PlanErr)
		run.Count("not_judged_base_rejected_at_planning", 1)
		run.Outcome("planerr:" + cl)
		run.Sample("rejected at planning: "+cl, map[string]any{"operation": base.String(), "error": bev.res.PlanErr})
		return
	}
	run.Count("base_judged", 1)
	if bev.j != nil {
		if v, err := decodeJSON(bev.res.Resp); err == nil {
			run.Outcome(strings.Join(bev.res.Calls, ",") + "|" + skeleton(v))
		}
		if len(bev.j.problems) == 0 {
			run.Sample("answered: "+rootKind(base), map[string]any{"operation": base.String(), "answer": clip(string(bev.res.Resp), 400), "rpc_calls": bev.res.Calls})
		}
	}
	if bev.j != nil {
		for k, n := range bev.j.stats {
			run.Count(k, n)
		}
	}
	own := c.ownFindings(bev, "base")
	if len(own) == 0 {
		run.Count("base_answers_without_finding", 1)
	}
	for _, f := range own {
		c.report(caseInput{Salt: c.salt, Base: base}, f)
	}
	// every state of the list wrappers (null by absence / null without `list` / empty / inner null / inner empty)
	if bev.j != nil && bev.j.stats["list_wrapper_positions"] > 0 {
		baseKeys := map[string]bool{}
		for _, f := range own {
			baseKeys[f.key()] = true
		}
		for mode := listNullAbsent; mode <= listInnerEmpty; mode++ {
			c.e.svc.listMode = mode
			ev := c.eval(base)
			fs := c.ownFindings(ev, "base")
			c.e.svc.listMode = listByHash
			run.Count("list_wrapper_state_runs", 1)
			clean := true
			for _, f := range fs {
				if !baseKeys[f.key()] {
					clean = false
					c.report(caseInput{Salt: c.salt, Base: base, ListMode: mode}, f)
				}
			}
			if clean {
				run.Count("list_wrapper_state_runs_without_finding", 1)
			}
		}
	}
	seen := map[string]bool{base.String(): true}
	one := func(rs []Reform) *Op {
		q2 := c.applyAll(base, rs)
		if q2 == nil {
			return nil
		}
		s := q2.String()
		if seen[s] {
			run.Count("reformulations_identical_text_skipped", 1)
			return nil
		}
		seen[s] = true
		fs, ev2 := c.caseFindings(bev, rs)
		if ev2 == nil {
			return q2
		}
		run.Count("reformulations", 1)
		run.Count("reformulation_"+reformKinds(rs), 1)
		if ev2.res.PlanErr != "" {
			run.Count("not_judged_reformulation_rejected_at_planning", 1)
			run.Count("not_judged_rejected_"+reformKinds(rs), 1)
			run.Outcome("planerr:" + planErrClass(ev2.res.PlanErr))
			run.Sample("reformulation rejected at planning: "+planErrClass(ev2.res.PlanErr), map[string]any{"operation": q2.String(), "error": ev2.res.PlanErr})
			return q2
		}
		run.Count("reformulations_judged", 1)
		if ev2.j != nil && bev.j != nil {
			common := 0
			for p := range ev2.j.pos {
				if _, ok := bev.j.pos[p]; ok {
					common++
				}
			}
			run.Count("common_field_positions_compared", int64(common))
		}
		if len(fs) == 0 {
			run.Count("reformulations_without_finding", 1)
		}
		for _, f := range fs {
			c.report(caseInput{Salt: c.salt, Base: base, Reforms: rs}, f)
		}
		return q2
	}
	for _, r1 := range sites(base, c.e.parentTypeOf) {
		mid := one([]Reform{r1})
		if !pairs || mid == nil {
			continue
		}
		for _, r2 := range sites(mid, c.e.parentTypeOf) {
			one([]Reform{r1, r2})
		}
	}
}

func TestCheck(t *testing.T) {
	run := vk.Start("C20", "exploration")
	defer run.Finish()
	gcp := 400 // every NewDataSource allocates a fresh arena pool (1 MB buffers); the live heap is small
	if s := os.Getenv("C20_GOGC"); s != "" {
		fmt.Sscan(s, &gcp)
	}
	debug.SetGCPercent(gcp)
	if s := os.Getenv("C20_MEMLIMIT_MB"); s != "" {
		var mb int64
		fmt.Sscan(s, &mb)
		debug.SetGCPercent(-1)
		debug.SetMemoryLimit(mb << 20)
	}

	type universe struct {
		salt                         uint64
		depth, width, size, pairSize int
		histLen                      int      // longest history of Loads on one instance (0 = none)
		hist3Size                    int      // histories of 3 Loads only for operations up to this many field nodes (longer ones: 2 Loads)
		interSize                    int      // interleaved Loads (canonical / other values) for operations up to this many field nodes
		interAllSize                 int      // ... with every pair of interPairs up to this many field nodes
		interPairs                   [][2]int // variable assignments of the two interleaved Loads
	}
	// quick: one universe, depth<=3 width<=2 size<=4, single reformulations.
	// thorough: universe 1 with depth<=4 width<=3 size<=5 (+ pairs up to 3 field nodes),
	// universe 2 (other values, other list lengths / nulls / oneof arms) with the quick bounds.
	universes := vk.Pick(run,
		[]universe{{1, 3, 2, 4, 0, 2, 0, 3, 3, [][2]int{{0, 1}}}},
		[]universe{{1, 4, 3, 5, 3, 3, 4, 4, 3, [][2]int{{0, 1}, {0, 2}, {0, 3}}}, {2, 3, 2, 4, 0, 2, 0, 3, 3, [][2]int{{0, 1}}}})
	if s := os.Getenv("C20_HIST"); s != "" {
		for i := range universes {
			fmt.Sscan(s, &universes[i].histLen)
		}
	}
	if s := os.Getenv("C20_SIZE"); s != "" {
		for i := range universes {
			fmt.Sscan(s, &universes[i].size)
		}
	}
	depth, width, size, pairSize := universes[0].depth, universes[0].width, universes[0].size, universes[0].pairSize
	run.Rule("base operations = every selection tree with depth<=D, <=W items per selection set and <=N field nodes below each root field of the menu (queries, mutations, two-root-field queries, _entities lookups), fields drawn from the first field of every mapping-construct class of each type; for each base operation every single reformulation site (alias, aliased copy, duplicate, reorder, inline fragment / named fragment around every run, drop, add __typename plain and aliased), thorough: also every pair for base operations up to pair_size field nodes, plus a second service universe at the quick bounds; operations with a field resolver also as histories of 2 (thorough 3) Loads on one DataSource instance over four variable assignments and as two interleaved Loads under every order of gated RPC completions, each answer compared with a fresh instance; an outcome is distinct when the set of RPC methods invoked or the key/null/list-length skeleton of the answer differs")
	run.Assume(
		"transport is a deterministic service: answer = hash(universe salt, method, request message); result lists aligned with keys/context; absent values only where the GraphQL schema allows null; recursion cut 9 messages deep",
		"gqlparser's schema loader and validator decide validity of the generated operations and give field types / possible types to the shape checker",
		"arguments are variables (the form the engine's normaliser produces); one canonical value per variable type",
		"runtime type of an abstract object without selected __typename: any possible type whose selection the object satisfies",
		"entity objects may carry __typename although it was not selected (the router always selects it)",
		"@requires fields are selected only directly below an _entities fragment (the only place a router plans them); representations carry every external field",
		"operations the data source refuses at planning time are counted, not judged",
		"histories are differential: the reference of a Load on a re-used instance is a fresh instance with the same operation and variables; the service makes the root result empty / longer when a root argument carries the marker len0 / len3 (9000 / 9003)",
	)
	run.Bound("max_depth", depth)
	run.Bound("max_width", width)
	run.Bound("max_field_nodes", size)
	run.Bound("max_reformulations_per_case", vk.Pick(run, 1, 2))
	run.Bound("pair_size_max_field_nodes", pairSize)
	run.Bound("history_max_loads_on_one_instance", universes[0].histLen)
	run.Bound("history_variable_assignments", variantNames)
	run.Bound("history_three_loads_max_field_nodes", universes[0].hist3Size)
	run.Bound("interleaving_max_field_nodes", universes[0].interSize)
	run.Bound("interleaving_all_assignment_pairs_max_field_nodes", universes[0].interAllSize)
	run.Bound("interleaving_max_rpc_calls_per_load", maxInterCalls)
	run.Bound("interleaving_assignment_pairs", len(universes[0].interPairs))
	run.Bound("universes", len(universes))
	if len(universes) > 1 {
		run.Bound("second_universe_bounds", map[string]int{"max_depth": universes[1].depth, "max_width": universes[1].width, "max_field_nodes": universes[1].size})
	}
	run.Bound("query_menu", queryMenu)
	run.Bound("mutation_menu", mutationMenu)
	run.Bound("two_root_field_menu", rootPairs)
	run.Bound("entity_types", []string{"Product", "Storage", "Warehouse"})

	if run.Replay != "" {
		var in caseInput
		if err := run.ReplayInput(&in); err != nil {
			t.Fatalf("replay input: %v", err)
		}
		e, err := newEnv(in.Salt)
		if err != nil {
			t.Fatalf("INFRA: %v", err)
		}
		c := &checker{t: t, run: run, e: e, g: newGen(e, width), salt: in.Salt, shrinkCache: map[string][]string{}}
		var fs []finding
		c.e.svc.listMode = in.ListMode
		if in.Inter != nil || len(in.History) > 0 {
			fs = c.replayStateful(in)
		} else {
			bev := c.eval(in.Base)
			fs, _ = c.caseFindings(bev, in.Reforms)
		}
		for _, f := range fs {
			if in.Key != "" && f.key() != in.Key {
				continue
			}
			run.Violate(vk.Violation{Clause: f.Clause, Site: f.Kind + " @ " + coarse(f.Where), Class: c.classOfCase(in), Detail: f.Detail, Input: in})
		}
		return
	}

	var idx int64
	total := 0
	for _, u := range universes {
		salt := u.salt
		depth, width, size, pairSize := u.depth, u.width, u.size, u.pairSize
		e, err := newEnv(salt)
		if err != nil {
			t.Fatalf("INFRA: %v", err)
		}
		c := &checker{t: t, run: run, e: e, g: newGen(e, width), salt: salt, shrinkCache: map[string][]string{}}
		stop := false
		n := c.g.forEachBase(depth, size, func(i int, mk func() *Op) bool {
			my := run.Mine(idx + int64(i))
			if !my {
				return true
			}
			if run.Expired() {
				stop = true
				return false
			}
			base := mk()
			c.exploreBase(base, pairSize > 0 && base.fieldCount() <= pairSize)
			// one instance, several Loads: operations with a field resolver (the calls that read per-request state)
			if u.histLen > 0 && hasResolver(c.features(base)) && c.e.validate(base) == nil {
				hl := u.histLen
				if hl > 2 && base.fieldCount() > u.hist3Size {
					hl = 2
				}
				c.exploreHistories(base, hl)
				switch n := base.fieldCount(); {
				case n <= u.interAllSize:
					c.exploreInterleavings(base, u.interPairs)
				case n <= u.interSize:
					c.exploreInterleavings(base, u.interPairs[:1])
				}
			}
			return true
		})
		total += n
		idx += int64(n)
		run.Bound("fragment_free_abstract_family_operations_per_universe", len(c.g.deepAbstractOps()))
		if len(c.genInvalid) > 0 {
			sort.Strings(c.genInvalid)
			t.Fatalf("INFRA: the generator produced %d operations that gqlparser rejects, first: %s", len(c.genInvalid), c.genInvalid[0])
		}
		run.Count("service_messages_cut_by_depth", e.svc.cut)
		var unk []string
		e.svc.unknown.Range(func(k, _ any) bool { unk = append(unk, k.(string)); return true })
		sort.Strings(unk)
		if len(unk) > 0 {
			run.Note("service: %d message-typed proto fields have no GraphQL type in the nullability table and are always filled: %s", len(unk), clip(strings.Join(unk, " "), 600))
		}
		if stop {
			break
		}
	}
	run.Bound("base_operations_total_all_shards", total)
}
