package c20

// Operation model: a tiny selection AST whose field nodes carry an identity (ID)
// that survives every reformulation, so that "the same field position" of q and
// q' can be compared although response keys, order and fragment structure differ.

import (
	"encoding/json"
	"fmt"
	"sort"
	"strings"
)

type selKind int

const (
	kField selKind = iota
	kInline
	kSpread
)

type Arg struct {
	Name string `json:"n"`
	Var  string `json:"v"` // variable name (arguments are always variables, like after normalization)
}

type Sel struct {
	Kind     selKind `json:"k"`
	ID       int     `json:"id,omitempty"`   // field identity (copies made by a reformulation keep it)
	Name     string  `json:"f,omitempty"`    // field name
	Alias    string  `json:"a,omitempty"`    // alias
	Args     []Arg   `json:"args,omitempty"` // arguments
	TypeCond string  `json:"on,omitempty"`   // inline fragment type condition ("" = none)
	Spread   string  `json:"sp,omitempty"`   // fragment spread name
	Sel      []*Sel  `json:"s,omitempty"`
}

type FragDef struct {
	Name     string `json:"name"`
	TypeCond string `json:"on"`
	Sel      []*Sel `json:"s"`
}

type VarDef struct {
	Name string `json:"n"`
	Type string `json:"t"`
}

type FedCfg struct {
	TypeName     string `json:"type"`
	FieldName    string `json:"field,omitempty"`
	SelectionSet string `json:"sel"`
}

type Op struct {
	OpType  string          `json:"op"` // query | mutation
	VarDefs []VarDef        `json:"vardefs,omitempty"`
	Vars    json.RawMessage `json:"vars"`
	Root    []*Sel          `json:"root"`
	Frags   []FragDef       `json:"frags,omitempty"`
	Fed     []FedCfg        `json:"fed,omitempty"` // federation configuration (entity operations)
}

func (s *Sel) key() string {
	if s.Alias != "" {
		return s.Alias
	}
	return s.Name
}

func cloneSels(in []*Sel) []*Sel {
	if in == nil {
		return nil
	}
	out := make([]*Sel, len(in))
	for i, s := range in {
		c := *s
		c.Args = append([]Arg(nil), s.Args...)
		c.Sel = cloneSels(s.Sel)
		out[i] = &c
	}
	return out
}

func (o *Op) clone() *Op {
	c := *o
	c.VarDefs = append([]VarDef(nil), o.VarDefs...)
	c.Root = cloneSels(o.Root)
	c.Frags = nil
	for _, f := range o.Frags {
		c.Frags = append(c.Frags, FragDef{Name: f.Name, TypeCond: f.TypeCond, Sel: cloneSels(f.Sel)})
	}
	c.Fed = append([]FedCfg(nil), o.Fed...)
	return &c
}

func printSels(b *strings.Builder, sels []*Sel) {
	b.WriteString("{")
	for i, s := range sels {
		if i > 0 {
			b.WriteString(" ")
		}
		switch s.Kind {
		case kField:
			if s.Alias != "" {
				b.WriteString(s.Alias)
				b.WriteString(": ")
			}
			b.WriteString(s.Name)
			if len(s.Args) > 0 {
				b.WriteString("(")
				for j, a := range s.Args {
					if j > 0 {
						b.WriteString(", ")
					}
					fmt.Fprintf(b, "%s: $%s", a.Name, a.Var)
				}
				b.WriteString(")")
			}
			if len(s.Sel) > 0 {
				b.WriteString(" ")
				printSels(b, s.Sel)
			}
		case kInline:
			b.WriteString("...")
			if s.TypeCond != "" {
				b.WriteString(" on ")
				b.WriteString(s.TypeCond)
			}
			b.WriteString(" ")
			printSels(b, s.Sel)
		case kSpread:
			b.WriteString("...")
			b.WriteString(s.Spread)
		}
	}
	b.WriteString("}")
}

// usedVars returns the variable names used by the operation (through fragments too).
func (o *Op) usedVars() map[string]bool {
	used := map[string]bool{}
	var walk func([]*Sel)
	walk = func(ss []*Sel) {
		for _, s := range ss {
			for _, a := range s.Args {
				used[a.Var] = true
			}
			walk(s.Sel)
		}
	}
	walk(o.Root)
	for _, f := range o.Frags {
		walk(f.Sel)
	}
	return used
}

// String prints the operation document. Only the variables that are used are declared.
func (o *Op) String() string {
	var b strings.Builder
	b.WriteString(o.OpType)
	used := o.usedVars()
	var defs []string
	for _, v := range o.VarDefs {
		if used[v.Name] {
			defs = append(defs, fmt.Sprintf("$%s: %s", v.Name, v.Type))
		}
	}
	if len(defs) > 0 {
		b.WriteString("(" + strings.Join(defs, ", ") + ")")
	}
	b.WriteString(" ")
	printSels(&b, o.Root)
	for _, f := range o.Frags {
		fmt.Fprintf(&b, " fragment %s on %s ", f.Name, f.TypeCond)
		printSels(&b, f.Sel)
	}
	return b.String()
}

// fieldCount counts field nodes (through fragments).
func (o *Op) fieldCount() int {
	n := 0
	var walk func([]*Sel)
	walk = func(ss []*Sel) {
		for _, s := range ss {
			if s.Kind == kField {
				n++
			}
			walk(s.Sel)
		}
	}
	walk(o.Root)
	for _, f := range o.Frags {
		walk(f.Sel)
	}
	return n
}

// ---------------------------------------------------------------------------
// reformulations

type Reform struct {
	Kind string `json:"kind"`        // alias | aliascopy | reorder | dup | inline | named | drop | typename
	Path []int  `json:"path"`        // path (child indices, through Root) to the selection LIST that is edited
	I    int    `json:"i"`           // first index in that list
	J    int    `json:"j,omitempty"` // second index (reorder: other element; inline/named: end of run, exclusive)
}

func (r Reform) String() string {
	return fmt.Sprintf("%s@%v[%d,%d]", r.Kind, r.Path, r.I, r.J)
}

// listAt returns a pointer to the selection list addressed by path.
func listAt(o *Op, path []int) *[]*Sel {
	cur := &o.Root
	for _, i := range path {
		if i < 0 || i >= len(*cur) {
			return nil
		}
		cur = &(*cur)[i].Sel
	}
	return cur
}

// parentOf returns the node owning the list at path (nil for the root list).
func parentOf(o *Op, path []int) *Sel {
	if len(path) == 0 {
		return nil
	}
	cur := o.Root
	var n *Sel
	for _, i := range path {
		if i < 0 || i >= len(cur) {
			return nil
		}
		n = cur[i]
		cur = n.Sel
	}
	return n
}

// typeResolver tells the reformulation generator the static parent type of a
// selection list (needed for fragment type conditions and __typename).
type typeResolver func(o *Op, path []int) string

// membersOf gives the possible types of an abstract type (nil for object
// types); set by the environment, used by the "members" reformulation.
var membersOf func(typeName string) []string

// sites enumerates every single reformulation applicable to o (an operation
// without named fragments). Order: simplest kinds first.
func sites(o *Op, parentType typeResolver) []Reform {
	var out []Reform
	var walk func(path []int, list []*Sel)
	walk = func(path []int, list []*Sel) {
		p := append([]int(nil), path...)
		isRoot := len(path) == 0
		// the fragments directly below _entities decide which representations are sent: that list is never shortened
		isEntityList := len(o.Fed) > 0 && len(path) > 0 && parentType(o, path) == "_Entity"
		hasTypename := false
		for _, s := range list {
			if s.Kind == kField && s.Name == "__typename" {
				hasTypename = true
			}
		}
		// _entities itself is federation plumbing: a router never aliases, repeats or decorates it
		entityRoot := isRoot && len(o.Fed) > 0
		for i, s := range list {
			if entityRoot {
				break
			}
			if s.Kind == kField {
				if s.Alias == "" {
					out = append(out, Reform{Kind: "alias", Path: p, I: i})
					out = append(out, Reform{Kind: "aliascopy", Path: p, I: i})
				}
				out = append(out, Reform{Kind: "dup", Path: p, I: i})
			}
			if len(list) > 1 && !isEntityList {
				out = append(out, Reform{Kind: "drop", Path: p, I: i})
			}
			for j := i + 1; j < len(list); j++ {
				out = append(out, Reform{Kind: "reorder", Path: p, I: i, J: j})
			}
		}
		// wrap every contiguous run in an inline fragment / a named fragment
		// (not at the operation root: the data source documents that root
		// level fragments are not handled, and `... on Query` around an RPC
		// root field is not a selection of the mapped schema the design asks for)
		if !isRoot {
			for i := 0; i < len(list); i++ {
				for j := i + 1; j <= len(list); j++ {
					out = append(out, Reform{Kind: "inline", Path: p, I: i, J: j})
					out = append(out, Reform{Kind: "named", Path: p, I: i, J: j})
				}
			}
			// (not directly below _entities: a router selects __typename inside the entity fragments)
			if !hasTypename && !isEntityList {
				out = append(out, Reform{Kind: "typename", Path: p, I: len(list)})
				// ... and under an alias (object and abstract parents, inside member fragments too)
				out = append(out, Reform{Kind: "aliastypename", Path: p, I: len(list)})
			}
		}
		// the fields selected directly on an abstract type moved into fragments on every possible type
		if !isRoot && !isEntityList {
			nf := 0
			for _, s := range list {
				if s.Kind == kField {
					nf++
				}
			}
			if nf > 0 && membersOf != nil && len(membersOf(parentType(o, path))) > 0 {
				out = append(out, Reform{Kind: "members", Path: p})
			}
		}
		for i, s := range list {
			if len(s.Sel) > 0 {
				walk(append(p, i), s.Sel)
			}
		}
	}
	walk(nil, o.Root)
	return out
}

// apply returns the reformulated operation, or nil when r does not apply to o
// (used by the shrinker, where o got smaller).
func apply(o *Op, r Reform, parentType typeResolver, nextID *int) *Op {
	fresh := func(prefix string) string { *nextID++; return fmt.Sprintf("%s%d", prefix, *nextID) }
	c := o.clone()
	lp := listAt(c, r.Path)
	if lp == nil {
		return nil
	}
	list := *lp
	switch r.Kind {
	case "alias":
		if r.I >= len(list) || list[r.I].Kind != kField || list[r.I].Alias != "" {
			return nil
		}
		list[r.I].Alias = fresh("a")
	case "aliascopy":
		if r.I >= len(list) || list[r.I].Kind != kField || list[r.I].Alias != "" {
			return nil
		}
		cp := cloneSels([]*Sel{list[r.I]})[0]
		cp.Alias = fresh("c")
		nl := append([]*Sel{}, list[:r.I+1]...)
		nl = append(nl, cp)
		nl = append(nl, list[r.I+1:]...)
		*lp = nl
	case "dup":
		if r.I >= len(list) || list[r.I].Kind != kField {
			return nil
		}
		cp := cloneSels([]*Sel{list[r.I]})[0]
		// the duplicate goes to the END of the list so that it is not adjacent
		*lp = append(append([]*Sel{}, list...), cp)
	case "drop":
		if r.I >= len(list) || len(list) < 2 {
			return nil
		}
		nl := append([]*Sel{}, list[:r.I]...)
		nl = append(nl, list[r.I+1:]...)
		*lp = nl
	case "reorder":
		if r.I >= len(list) || r.J >= len(list) || r.I == r.J {
			return nil
		}
		list[r.I], list[r.J] = list[r.J], list[r.I]
	case "inline", "named":
		if r.I >= len(list) || r.J > len(list) || r.I >= r.J || len(r.Path) == 0 {
			return nil
		}
		t := parentType(c, r.Path)
		if t == "" {
			return nil
		}
		run := append([]*Sel{}, list[r.I:r.J]...)
		var w *Sel
		if r.Kind == "inline" {
			w = &Sel{Kind: kInline, TypeCond: t, Sel: run}
		} else {
			name := fresh("F")
			c.Frags = append(c.Frags, FragDef{Name: name, TypeCond: t, Sel: run})
			w = &Sel{Kind: kSpread, Spread: name}
		}
		nl := append([]*Sel{}, list[:r.I]...)
		nl = append(nl, w)
		nl = append(nl, list[r.J:]...)
		*lp = nl
	case "members":
		if len(r.Path) == 0 || membersOf == nil {
			return nil
		}
		ms := membersOf(parentType(c, r.Path))
		if len(ms) == 0 {
			return nil
		}
		var fields, rest []*Sel
		for _, s := range list {
			if s.Kind == kField {
				fields = append(fields, s)
			} else {
				rest = append(rest, s)
			}
		}
		if len(fields) == 0 {
			return nil
		}
		nl := append([]*Sel{}, rest...)
		for _, m := range ms {
			nl = append(nl, &Sel{Kind: kInline, TypeCond: m, Sel: cloneSels(fields)})
		}
		*lp = nl
	case "typename", "aliastypename":
		if len(r.Path) == 0 || len(list) == 0 {
			return nil
		}
		for _, s := range list {
			if s.Kind == kField && s.Name == "__typename" {
				return nil
			}
		}
		*nextID++
		n := &Sel{Kind: kField, ID: *nextID, Name: "__typename"}
		if r.Kind == "aliastypename" {
			n.Alias = fresh("t")
		}
		*lp = append(append([]*Sel{}, list...), n)
	default:
		return nil
	}
	c.pruneFragments()
	return c
}

// pruneFragments removes fragment definitions that are no longer spread
// anywhere (an unused fragment would make the document invalid).
func (o *Op) pruneFragments() {
	if len(o.Frags) == 0 {
		return
	}
	used := map[string]bool{}
	byName := map[string]*FragDef{}
	for i := range o.Frags {
		byName[o.Frags[i].Name] = &o.Frags[i]
	}
	var walk func([]*Sel)
	walk = func(ss []*Sel) {
		for _, s := range ss {
			if s.Kind == kSpread && !used[s.Spread] {
				used[s.Spread] = true
				if f := byName[s.Spread]; f != nil {
					walk(f.Sel)
				}
			}
			walk(s.Sel)
		}
	}
	walk(o.Root)
	var keep []FragDef
	for _, f := range o.Frags {
		if used[f.Name] {
			keep = append(keep, f)
		}
	}
	o.Frags = keep
}

func maxID(o *Op) int {
	m := 0
	var walk func([]*Sel)
	walk = func(ss []*Sel) {
		for _, s := range ss {
			if s.ID > m {
				m = s.ID
			}
			walk(s.Sel)
		}
	}
	walk(o.Root)
	for _, f := range o.Frags {
		walk(f.Sel)
	}
	return m
}

func sortedKeys[V any](m map[string]V) []string {
	ks := make([]string, 0, len(m))
	for k := range m {
		ks = append(ks, k)
	}
	sort.Strings(ks)
	return ks
}
