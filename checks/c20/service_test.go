package c20

// The deterministic semantic service behind the gRPC data source.
//
// It implements grpcdatasource.RPCTransport. It never looks at the GraphQL
// operation: the answer to an RPC is a pure function of (universe salt, method,
// request message). The response dynamicpb message is filled by walking its
// descriptor:
//
//   - scalar value      = hash(seed, path of (field number, element index))
//   - list length       = hash(...) % 3 per list instance (0, 1 and 2 all occur);
//                         1 + hash % 2 for the lists directly in a Query/Mutation response
//   - `result` lists    = one element per element of the request's `keys` (entity
//                         lookup) or `context` (field resolver / required field) list,
//                         element i seeded by the content of request element i (+ field_args)
//   - oneof arm         = hash % number of arms
//   - nullable things   = present / absent by hash, but ONLY where the GraphQL schema
//                         says the position is nullable (table built from the schema
//                         and the mapping); everything else is always present, as the
//                         proto conventions of the data source require.
//   - recursion         = cut at maxDepth nested messages (deeper than any selection
//                         the check generates).

import (
	"context"
	"encoding/binary"
	"fmt"
	"hash/fnv"
	"sort"
	"strings"
	"sync"

	gast "github.com/vektah/gqlparser/v2/ast"
	"google.golang.org/protobuf/proto"
	protoref "google.golang.org/protobuf/reflect/protoreflect"

	grpcdatasource "github.com/wundergraph/graphql-go-tools/v2/pkg/engine/datasource/grpc_datasource"
)

const serviceMaxDepth = 9

type service struct {
	salt     uint64
	listMode int // state of every list wrapper (listByHash = decided by hash), set between Loads only
	// gqlType: "<proto message name>.<proto field name>" -> GraphQL type of the
	// field that is stored there (nil / missing = unknown = treat as non-null).
	gqlType map[string]*gast.Type
	// enumOK: proto enum name -> numbers that have a GraphQL mapping (lazy cache)
	enumOK  sync.Map
	mapping *grpcdatasource.GRPCMapping

	unknown sync.Map // "<message>.<field>" of message-typed fields without a GraphQL type in the table (always filled)

	mu    sync.Mutex
	calls []string // methods invoked during the current Load (sorted by the reader)
	cut   int64    // messages left unset because of the depth cut
}

func (s *service) reset() {
	s.mu.Lock()
	s.calls = s.calls[:0]
	s.mu.Unlock()
}

func (s *service) callList() []string {
	s.mu.Lock()
	defer s.mu.Unlock()
	out := append([]string(nil), s.calls...)
	sort.Strings(out)
	return out
}

func h64(parts ...any) uint64 {
	h := fnv.New64a()
	var b [8]byte
	for _, p := range parts {
		switch v := p.(type) {
		case uint64:
			binary.LittleEndian.PutUint64(b[:], v)
			h.Write(b[:])
		case int:
			binary.LittleEndian.PutUint64(b[:], uint64(v))
			h.Write(b[:])
		case string:
			h.Write([]byte(v))
			h.Write([]byte{0})
		case []byte:
			h.Write(v)
			h.Write([]byte{0})
		default:
			panic(fmt.Sprintf("h64: unsupported %T", p))
		}
	}
	// final avalanche (fnv is weak in the low bits for short inputs)
	x := h.Sum64()
	x ^= x >> 33
	x *= 0xff51afd7ed558ccd
	x ^= x >> 33
	x *= 0xc4ceb9fe1a85ec53
	x ^= x >> 33
	return x
}

func canon(m protoref.Message) []byte {
	if m == nil || !m.IsValid() {
		return nil
	}
	b, err := proto.MarshalOptions{Deterministic: true}.Marshal(m.Interface())
	if err != nil {
		panic("c20 service: cannot marshal request: " + err.Error())
	}
	return b
}

func shortName(d protoref.MessageDescriptor) string {
	full := string(d.FullName())
	if i := strings.IndexByte(full, '.'); i >= 0 && strings.HasPrefix(full, "productv1.") {
		return full[i+1:]
	}
	return full
}

// Invoke implements grpcdatasource.RPCTransport.
func (s *service) Invoke(_ context.Context, method string, in, out protoref.Message) error {
	s.mu.Lock()
	s.calls = append(s.calls, method[strings.LastIndexByte(method, '/')+1:])
	s.mu.Unlock()

	inD, outD := in.Descriptor(), out.Descriptor()
	resFD := outD.Fields().ByName("result")
	keysFD := inD.Fields().ByName("keys")
	ctxFD := inD.Fields().ByName("context")

	switch {
	case resFD != nil && resFD.IsList() && resFD.Kind() == protoref.MessageKind && keysFD != nil && keysFD.IsList():
		// entity lookup: result[i] belongs to keys[i]
		keys := in.Get(keysFD).List()
		res := out.Mutable(resFD).List()
		for i := 0; i < keys.Len(); i++ {
			key := keys.Get(i).Message()
			seed := h64(s.salt, "entity", string(resFD.Message().FullName()), canon(key))
			el := res.NewElement()
			s.fill(el.Message(), seed, 1)
			// the entity echoes its key fields
			kf := key.Descriptor().Fields()
			for j := 0; j < kf.Len(); j++ {
				k := kf.Get(j)
				t := el.Message().Descriptor().Fields().ByName(k.Name())
				if t != nil && t.Kind() == k.Kind() && !t.IsList() && !k.IsList() && k.Kind() != protoref.MessageKind {
					el.Message().Set(t, key.Get(k))
				}
			}
			res.Append(el)
		}
		return nil
	case resFD != nil && resFD.IsList() && resFD.Kind() == protoref.MessageKind && ctxFD != nil && ctxFD.IsList():
		// field resolver / required field: result[i] belongs to context[i]
		var args []byte
		if a := inD.Fields().ByName("field_args"); a != nil && in.Has(a) {
			args = canon(in.Get(a).Message())
		}
		ctxs := in.Get(ctxFD).List()
		res := out.Mutable(resFD).List()
		for i := 0; i < ctxs.Len(); i++ {
			seed := h64(s.salt, "ctx", method, canon(ctxs.Get(i).Message()), args)
			el := res.NewElement()
			s.fill(el.Message(), seed, 1)
			res.Append(el)
		}
		return nil
	default:
		seed := h64(s.salt, "root", method, canon(in))
		s.fillRoot(out, seed, rootLenMarker(in, 0))
		return nil
	}
}

// rootLenMarker lets a request decide how long the lists directly in the
// answer to a root field are (histories need an empty / a longer root result):
// a string argument starting with "len0" / "len3" or an integer argument 9000 /
// 9003 anywhere in the request forces 0 / 3 elements (and, for 0, a nullable
// root object to be absent). -1 = no marker (the canonical values have none).
func rootLenMarker(m protoref.Message, depth int) int {
	if depth > 6 {
		return -1
	}
	found := -1
	m.Range(func(fd protoref.FieldDescriptor, v protoref.Value) bool {
		one := func(v protoref.Value) {
			switch fd.Kind() {
			case protoref.StringKind:
				if s := v.String(); strings.HasPrefix(s, "len0") {
					found = 0
				} else if strings.HasPrefix(s, "len3") {
					found = 3
				}
			case protoref.Int32Kind, protoref.Int64Kind:
				if n := v.Int(); n == 9000 {
					found = 0
				} else if n == 9003 {
					found = 3
				}
			case protoref.MessageKind:
				if r := rootLenMarker(v.Message(), depth+1); r >= 0 {
					found = r
				}
			}
		}
		switch {
		case fd.IsMap():
		case fd.IsList():
			l := v.List()
			for i := 0; i < l.Len(); i++ {
				one(l.Get(i))
			}
		default:
			one(v)
		}
		return found < 0
	})
	return found
}

// fillRoot fills the answer to a root field; force >= 0 fixes the length of the lists directly in it.
func (s *service) fillRoot(msg protoref.Message, seed uint64, force int) {
	s.fillMsg(msg, seed, 0, force)
}

func isWrapperScalar(d protoref.MessageDescriptor) bool {
	return strings.HasPrefix(string(d.FullName()), "google.protobuf.") && strings.HasSuffix(string(d.Name()), "Value")
}

// isListWrapper: message ListOfX { message List { repeated X items = 1; } List list = 1; }
func isListWrapper(d protoref.MessageDescriptor) bool {
	if !strings.HasPrefix(string(d.Name()), "ListOf") || d.Fields().Len() != 1 {
		return false
	}
	f := d.Fields().ByNumber(1)
	if f == nil || f.Name() != "list" || f.Kind() != protoref.MessageKind || f.IsList() {
		return false
	}
	inner := f.Message()
	if inner.Fields().Len() != 1 {
		return false
	}
	it := inner.Fields().ByNumber(1)
	return it != nil && it.IsList()
}

// fill populates msg. depth counts nested (non wrapper) messages below the RPC response.
func (s *service) fill(msg protoref.Message, seed uint64, depth int) {
	s.fillMsg(msg, seed, depth, -1)
}

func (s *service) fillMsg(msg protoref.Message, seed uint64, depth int, force int) {
	d := msg.Descriptor()
	name := shortName(d)
	// real oneofs: choose one arm
	oo := d.Oneofs()
	for i := 0; i < oo.Len(); i++ {
		o := oo.Get(i)
		if o.IsSynthetic() || o.Fields().Len() == 0 {
			continue
		}
		arm := o.Fields().Get(int(h64(seed, "oneof", string(o.Name())) % uint64(o.Fields().Len())))
		s.fillField(msg, name, arm, h64(seed, int(arm.Number())), depth, nil, -1)
	}
	fs := d.Fields()
	for i := 0; i < fs.Len(); i++ {
		fd := fs.Get(i)
		if o := fd.ContainingOneof(); o != nil && !o.IsSynthetic() {
			continue
		}
		s.fillField(msg, name, fd, h64(seed, int(fd.Number())), depth, s.gqlType[name+"."+string(fd.Name())], force)
	}
}

func (s *service) listLen(h uint64, depth int) int {
	if depth == 0 {
		return 1 + int(h64(h, "len")%2)
	}
	return int(h64(h, "len") % 3)
}

func nullable(t *gast.Type) bool { return t != nil && !t.NonNull }

func (s *service) fillField(msg protoref.Message, msgName string, fd protoref.FieldDescriptor, h uint64, depth int, gt *gast.Type, force int) {
	switch {
	case fd.IsMap():
		return
	case fd.IsList():
		n := s.listLen(h, depth)
		if depth == 0 && force >= 0 {
			n = force
		}
		l := msg.Mutable(fd).List()
		for i := 0; i < n; i++ {
			eh := h64(h, "el", i)
			if fd.Kind() == protoref.MessageKind {
				el := l.NewElement()
				s.fill(el.Message(), eh, depth+1)
				l.Append(el)
			} else {
				l.Append(s.scalar(fd, eh))
			}
		}
	case fd.Kind() == protoref.MessageKind:
		md := fd.Message()
		switch {
		case isWrapperScalar(md):
			// nullable scalar: absent one time in three
			if h64(h, "present")%3 == 0 {
				return
			}
			sub := msg.NewField(fd).Message()
			vfd := md.Fields().ByName("value")
			sub.Set(vfd, s.scalar(vfd, h64(h, "v")))
			msg.Set(fd, protoref.ValueOfMessage(sub))
		case isListWrapper(md):
			if gt == nil {
				s.unknown.Store(msgName+"."+string(fd.Name()), true)
			}
			sub := msg.NewField(fd).Message()
			if s.fillListWrapper(sub, h, depth, gt, 0) {
				msg.Set(fd, protoref.ValueOfMessage(sub))
			}
		default:
			// nullable object: absent one time in four; the answer to a root field itself
			// is always there in odd universes (otherwise everything below stays unobserved)
			if nullable(gt) && h64(h, "present")%4 == 0 && !(depth == 0 && s.salt%2 == 1) {
				return
			}
			if nullable(gt) && depth == 0 && force == 0 {
				return
			}
			if gt == nil && fd.ContainingOneof() == nil {
				s.unknown.Store(msgName+"."+string(fd.Name()), true)
			}
			if depth >= serviceMaxDepth {
				s.mu.Lock()
				s.cut++
				s.mu.Unlock()
				return
			}
			sub := msg.NewField(fd).Message()
			s.fill(sub, h, depth+1)
			msg.Set(fd, protoref.ValueOfMessage(sub))
		}
	default:
		msg.Set(fd, s.scalar(fd, h))
	}
}

// The states of the list wrappers (message ListOfX { message List { repeated X
// items = 1; } List list = 1; }) that the service can be told to produce for
// EVERY nullable / nested list of its data at once (listMode); 0 = by hash.
const (
	listByHash          = iota
	listNullAbsent      // every nullable (outer) list is null, encoded by leaving the wrapper field out
	listNullNoInnerList // every nullable (outer) list is null, encoded by a wrapper that is present but carries no `list`
	listEmpty           // every nullable (outer) list is an empty list (wrapper with an empty `list`)
	listInnerNull       // every wrapped list has 2 elements; every nullable INNER list is null (element wrapper without `list`)
	listInnerEmpty      // every wrapped list has 2 elements; every nullable INNER list is empty
)

var listModeNames = []string{"by hash", "nullable lists null (wrapper absent)", "nullable lists null (wrapper without list)", "nullable lists empty", "inner lists null", "inner lists empty"}

// fillListWrapper fills a ListOfX wrapper for the GraphQL list type gt (nil =
// unknown: every level non-null). level 0 is the wrapper stored in the field,
// level 1 an element wrapper of a nested list. It reports whether the wrapper
// is to be stored at all (level 0; an element wrapper always is); a wrapper
// that is stored without its `list` member is a null list as well.
func (s *service) fillListWrapper(w protoref.Message, h uint64, depth int, gt *gast.Type, level int) bool {
	canBeNull := gt != nil && gt.Elem != nil && !gt.NonNull
	n := int(h64(h, "len") % 3)
	mode := s.listMode
	switch {
	case level == 0 && canBeNull && mode == listNullAbsent:
		return false
	case level == 0 && canBeNull && mode == listNullNoInnerList:
		return true // stored, but without `list`
	case level == 0 && canBeNull && mode == listEmpty:
		n = 0
	case level == 0 && (mode == listInnerNull || mode == listInnerEmpty):
		n = 2
	case level > 0 && canBeNull && mode == listInnerNull:
		return true // element wrapper without `list`
	case level > 0 && canBeNull && mode == listInnerEmpty:
		n = 0
	case canBeNull && h64(h, "present")%4 == 0:
		// by hash: the outer null list is encoded by leaving the field out, the inner one by a wrapper without `list`
		return false
	}
	listFD := w.Descriptor().Fields().ByNumber(1)
	inner := w.NewField(listFD).Message()
	itemsFD := inner.Descriptor().Fields().ByNumber(1)
	items := inner.Mutable(itemsFD).List()
	var et *gast.Type
	if gt != nil {
		et = gt.Elem
	}
	for i := 0; i < n; i++ {
		eh := h64(h, "el", i)
		switch {
		case itemsFD.Kind() == protoref.MessageKind && isListWrapper(itemsFD.Message()):
			el := items.NewElement()
			// a null inner list is an element whose `list` member is unset
			s.fillListWrapper(el.Message(), eh, depth, et, level+1)
			items.Append(el)
		case itemsFD.Kind() == protoref.MessageKind:
			el := items.NewElement()
			s.fill(el.Message(), eh, depth+1)
			items.Append(el)
		default:
			items.Append(s.scalar(itemsFD, eh))
		}
	}
	w.Set(listFD, protoref.ValueOfMessage(inner))
	return true
}

func (s *service) scalar(fd protoref.FieldDescriptor, h uint64) protoref.Value {
	switch fd.Kind() {
	case protoref.StringKind:
		return protoref.ValueOfString(fmt.Sprintf("%s-%04x", fd.Name(), h&0xffff))
	case protoref.BoolKind:
		return protoref.ValueOfBool(h&1 == 1)
	case protoref.Int32Kind, protoref.Sint32Kind, protoref.Sfixed32Kind:
		return protoref.ValueOfInt32(int32(h % 100000))
	case protoref.Int64Kind, protoref.Sint64Kind, protoref.Sfixed64Kind:
		return protoref.ValueOfInt64(int64(h % 100000))
	case protoref.Uint32Kind, protoref.Fixed32Kind:
		return protoref.ValueOfUint32(uint32(h % 100000))
	case protoref.Uint64Kind, protoref.Fixed64Kind:
		return protoref.ValueOfUint64(h % 100000)
	case protoref.DoubleKind:
		return protoref.ValueOfFloat64(float64(h%400000) / 4) // exact binary fractions
	case protoref.FloatKind:
		return protoref.ValueOfFloat32(float32(h%4000) / 4)
	case protoref.BytesKind:
		return protoref.ValueOfBytes([]byte(fmt.Sprintf("b-%04x", h&0xffff)))
	case protoref.EnumKind:
		ok := s.mappedEnumNumbers(fd.Enum())
		if len(ok) == 0 {
			// no mapped value known: first declared non-zero value, else zero
			vs := fd.Enum().Values()
			if vs.Len() > 1 {
				return protoref.ValueOfEnum(vs.Get(1 + int(h%uint64(vs.Len()-1))).Number())
			}
			return protoref.ValueOfEnum(0)
		}
		return protoref.ValueOfEnum(ok[h%uint64(len(ok))])
	}
	panic("c20 service: unsupported scalar kind " + fd.Kind().String())
}

func (s *service) mappedEnumNumbers(e protoref.EnumDescriptor) []protoref.EnumNumber {
	if v, ok := s.enumOK.Load(string(e.Name())); ok {
		return v.([]protoref.EnumNumber)
	}
	var out []protoref.EnumNumber
	vs := e.Values()
	for i := 0; i < vs.Len(); i++ {
		v := vs.Get(i)
		if v.Number() == 0 {
			continue // *_UNSPECIFIED
		}
		if _, ok := s.mapping.FindEnumValueMapping(string(e.Name()), string(v.Name())); ok {
			out = append(out, v.Number())
		}
	}
	s.enumOK.Store(string(e.Name()), out)
	return out
}
