//go:build verifrace

package c20

// Free-running side pass (built with -race by the driver in the thorough tier
// or with VERIF_RACE_PASS=1): N goroutines call Load concurrently on ONE
// DataSource instance - what the engine does with a cached plan - for
// operations that reach interface / union / fragment selections (and plain
// ones); every answer is compared with the solo answer of a fresh instance.
// The gated exploration of history_test.go serialises the Loads between RPC
// calls; this pass looks for what it cannot show: unsynchronised accesses to
// state shared through the plan.

import (
	"context"
	"fmt"
	"os"
	"strconv"
	"strings"
	"sync"
	"testing"
)

func TestRaceFree(t *testing.T) {
	iters, workers, maxOps := 25, 8, 120
	if v, err := strconv.Atoi(os.Getenv("VERIF_RACE_ITERS")); err == nil && v > 0 {
		iters = v
	}
	e, err := newEnv(1)
	if err != nil {
		t.Fatalf("INFRA: %v", err)
	}
	c := &checker{t: t, e: e, g: newGen(e, 2), salt: 1, shrinkCache: map[string][]string{}}
	// operations: the fragment-free / deep abstract family first, then the first base operations with a
	// fragment on a possible type (several runtime types in one list), then a few plain / resolver ones
	var ops []*Op
	kinds := map[string]int{}
	perRoot := map[string]int{}
	c.g.forEachBase(3, 4, func(i int, mk func() *Op) bool {
		op := mk()
		f := c.features(op)
		// at most 6 operations per root field, so that every abstract root field of the menu takes part
		if len(op.Root) > 0 {
			if perRoot[op.Root[0].Name] >= 6 && !strings.Contains(f, "two root fields") {
				return true
			}
			perRoot[op.Root[0].Name]++
		}
		k := "plain"
		switch {
		case strings.Contains(f, "inside a fragment on a possible type"):
			return true // known defect U (panics / silently skipped), not a subject of this pass
		case strings.Contains(f, "fragment on a possible type"), strings.Contains(f, "__typename"):
			k = "abstract"
		case strings.Contains(f, "field resolver"):
			k = "resolver"
		}
		lim := map[string]int{"abstract": maxOps, "resolver": 8, "plain": 8}[k]
		if kinds[k] < lim && e.validate(op) == nil {
			kinds[k]++
			ops = append(ops, op)
		}
		return true
	})
	loads, mismatches, skipped := 0, 0, 0
	var firstMismatch string
	for _, op := range ops {
		solo := e.run(op)
		if solo.Panic != "" || solo.PlanErr != "" {
			skipped++
			continue
		}
		want := canonAnswer(solo)
		ds, b := e.build(op, e.svc)
		if ds == nil {
			_ = b
			skipped++
			continue
		}
		var wg sync.WaitGroup
		var mu sync.Mutex
		for w := 0; w < workers; w++ {
			wg.Add(1)
			go func() {
				defer wg.Done()
				for i := 0; i < iters; i++ {
					got := canonAnswer(e.loadOn(context.Background(), ds, op, op.Vars))
					mu.Lock()
					loads++
					if got != want {
						mismatches++
						if firstMismatch == "" {
							firstMismatch = fmt.Sprintf("operation %s\n  concurrent: %s\n  solo:       %s", op.String(), clip(got, 500), clip(want, 500))
						}
					}
					mu.Unlock()
				}
			}()
		}
		wg.Wait()
	}
	fmt.Printf("racefree: operations=%d (abstract=%d resolver=%d plain=%d skipped=%d) workers=%d loads_each=%d loads=%d answers_differing_from_solo=%d\n",
		len(ops), kinds["abstract"], kinds["resolver"], kinds["plain"], skipped, workers, iters, loads, mismatches)
	if mismatches > 0 {
		t.Errorf("concurrent Loads on one DataSource: %d of %d answers differ from the solo answer, first:\n  %s", mismatches, loads, firstMismatch)
	}
}
