package c20

// Histories on ONE DataSource instance.
//
// A planned DataSource is re-used for every request that executes the same
// plan, sequentially and concurrently. Two explorations, both differential
// (no hand-written expectation): the reference for a Load is the answer of a
// FRESH instance to the same operation with the same variables.
//
//   - sequential: for every base operation with a field resolver, every history
//     of 2 (thorough: also 3) Loads over a menu of variable assignments
//     (canonical values, other values, an assignment whose root result is empty,
//     one whose root result is longer), every answer equal to the fresh answer;
//   - interleaved: two Loads with different variables on one instance, every RPC
//     gated by a wrapping transport, every order of "start Load x" / "release
//     gated call y" (exact quiescence from testing/synctest), each Load's answer
//     equal to its solo answer.

import (
	"bytes"
	"context"
	"encoding/json"
	"fmt"
	"sort"
	"strings"
	"sync"
	"testing"
	"testing/synctest"

	gast "github.com/vektah/gqlparser/v2/ast"
	protoref "google.golang.org/protobuf/reflect/protoreflect"

	"verif/internal/vk"
)

const clauseHistory = "a DataSource instance answers every Load like a fresh instance would"

const maxInterCalls = 3

var variantNames = []string{"canonical values", "other values", "empty root result", "longer root result"}

// interCase: two Loads (variable assignments A and B) on one instance, released in the order given by Script.
type interCase struct {
	VA     int   `json:"va"`
	VB     int   `json:"vb"`
	Script []int `json:"script"`
}

// ---------------------------------------------------------------------------
// variable assignments

// variantValue: the value of an input type under assignment v (0 = canonical).
// mark (when not empty) is planted into the first String / ID / Int leaf.
func (g *gen) variantValue(t *gast.Type, depth int, top bool, v int, mark *int) any {
	if v == 0 {
		return g.valueFor(t, depth, top)
	}
	if t.Elem != nil {
		n := 1
		if top {
			n = 2
		}
		out := make([]any, 0, n)
		for i := 0; i < n; i++ {
			out = append(out, g.variantValue(t.Elem, depth, false, v, mark))
		}
		return out
	}
	d := g.e.schema.Types[t.NamedType]
	switch t.NamedType {
	case "ID", "String":
		if *mark >= 0 {
			s := fmt.Sprintf("len%d-x", *mark)
			*mark = -1
			return s
		}
		if t.NamedType == "ID" {
			return "id-2"
		}
		return "str2"
	case "Int":
		if *mark >= 0 {
			n := 9000 + *mark
			*mark = -1
			return n
		}
		return 8
	case "Float":
		return 3.5
	case "Boolean":
		return false
	}
	if d == nil {
		return nil
	}
	switch d.Kind {
	case gast.Enum:
		return d.EnumValues[len(d.EnumValues)-1].Name
	case gast.InputObject:
		o := map[string]any{}
		for _, f := range d.Fields {
			fd := g.e.schema.Types[f.Type.Name()]
			if fd != nil && fd.Kind == gast.InputObject && depth >= 2 {
				continue
			}
			o[f.Name] = g.variantValue(f.Type, depth+1, false, v, mark)
		}
		return o
	}
	return nil
}

// variantVars computes the variables of op under assignment v.
func (c *checker) variantVars(op *Op, v int) json.RawMessage {
	if v == 0 {
		return op.Vars
	}
	var canon map[string]any
	if json.Unmarshal(op.Vars, &canon) != nil {
		return op.Vars
	}
	out := map[string]any{}
	for _, d := range op.VarDefs {
		if d.Name == "representations" {
			reps, _ := canon[d.Name].([]any)
			out[d.Name] = variantReps(reps, v)
			continue
		}
		t, err := parseTypeString(d.Type)
		if err != nil {
			out[d.Name] = canon[d.Name]
			continue
		}
		mark := -1
		if strings.HasPrefix(d.Name, "Query_") || strings.HasPrefix(d.Name, "Mutation_") {
			switch v {
			case 2:
				mark = 0
			case 3:
				mark = 3
			}
		}
		out[d.Name] = c.g.variantValue(t, 0, true, v, &mark)
	}
	b, _ := json.Marshal(out)
	return b
}

func withID(rep any, suffix string) any {
	m, ok := rep.(map[string]any)
	if !ok {
		return rep
	}
	cp := map[string]any{}
	for k, v := range m {
		cp[k] = v
	}
	if id, ok := cp["id"].(string); ok {
		cp["id"] = id + suffix
	}
	return cp
}

// variantReps: other entities in reverse order / a shorter list / a longer list.
func variantReps(reps []any, v int) []any {
	var out []any
	switch v {
	case 1:
		for i := len(reps) - 1; i >= 0; i-- {
			out = append(out, withID(reps[i], "-o"))
		}
	case 2:
		if len(reps) > 0 {
			out = append(out, withID(reps[len(reps)-1], "-s"))
		}
	default:
		out = append(out, reps...)
		for _, r := range reps {
			out = append(out, withID(r, "-l"))
		}
	}
	return out
}

// parseTypeString parses "[[Foo!]]!" into a gqlparser type.
func parseTypeString(s string) (*gast.Type, error) {
	s = strings.TrimSpace(s)
	nonNull := strings.HasSuffix(s, "!")
	if nonNull {
		s = s[:len(s)-1]
	}
	if strings.HasPrefix(s, "[") {
		if !strings.HasSuffix(s, "]") {
			return nil, fmt.Errorf("bad type %q", s)
		}
		el, err := parseTypeString(s[1 : len(s)-1])
		if err != nil {
			return nil, err
		}
		return &gast.Type{Elem: el, NonNull: nonNull}, nil
	}
	if s == "" {
		return nil, fmt.Errorf("empty type")
	}
	return &gast.Type{NamedType: s, NonNull: nonNull}, nil
}

// variants: the assignments of op that differ in their bytes (index 0 = canonical).
func (c *checker) variants(op *Op) []int {
	seen := map[string]bool{}
	var out []int
	for v := 0; v < len(variantNames); v++ {
		b := string(c.variantVars(op, v))
		if !seen[b] {
			seen[b] = true
			out = append(out, v)
		}
	}
	return out
}

// ---------------------------------------------------------------------------
// comparison with the fresh instance

func canonAnswer(r runResult) string {
	switch {
	case r.Panic != "":
		return "panic at " + r.Site + ": " + r.Panic
	case r.PlanErr != "":
		return "plan error: " + r.PlanErr
	case r.LoadErr != "":
		return "load error: " + r.LoadErr
	}
	v, err := decodeJSON(r.Resp)
	if err != nil {
		return "bytes: " + string(r.Resp)
	}
	b, _ := json.Marshal(v) // maps are written with sorted keys
	return string(b)
}

func answerKind(r runResult) string {
	switch {
	case r.Panic != "":
		return "panic"
	case r.LoadErr != "":
		return "Go error"
	case bytes.HasPrefix(bytes.TrimSpace(r.Resp), []byte(`{"errors"`)):
		return "error answer"
	}
	return "data"
}

func (c *checker) opWithVars(op *Op, v int) *Op {
	cp := op.clone()
	cp.Vars = c.variantVars(op, v)
	return cp
}

// fresh: answer of a fresh instance for assignment v.
func (c *checker) fresh(op *Op, v int, cache map[int]runResult) runResult {
	if r, ok := cache[v]; ok {
		return r
	}
	c.run.Eval(1)
	r := c.e.run(c.opWithVars(op, v))
	cache[v] = r
	return r
}

func histLabel(h []int) string {
	var ns []string
	for _, v := range h {
		ns = append(ns, variantNames[v])
	}
	return "history: " + strings.Join(ns, ", then ")
}

// histViolation runs the history on one instance; it returns the first Load
// whose answer differs from the fresh instance's (nil when none).
func (c *checker) histViolation(op *Op, hist []int, cache map[int]runResult) (*finding, int) {
	ds, b := c.e.build(op, c.e.svc)
	if ds == nil {
		_ = b
		return nil, -1
	}
	for i, v := range hist {
		want := c.fresh(op, v, cache)
		c.run.Eval(1)
		got := c.e.loadOn(context.Background(), ds, op, c.variantVars(op, v))
		if canonAnswer(got) == canonAnswer(want) {
			continue
		}
		return &finding{Clause: clauseHistory, Kind: "answer of a re-used instance differs from a fresh instance", Where: answerKind(got) + " instead of " + answerKind(want),
			Detail: fmt.Sprintf("operation %s\n  %s (Load %d of %d differs)\n  variables of that Load %s\n  re-used instance: %s\n  fresh instance:   %s",
				op.String(), histLabel(hist[:i+1]), i+1, len(hist), clip(string(c.variantVars(op, v)), 300), clip(canonAnswer(got), 600), clip(canonAnswer(want), 600))}, i
	}
	return nil, -1
}

func hasResolver(features string) bool { return strings.Contains(features, "field resolver") }

// exploreHistories: every history of length 2..maxLen over the assignments of op.
func (c *checker) exploreHistories(op *Op, maxLen int) {
	vs := c.variants(op)
	cache := map[int]runResult{}
	// an operation whose fresh answer is a panic is left to the base case
	for _, v := range vs {
		if r := c.fresh(op, v, cache); r.Panic != "" || r.PlanErr != "" {
			c.run.Count("histories_skipped_fresh_run_panics", 1)
			return
		}
	}
	c.run.Count("history_operations", 1)
	var rec func(h []int)
	rec = func(h []int) {
		if len(h) >= 2 {
			c.run.Count("histories", 1)
			if f, at := c.histViolation(op, h, cache); f != nil {
				c.report(caseInput{Salt: c.salt, Base: op, History: append([]int(nil), h[:at+1]...)}, *f)
			} else {
				c.run.Count("histories_without_finding", 1)
			}
		}
		if len(h) == maxLen {
			return
		}
		for _, v := range vs {
			rec(append(h, v))
		}
	}
	rec(nil)
}

func (c *checker) shrinkHistory(in caseInput, f finding) (caseInput, finding) {
	key := f.key()
	cur, curF := in, f
	budget := 300
	try := func(op *Op, h []int) (*finding, []int) {
		if len(h) < 1 || c.e.validate(op) != nil {
			return nil, nil
		}
		budget -= len(h)
		nf, at := c.histViolation(op, h, map[int]runResult{})
		if nf != nil && nf.key() == key {
			return nf, h[:at+1]
		}
		return nil, nil
	}
	for progress := true; progress && budget > 0; {
		progress = false
		for i := 0; i < len(cur.History)-1 && !progress; i++ {
			h := append(append([]int(nil), cur.History[:i]...), cur.History[i+1:]...)
			if nf, nh := try(cur.Base, h); nf != nil {
				cur.History, curF, progress = nh, *nf, true
			}
		}
		// simpler assignments (towards the canonical values)
		for i := 0; i < len(cur.History) && !progress; i++ {
			for v := 0; v < cur.History[i] && !progress; v++ {
				h := append([]int(nil), cur.History...)
				h[i] = v
				if nf, nh := try(cur.Base, h); nf != nil && len(nh) == len(h) {
					cur.History, curF, progress = nh, *nf, true
				}
			}
		}
		if progress {
			continue
		}
		for _, cand := range c.removals(cur.Base) {
			if budget <= 0 {
				break
			}
			if nf, nh := try(cand, cur.History); nf != nil {
				cur.Base, cur.History, curF, progress = cand, nh, *nf, true
				break
			}
		}
	}
	return cur, curF
}

// ---------------------------------------------------------------------------
// interleaved Loads

type loadKey struct{}

type gatedCall struct {
	load   int
	method string
	req    string
	ch     chan struct{}
}

type gatedTransport struct {
	inner   *service
	mu      sync.Mutex
	pending []*gatedCall
}

func (t *gatedTransport) Invoke(ctx context.Context, method string, in, out protoref.Message) error {
	load, _ := ctx.Value(loadKey{}).(int)
	gc := &gatedCall{load: load, method: method, req: string(canon(in)), ch: make(chan struct{})}
	t.mu.Lock()
	t.pending = append(t.pending, gc)
	t.mu.Unlock()
	<-gc.ch
	return t.inner.Invoke(ctx, method, in, out)
}

// runOrder executes the two Loads on one instance under the order given by
// script (then always the first event). It returns the answers, the number of
// enabled events at every step and a description of the order.
func (c *checker) runOrder(op *Op, variants [2]int, script []int) (ans [2]runResult, branching []int, order []string) {
	synctest.Test(c.t, func(t *testing.T) {
		tr := &gatedTransport{inner: c.e.svc}
		ds, b := c.e.build(op, tr)
		if ds == nil {
			ans[0], ans[1] = b, b
			return
		}
		started := [2]bool{}
		var wg sync.WaitGroup
		for step := 0; ; step++ {
			synctest.Wait()
			type event struct {
				start int // load to start, or -1
				gc    *gatedCall
				name  string
			}
			var evs []event
			for l := 0; l < 2; l++ {
				if !started[l] {
					evs = append(evs, event{start: l, name: fmt.Sprintf("start Load %c", 'A'+l)})
				}
			}
			tr.mu.Lock()
			pend := append([]*gatedCall(nil), tr.pending...)
			tr.mu.Unlock()
			sort.Slice(pend, func(i, j int) bool {
				if pend[i].load != pend[j].load {
					return pend[i].load < pend[j].load
				}
				if pend[i].method != pend[j].method {
					return pend[i].method < pend[j].method
				}
				return pend[i].req < pend[j].req
			})
			for _, p := range pend {
				evs = append(evs, event{start: -1, gc: p, name: fmt.Sprintf("%c:%s", 'A'+p.load, p.method[strings.LastIndexByte(p.method, '/')+1:])})
			}
			if len(evs) == 0 {
				break
			}
			choice := 0
			if step < len(script) && script[step] < len(evs) {
				choice = script[step]
			}
			branching = append(branching, len(evs))
			ev := evs[choice]
			order = append(order, ev.name)
			if ev.start >= 0 {
				l := ev.start
				started[l] = true
				wg.Add(1)
				go func() {
					defer wg.Done()
					ctx := context.WithValue(context.Background(), loadKey{}, l)
					ans[l] = c.e.loadOn(ctx, ds, op, c.variantVars(op, variants[l]))
				}()
				continue
			}
			tr.mu.Lock()
			for i, p := range tr.pending {
				if p == ev.gc {
					tr.pending = append(tr.pending[:i], tr.pending[i+1:]...)
					break
				}
			}
			tr.mu.Unlock()
			close(ev.gc.ch)
		}
		wg.Wait()
	})
	return ans, branching, order
}

// nextScript: the odometer of the stateless depth-first search.
func nextScript(script, branching []int) []int {
	full := make([]int, len(branching))
	copy(full, script)
	for i := len(branching) - 1; i >= 0; i-- {
		if full[i]+1 < branching[i] {
			out := append([]int(nil), full[:i+1]...)
			out[i]++
			return out
		}
	}
	return nil
}

func (c *checker) interViolation(op *Op, variants [2]int, script []int, cache map[int]runResult) (*finding, []int, []int) {
	ans, branching, order := c.runOrder(op, variants, script)
	c.run.Eval(2)
	for l := 0; l < 2; l++ {
		want := c.fresh(op, variants[l], cache)
		if canonAnswer(ans[l]) == canonAnswer(want) {
			continue
		}
		full := make([]int, len(branching))
		copy(full, script)
		return &finding{Clause: clauseHistory, Kind: "answer of an interleaved Load differs from its solo answer", Where: answerKind(ans[l]) + " instead of " + answerKind(want),
			Detail: fmt.Sprintf("operation %s\n  two Loads on one instance: A = %s, B = %s\n  order: %s\n  Load %c, variables %s\n  interleaved: %s\n  solo:        %s",
				op.String(), variantNames[variants[0]], variantNames[variants[1]], strings.Join(order, " < "), 'A'+l, clip(string(c.variantVars(op, variants[l])), 300), clip(canonAnswer(ans[l]), 600), clip(canonAnswer(want), 600))}, full, branching
	}
	return nil, nil, branching
}

// exploreOrders enumerates every order; fn gets each violation; it returns the number of orders.
func (c *checker) exploreOrders(op *Op, variants [2]int, cache map[int]runResult, limit int, fn func(f *finding, script []int) bool) int {
	n := 0
	for script := []int{}; script != nil; {
		f, full, branching := c.interViolation(op, variants, script, cache)
		n++
		if f != nil && !fn(f, full) {
			return n
		}
		if n >= limit {
			c.run.Cap("more than the bound of interleavings for one operation")
			return n
		}
		script = nextScript(script, branching)
	}
	return n
}

func (c *checker) exploreInterleavings(op *Op, pairs [][2]int) {
	cache := map[int]runResult{}
	have := map[int]bool{}
	for _, v := range c.variants(op) {
		have[v] = true
	}
	for _, p := range pairs {
		if !have[p[0]] || !have[p[1]] {
			continue
		}
		if r := c.fresh(op, p[0], cache); r.Panic != "" || r.PlanErr != "" {
			return
		}
		if r := c.fresh(op, p[1], cache); r.Panic != "" || r.PlanErr != "" {
			return
		}
		// bound: at most maxInterCalls RPC calls per Load (two parallel lookups with a resolver each already give 4032 orders)
		if len(cache[p[0]].Calls) > maxInterCalls || len(cache[p[1]].Calls) > maxInterCalls {
			c.run.Count("interleaving_skipped_more_rpc_calls_than_bound", 1)
			continue
		}
		c.run.Count("interleaved_operation_pairs", 1)
		reported := map[string]bool{}
		n := c.exploreOrders(op, p, cache, 2000, func(f *finding, script []int) bool {
			if !reported[f.key()] {
				reported[f.key()] = true
				c.report(caseInput{Salt: c.salt, Base: op, Inter: &interCase{VA: p[0], VB: p[1], Script: script}}, *f)
			}
			return true
		})
		c.run.Count("interleavings", int64(n))
		c.run.AddStates(0, 0, int64(n))
	}
}

func (c *checker) shrinkInter(in caseInput, f finding) (caseInput, finding) {
	key := f.key()
	cur, curF := in, f
	budget := 1500
	for progress := true; progress && budget > 0; {
		progress = false
		for _, cand := range c.removals(cur.Base) {
			if budget <= 0 {
				break
			}
			if c.e.validate(cand) != nil {
				continue
			}
			var hit *finding
			var hitScript []int
			n := c.exploreOrders(cand, [2]int{cur.Inter.VA, cur.Inter.VB}, map[int]runResult{}, 300, func(nf *finding, script []int) bool {
				if nf.key() == key {
					hit, hitScript = nf, script
					return false
				}
				return true
			})
			budget -= n
			if hit != nil {
				cur.Base, curF = cand, *hit
				cur.Inter = &interCase{VA: cur.Inter.VA, VB: cur.Inter.VB, Script: hitScript}
				progress = true
				break
			}
		}
	}
	return cur, curF
}

// caseLabel: what was done to / with the base operation (part of the class).
func caseLabel(in caseInput) string {
	switch {
	case in.ListMode > 0 && in.ListMode < len(listModeNames):
		return "service list state: " + listModeNames[in.ListMode]
	case in.Inter != nil:
		return "two interleaved Loads on one instance (" + variantNames[in.Inter.VA] + " / " + variantNames[in.Inter.VB] + ")"
	case len(in.History) > 0:
		return histLabel(in.History)
	}
	return reformKinds(in.Reforms)
}

// replayStateful re-runs a history / interleaving case.
func (c *checker) replayStateful(in caseInput) []finding {
	var out []finding
	if in.Inter != nil {
		if f, _, _ := c.interViolation(in.Base, [2]int{in.Inter.VA, in.Inter.VB}, in.Inter.Script, map[int]runResult{}); f != nil {
			out = append(out, *f)
		}
		return out
	}
	if f, _ := c.histViolation(in.Base, in.History, map[int]runResult{}); f != nil {
		out = append(out, *f)
	}
	return out
}

var _ = vk.Hash
