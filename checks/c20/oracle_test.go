package c20

// The oracle: (i) shape of the answer against the gqlparser schema and the
// operation, (ii) the value at every field position (identified by the field
// node IDs along the path, not by response keys).

import (
	"bytes"
	"encoding/json"
	"fmt"
	"sort"
	"strconv"
	"strings"

	gast "github.com/vektah/gqlparser/v2/ast"
)

type problem struct {
	Kind  string // stable problem kind
	Where string // construct class of the field position where it was seen (stable)
	Path  string // response path (human)
	Msg   string // human
	ID    int    // field node ID at which the problem was seen (0 = none)
}

type judgement struct {
	stats    map[string]int64 // what the answer exercised (list lengths, nulls, runtime types)
	problems []problem
	pos      map[string]string // field position -> canonical leaf value / "null" / "len=N" / "object"
	posPath  map[string]string // field position -> response path (human)
	posWhere map[string]string // field position -> construct class
}

type walker struct {
	e   *env
	op  *Op
	j   *judgement
	fr  map[string]*FragDef
	cls func(typeName, field string) string
}

func decodeJSON(b []byte) (any, error) {
	dec := json.NewDecoder(bytes.NewReader(b))
	dec.UseNumber()
	var v any
	if err := dec.Decode(&v); err != nil {
		return nil, err
	}
	if dec.More() {
		return nil, fmt.Errorf("trailing data after JSON value")
	}
	return v, nil
}

func canonLeaf(v any) string {
	switch x := v.(type) {
	case nil:
		return "null"
	case json.Number:
		if f, err := strconv.ParseFloat(string(x), 64); err == nil {
			return "n:" + strconv.FormatFloat(f, 'g', -1, 64)
		}
		return "n:" + string(x)
	case string:
		return "s:" + x
	case bool:
		return "b:" + strconv.FormatBool(x)
	default:
		b, _ := json.Marshal(x)
		return "j:" + string(b)
	}
}

func (w *walker) add(kind, where, path, msg string, id int) {
	w.j.problems = append(w.j.problems, problem{Kind: kind, Where: where, Path: path, Msg: msg, ID: id})
}

func (w *walker) record(pos, val, path, where string, id int) {
	if old, ok := w.j.pos[pos]; ok && old != val {
		w.add("two selections of one field disagree", where, path, fmt.Sprintf("position %s has values %s and %s in the same answer", pos, old, val), id)
		return
	}
	w.j.pos[pos] = val
	w.j.posPath[pos] = path
	w.j.posWhere[pos] = where
}

func (w *walker) applies(concrete *gast.Definition, cond string) bool {
	if cond == "" || cond == concrete.Name {
		return true
	}
	cd := w.e.schema.Types[cond]
	if cd == nil {
		return false
	}
	for _, p := range w.e.schema.GetPossibleTypes(cd) {
		if p.Name == concrete.Name {
			return true
		}
	}
	return false
}

type group struct {
	key   string
	nodes []*Sel
}

// collect implements CollectFields for a concrete object type.
func (w *walker) collect(concrete *gast.Definition, lists [][]*Sel) []*group {
	var out []*group
	idx := map[string]*group{}
	var rec func(ss []*Sel)
	rec = func(ss []*Sel) {
		for _, s := range ss {
			switch s.Kind {
			case kField:
				g := idx[s.key()]
				if g == nil {
					g = &group{key: s.key()}
					idx[s.key()] = g
					out = append(out, g)
				}
				g.nodes = append(g.nodes, s)
			case kInline:
				if w.applies(concrete, s.TypeCond) {
					rec(s.Sel)
				}
			case kSpread:
				if f := w.fr[s.Spread]; f != nil && w.applies(concrete, f.TypeCond) {
					rec(f.Sel)
				}
			}
		}
	}
	for _, l := range lists {
		rec(l)
	}
	return out
}

func subLists(nodes []*Sel) [][]*Sel {
	var out [][]*Sel
	for _, n := range nodes {
		out = append(out, n.Sel)
	}
	return out
}

func ids(nodes []*Sel) []int {
	seen := map[int]bool{}
	var out []int
	for _, n := range nodes {
		if !seen[n.ID] {
			seen[n.ID] = true
			out = append(out, n.ID)
		}
	}
	sort.Ints(out)
	return out
}

// walkObject checks one JSON object against the fields collected for the
// concrete type and records the field positions.
func (w *walker) walkObject(concrete *gast.Definition, lists [][]*Sel, obj map[string]any, pos, path string, entity bool) {
	groups := w.collect(concrete, lists)
	want := map[string]bool{}
	for _, g := range groups {
		want[g.key] = true
		n0 := g.nodes[0]
		where := "__typename"
		var ft *gast.Type
		if n0.Name == "__typename" {
			ft = gast.NonNullNamedType("String", nil)
		} else {
			fd := concrete.Fields.ForName(n0.Name)
			if fd == nil {
				panic(fmt.Sprintf("c20 oracle: field %s.%s not in schema (generator bug)", concrete.Name, n0.Name))
			}
			ft = fd.Type
			where = w.cls(concrete.Name, n0.Name)
		}
		fpath := path + "." + g.key
		v, present := obj[g.key]
		if !present {
			w.add("selected response key is missing", where, fpath, fmt.Sprintf("object of type %s has no key %q (selected field %s)", concrete.Name, g.key, n0.Name), n0.ID)
			continue
		}
		for _, id := range ids(g.nodes) {
			fpos := pos + "/" + strconv.Itoa(id)
			if n0.Name == "__typename" {
				s, ok := v.(string)
				if !ok || s != concrete.Name {
					w.add("__typename is not the runtime type", where, fpath, fmt.Sprintf("__typename = %s for an object answered as %s", canonLeaf(v), concrete.Name), id)
				}
				w.record(fpos, canonLeaf(v), fpath, where, id)
				continue
			}
			w.complete(ft, g.nodes, v, fpos, fpath, where, id, n0.Name == "_entities" && concrete.Name == "Query")
		}
	}
	var extra []string
	for k := range obj {
		if !want[k] {
			if entity && k == "__typename" {
				// the data source always adds __typename to entities; the router always selects it. Tolerated, but it must be right.
				if s, _ := obj[k].(string); s != concrete.Name {
					w.add("__typename is not the runtime type", "entity", path+"."+k, fmt.Sprintf("entity __typename = %s, answered as %s", canonLeaf(obj[k]), concrete.Name), 0)
				}
				continue
			}
			extra = append(extra, k)
		}
	}
	sort.Strings(extra)
	for _, k := range extra {
		w.add("response key that was not selected", "object of type "+kindOfType(concrete, entity), path+"."+k, fmt.Sprintf("object of type %s has key %q which is not a selected response key for that type (selected: %v)", concrete.Name, k, keysOf(groups)), 0)
	}
}

func kindOfType(d *gast.Definition, entity bool) string {
	if entity {
		return "entity"
	}
	return "object"
}

func keysOf(gs []*group) []string {
	var out []string
	for _, g := range gs {
		out = append(out, g.key)
	}
	return out
}

func (w *walker) stat(k string) {
	if w.j.stats != nil {
		w.j.stats[k]++
	}
}

func (w *walker) complete(t *gast.Type, nodes []*Sel, v any, pos, path, where string, id int, entityList bool) {
	if !t.NonNull {
		if v == nil {
			w.stat("observed_nullable_position_null")
		} else {
			w.stat("observed_nullable_position_present")
		}
	}
	if t.Elem != nil {
		// projection of the service's list wrapper states: null and [] stay distinct
		outer := !strings.HasSuffix(pos, "]")
		if outer && (!t.NonNull || t.Elem.Elem != nil) {
			w.stat("list_wrapper_positions")
		}
		want := ""
		switch mode := w.e.svc.listMode; {
		case outer && !t.NonNull && (mode == listNullAbsent || mode == listNullNoInnerList):
			want = "null"
		case outer && !t.NonNull && mode == listEmpty:
			want = "[]"
		case !outer && !t.NonNull && mode == listInnerNull:
			want = "null"
		case !outer && !t.NonNull && mode == listInnerEmpty:
			want = "[]"
		}
		arr, isArr := v.([]any)
		got := "a list of " + strconv.Itoa(len(arr))
		switch {
		case v == nil:
			got = "null"
		case isArr && len(arr) == 0:
			got = "[]"
		case !isArr:
			got = canonLeaf(v)
		}
		if want != "" && got != want {
			w.add("null list and empty list of the service are not kept apart", where, path, fmt.Sprintf("service state %q: the list of type %s is %s in the service data, the answer has %s", listModeNames[w.e.svc.listMode], t.String(), want, got), id)
		}
	}
	if v == nil {
		if t.NonNull {
			w.add("null at a non-null position", where, path, fmt.Sprintf("null for type %s", t.String()), id)
		}
		w.record(pos, "null", path, where, id)
		return
	}
	if t.Elem != nil {
		arr, ok := v.([]any)
		if !ok {
			w.add("list position holds a non-list", where, path, fmt.Sprintf("%s for type %s", canonLeaf(v), t.String()), id)
			return
		}
		w.record(pos+"#len", "len="+strconv.Itoa(len(arr)), path, where, id)
		switch {
		case len(arr) >= 2:
			w.stat("observed_list_len_2plus")
		default:
			w.stat("observed_list_len_" + strconv.Itoa(len(arr)))
		}
		for i, el := range arr {
			w.complete(t.Elem, nodes, el, pos+"["+strconv.Itoa(i)+"]", path+"["+strconv.Itoa(i)+"]", where, id, entityList)
		}
		return
	}
	def := w.e.schema.Types[t.NamedType]
	switch def.Kind {
	case gast.Scalar:
		if msg := scalarProblem(t.NamedType, v); msg != "" {
			w.add("scalar of the wrong kind", where, path, msg, id)
		}
		w.record(pos, canonLeaf(v), path, where, id)
	case gast.Enum:
		s, ok := v.(string)
		if !ok || def.EnumValues.ForName(s) == nil {
			w.add("scalar of the wrong kind", where, path, fmt.Sprintf("%s is not a value of enum %s", canonLeaf(v), def.Name), id)
		}
		w.record(pos, canonLeaf(v), path, where, id)
	case gast.Object:
		obj, ok := v.(map[string]any)
		if !ok {
			w.add("object position holds a non-object", where, path, fmt.Sprintf("%s for type %s", canonLeaf(v), t.String()), id)
			return
		}
		w.record(pos, "object", path, where, id)
		w.walkObject(def, subLists(nodes), obj, pos, path, false)
	case gast.Interface, gast.Union:
		obj, ok := v.(map[string]any)
		if !ok {
			w.add("object position holds a non-object", where, path, fmt.Sprintf("%s for type %s", canonLeaf(v), t.String()), id)
			return
		}
		w.record(pos, "object", path, where, id)
		w.walkAbstract(def, subLists(nodes), obj, pos, path, where, id, entityList)
	default:
		panic("c20 oracle: output type kind " + string(def.Kind))
	}
}

// walkAbstract resolves the runtime type: pinned by a __typename value when one
// is in the object, otherwise any possible type whose selection the object
// satisfies completely (existential: no alarm while one possible type fits).
func (w *walker) walkAbstract(def *gast.Definition, lists [][]*Sel, obj map[string]any, pos, path, where string, id int, entity bool) {
	poss := append([]*gast.Definition(nil), w.e.schema.GetPossibleTypes(def)...)
	sort.Slice(poss, func(i, j int) bool { return poss[i].Name < poss[j].Name })
	// keys under which some possible type selects __typename
	tnKeys := map[string]bool{}
	for _, p := range poss {
		for _, g := range w.collect(p, lists) {
			if g.nodes[0].Name == "__typename" {
				tnKeys[g.key] = true
			}
		}
	}
	if entity {
		tnKeys["__typename"] = true
	}
	for _, k := range sortedKeys(tnKeys) {
		if v, ok := obj[k]; ok {
			s, _ := v.(string)
			var pinned *gast.Definition
			for _, p := range poss {
				if p.Name == s {
					pinned = p
				}
			}
			if pinned == nil {
				w.add("__typename is not a possible type", where, path+"."+k, fmt.Sprintf("%s is not a possible type of %s", canonLeaf(v), def.Name), id)
				return
			}
			w.stat("observed_runtime_type_pinned_by___typename")
			w.walkObject(pinned, lists, obj, pos, path, entity)
			return
		}
	}
	var best *judgement
	for _, p := range poss {
		trial := &walker{e: w.e, op: w.op, fr: w.fr, cls: w.cls, j: &judgement{pos: map[string]string{}, posPath: map[string]string{}, posWhere: map[string]string{}}}
		trial.walkObject(p, lists, obj, pos, path, entity)
		if len(trial.j.problems) == 0 {
			w.stat("observed_runtime_type_resolved_existentially")
			for k, v := range trial.j.pos {
				w.record(k, v, trial.j.posPath[k], trial.j.posWhere[k], 0)
			}
			return
		}
		if best == nil || len(trial.j.problems) < len(best.problems) {
			best = trial.j
		}
	}
	if best != nil {
		var msgs []string
		for _, p := range best.problems {
			msgs = append(msgs, p.Msg)
		}
		w.add("object fits the selection of no possible type", where, path, "no possible type of "+def.Name+" fits the object (no __typename selected); closest: "+strings.Join(msgs, "; "), id)
		for k, v := range best.pos {
			w.record(k, v, best.posPath[k], best.posWhere[k], 0)
		}
	}
}

func scalarProblem(name string, v any) string {
	switch name {
	case "String", "ID":
		if _, ok := v.(string); !ok {
			return fmt.Sprintf("%s for %s", canonLeaf(v), name)
		}
	case "Boolean":
		if _, ok := v.(bool); !ok {
			return fmt.Sprintf("%s for Boolean", canonLeaf(v))
		}
	case "Int":
		n, ok := v.(json.Number)
		if !ok {
			return fmt.Sprintf("%s for Int", canonLeaf(v))
		}
		i, err := strconv.ParseInt(string(n), 10, 64)
		if err != nil || i > 2147483647 || i < -2147483648 {
			return fmt.Sprintf("%s is not a 32-bit integer", string(n))
		}
	case "Float":
		n, ok := v.(json.Number)
		if !ok {
			return fmt.Sprintf("%s for Float", canonLeaf(v))
		}
		if _, err := strconv.ParseFloat(string(n), 64); err != nil {
			return fmt.Sprintf("%s is not a number", string(n))
		}
	}
	return ""
}

// judge checks the bytes returned by Load for op.
func (e *env) judge(op *Op, resp []byte, cls func(typeName, field string) string) *judgement {
	j := &judgement{pos: map[string]string{}, posPath: map[string]string{}, posWhere: map[string]string{}, stats: map[string]int64{}}
	w := &walker{e: e, op: op, j: j, fr: map[string]*FragDef{}, cls: cls}
	for i := range op.Frags {
		w.fr[op.Frags[i].Name] = &op.Frags[i]
	}
	v, err := decodeJSON(resp)
	if err != nil {
		w.add("answer is not JSON", "response", "$", err.Error(), 0)
		return j
	}
	top, ok := v.(map[string]any)
	if !ok {
		w.add("answer is not a JSON object", "response", "$", canonLeaf(v), 0)
		return j
	}
	if errs, has := top["errors"]; has {
		msg := ""
		if arr, ok := errs.([]any); ok && len(arr) > 0 {
			if eo, ok := arr[0].(map[string]any); ok {
				msg, _ = eo["message"].(string)
			}
		}
		w.add("error answer", errorClass(msg), "$.errors", msg, 0)
		return j
	}
	data, ok := top["data"].(map[string]any)
	if !ok {
		w.add("answer has no data object", "response", "$.data", canonLeaf(top["data"]), 0)
		return j
	}
	for k := range top {
		if k != "data" {
			w.add("response key that was not selected", "response", "$."+k, "unexpected top level key", 0)
		}
	}
	rootName := "Query"
	if op.OpType == "mutation" {
		rootName = "Mutation"
	}
	w.walkObject(e.schema.Types[rootName], [][]*Sel{op.Root}, data, "", "data", false)
	if len(op.Fed) > 0 {
		e.checkEntityAlignment(op, data, w)
	}
	return j
}

// checkEntityAlignment: _entities[i] answers representations[i].
func (e *env) checkEntityAlignment(op *Op, data map[string]any, w *walker) {
	var vars struct {
		Representations []map[string]any `json:"representations"`
	}
	if err := json.Unmarshal(op.Vars, &vars); err != nil {
		return
	}
	for _, s := range op.Root {
		if s.Kind != kField || s.Name != "_entities" {
			continue
		}
		arr, ok := data[s.key()].([]any)
		if !ok {
			continue
		}
		if len(arr) != len(vars.Representations) {
			w.add("entity list not aligned with representations", "entity", "data."+s.key(), fmt.Sprintf("%d entities for %d representations", len(arr), len(vars.Representations)), s.ID)
			continue
		}
		for i, el := range arr {
			obj, ok := el.(map[string]any)
			if !ok {
				continue
			}
			if tn, ok := obj["__typename"].(string); ok && tn != vars.Representations[i]["__typename"] {
				w.add("entity list not aligned with representations", "entity", fmt.Sprintf("data.%s[%d]", s.key(), i), fmt.Sprintf("entity %d is a %s, representation %d is a %v", i, tn, i, vars.Representations[i]["__typename"]), s.ID)
			}
		}
	}
}

// errorClass normalises a run time error message into a stable class: digits
// become #, identifiers after "field", "message", "type" ... become "…".
func errorClass(msg string) string {
	words := strings.Fields(msg)
	for i, w := range words {
		if i > 0 {
			switch strings.ToLower(strings.Trim(words[i-1], ":,")) {
			case "field", "message", "type", "operation", "enum", "fragment", "argument", "method":
				words[i] = "…"
				continue
			}
		}
		hasDigit := false
		for _, r := range w {
			if r >= '0' && r <= '9' {
				hasDigit = true
			}
		}
		if hasDigit || strings.ContainsAny(w, "\"'`") {
			words[i] = "#"
		}
	}
	s := strings.Join(words, " ")
	if len(s) > 100 {
		s = s[:100]
	}
	return s
}
