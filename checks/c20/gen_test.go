package c20

// Bounded exhaustive generator of base operations: for every root field of the
// menu, every selection tree with depth <= D, width <= W (items per selection
// set) and at most N field nodes, over the "eligible" fields of each type (the
// first field of every mapping-construct class, in schema order).

import (
	"encoding/json"
	"fmt"
	"sort"
	"strings"

	gast "github.com/vektah/gqlparser/v2/ast"
)

type tmpl struct {
	sels []*Sel
	cost int
}

type gen struct {
	e           *env
	width       int
	memo        map[string][]tmpl
	elig        map[string][]*gast.FieldDefinition
	classOf     map[string]string // Type.field -> construct class
	varDefs     map[string]VarDef
	varVals     map[string]any
	classesSeen map[string]bool
}

func newGen(e *env, width int) *gen {
	return &gen{e: e, width: width, memo: map[string][]tmpl{}, elig: map[string][]*gast.FieldDefinition{},
		classOf: map[string]string{}, varDefs: map[string]VarDef{}, varVals: map[string]any{}, classesSeen: map[string]bool{}}
}

func (g *gen) kindWord(name string) string {
	d := g.e.schema.Types[name]
	if d == nil {
		return name
	}
	switch d.Kind {
	case gast.Scalar:
		return name
	case gast.Enum:
		return "enum"
	case gast.Object:
		return "object:" + name
	case gast.Interface:
		return "interface:" + name
	case gast.Union:
		return "union:" + name
	}
	return name
}

func typeShape(t *gast.Type, word func(string) string) string {
	if t.Elem != nil {
		s := "[" + typeShape(t.Elem, word) + "]"
		if t.NonNull {
			s += "!"
		}
		return s
	}
	s := word(t.NamedType)
	if t.NonNull {
		s += "!"
	}
	return s
}

// fieldKind: plain | resolver | requires | external
func (g *gen) fieldKind(def *gast.Definition, f *gast.FieldDefinition) string {
	switch {
	case f.Directives.ForName("external") != nil:
		return "external"
	case f.Directives.ForName("requires") != nil:
		return "requires"
	case def.Name != "Query" && def.Name != "Mutation" && (len(f.Arguments) > 0 || f.Directives.ForName("connect__fieldResolver") != nil):
		return "resolver"
	}
	return "plain"
}

// constructClass is the mapping construct a field exercises.
func (g *gen) constructClass(def *gast.Definition, f *gast.FieldDefinition) string {
	k := g.fieldKind(def, f)
	c := k + " " + typeShape(f.Type, g.kindWord)
	if len(f.Arguments) > 0 {
		var as []string
		for _, a := range f.Arguments {
			as = append(as, typeShape(a.Type, func(n string) string {
				d := g.e.schema.Types[n]
				if d != nil && d.Kind == gast.InputObject {
					return "input"
				}
				if d != nil && d.Kind == gast.Enum {
					return "enum"
				}
				return n
			}))
		}
		c += " args(" + strings.Join(as, ",") + ")"
	}
	if k == "requires" {
		if d := f.Directives.ForName("requires"); d != nil {
			if a := d.Arguments.ForName("fields"); a != nil {
				sel := a.Value.Raw
				if strings.Contains(sel, "... on") {
					c += " requires-abstract"
				} else if strings.Contains(sel, "{") {
					c += " requires-nested"
				}
			}
		}
	}
	return c
}

func (g *gen) eligible(def *gast.Definition) []*gast.FieldDefinition {
	if v, ok := g.elig[def.Name]; ok {
		return v
	}
	seen := map[string]bool{}
	var out []*gast.FieldDefinition
	for _, f := range def.Fields {
		if strings.HasPrefix(f.Name, "__") {
			continue
		}
		if g.fieldKind(def, f) == "external" {
			continue
		}
		c := g.constructClass(def, f)
		g.classOf[def.Name+"."+f.Name] = c
		if seen[c] {
			continue
		}
		seen[c] = true
		out = append(out, f)
	}
	g.elig[def.Name] = out
	return out
}

func isComposite(d *gast.Definition) bool {
	return d != nil && (d.Kind == gast.Object || d.Kind == gast.Interface || d.Kind == gast.Union)
}

// fieldNode builds the selection node of f (arguments become variables).
func (g *gen) fieldNode(def *gast.Definition, f *gast.FieldDefinition) *Sel {
	n := &Sel{Kind: kField, Name: f.Name}
	for _, a := range f.Arguments {
		v := fmt.Sprintf("%s_%s_%s", def.Name, f.Name, a.Name)
		if def.Name == "Query" && f.Name == "_entities" {
			v = "representations"
		}
		n.Args = append(n.Args, Arg{Name: a.Name, Var: v})
		if _, ok := g.varDefs[v]; !ok {
			g.varDefs[v] = VarDef{Name: v, Type: a.Type.String()}
			g.varVals[v] = g.valueFor(a.Type, 0, true)
		}
	}
	return n
}

// valueFor: one canonical value per input type.
func (g *gen) valueFor(t *gast.Type, depth int, top bool) any {
	if t.Elem != nil {
		n := 1
		if top {
			n = 2
		}
		out := make([]any, 0, n)
		for i := 0; i < n; i++ {
			out = append(out, g.valueFor(t.Elem, depth, false))
		}
		return out
	}
	d := g.e.schema.Types[t.NamedType]
	switch t.NamedType {
	case "ID":
		return "id-1"
	case "String":
		return "str"
	case "Int":
		return 7
	case "Float":
		return 2.5
	case "Boolean":
		return true
	}
	if d == nil {
		return nil
	}
	switch d.Kind {
	case gast.Enum:
		return d.EnumValues[0].Name
	case gast.InputObject:
		o := map[string]any{}
		for _, f := range d.Fields {
			fd := g.e.schema.Types[f.Type.Name()]
			if fd != nil && fd.Kind == gast.InputObject && depth >= 2 {
				if f.Type.NonNull {
					panic("c20 gen: required recursive input " + d.Name + "." + f.Name)
				}
				continue
			}
			o[f.Name] = g.valueFor(f.Type, depth+1, false)
		}
		return o
	}
	return nil
}

func combos(items [][]tmpl, width, budget int, emit func(tmpl)) {
	var rec func(start, used int, cur []*Sel, cost int)
	rec = func(start, used int, cur []*Sel, cost int) {
		if used > 0 {
			emit(tmpl{sels: append([]*Sel(nil), cur...), cost: cost})
		}
		if used == width {
			return
		}
		for i := start; i < len(items); i++ {
			for _, opt := range items[i] {
				if cost+opt.cost > budget {
					continue
				}
				rec(i+1, used+1, append(cur, opt.sels...), cost+opt.cost)
			}
		}
	}
	rec(0, 0, nil, 0)
}

// fieldOptions: every way of selecting field f of def with depth d (f itself
// is level 1) and at most n field nodes.
func (g *gen) fieldOptions(def *gast.Definition, f *gast.FieldDefinition, d, n int) []tmpl {
	if n < 1 || d < 1 {
		return nil
	}
	ft := g.e.schema.Types[f.Type.Name()]
	if !isComposite(ft) {
		return []tmpl{{sels: []*Sel{g.fieldNode(def, f)}, cost: 1}}
	}
	if d < 2 || n < 2 {
		return nil
	}
	var out []tmpl
	for _, sub := range g.selections(ft.Name, d-1, n-1, false) {
		node := g.fieldNode(def, f)
		node.Sel = sub.sels
		out = append(out, tmpl{sels: []*Sel{node}, cost: 1 + sub.cost})
	}
	return out
}

// selections: every selection set on typeName with depth <= d, <= width items, <= n field nodes.
// entityTop: the selection set is the body of an entity fragment directly below
// _entities - the only place where the router asks a subgraph for @requires fields.
func (g *gen) selections(typeName string, d, n int, entityTop bool) []tmpl {
	key := fmt.Sprintf("%s/%d/%d/%v", typeName, d, n, entityTop)
	if v, ok := g.memo[key]; ok {
		return v
	}
	def := g.e.schema.Types[typeName]
	var items [][]tmpl
	if def.Kind == gast.Object || def.Kind == gast.Interface {
		for _, f := range g.eligible(def) {
			if !entityTop && g.fieldKind(def, f) == "requires" {
				continue
			}
			if opts := g.fieldOptions(def, f, d, n); len(opts) > 0 {
				items = append(items, opts)
			}
		}
	}
	if def.Kind == gast.Interface || def.Kind == gast.Union {
		poss := g.e.schema.GetPossibleTypes(def)
		sorted := append([]*gast.Definition(nil), poss...)
		sort.Slice(sorted, func(i, j int) bool { return sorted[i].Name < sorted[j].Name })
		for _, p := range sorted {
			var opts []tmpl
			for _, sub := range g.selections(p.Name, d, n, def.Name == "_Entity") {
				opts = append(opts, tmpl{sels: []*Sel{{Kind: kInline, TypeCond: p.Name, Sel: sub.sels}}, cost: sub.cost})
			}
			if len(opts) > 0 {
				items = append(items, opts)
			}
		}
	}
	var out []tmpl
	combos(items, g.width, n, func(t tmpl) { out = append(out, t) })
	g.memo[key] = out
	return out
}

// finalize clones a template into an operation with numbered field nodes.
func (g *gen) finalize(opType string, root []*Sel, fed []FedCfg, vars map[string]any) *Op {
	op := &Op{OpType: opType, Root: cloneSels(root), Fed: fed}
	id := 0
	var number func([]*Sel)
	number = func(ss []*Sel) {
		for _, s := range ss {
			if s.Kind == kField {
				id++
				s.ID = id
			}
			number(s.Sel)
		}
	}
	number(op.Root)
	used := op.usedVars()
	vals := map[string]any{}
	for _, v := range sortedKeys(used) {
		op.VarDefs = append(op.VarDefs, g.varDefs[v])
		if x, ok := vars[v]; ok {
			vals[v] = x
		} else {
			vals[v] = g.varVals[v]
		}
	}
	b, err := json.Marshal(vals)
	if err != nil {
		panic(err)
	}
	op.Vars = b
	return op
}

// ---------------------------------------------------------------------------
// the menu

var queryMenu = []string{
	"users", "user", "nestedType", "recursiveType",
	"typeFilterWithArguments", "typeWithMultipleFilterFields", "complexFilterType", "calculateTotals",
	"categories", "category", "categoriesByKind", "categoriesByKinds", "filterCategories",
	"randomPet", "allPets", "search", "randomSearchResult",
	"nullableFieldsType", "nullableFieldsTypeById",
	"blogPost", "author",
	"testContainer", "testContainers", "conditionalSearch",
}

var mutationMenu = []string{"createUser", "performAction", "createNullableFieldsType", "createBlogPost", "createAuthor"}

// rootPairs: operations with two root fields (two RPC calls merged into one answer).
var rootPairs = [][2]string{{"users", "category"}, {"randomPet", "users"}, {"category", "nullableFieldsType"}}

// entity representations: every external field a @requires selection can ask for.
func storageRep(id string, variant int) map[string]any {
	item := map[string]any{"__typename": "PalletItem", "name": "pallet-" + id, "palletCount": 3,
		"handler": map[string]any{"name": "h-" + id, "assignedItem": map[string]any{"__typename": "ContainerItem", "name": "c-" + id, "containerSize": "L"}},
		"specs":   map[string]any{"name": "spec-" + id, "dimensions": map[string]any{"length": 1.5, "width": 2.5}}}
	if variant == 1 {
		item = map[string]any{"__typename": "ContainerItem", "name": "cont-" + id, "containerSize": "XL",
			"handler": map[string]any{"name": "h-" + id},
			"specs":   map[string]any{"name": "spec-" + id, "dimensions": map[string]any{"length": 3.5, "width": 4.5}}}
	}
	op := map[string]any{"__typename": "StorageSuccess", "message": "ok-" + id, "completedAt": "t-" + id}
	if variant == 1 {
		op = map[string]any{"__typename": "StorageFailure", "message": "bad-" + id, "errorCode": "E" + id}
	}
	var optTags any = []any{"o1-" + id}
	if variant == 1 {
		optTags = nil
	}
	return map[string]any{
		"__typename": "Storage", "id": id,
		"itemCount": 10 + variant, "restockData": map[string]any{"lastRestockDate": "2024-01-0" + fmt.Sprint(1+variant)},
		"tags": []any{"t1-" + id, "t2-" + id}, "optionalTags": optTags,
		"metadata":        map[string]any{"capacity": 100 + variant, "zone": "z-" + id, "priority": 2},
		"metadataHistory": []any{map[string]any{"capacity": 5, "zone": "a"}, map[string]any{"capacity": 6, "zone": "b"}},
		"storageKind":     "BOOK", "categoryInfo": map[string]any{"kind": "OTHER", "name": "ci-" + id},
		"primaryItem":     item, "lastStorageOperation": op,
		"securitySetup": map[string]any{"securityLevel": "high", "primaryItem": item},
	}
}

func representations(types map[string]bool) []any {
	var out []any
	// interleaved on purpose: Product, Storage, Product, Warehouse, Storage, Warehouse
	if types["Product"] {
		out = append(out, map[string]any{"__typename": "Product", "id": "p1"})
	}
	if types["Storage"] {
		out = append(out, storageRep("s1", 0))
	}
	if types["Product"] {
		out = append(out, map[string]any{"__typename": "Product", "id": "p2"})
	}
	if types["Warehouse"] {
		out = append(out, map[string]any{"__typename": "Warehouse", "id": "w1", "inventoryCount": 4, "restockData": map[string]any{"lastRestockDate": "2024-02-01"}})
	}
	if types["Storage"] {
		out = append(out, storageRep("s2", 1))
	}
	if types["Warehouse"] {
		out = append(out, map[string]any{"__typename": "Warehouse", "id": "w2", "inventoryCount": 5, "restockData": map[string]any{"lastRestockDate": "2024-02-02"}})
	}
	return out
}

// fedConfig: keys and @requires selections of the three entity types, from the schema.
func (g *gen) fedConfig() []FedCfg {
	var out []FedCfg
	for _, tn := range []string{"Product", "Storage", "Warehouse"} {
		def := g.e.schema.Types[tn]
		if k := def.Directives.ForName("key"); k != nil {
			out = append(out, FedCfg{TypeName: tn, SelectionSet: k.Arguments.ForName("fields").Value.Raw})
		}
		for _, f := range def.Fields {
			if r := f.Directives.ForName("requires"); r != nil {
				out = append(out, FedCfg{TypeName: tn, FieldName: f.Name, SelectionSet: r.Arguments.ForName("fields").Value.Raw})
			}
		}
	}
	return out
}

func entityTypes(root []*Sel) map[string]bool {
	ts := map[string]bool{}
	var walk func([]*Sel, int)
	walk = func(ss []*Sel, lvl int) {
		for _, s := range ss {
			if s.Kind == kInline && (s.TypeCond == "Product" || s.TypeCond == "Storage" || s.TypeCond == "Warehouse") {
				ts[s.TypeCond] = true
			}
			if s.Kind == kInline || lvl == 0 {
				walk(s.Sel, lvl+1)
			}
		}
	}
	walk(root, 0)
	return ts
}

// forEachBase enumerates the base operations in a fixed order (simplest menu
// entries first). fn gets the running index and a constructor, so that a shard
// only materialises its own operations. It stops when fn returns false.
func (g *gen) forEachBase(depth, size int, fn func(i int, mk func() *Op) bool) int {
	i := 0
	q := g.e.schema.Types["Query"]
	m := g.e.schema.Types["Mutation"]
	// FIRST (a deadline cap must not cut them off) the small family of fragment-free selections of abstract
	// fields (root fields and below every resolver / @requires answer), see deep_test.go. They are sharded by
	// their own index, so that the shard of every other operation is what it was without them.
	deep := g.deepAbstractOps()
	for k, mk := range deep {
		if !fn(k, mk) {
			return k
		}
	}
	emit := func(mk func() *Op) bool {
		ok := fn(i, mk)
		i++
		return ok
	}
	for _, name := range queryMenu {
		for _, t := range g.fieldOptions(q, q.Fields.ForName(name), depth, size) {
			t := t
			if !emit(func() *Op { return g.finalize("query", t.sels, nil, nil) }) {
				return i
			}
		}
	}
	for _, name := range mutationMenu {
		for _, t := range g.fieldOptions(m, m.Fields.ForName(name), depth, size) {
			t := t
			if !emit(func() *Op { return g.finalize("mutation", t.sels, nil, nil) }) {
				return i
			}
		}
	}
	for _, p := range rootPairs {
		for _, a := range g.fieldOptions(q, q.Fields.ForName(p[0]), depth, size-2) {
			for _, b := range g.fieldOptions(q, q.Fields.ForName(p[1]), depth, size-a.cost) {
				a, b := a, b
				if !emit(func() *Op {
					return g.finalize("query", append(append([]*Sel{}, a.sels...), b.sels...), nil, nil)
				}) {
					return i
				}
			}
		}
	}
	fed := g.fedConfig()
	for _, t := range g.fieldOptions(q, q.Fields.ForName("_entities"), depth, size) {
		t := t
		if !emit(func() *Op {
			reps := representations(entityTypes(t.sels))
			return g.finalize("query", t.sels, fed, map[string]any{"representations": reps})
		}) {
			return i
		}
	}
	return i
}
