package c02

import (
	"encoding/json"
	"fmt"
	"strings"
)

// ---------------------------------------------------------------------------
// Payloads. JSON values are Go values: nil, bool, string, json.Number,
// []any, map[string]any. The baseline of a shape is the well-typed answer a
// subgraph would give (two elements per list, both implementers of an abstract
// type, pairwise distinct leaf values so that swapped elements are visible).
// A deviation replaces the value at one position (or removes the key).
// ---------------------------------------------------------------------------

const listLen = 2

type genState struct {
	n  int // leaf counter
	rt int // abstract object counter
}

func num(s string) json.Number { return json.Number(s) }

func baselineLeaf(scalar string, g *genState) any {
	g.n++
	switch scalar {
	case "String":
		return fmt.Sprintf("s%d", g.n)
	case "Int":
		return num(fmt.Sprint(g.n))
	case "Float":
		return num(fmt.Sprintf("%d.5", g.n))
	case "Boolean":
		return g.n%2 == 1
	case "ID":
		return fmt.Sprintf("id%d", g.n)
	case "E":
		return []string{"A", "B"}[g.n%2]
	case "J":
		return fmt.Sprintf("j%d", g.n)
	}
	panic("baselineLeaf: " + scalar)
}

func baselineValue(n *tnode, g *genState) any {
	switch n.kind {
	case kLeaf:
		return baselineLeaf(n.scalar, g)
	case kList:
		l := make([]any, listLen)
		for i := range l {
			l[i] = baselineValue(n.item, g)
		}
		return l
	default:
		o := map[string]any{}
		rt := n.typeName
		if n.abstract {
			rt = n.possible[g.rt%len(n.possible)]
			g.rt++
			o["__typename"] = rt // the planner asks the subgraph for it
		}
		for _, f := range n.fieldsFor(rt) {
			if f.static != "" {
				continue
			}
			if f.key == "__typename" {
				o["__typename"] = rt
				continue
			}
			o[f.key] = baselineValue(f.node, g)
		}
		return o
	}
}

func baseline(tree *tnode) map[string]any {
	return baselineValue(tree, &genState{}).(map[string]any)
}

// Deviation is one local change of the payload.
type Deviation struct {
	Path   []any  `json:"path"` // strings and ints (ints arrive as float64 from a replay file)
	Kind   string `json:"kind"`
	Absent bool   `json:"absent,omitempty"`
	Value  any    `json:"value,omitempty"`
	// NotJudged: the strictness table leaves the well-typedness of this value open.
	NotJudged string `json:"not_judged,omitempty"`
	role      string // structural description of the position
}

// sliceKinds: the representative deviations (null + one wrong kind per node
// kind) that the quick tier combines with a deviation in a sibling field.
var sliceKinds = map[string]bool{"null": true, "missing-typename": true, "number-for-string": true, "string-for-number": true,
	"string-for-boolean": true, "boolean-for-id": true, "invalid-enum-value": true, "scalar-for-array": true, "scalar-for-object": true}

// fieldDepth is the index of the key of the field under test (and of its
// siblings k, z) in a payload path.
func (s Shape) fieldDepth() int {
	switch s.Ctx {
	case "root":
		return 0
	case "nullobj", "nnobj":
		return 1
	}
	return 2
}

// underField: the deviation is at or below the field under test.
func (d Deviation) underField(s Shape) bool {
	fd := s.fieldDepth()
	return len(d.Path) > fd && d.Path[fd] == "f"
}

// atSibling: the deviation replaces a sibling (k rendered before, z rendered
// after the field under test) in some instance of the enclosing object.
func (d Deviation) atSibling(s Shape) bool {
	fd := s.fieldDepth()
	return len(d.Path) == fd+1 && (d.Path[fd] == "k" || d.Path[fd] == "z")
}

func (d Deviation) String() string {
	v := "absent"
	if !d.Absent {
		b, _ := json.Marshal(d.Value)
		v = string(b)
	}
	return fmt.Sprintf("%s at %s := %s", d.Kind, pathString(d.Path), v)
}

func pathString(p []any) string {
	b, _ := json.Marshal(p)
	return string(b)
}

// roleString abstracts a path: list indices become [].
func roleString(p []any) string {
	var b strings.Builder
	for i, e := range p {
		switch x := e.(type) {
		case string:
			if i > 0 {
				b.WriteByte('.')
			}
			b.WriteString(x)
		default:
			b.WriteString("[]")
		}
	}
	return b.String()
}

type position struct {
	path  []any
	node  *tnode // type governing the value at this position (nil for a hidden __typename key)
	keyed bool   // object key (can be absent) vs list element
	// typename key of an object (selected or hidden)
	typenameOf *tnode
	current    any
}

func clonePath(p []any, e any) []any {
	q := make([]any, len(p)+1)
	copy(q, p)
	q[len(p)] = e
	return q
}

// positions walks type tree and baseline together.
func positions(n *tnode, v any, path []any, keyed bool, out *[]position) {
	if len(path) > 0 {
		*out = append(*out, position{path: path, node: n, keyed: keyed, current: v})
	}
	switch n.kind {
	case kList:
		for i, e := range v.([]any) {
			positions(n.item, e, clonePath(path, i), false, out)
		}
	case kObject:
		o := v.(map[string]any)
		rt := n.typeName
		if n.abstract {
			rt, _ = o["__typename"].(string)
		}
		if tn, ok := o["__typename"]; ok {
			*out = append(*out, position{path: clonePath(path, "__typename"), keyed: true, typenameOf: n, current: tn})
		}
		for _, f := range n.fieldsFor(rt) {
			if f.static != "" || f.key == "__typename" {
				continue
			}
			positions(f.node, o[f.key], clonePath(path, f.key), true, out)
		}
	}
}

var objectForScalar = map[string]any{"a": num("1")}

// menu lists the deviations applicable at one position, simplest first.
func menu(p position) []Deviation {
	var out []Deviation
	add := func(kind string, v any) { out = append(out, Deviation{Path: p.path, Kind: kind, Value: v}) }
	amb := func(kind string, v any, why string) {
		out = append(out, Deviation{Path: p.path, Kind: kind, Value: v, NotJudged: why})
	}
	if p.typenameOf != nil {
		o := p.typenameOf
		out = append(out, Deviation{Path: p.path, Kind: "missing-typename", Absent: true})
		add("null-typename", nil)
		add("unknown-typename", "ZZ")
		add("number-for-typename", num("5"))
		if o.abstract {
			for _, t := range o.possible {
				if t != p.current {
					add("other-typename", t)
				}
			}
		}
		return out
	}
	add("null", nil)
	if p.keyed {
		out = append(out, Deviation{Path: p.path, Kind: "absent", Absent: true})
	}
	n := p.node
	switch n.kind {
	case kLeaf:
		switch n.scalar {
		case "String":
			add("number-for-string", num("5"))
			add("boolean-for-string", true)
			add("object-for-scalar", objectForScalar)
		case "Int":
			add("string-for-number", "5")
			add("float-for-int", num("1.5"))
			add("boolean-for-number", true)
			add("object-for-scalar", objectForScalar)
			amb("int-beyond-32-bit", num("3000000000"), "Int: the table only demands an integral number, the spec a 32-bit one")
		case "Float":
			add("string-for-number", "1.5")
			add("int-for-float", num("2")) // well-typed
			add("boolean-for-number", true)
			add("object-for-scalar", objectForScalar)
		case "Boolean":
			add("string-for-boolean", "true")
			add("number-for-boolean", num("1"))
			add("object-for-scalar", objectForScalar)
		case "ID":
			add("int-for-id", num("7")) // well-typed
			add("boolean-for-id", true)
			add("object-for-scalar", objectForScalar)
			amb("float-for-id", num("1.5"), "ID: the table accepts string or integer and is silent about other numbers")
		case "E":
			add("invalid-enum-value", "C")
			add("inaccessible-enum-value", "H")
			add("number-for-enum", num("5"))
			add("object-for-scalar", objectForScalar)
		case "J": // custom scalar: every JSON value is well-typed
			add("number-for-custom-scalar", num("5"))
			add("object-for-custom-scalar", objectForScalar)
			add("array-for-custom-scalar", []any{num("1")})
		}
		if n.scalar != "J" {
			add("array-for-scalar", []any{num("1")})
		}
	case kList:
		add("empty-list", []any{}) // well-typed
		add("scalar-for-array", "x")
		add("object-for-array", objectForScalar)
	case kObject:
		add("array-for-object", []any{num("1")})
		add("scalar-for-object", "x")
		add("empty-object", map[string]any{})
	}
	return out
}

// singles enumerates every single deviation of a baseline.
func singles(tree *tnode, base map[string]any) []Deviation {
	var ps []position
	positions(tree, base, nil, false, &ps)
	var out []Deviation
	for _, p := range ps {
		for _, d := range menu(p) {
			d.role = roleString(d.Path)
			out = append(out, d)
		}
	}
	return out
}

// independent reports whether neither path is a prefix of the other.
func independent(a, b []any) bool {
	n := len(a)
	if len(b) < n {
		n = len(b)
	}
	for i := 0; i < n; i++ {
		if !sameStep(a[i], b[i]) {
			return true
		}
	}
	return false
}

func stepInt(e any) (int, bool) {
	switch x := e.(type) {
	case int:
		return x, true
	case float64:
		return int(x), true
	case json.Number:
		i, err := x.Int64()
		return int(i), err == nil
	}
	return 0, false
}

func sameStep(a, b any) bool {
	if s, ok := a.(string); ok {
		t, ok2 := b.(string)
		return ok2 && s == t
	}
	i, ok1 := stepInt(a)
	j, ok2 := stepInt(b)
	return ok1 && ok2 && i == j
}

func deepCopy(v any) any {
	switch x := v.(type) {
	case map[string]any:
		m := make(map[string]any, len(x))
		for k, e := range x {
			m[k] = deepCopy(e)
		}
		return m
	case []any:
		l := make([]any, len(x))
		for i, e := range x {
			l[i] = deepCopy(e)
		}
		return l
	}
	return v
}

// apply returns a copy of base with the deviations applied.
func apply(base map[string]any, devs []Deviation) (map[string]any, error) {
	out := deepCopy(base).(map[string]any)
	for _, d := range devs {
		var cur any = out
		for i, e := range d.Path {
			last := i == len(d.Path)-1
			switch c := cur.(type) {
			case map[string]any:
				k, ok := e.(string)
				if !ok {
					return nil, fmt.Errorf("path %s: key expected at %d", pathString(d.Path), i)
				}
				if last {
					if d.Absent {
						delete(c, k)
					} else {
						c[k] = deepCopy(normalizeNumbers(d.Value))
					}
				} else {
					cur = c[k]
				}
			case []any:
				idx, ok := stepInt(e)
				if !ok || idx < 0 || idx >= len(c) {
					return nil, fmt.Errorf("path %s: index expected at %d", pathString(d.Path), i)
				}
				if last {
					if d.Absent {
						return nil, fmt.Errorf("path %s: cannot remove a list element", pathString(d.Path))
					}
					c[idx] = deepCopy(normalizeNumbers(d.Value))
				} else {
					cur = c[idx]
				}
			default:
				return nil, fmt.Errorf("path %s: no container at %d", pathString(d.Path), i)
			}
		}
	}
	return out, nil
}

// normalizeNumbers turns float64 (from a replay file decoded without UseNumber)
// into json.Number.
func normalizeNumbers(v any) any {
	switch x := v.(type) {
	case float64:
		b, _ := json.Marshal(x)
		return json.Number(string(b))
	case map[string]any:
		for k, e := range x {
			x[k] = normalizeNumbers(e)
		}
	case []any:
		for i, e := range x {
			x[i] = normalizeNumbers(e)
		}
	}
	return v
}

func mustJSON(v any) []byte {
	b, err := json.Marshal(v)
	if err != nil {
		panic(err)
	}
	return b
}
