package c02

import (
	"encoding/json"
	"fmt"
	"strings"
)

// ---------------------------------------------------------------------------
// Payloads. JSON values are Go values: nil, bool, string, json.Number,
// []any, map[string]any. The baseline of a shape is the well-typed answer a
// subgraph would give (two elements per list, both implementers of an abstract
// type, pairwise distinct leaf values so that swapped elements are visible).
// A deviation replaces the value at one position (or removes the key).
// ---------------------------------------------------------------------------

const listLen = 2

type genState struct {
	n  int            // leaf counter
	rt map[*tnode]int // per abstract node: how many objects were generated (alternates the implementers)
}

func num(s string) json.Number { return json.Number(s) }

func baselineLeaf(scalar string, g *genState) any {
	g.n++
	switch scalar {
	case "String":
		return fmt.Sprintf("s%d", g.n)
	case "Int":
		return num(fmt.Sprint(g.n))
	case "Float":
		return num(fmt.Sprintf("%d.5", g.n))
	case "Boolean":
		return g.n%2 == 1
	case "ID":
		return fmt.Sprintf("id%d", g.n)
	case "E":
		return []string{"A", "B"}[g.n%2]
	case "J":
		return fmt.Sprintf("j%d", g.n)
	}
	panic("baselineLeaf: " + scalar)
}

func baselineValue(n *tnode, g *genState) any {
	switch n.kind {
	case kLeaf:
		return baselineLeaf(n.scalar, g)
	case kList:
		l := make([]any, listLen)
		for i := range l {
			l[i] = baselineValue(n.item, g)
		}
		return l
	default:
		o := map[string]any{}
		rt := n.typeName
		if n.abstract {
			rt = n.possible[g.rt[n]%len(n.possible)]
			g.rt[n]++
			o["__typename"] = rt // the planner asks the subgraph for it
		}
		for _, f := range n.fieldsFor(rt) {
			if f.static != "" {
				continue
			}
			if f.key == "__typename" {
				o["__typename"] = rt
				continue
			}
			o[f.key] = baselineValue(f.node, g)
		}
		return o
	}
}

func baseline(tree *tnode) map[string]any {
	return baselineValue(tree, &genState{rt: map[*tnode]int{}}).(map[string]any)
}

// Deviation is one local change of the payload.
type Deviation struct {
	Path   []any  `json:"path"` // strings and ints (ints arrive as float64 from a replay file)
	Kind   string `json:"kind"`
	Absent bool   `json:"absent,omitempty"`
	Value  any    `json:"value,omitempty"`
	// NotJudged: the strictness table leaves the well-typedness of this value open.
	NotJudged string `json:"not_judged,omitempty"`
	role      string // structural description of the position
}

// sliceKinds: the representative deviations (null + one wrong kind per node
// kind) that the quick tier combines with a deviation in a sibling field.
var sliceKinds = map[string]bool{"null": true, "missing-typename": true, "number-for-string": true, "string-for-number": true,
	"string-for-boolean": true, "boolean-for-id": true, "invalid-enum-value": true, "scalar-for-array": true, "scalar-for-object": true}

// fieldDepth is the index of the key of the field under test (and of its
// siblings k, z) in a payload path.
func (s Shape) fieldDepth() int {
	switch s.Ctx {
	case "root":
		return 0
	case "nullobj", "nnobj":
		return 1
	}
	return 2
}

// underField: the deviation is at or below the field under test.
func (d Deviation) underField(s Shape) bool {
	fd := s.fieldDepth()
	return len(d.Path) > fd && d.Path[fd] == "f"
}

// atSibling: the deviation replaces a sibling (k rendered before, z rendered
// after the field under test) in some instance of the enclosing object.
func (d Deviation) atSibling(s Shape) bool {
	fd := s.fieldDepth()
	return len(d.Path) == fd+1 && (d.Path[fd] == "k" || d.Path[fd] == "z")
}

func (d Deviation) String() string {
	v := "absent"
	if !d.Absent {
		b, _ := json.Marshal(d.Value)
		v = string(b)
	}
	return fmt.Sprintf("%s at %s := %s", d.Kind, pathString(d.Path), v)
}

func pathString(p []any) string {
	b, _ := json.Marshal(p)
	return string(b)
}

// roleString abstracts a path: list indices become [].
func roleString(p []any) string {
	var b strings.Builder
	for i, e := range p {
		switch x := e.(type) {
		case string:
			if i > 0 {
				b.WriteByte('.')
			}
			b.WriteString(x)
		default:
			b.WriteString("[]")
		}
	}
	return b.String()
}

type position struct {
	path  []any
	node  *tnode // type governing the value at this position (nil for a hidden __typename key)
	keyed bool   // object key (can be absent) vs list element
	// typename key of an object (selected or hidden)
	typenameOf *tnode
	current    any
}

func clonePath(p []any, e any) []any {
	q := make([]any, len(p)+1)
	copy(q, p)
	q[len(p)] = e
	return q
}

// positions walks type tree and baseline together.
func positions(n *tnode, v any, path []any, keyed bool, out *[]position) {
	if len(path) > 0 {
		*out = append(*out, position{path: path, node: n, keyed: keyed, current: v})
	}
	switch n.kind {
	case kList:
		for i, e := range v.([]any) {
			positions(n.item, e, clonePath(path, i), false, out)
		}
	case kObject:
		o := v.(map[string]any)
		rt := n.typeName
		if n.abstract {
			rt, _ = o["__typename"].(string)
		}
		if tn, ok := o["__typename"]; ok {
			*out = append(*out, position{path: clonePath(path, "__typename"), keyed: true, typenameOf: n, current: tn})
		}
		for _, f := range n.fieldsFor(rt) {
			if f.static != "" || f.key == "__typename" {
				continue
			}
			positions(f.node, o[f.key], clonePath(path, f.key), true, out)
		}
	}
}

var objectForScalar = map[string]any{"a": num("1")}

// escAlphabet: string values (as they are AFTER JSON decoding of the subgraph
// body; the body itself is valid JSON with the escapes \", \\, \n, \u0001 ...)
// that must be escaped again wherever the resolver writes subgraph-supplied
// text into the response: data leaves, __typename, error messages.
var escAlphabet = []struct{ kind, v string }{
	{"esc-quote", `a"b`},
	{"esc-backslash", `a\b`},
	{"esc-newline", "a\n\t\rb"},
	{"esc-control", "a\u0001\u0000\u001fb"},
	{"esc-multibyte", "\u00e9\u2713\U0001d11e\u2028<&>"},
	{"esc-injection", `","k":"x","a":"x","x":"x","b":1,"z":"x`},
}

// escMixed: one string with all kinds of offenders, for positions where a
// string is the wrong kind anyway (it then only travels into an error message).
const escMixed = "a\"b\\c\n\u0001\u00e9\",\"k\":\"x"

// singleOnly: escaping deviations are local by nature; they are enumerated as
// single deviations in both tiers and do not take part in deviation pairs.
func (d Deviation) singleOnly() bool {
	return strings.HasPrefix(d.Kind, "esc-") || strings.HasPrefix(d.Kind, "num-")
}

// number spellings for Int positions: exponent forms without a decimal point,
// positive and negative exponents, both signs, upper and lower case E.
var intNonIntegral = []string{"15e-1", "5E-1", "125e-2", "-15e-1", "1.5e0"}                  // ill-typed
var intIntegral = []string{"10e-1", "1e3", "-1E3", "1e+3", "150e-1", "1.5e1", "1.0", "-2.0"} // well-typed (integral, in range)

// whole numbers below / at / above the int64 range and exponent forms for
// Float positions (all well-typed; all exactly representable as a double
// except 9223372036854775807.0, which rounds to 2^63)
var floatSpellings = []string{"1.0", "4e3", "-2.0", "15e-1", "9007199254740992.0", "9223372036854775807.0",
	"9223372036854775808", "-9223372036854775808", "-9223372036854777856", "9300000000000000000", "1e19", "-1E19", "1e20", "100000000000000000000.0"}

// menu lists the deviations applicable at one position, simplest first.
func menu(p position) []Deviation {
	var out []Deviation
	add := func(kind string, v any) { out = append(out, Deviation{Path: p.path, Kind: kind, Value: v}) }
	amb := func(kind string, v any, why string) {
		out = append(out, Deviation{Path: p.path, Kind: kind, Value: v, NotJudged: why})
	}
	if p.typenameOf != nil {
		o := p.typenameOf
		out = append(out, Deviation{Path: p.path, Kind: "missing-typename", Absent: true})
		add("null-typename", nil)
		add("unknown-typename", "ZZ")
		add("number-for-typename", num("5"))
		for _, e := range escAlphabet {
			add(e.kind+"-typename", e.v) // an unknown type name (or, where the plan does not restrict it, a rendered one)
		}
		if o.abstract {
			for _, t := range o.possible {
				if t != p.current {
					add("other-typename", t)
				}
			}
		}
		return out
	}
	add("null", nil)
	if p.keyed {
		out = append(out, Deviation{Path: p.path, Kind: "absent", Absent: true})
	}
	n := p.node
	switch n.kind {
	case kLeaf:
		switch n.scalar {
		case "String":
			add("number-for-string", num("5"))
			add("boolean-for-string", true)
			add("object-for-scalar", objectForScalar)
			for _, e := range escAlphabet {
				add(e.kind, e.v) // well-typed
			}
		case "Int":
			add("string-for-number", "5")
			add("float-for-int", num("1.5"))
			add("boolean-for-number", true)
			add("object-for-scalar", objectForScalar)
			amb("int-beyond-32-bit", num("3000000000"), "Int: the table only demands an integral number, the spec a 32-bit one")
			add("esc-mixed-for-number", escMixed)
			for _, v := range intNonIntegral {
				add("num-nonintegral-for-int", num(v))
			}
			for _, v := range intIntegral {
				add("num-integral-spelling", num(v)) // well-typed
			}
		case "Float":
			add("string-for-number", "1.5")
			add("int-for-float", num("2")) // well-typed
			for _, v := range floatSpellings {
				add("num-float-spelling", num(v)) // well-typed
			}
			add("boolean-for-number", true)
			add("object-for-scalar", objectForScalar)
			add("esc-mixed-for-number", escMixed)
		case "Boolean":
			add("string-for-boolean", "true")
			add("number-for-boolean", num("1"))
			add("object-for-scalar", objectForScalar)
			add("esc-mixed-for-boolean", escMixed)
		case "ID":
			add("int-for-id", num("7")) // well-typed
			add("boolean-for-id", true)
			add("object-for-scalar", objectForScalar)
			amb("float-for-id", num("1.5"), "ID: the table accepts string or integer and is silent about other numbers")
			for _, e := range escAlphabet {
				add(e.kind, e.v) // well-typed
			}
		case "E":
			add("invalid-enum-value", "C")
			add("inaccessible-enum-value", "H")
			add("number-for-enum", num("5"))
			add("object-for-scalar", objectForScalar)
			add("esc-mixed-enum-value", escMixed) // invalid value, echoed in the error message
			add("esc-injection-enum-value", escAlphabet[5].v)
		case "J": // custom scalar: every JSON value is well-typed
			add("number-for-custom-scalar", num("5"))
			add("object-for-custom-scalar", objectForScalar)
			add("array-for-custom-scalar", []any{num("1")})
			for _, e := range escAlphabet {
				add(e.kind, e.v) // well-typed
			}
			add("esc-object-for-custom-scalar", map[string]any{"k\"q\\": escMixed}) // well-typed
		}
		if n.scalar != "J" {
			add("array-for-scalar", []any{num("1")})
		}
	case kList:
		add("empty-list", []any{}) // well-typed
		add("scalar-for-array", "x")
		add("object-for-array", objectForScalar)
	case kObject:
		add("array-for-object", []any{num("1")})
		add("scalar-for-object", "x")
		add("empty-object", map[string]any{})
	}
	return out
}

// singlesOf: a plan without PossibleTypes is only exercised where it differs,
// i.e. with the string deviations of the selected __typename keys.
func (s Shape) singlesOf(tree *tnode, base map[string]any) []Deviation {
	all := singles(tree, base)
	if !s.Strip {
		return all
	}
	var out []Deviation
	for _, d := range all {
		if _, isString := d.Value.(string); isString && !d.Absent && strings.HasSuffix(d.Kind, "-typename") {
			out = append(out, d)
		}
	}
	return out
}

// singles enumerates every single deviation of a baseline.
func singles(tree *tnode, base map[string]any) []Deviation {
	var ps []position
	positions(tree, base, nil, false, &ps)
	var out []Deviation
	for _, p := range ps {
		for _, d := range menu(p) {
			d.role = roleString(d.Path)
			out = append(out, d)
		}
	}
	return out
}

// independent reports whether neither path is a prefix of the other.
func independent(a, b []any) bool {
	n := len(a)
	if len(b) < n {
		n = len(b)
	}
	for i := 0; i < n; i++ {
		if !sameStep(a[i], b[i]) {
			return true
		}
	}
	return false
}

func stepInt(e any) (int, bool) {
	switch x := e.(type) {
	case int:
		return x, true
	case float64:
		return int(x), true
	case json.Number:
		i, err := x.Int64()
		return int(i), err == nil
	}
	return 0, false
}

func sameStep(a, b any) bool {
	if s, ok := a.(string); ok {
		t, ok2 := b.(string)
		return ok2 && s == t
	}
	i, ok1 := stepInt(a)
	j, ok2 := stepInt(b)
	return ok1 && ok2 && i == j
}

func deepCopy(v any) any {
	switch x := v.(type) {
	case map[string]any:
		m := make(map[string]any, len(x))
		for k, e := range x {
			m[k] = deepCopy(e)
		}
		return m
	case []any:
		l := make([]any, len(x))
		for i, e := range x {
			l[i] = deepCopy(e)
		}
		return l
	}
	return v
}

// apply returns a copy of base with the deviations applied.
func apply(base map[string]any, devs []Deviation) (map[string]any, error) {
	out := deepCopy(base).(map[string]any)
	for _, d := range devs {
		var cur any = out
		for i, e := range d.Path {
			last := i == len(d.Path)-1
			switch c := cur.(type) {
			case map[string]any:
				k, ok := e.(string)
				if !ok {
					return nil, fmt.Errorf("path %s: key expected at %d", pathString(d.Path), i)
				}
				if last {
					if d.Absent {
						delete(c, k)
					} else {
						c[k] = deepCopy(normalizeNumbers(d.Value))
					}
				} else {
					cur = c[k]
				}
			case []any:
				idx, ok := stepInt(e)
				if !ok || idx < 0 || idx >= len(c) {
					return nil, fmt.Errorf("path %s: index expected at %d", pathString(d.Path), i)
				}
				if last {
					if d.Absent {
						return nil, fmt.Errorf("path %s: cannot remove a list element", pathString(d.Path))
					}
					c[idx] = deepCopy(normalizeNumbers(d.Value))
				} else {
					cur = c[idx]
				}
			default:
				return nil, fmt.Errorf("path %s: no container at %d", pathString(d.Path), i)
			}
		}
	}
	return out, nil
}

// normalizeNumbers turns float64 (from a replay file decoded without UseNumber)
// into json.Number.
func normalizeNumbers(v any) any {
	switch x := v.(type) {
	case float64:
		b, _ := json.Marshal(x)
		return json.Number(string(b))
	case map[string]any:
		for k, e := range x {
			x[k] = normalizeNumbers(e)
		}
	case []any:
		for i, e := range x {
			x[i] = normalizeNumbers(e)
		}
	}
	return v
}

func mustJSON(v any) []byte {
	b, err := json.Marshal(v)
	if err != nil {
		panic(err)
	}
	return b
}
