package c02

import (
	"fmt"
	"sort"
	"strings"
)

// ---------------------------------------------------------------------------
// Response shapes. A shape is (named type, list/non-null wrapping, parent
// context, selection variant). From a shape the check derives
//   - a tiny schema + one query (given to the REAL planner), and
//   - the oracle's own type tree (tnode), built from the shape description and
//     never from the plan, so a planner/renderer disagreement is visible.
// ---------------------------------------------------------------------------

type Shape struct {
	Named string `json:"named"` // String Int Float Boolean ID E J O I U
	Wrap  string `json:"wrap"`  // e.g. "[[T!]]!"
	Ctx   string `json:"ctx"`   // root nullobj nnobj listobj nnlistobj
	Sel   string `json:"sel"`   // plain typename fragments
	// Strip: the real plan with PossibleTypes / TypeName cleared on every object
	// (what resolve.(*Object).Copy produces for subtrees duplicated by postprocess,
	// and what hand-built plans look like): a selected __typename is then NOT
	// validated and whatever string the subgraph sends is rendered.
	Strip bool `json:"strip,omitempty"`
	// RT: type-condition family only (Named == "TC"): the runtime types of the
	// baseline, "owner,pet[,home]".
	RT string `json:"rt,omitempty"`
	// Opt: ResolvableOptions variant; "" = defaults, "vc" =
	// ApolloCompatibilityValueCompletionInExtensions, "vc+tf" = that plus
	// ApolloCompatibilityTruncateFloatValues.
	Opt string `json:"opt,omitempty"`
}

func (s Shape) String() string {
	if s.Named == "TC" {
		return fmt.Sprintf("type conditions: age: %s | own=%s | ancestor layers=%s | runtime types=%s", strings.Replace(s.Wrap, "T", "Int", 1), s.Sel, s.Ctx, s.RT)
	}
	if s.Opt != "" {
		return fmt.Sprintf("f: %s | ctx=%s | sel=%s | options=%s", s.fieldType(), s.Ctx, s.Sel, s.Opt)
	}
	if s.Strip {
		return fmt.Sprintf("f: %s | ctx=%s | sel=%s | plan without PossibleTypes", s.fieldType(), s.Ctx, s.Sel)
	}
	return fmt.Sprintf("f: %s | ctx=%s | sel=%s", s.fieldType(), s.Ctx, s.Sel)
}

func (s Shape) fieldType() string { return strings.Replace(s.Wrap, "T", s.Named, 1) }

// I1 is an interface with exactly one implementer, U1 a union with exactly one
// member: abstract plan objects with a single possible type.
var namedTypes = []string{"String", "Int", "Float", "Boolean", "ID", "E", "J", "O", "I", "U", "I1", "U1"}

// ifacelist: the parent is a list of a UNION PU = PIA | PIB whose members both
// implement the interface PI, selected as `p { ... on PI { k f z } }`. A field
// inside a fragment on an interface carries one type condition per implementer;
// postprocess (merge_fields) duplicates it per implementer with Node.Copy(), so
// the second implementer is rendered through a COPIED plan subtree.
var contexts = []string{"root", "nullobj", "nnobj", "listobj", "nnlistobj", "ifacelist"}

func isComposite(named string) bool {
	switch named {
	case "O", "I", "U", "I1", "U1":
		return true
	}
	return false
}

// wrappings returns every list/non-null wrapping with list depth <= maxDepth,
// ordered by depth, then by number of '!'.
func wrappings(maxDepth int) []string {
	var out []string
	var rec func(depth int) []string
	rec = func(depth int) []string {
		if depth == 0 {
			return []string{"T", "T!"}
		}
		var r []string
		for _, in := range rec(depth - 1) {
			r = append(r, "["+in+"]", "["+in+"]!")
		}
		return r
	}
	for d := 0; d <= maxDepth; d++ {
		w := rec(d)
		sort.SliceStable(w, func(i, j int) bool { return strings.Count(w[i], "!") < strings.Count(w[j], "!") })
		out = append(out, w...)
	}
	return out
}

func selections(named string) []string {
	switch named {
	case "I", "I1":
		return []string{"plain", "typename", "fragments"}
	case "U", "U1":
		return []string{"typename", "fragments"}
	default:
		return []string{"plain", "typename"}
	}
}

// allShapes enumerates the shape space in canonical simplest-first order:
// list depth, parent context, selection variant, wrapping, named type
// (named type varies fastest so that a structural defect is first met on String
// and a type-specific one on the simplest structure).
func allShapes(maxDepth int) []Shape {
	var out []Shape
	selOrder := []string{"plain", "typename", "fragments"}
	for d := 0; d <= maxDepth; d++ {
		var ws []string
		for _, w := range wrappings(maxDepth) {
			if strings.Count(w, "[") == d {
				ws = append(ws, w)
			}
		}
		for _, ctx := range contexts {
			for _, sel := range selOrder {
				for _, w := range ws {
					for _, n := range namedTypes {
						ok := false
						for _, s := range selections(n) {
							if s == sel {
								ok = true
							}
						}
						if ok {
							out = append(out, Shape{Named: n, Wrap: w, Ctx: ctx, Sel: sel})
						}
					}
				}
			}
		}
	}
	// the same plans without PossibleTypes, for the shapes that select __typename
	// on a concrete object and have no abstract position; appended at the end so
	// that the canonical order of the planner-made shapes does not change
	for _, s := range append([]Shape(nil), out...) {
		if s.Sel != "typename" || s.Ctx == "ifacelist" || (isComposite(s.Named) && s.Named != "O") || (!isComposite(s.Named) && s.Ctx == "root") {
			continue
		}
		s.Strip = true
		out = append(out, s)
	}
	return out
}

// extraShapes: families added after the planner-made grid (appended, so the
// canonical order of the grid is unchanged).
func extraShapes(maxDepth int) []Shape {
	out := tcShapes()
	// the enum alphabet (and String / an interface as controls for the other
	// kinds of reports) under the Apollo compatibility ResolvableOptions
	for _, s := range allShapes(maxDepth) {
		if s.Strip || s.Ctx == "ifacelist" {
			continue
		}
		switch s.Named {
		case "E", "String", "I", "Float":
			s.Opt = "vc"
			if s.Named == "Float" {
				s.Opt = "vc+tf"
				out = append(out, s)
				s.Opt = "tf" // ApolloCompatibilityTruncateFloatValues alone
			}
			out = append(out, s)
		}
	}
	return out
}

// ---- oracle type tree

type nodeKind int

const (
	kLeaf nodeKind = iota
	kList
	kObject
)

type tnode struct {
	kind     nodeKind
	nullable bool
	scalar   string // leaf: String Int Float Boolean ID E J __typename
	item     *tnode // list
	typeName string // object: declared type
	possible []string
	abstract bool
	// anyTypename: the plan does not restrict the runtime type name of this
	// (concrete) object; a selected __typename renders the subgraph's string
	anyTypename bool
	fragOn      string
	// selection-set based node (type-condition family, see tc_test.go)
	sels   []selItem
	merged map[string][]tfield // the whole selection is wrapped in `... on <fragOn> { }`
	fields []tfield
}

type tfield struct {
	key    string
	on     []string // nil: every runtime type
	node   *tnode
	static string // root __typename
}

func (n *tnode) kindName() string {
	switch n.kind {
	case kLeaf:
		return "leaf"
	case kList:
		return "list"
	default:
		if n.abstract {
			return "abstract object"
		}
		return "object"
	}
}

func (n *tnode) hasField(key string) bool {
	for _, f := range n.anyFields() {
		if f.key == key {
			return true
		}
	}
	return false
}

func (n *tnode) isPossible(t string) bool {
	for _, p := range n.possible {
		if p == t {
			return true
		}
	}
	return false
}

// fieldsFor returns the selected fields for runtime type rt.
func (n *tnode) fieldsFor(rt string) []tfield {
	if n.sels != nil {
		return n.selFields(rt)
	}
	var out []tfield
	for _, f := range n.fields {
		if f.on == nil {
			out = append(out, f)
			continue
		}
		for _, t := range f.on {
			if t == rt {
				out = append(out, f)
			}
		}
	}
	return out
}

func leaf(scalar string, nullable bool) *tnode {
	return &tnode{kind: kLeaf, scalar: scalar, nullable: nullable}
}

var typenameLeaf = func() *tnode { return leaf("__typename", false) }

func namedNode(named, sel string) *tnode {
	switch named {
	case "O":
		n := &tnode{kind: kObject, nullable: true, typeName: "O", possible: []string{"O"}}
		if sel == "typename" {
			n.fields = append(n.fields, tfield{key: "__typename", node: typenameLeaf()})
		}
		n.fields = append(n.fields, tfield{key: "a", node: leaf("String", true)}, tfield{key: "b", node: leaf("Int", false)})
		return n
	case "I":
		n := &tnode{kind: kObject, nullable: true, typeName: "I", possible: []string{"IA", "IB"}, abstract: true}
		switch sel {
		case "plain":
			n.fields = []tfield{{key: "x", node: leaf("String", true)}}
		case "typename":
			n.fields = []tfield{{key: "__typename", node: typenameLeaf()}, {key: "x", node: leaf("String", true)}}
		case "fragments":
			n.fields = []tfield{{key: "x", node: leaf("String", true)},
				{key: "a", on: []string{"IA"}, node: leaf("Int", false)},
				{key: "b", on: []string{"IB"}, node: leaf("Int", true)}}
		}
		return n
	case "U":
		n := &tnode{kind: kObject, nullable: true, typeName: "U", possible: []string{"UA", "UB"}, abstract: true}
		switch sel {
		case "typename":
			n.fields = []tfield{{key: "__typename", node: typenameLeaf()}}
		case "fragments":
			n.fields = []tfield{{key: "a", on: []string{"UA"}, node: leaf("Int", false)},
				{key: "b", on: []string{"UB"}, node: leaf("Int", true)}}
		}
		return n
	case "I1":
		n := &tnode{kind: kObject, nullable: true, typeName: "I1", possible: []string{"I1A"}, abstract: true}
		switch sel {
		case "plain":
			n.fields = []tfield{{key: "x", node: leaf("String", true)}}
		case "typename":
			n.fields = []tfield{{key: "__typename", node: typenameLeaf()}, {key: "x", node: leaf("String", true)}}
		case "fragments":
			n.fields = []tfield{{key: "x", node: leaf("String", true)},
				{key: "a", on: []string{"I1A"}, node: leaf("Int", false)}}
		}
		return n
	case "U1":
		n := &tnode{kind: kObject, nullable: true, typeName: "U1", possible: []string{"U1A"}, abstract: true}
		switch sel {
		case "typename":
			n.fields = []tfield{{key: "__typename", node: typenameLeaf()}}
		case "fragments":
			n.fields = []tfield{{key: "a", on: []string{"U1A"}, node: leaf("Int", false)}}
		}
		return n
	default:
		return leaf(named, true)
	}
}

// wrapNode applies a wrapping pattern such as "[[T!]]!" to the named node.
func wrapNode(wrap string, named *tnode) *tnode {
	nonNull := strings.HasSuffix(wrap, "!")
	if nonNull {
		wrap = wrap[:len(wrap)-1]
	}
	var n *tnode
	if strings.HasPrefix(wrap, "[") {
		n = &tnode{kind: kList, item: wrapNode(wrap[1:len(wrap)-1], named)}
	} else {
		n = named
	}
	n.nullable = !nonNull
	return n
}

// tree builds the oracle's type tree of the whole response (root = Query).
func (s Shape) tree() *tnode {
	if s.Named == "TC" {
		return s.tcTree()
	}
	t := s.buildTree()
	if s.Strip {
		var mark func(n *tnode)
		mark = func(n *tnode) {
			switch {
			case n == nil:
			case n.kind == kList:
				mark(n.item)
			case n.kind == kObject:
				n.anyTypename = true
				for _, f := range n.fields {
					mark(f.node)
				}
			}
		}
		mark(t)
	}
	return t
}

func (s Shape) buildTree() *tnode {
	f := wrapNode(s.Wrap, namedNode(s.Named, s.Sel))
	scalarTypename := !isComposite(s.Named) && s.Sel == "typename"
	root := &tnode{kind: kObject, typeName: "Query", possible: []string{"Query"}}
	if s.Ctx == "root" {
		if scalarTypename {
			root.fields = append(root.fields, tfield{key: "__typename", static: "Query"})
		}
		root.fields = append(root.fields, tfield{key: "k", node: leaf("String", true)}, tfield{key: "f", node: f}, tfield{key: "z", node: leaf("String", false)})
		return root
	}
	p := &tnode{kind: kObject, typeName: "P", possible: []string{"P"}}
	if scalarTypename {
		p.fields = append(p.fields, tfield{key: "__typename", node: typenameLeaf()})
	}
	p.fields = append(p.fields, tfield{key: "k", node: leaf("String", true)}, tfield{key: "f", node: f}, tfield{key: "z", node: leaf("String", false)})
	var pn *tnode
	switch s.Ctx {
	case "nullobj":
		p.nullable = true
		pn = p
	case "nnobj":
		p.nullable = false
		pn = p
	case "listobj":
		p.nullable = true
		pn = &tnode{kind: kList, nullable: true, item: p}
	case "nnlistobj":
		p.nullable = false
		pn = &tnode{kind: kList, nullable: false, item: p}
	case "ifacelist":
		p.typeName, p.possible, p.abstract, p.fragOn = "PU", []string{"PIA", "PIB"}, true, "PI"
		p.nullable = true
		pn = &tnode{kind: kList, nullable: true, item: p}
	}
	root.fields = append(root.fields, tfield{key: "p", node: pn})
	return root
}

func (s Shape) parentType() string {
	switch s.Ctx {
	case "nullobj":
		return "P"
	case "nnobj":
		return "P!"
	case "listobj":
		return "[P]"
	case "nnlistobj":
		return "[P!]!"
	case "ifacelist":
		return "[PU]"
	}
	return ""
}

// sdl is the client schema == the (single) subgraph schema.
func (s Shape) sdl() string {
	if s.Named == "TC" {
		return s.tcSDL()
	}
	var b strings.Builder
	b.WriteString("directive @inaccessible on ENUM_VALUE | OBJECT | FIELD_DEFINITION\n")
	b.WriteString("scalar J\nenum E { A B H @inaccessible }\n")
	b.WriteString("type O { a: String b: Int! }\n")
	b.WriteString("interface I { x: String }\ntype IA implements I { x: String a: Int! }\ntype IB implements I { x: String b: Int }\n")
	b.WriteString("union U = UA | UB\ntype UA { a: Int! }\ntype UB { b: Int }\n")
	b.WriteString("interface I1 { x: String }\ntype I1A implements I1 { x: String a: Int! }\nunion U1 = U1A\ntype U1A { a: Int! }\n")
	if s.Ctx == "root" {
		fmt.Fprintf(&b, "type Query { k: String f: %s z: String! }\n", s.fieldType())
	} else if s.Ctx == "ifacelist" {
		body := fmt.Sprintf("{ k: String f: %s z: String! }", s.fieldType())
		fmt.Fprintf(&b, "interface PI %s\ntype PIA implements PI %s\ntype PIB implements PI %s\nunion PU = PIA | PIB\ntype Query { p: %s }\n", body, body, body, s.parentType())
	} else {
		fmt.Fprintf(&b, "type P { k: String f: %s z: String! }\ntype Query { p: %s }\n", s.fieldType(), s.parentType())
	}
	return b.String()
}

// query prints the selection of the type tree.
func (s Shape) query() string {
	if s.Named == "TC" {
		return s.tcQuery()
	}
	var b strings.Builder
	var sel func(n *tnode)
	sel = func(n *tnode) {
		for n.kind == kList {
			n = n.item
		}
		if n.kind != kObject {
			return
		}
		b.WriteString(" {")
		if n.fragOn != "" {
			b.WriteString(" ... on " + n.fragOn + " {")
			defer b.WriteString(" }")
		}
		frag := map[string][]tfield{}
		var order []string
		for _, f := range n.fields {
			if f.on == nil {
				b.WriteString(" " + f.key)
				if f.node != nil {
					sel(f.node)
				}
				continue
			}
			for _, t := range f.on {
				if _, ok := frag[t]; !ok {
					order = append(order, t)
				}
				frag[t] = append(frag[t], f)
			}
		}
		for _, t := range order {
			b.WriteString(" ... on " + t + " {")
			for _, f := range frag[t] {
				b.WriteString(" " + f.key)
				sel(f.node)
			}
			b.WriteString(" }")
		}
		b.WriteString(" }")
	}
	b.WriteString("query")
	sel(s.tree())
	return b.String()
}
