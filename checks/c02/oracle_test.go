package c02

import (
	"bytes"
	"encoding/json"
	"fmt"
	"io"
	"math/big"
	"sort"
	"strconv"
	"strings"
	"unicode/utf8"
)

// ---------------------------------------------------------------------------
// R5 - the reference completion (DESIGN.md section 3 C02, appendix A.4).
//
// The oracle never looks at the plan or at the deviations that produced a
// payload: it classifies the payload itself against the oracle type tree with
// the strictness table (custom scalar: any JSON; ID: string or integer; Float:
// any number; Int: integral number; Boolean / String / enum: exact), and then
// decides whether the observed (data, error paths) is a MEMBER of the
// admissible set:
//   - a null/absent value at a non-null position raises NullAt(path); it must
//     be caught at the NEAREST nullable ancestor (or data:null if none);
//   - an ill-typed value raises IllTyped(path); it may be caught at ANY
//     nullable ancestor-or-self, or by data:null;
//   - every catch (a null in the output that the payload does not have) needs
//     some error whose `path` equals the path of a raise it caught; additional
//     errors are allowed;
//   - with no raise `errors` must be absent and data == projection.
// ---------------------------------------------------------------------------

const (
	clPanic   = "renderer must not panic"
	clJSON    = "response is one syntactically valid JSON document"
	clTop     = "response has exactly `data` and, iff there are errors, `errors`"
	clKeys    = "data contains exactly the selected response keys"
	clType    = "every value conforms to its declared client-schema type"
	clProp    = "a null or ill-typed value is replaced by null at an admissible nullable ancestor or by data:null"
	clErrPath = "every replacement is reported by an error whose path is the response path of the offending position"
	clProject = "well-typed subgraph data is rendered as exactly its projection, without errors"
	// an error path is "the response path of" some position: whatever else it is,
	// it must at least walk the selected response shape (keys under objects,
	// indices under lists, nothing below a leaf)
	clErrShape = "every error path is a path of the selected response shape"
)

type verdict struct {
	Clause string
	Site   string
	Detail string
}

// ---- strict JSON

// parseStrict decodes exactly one JSON document, rejecting invalid UTF-8,
// trailing data and duplicate object keys.
func parseStrict(b []byte) (any, error) {
	if !utf8.Valid(b) {
		return nil, fmt.Errorf("invalid UTF-8")
	}
	if !json.Valid(b) {
		// json.Valid applies the strict RFC 8259 grammar
		dec := json.NewDecoder(bytes.NewReader(b))
		var v any
		err := dec.Decode(&v)
		if err == nil {
			err = fmt.Errorf("trailing data after the first JSON value")
		}
		return nil, err
	}
	dec := json.NewDecoder(bytes.NewReader(b))
	dec.UseNumber()
	v, err := parseValue(dec)
	if err != nil {
		return nil, err
	}
	if _, err := dec.Token(); err != io.EOF {
		return nil, fmt.Errorf("trailing data after the first JSON value")
	}
	return v, nil
}

func parseValue(dec *json.Decoder) (any, error) {
	t, err := dec.Token()
	if err != nil {
		return nil, err
	}
	switch d := t.(type) {
	case json.Delim:
		switch d {
		case '{':
			m := map[string]any{}
			for dec.More() {
				kt, err := dec.Token()
				if err != nil {
					return nil, err
				}
				k, ok := kt.(string)
				if !ok {
					return nil, fmt.Errorf("object key is not a string")
				}
				if _, dup := m[k]; dup {
					return nil, fmt.Errorf("duplicate object key %q", k)
				}
				v, err := parseValue(dec)
				if err != nil {
					return nil, err
				}
				m[k] = v
			}
			if _, err := dec.Token(); err != nil {
				return nil, err
			}
			return m, nil
		case '[':
			l := []any{}
			for dec.More() {
				v, err := parseValue(dec)
				if err != nil {
					return nil, err
				}
				l = append(l, v)
			}
			if _, err := dec.Token(); err != nil {
				return nil, err
			}
			return l, nil
		}
		return nil, fmt.Errorf("unexpected delimiter %v", d)
	default:
		return t, nil
	}
}

// ---- the strictness table

func jsonKind(v any) string {
	switch x := v.(type) {
	case nil:
		return "null"
	case bool:
		return "boolean"
	case string:
		return "string"
	case json.Number:
		if isIntegral(x) {
			return "integer"
		}
		return "non-integral number"
	case []any:
		return "array"
	case map[string]any:
		return "object"
	}
	return fmt.Sprintf("%T", v)
}

// isIntegral decides on the exact value of the JSON number, whatever its
// spelling (1, 1.0, 1e3, 10e-1 are integral; 1.5, 15e-1, 5E-1 are not).
func isIntegral(n json.Number) bool {
	if !strings.ContainsAny(string(n), ".eE") {
		return true
	}
	r, ok := new(big.Rat).SetString(string(n))
	return ok && r.IsInt()
}

// leafOK applies the strictness table to a non-null value.
func leafOK(scalar string, v any) bool {
	switch scalar {
	case "String":
		_, ok := v.(string)
		return ok
	case "Int":
		n, ok := v.(json.Number)
		return ok && isIntegral(n)
	case "Float":
		_, ok := v.(json.Number)
		return ok
	case "Boolean":
		_, ok := v.(bool)
		return ok
	case "ID":
		if _, ok := v.(string); ok {
			return true
		}
		n, ok := v.(json.Number)
		return ok && isIntegral(n)
	case "E":
		s, ok := v.(string)
		return ok && (s == "A" || s == "B") // H is @inaccessible: not a value of the client schema
	case "J":
		return true
	case "__typename":
		_, ok := v.(string)
		return ok
	}
	return false
}

func numEqual(a, b json.Number) bool {
	if a == b {
		return true
	}
	// exact numeric equality, independent of the spelling
	x, ok1 := new(big.Rat).SetString(string(a))
	y, ok2 := new(big.Rat).SetString(string(b))
	return ok1 && ok2 && x.Cmp(y) == 0
}

func jsonEqual(a, b any) bool {
	switch x := a.(type) {
	case nil:
		return b == nil
	case bool:
		y, ok := b.(bool)
		return ok && x == y
	case string:
		y, ok := b.(string)
		return ok && x == y
	case json.Number:
		y, ok := b.(json.Number)
		return ok && numEqual(x, y)
	case []any:
		y, ok := b.([]any)
		if !ok || len(x) != len(y) {
			return false
		}
		for i := range x {
			if !jsonEqual(x[i], y[i]) {
				return false
			}
		}
		return true
	case map[string]any:
		y, ok := b.(map[string]any)
		if !ok || len(x) != len(y) {
			return false
		}
		for k, v := range x {
			w, ok := y[k]
			if !ok || !jsonEqual(v, w) {
				return false
			}
		}
		return true
	}
	return false
}

// leafRenderedEqual: the rendered leaf equals the payload leaf; an integer ID may
// also be rendered as the string of its digits (spec serialization of ID).
func leafRenderedEqual(scalar string, payload, out any) bool {
	if jsonEqual(payload, out) {
		return true
	}
	if scalar == "Float" {
		// Float is an IEEE 754 double: two spellings of the same double are equal
		p, ok1 := payload.(json.Number)
		o, ok2 := out.(json.Number)
		if ok1 && ok2 {
			x, e1 := strconv.ParseFloat(string(p), 64)
			y, e2 := strconv.ParseFloat(string(o), 64)
			return e1 == nil && e2 == nil && x == y
		}
	}
	if scalar == "ID" {
		if n, ok := payload.(json.Number); ok {
			if s, ok := out.(string); ok && s == string(n) {
				return true
			}
		}
	}
	return false
}

// ---- payload classification

type raiseKind int

const (
	rNull raiseKind = iota // null / absent at a non-null position
	rIll                   // ill-typed value
)

func (k raiseKind) String() string {
	if k == rNull {
		return "NullAt"
	}
	return "IllTyped"
}

type raise struct {
	kind    raiseKind
	at      []any   // position of the raise
	paths   [][]any // admissible error paths
	node    *tnode
	skipped int    // nullable positions strictly below the catch point on the way to (and including) the raise
	why     string // short description
}

// objectProblem classifies the object value v (a JSON object) at an object node:
// ok, or the reason why its runtime type cannot be established.
func objectRuntimeType(n *tnode, o map[string]any) (rt string, problem string) {
	tn, has := o["__typename"]
	if n.abstract {
		s, ok := tn.(string)
		if !has || tn == nil {
			return "", "missing __typename"
		}
		if !ok {
			return "", "missing __typename" // the renderer cannot tell a non-string from an absent one
		}
		if !n.isPossible(s) {
			return "", "unknown __typename"
		}
		return s, ""
	}
	// concrete object: a selected __typename that names another type makes the object ill-typed
	if n.hasField("__typename") && !n.anyTypename {
		if s, ok := tn.(string); ok && s != n.typeName {
			return "", "unknown __typename"
		}
	}
	return n.typeName, ""
}

// collect gathers the raises inside the payload subtree at (n, v, path).
// chain is true while every position strictly between the catch point and the
// current position is non-null (top marks the catch point itself).
// With all=true every raise is returned (chain is ignored).
func collect(n *tnode, v any, present bool, path []any, top, chain, all bool, skipped int, out *[]raise) {
	if !top && n.nullable {
		skipped++
	}
	typenamePaths := func() [][]any {
		if n.kind == kLeaf && n.scalar == "__typename" {
			return [][]any{path, path[:len(path)-1]}
		}
		return [][]any{path}
	}
	if !present || v == nil {
		if !n.nullable && !top {
			if chain || all {
				*out = append(*out, raise{kind: rNull, at: path, paths: typenamePaths(), node: n, skipped: skipped, why: "null/absent at non-null " + n.kindName()})
			}
		}
		return
	}
	childChain := top || (chain && !n.nullable)
	switch n.kind {
	case kLeaf:
		if !leafOK(n.scalar, v) {
			*out = append(*out, raise{kind: rIll, at: path, paths: typenamePaths(), node: n, skipped: skipped, why: jsonKind(v) + " for " + n.scalar})
		}
	case kList:
		l, ok := v.([]any)
		if !ok {
			*out = append(*out, raise{kind: rIll, at: path, paths: [][]any{path}, node: n, skipped: skipped, why: jsonKind(v) + " for list"})
			return
		}
		for i, e := range l {
			collect(n.item, e, true, clonePath(path, i), false, childChain, all, skipped, out)
		}
	case kObject:
		o, ok := v.(map[string]any)
		if !ok {
			*out = append(*out, raise{kind: rIll, at: path, paths: [][]any{path}, node: n, skipped: skipped, why: jsonKind(v) + " for object"})
			return
		}
		rt, problem := objectRuntimeType(n, o)
		if problem != "" {
			*out = append(*out, raise{kind: rIll, at: path, paths: [][]any{path, clonePath(path, "__typename")}, node: n, skipped: skipped, why: problem})
			// the values of the fields that are selected whatever the runtime type
			// is are offending positions in their own right: a renderer that trips
			// over one of them first reports that one
			for _, f := range n.unconditionalFields() {
				if f.static != "" || f.key == "__typename" {
					continue
				}
				fv, has := o[f.key]
				collect(f.node, fv, has, clonePath(path, f.key), false, childChain, all, skipped, out)
			}
			return
		}
		for _, f := range n.fieldsFor(rt) {
			if f.static != "" {
				continue
			}
			fv, has := o[f.key]
			collect(f.node, fv, has, clonePath(path, f.key), false, childChain, all, skipped, out)
		}
	}
}

// ---- judgement

type judgement struct {
	verdicts []verdict
	// coverage information
	raises     int
	nullRaises int
	illRaises  int
	catches    []string // one entry per catch: kind@skipped
	dataNull   bool
	nErrors    int
	extraErrs  int
	// replacements below which more than one raise is a candidate (one error suffices)
	sharedCatches int
}

func (j *judgement) fail(clause, site, format string, a ...any) {
	j.verdicts = append(j.verdicts, verdict{Clause: clause, Site: site, Detail: fmt.Sprintf(format, a...)})
}

func (j *judgement) outcomeKey() string {
	c := append([]string(nil), j.catches...)
	sort.Strings(c)
	return fmt.Sprintf("raises=%dN+%dI catches=%s dataNull=%v errors=%d extra=%d", j.nullRaises, j.illRaises, strings.Join(c, ","), j.dataNull, min(j.nErrors, 3), min(j.extraErrs, 2))
}

func pathEqual(a, b []any) bool {
	if len(a) != len(b) {
		return false
	}
	for i := range a {
		if !sameStep(a[i], b[i]) {
			return false
		}
	}
	return true
}

func hasPrefix(p, prefix []any) bool {
	return len(p) >= len(prefix) && pathEqual(p[:len(prefix)], prefix)
}

func dropIndices(p []any) []any {
	var out []any
	for _, e := range p {
		if _, ok := e.(string); ok {
			out = append(out, e)
		}
	}
	return out
}

// judge decides all clauses for one (type tree, payload, rendered bytes).
// structuralOnly: only the clauses that hold for any payload whatsoever (valid
// JSON, top-level keys) are judged (used for payloads the table leaves open).
// valueCompletion: the response was rendered with
// ApolloCompatibilityValueCompletionInExtensions; replacements may then be
// reported in extensions.valueCompletion instead of errors.
func judge(tree *tnode, payload map[string]any, out []byte, structuralOnly, valueCompletion bool) *judgement {
	j := &judgement{}
	doc, err := parseStrict(out)
	if err != nil {
		j.fail(clJSON, "invalid JSON", "output is not strict JSON (%v): %s", err, clip(string(out), 300))
		return j
	}
	top, ok := doc.(map[string]any)
	if !ok {
		j.fail(clTop, "response is not an object", "output %s", clip(string(out), 300))
		return j
	}
	for k := range top {
		if k != "data" && k != "errors" && !(k == "extensions" && valueCompletion) {
			j.fail(clTop, "unexpected top-level key", "top-level key %q in %s", k, clip(string(out), 300))
		}
	}
	data, hasData := top["data"]
	if !hasData {
		j.fail(clTop, "data key missing", "output %s", clip(string(out), 300))
		return j
	}
	var errPaths [][]any
	// parseReports reads a list of {message, path, ...} entries (`errors`, or
	// `extensions.valueCompletion` in the Apollo value completion mode)
	parseReports := func(ev any, what string) bool {
		el, ok := ev.([]any)
		if !ok || len(el) == 0 {
			j.fail(clTop, what+" present but not a non-empty list", "output %s", clip(string(out), 300))
			return false
		}
		for _, e := range el {
			eo, ok := e.(map[string]any)
			if !ok {
				j.fail(clTop, "error entry is not an object", "output %s", clip(string(out), 300))
				return false
			}
			if _, ok := eo["message"].(string); !ok {
				j.fail(clTop, "error entry without string message", "output %s", clip(string(out), 300))
			}
			var p []any
			if pv, has := eo["path"]; has {
				pl, ok := pv.([]any)
				if !ok {
					j.fail(clTop, "error path is not a list", "output %s", clip(string(out), 300))
					return false
				}
				for _, s := range pl {
					switch x := s.(type) {
					case string:
						p = append(p, x)
					case json.Number:
						i, err := x.Int64()
						if err != nil || i < 0 {
							j.fail(clTop, "error path segment is not a key or index", "output %s", clip(string(out), 300))
							return false
						}
						p = append(p, int(i))
					default:
						j.fail(clTop, "error path segment is not a key or index", "output %s", clip(string(out), 300))
						return false
					}
				}
			}
			errPaths = append(errPaths, p)
		}
		return true
	}
	if ev, has := top["errors"]; has {
		if !parseReports(ev, "errors") {
			return j
		}
	}
	if ext, has := top["extensions"]; has {
		// only in the value completion mode, only {"valueCompletion": [...]}: its
		// entries report replacements exactly like entries of `errors`
		eo, ok := ext.(map[string]any)
		if !ok || len(eo) != 1 || eo["valueCompletion"] == nil {
			j.fail(clTop, "unexpected extensions", "output %s", clip(string(out), 300))
			return j
		}
		if !parseReports(eo["valueCompletion"], "extensions.valueCompletion") {
			return j
		}
	}
	j.nErrors = len(errPaths)
	if len(j.verdicts) > 0 || structuralOnly {
		return j
	}

	// (a0) every error path walks the selected shape (extra errors are allowed,
	// paths that cannot be response paths are not)
	for _, ep := range errPaths {
		if problem := pathShapeProblem(tree, payload, ep); problem != "" {
			j.fail(clErrShape, problem, "error path %s is not a path of the response shape (%s); payload %s; response %s", pathString(ep), problem, clip(string(mustJSON(payload)), 300), clip(string(out), 400))
			break
		}
	}

	// (a) type safety of the output alone
	ts := &typeSafety{j: j}
	ts.check(tree, data, nil, true)
	if ts.structural {
		return j
	}
	// (a leaf rendered with an ill-typed value is reported above; the walk below
	// skips that leaf and still judges the rest of the response)

	// (b) membership in the admissible set
	var all []raise
	collect(tree, payload, true, nil, true, true, true, 0, &all)
	j.raises = len(all)
	for _, r := range all {
		if r.kind == rNull {
			j.nullRaises++
		} else {
			j.illRaises++
		}
	}
	m := &membership{j: j, errPaths: errPaths, used: make([]bool, len(errPaths)), wellTyped: len(all) == 0}
	m.check(tree, payload, true, data, nil, true)
	for _, u := range m.used {
		if !u {
			j.extraErrs++
		}
	}
	if m.wellTyped && len(errPaths) > 0 {
		j.fail(clProject, "errors reported for well-typed data", "payload %s is well-typed but the response has errors: %s", mustJSON(payload), clip(string(out), 300))
	}
	return j
}

// pathShapeProblem walks an error path over the type tree (and the payload for
// list lengths); "" when the path denotes a position of the response shape.
// A trailing "__typename" is accepted under every object.
func pathShapeProblem(n *tnode, v any, p []any) string {
	for i, seg := range p {
		switch n.kind {
		case kLeaf:
			return "segment below a leaf"
		case kList:
			idx, ok := seg.(int)
			if !ok {
				return "key segment under a list"
			}
			n = n.item
			if l, isList := v.([]any); isList {
				if idx >= len(l) {
					return "list index beyond the subgraph's list"
				}
				v = l[idx]
			} else {
				v = nil
			}
		case kObject:
			key, ok := seg.(string)
			if !ok {
				return "index segment under an object"
			}
			var fld *tfield
			nf := n.anyFields()
			for k := range nf {
				if nf[k].key == key {
					fld = &nf[k]
				}
			}
			if fld == nil {
				if key == "__typename" && i == len(p)-1 {
					return ""
				}
				return "key segment that is not selected under its object"
			}
			if fld.static != "" || fld.node == nil {
				if i != len(p)-1 {
					return "segment below a leaf"
				}
				return ""
			}
			n = fld.node
			if m, isObj := v.(map[string]any); isObj {
				v = m[key]
			} else {
				v = nil
			}
		}
	}
	return ""
}

// typeSafety checks the rendered data against the type tree, without the payload.
type typeSafety struct {
	j *judgement
	// structural: a failure other than an ill-typed leaf value; the rendered data
	// then does not have the shape the membership walk relies on
	structural bool
}

func (t *typeSafety) check(n *tnode, o any, path []any, root bool) {
	if o == nil {
		if !n.nullable && !root {
			t.structural = true
			t.j.fail(clType, "null rendered at non-null "+n.kindName(), "null at %s, a non-null position", pathString(path))
		}
		return
	}
	switch n.kind {
	case kLeaf:
		if !leafOK(n.scalar, o) {
			t.j.fail(clType, fmt.Sprintf("%s rendered with ill-typed value", n.scalar), "%s value %s (%s) rendered at %s", n.scalar, mustJSON(o), jsonKind(o), pathString(path))
		}
	case kList:
		l, ok := o.([]any)
		if !ok {
			t.structural = true
			t.j.fail(clType, "list rendered with non-list value", "%s rendered at %s", jsonKind(o), pathString(path))
			return
		}
		for i, e := range l {
			t.check(n.item, e, clonePath(path, i), false)
		}
	case kObject:
		m, ok := o.(map[string]any)
		if !ok {
			t.structural = true
			t.j.fail(clType, "object rendered with non-object value", "%s rendered at %s", jsonKind(o), pathString(path))
			return
		}
		// keys are compared precisely (with the runtime type of the payload) by the
		// membership walk; here: every rendered key is selected for some runtime
		// type and a rendered __typename names a possible type
		for k, v := range m {
			var fld *tfield
			nf := n.anyFields()
			for i := range nf {
				if nf[i].key == k {
					fld = &nf[i]
				}
			}
			if fld == nil {
				t.structural = true
				t.j.fail(clKeys, "key rendered that is not selected", "key %q at %s is not selected", k, pathString(path))
				continue
			}
			if fld.static != "" {
				if s, _ := v.(string); s != fld.static {
					t.structural = true
					t.j.fail(clType, "root __typename wrong", "__typename %s at root", mustJSON(v))
				}
				continue
			}
			if k == "__typename" {
				if s, ok := v.(string); !ok || (!n.anyTypename && !n.isPossible(s)) {
					t.structural = true
					t.j.fail(clType, "__typename rendered that is not a possible type", "__typename %s at %s, possible types %v", mustJSON(v), pathString(path), n.possible)
				}
				continue
			}
			t.check(fld.node, v, clonePath(path, k), false)
		}
	}
}

// membership walks type tree, payload and rendered data together.
type membership struct {
	j         *judgement
	errPaths  [][]any
	used      []bool
	wellTyped bool
}

func (m *membership) propClause() string {
	if m.wellTyped {
		return clProject
	}
	return clProp
}

func (m *membership) check(n *tnode, v any, present bool, o any, path []any, root bool) {
	nullish := !present || v == nil
	if o == nil {
		if nullish && n.nullable {
			return // a legitimate null
		}
		// a catch point (type safety already guaranteed that it is nullable, or data itself)
		var cands, all []raise
		collect(n, v, present, path, true, true, false, 0, &cands)
		collect(n, v, present, path, true, true, true, 0, &all)
		where := "at " + pathString(path)
		if root {
			where = "data"
			m.j.dataNull = true
		}
		if len(cands) == 0 {
			if len(all) == 0 {
				m.j.fail(m.propClause(), "null without an offending value below it", "%s is null in the response but the payload %s has no null/ill-typed value in a position that could cause it", where, mustJSON(v))
			} else {
				m.j.fail(clProp, "null raise caught above the nearest nullable ancestor", "%s is null in the response; the only raises below it are nulls at non-null positions (%s) whose nearest nullable ancestor is deeper", where, describeRaises(all))
			}
			return
		}
		if len(cands) > 1 {
			m.j.sharedCatches++
		}
		// some error must carry the path of a raise caught here
		for _, c := range cands {
			for _, p := range c.paths {
				for i, ep := range m.errPaths {
					if pathEqual(ep, p) {
						m.used[i] = true
						m.j.catches = append(m.j.catches, fmt.Sprintf("%s@%d", c.kind, c.skipped))
						return
					}
				}
			}
		}
		m.j.catches = append(m.j.catches, "unreported")
		m.j.fail(clErrPath, errPathSymptom(cands, m.errPaths), "%s was replaced by null because of %s, but no error has one of these paths; error paths in the response: %s", where, describeRaises(cands), describePaths(m.errPaths))
		return
	}
	if nullish {
		m.j.fail(m.propClause(), "value rendered where the payload has null or no value", "response has %s at %s, payload has no value there", clip(string(mustJSON(o)), 80), pathString(path))
		return
	}
	switch n.kind {
	case kLeaf:
		if !leafOK(n.scalar, v) && jsonEqual(v, o) {
			return // ill-typed value rendered as it is: already reported by the type clause
		}
		if !leafRenderedEqual(n.scalar, v, o) {
			m.j.fail(m.propClause(), "rendered leaf differs from payload", "response has %s at %s, payload has %s", mustJSON(o), pathString(path), clip(string(mustJSON(v)), 80))
		}
	case kList:
		vl, ok := v.([]any)
		ol := o.([]any)
		if !ok {
			m.j.fail(m.propClause(), "list rendered for a non-list payload value", "response has a list at %s, payload has %s", pathString(path), clip(string(mustJSON(v)), 80))
			return
		}
		if len(vl) != len(ol) {
			m.j.fail(m.propClause(), "list length differs from payload", "response has %d elements at %s, payload has %d", len(ol), pathString(path), len(vl))
			return
		}
		for i := range vl {
			m.check(n.item, vl[i], true, ol[i], clonePath(path, i), false)
		}
	case kObject:
		vo, ok := v.(map[string]any)
		oo := o.(map[string]any)
		if !ok {
			m.j.fail(m.propClause(), "object rendered for a non-object payload value", "response has an object at %s, payload has %s", pathString(path), clip(string(mustJSON(v)), 80))
			return
		}
		rt, problem := objectRuntimeType(n, vo)
		if problem != "" {
			m.j.fail(clProp, "object rendered although its payload has "+problem, "response has an object at %s, payload %s", pathString(path), clip(string(mustJSON(v)), 120))
			return
		}
		want := n.fieldsFor(rt)
		for k := range oo {
			found := false
			for _, f := range want {
				if f.key == k {
					found = true
				}
			}
			if !found {
				m.j.fail(clKeys, "key rendered that is not selected for the runtime type", "key %q at %s is not selected for runtime type %s", k, pathString(path), rt)
			}
		}
		for _, f := range want {
			ov, has := oo[f.key]
			if !has {
				m.j.fail(clKeys, "selected key missing", "key %q is selected for runtime type %s but missing at %s", f.key, rt, pathString(path))
				continue
			}
			if f.static != "" {
				continue
			}
			if f.key == "__typename" {
				if n.anyTypename {
					// unrestricted: the rendered name is the subgraph's string
					if ps, ok := vo["__typename"].(string); ok {
						if s, _ := ov.(string); s != ps {
							m.j.fail(m.propClause(), "rendered __typename differs from the subgraph's type name", "__typename %s at %s, subgraph sent %s", mustJSON(ov), pathString(path), mustJSON(ps))
						}
						continue
					}
				}
				if s, _ := ov.(string); s != rt {
					m.j.fail(m.propClause(), "rendered __typename differs from the runtime type", "__typename %s at %s, runtime type %s", mustJSON(ov), pathString(path), rt)
				}
				continue
			}
			fv, hasV := vo[f.key]
			m.check(f.node, fv, hasV, ov, clonePath(path, f.key), false)
		}
	}
}

func describeRaises(rs []raise) string {
	var parts []string
	for i, r := range rs {
		if i == 4 {
			parts = append(parts, "...")
			break
		}
		parts = append(parts, fmt.Sprintf("%s%s (%s)", r.kind, pathString(r.at), r.why))
	}
	return strings.Join(parts, "; ")
}

func describePaths(ps [][]any) string {
	if len(ps) == 0 {
		return "none"
	}
	var parts []string
	for _, p := range ps {
		if p == nil {
			parts = append(parts, "(no path)")
		} else {
			parts = append(parts, pathString(p))
		}
	}
	return strings.Join(parts, " ")
}

// errPathSymptom names how the reported paths miss the admissible ones.
func errPathSymptom(cands []raise, errPaths [][]any) string {
	// the offending position named in the site is the candidate the reported path
	// is related to; without any relation, the first candidate in walk order
	blamed := cands[0].node
	kindOf := func(n *tnode) string {
		if n.kind == kObject {
			return "object"
		}
		return n.kindName()
	}
	sym := "errors point elsewhere"
	if len(errPaths) == 0 {
		sym = "no error reported"
	} else {
	outer:
		for _, c := range cands {
			for _, p := range c.paths {
				for _, ep := range errPaths {
					switch {
					case len(ep) > len(p) && hasPrefix(ep, p):
						sym, blamed = "reported path has extra trailing segments", c.node
						break outer
					case ep != nil && len(ep) < len(p) && hasPrefix(p, ep):
						if sym == "errors point elsewhere" || sym == "error without path" {
							// weakest relation: keep looking for a more specific one
							sym, blamed = "reported path stops at an ancestor", c.node
						}
					case pathEqual(ep, dropIndices(p)) && len(ep) != len(p):
						sym, blamed = "reported path lacks list indices", c.node
						break outer
					case ep == nil:
						if sym == "errors point elsewhere" {
							sym = "error without path"
						}
					}
				}
			}
		}
	}
	return sym + " (offending " + kindOf(blamed) + ")"
}

func clip(s string, n int) string {
	if len(s) > n {
		return s[:n] + "..."
	}
	return s
}
