package c02

import (
	"fmt"
	"strings"
)

// ---------------------------------------------------------------------------
// Type-condition family ("TC"): nested abstract objects whose selection puts
// the leaf `age` under every combination of
//   own condition      {none, `... on Person`}           (owner: Person | Company)
//   ancestor condition {none, `... on Dog`, `... on House` + `... on Dog`}
//                                                        (pet: Dog | Cat, home: House | Boat)
// always next to an unconditional twin (`owner { name }`), so that the real
// postprocess (mergeFields) merges the conditional subtree into the
// unconditional one and the leaf ends up with OnTypeNames and / or
// ParentOnTypeNames (1 and 2 layers). One shape per combination of runtime
// types (matching / non-matching at every level).
//
// The oracle does NOT model these plan attributes: such nodes carry the
// selection set itself (fields and fragments) and the selected fields of a
// runtime type are computed by a small CollectFields (spec 6.3.2): fragments
// whose type condition applies are flattened, fields with the same response
// key are merged, object sub-selections are merged recursively.
// ---------------------------------------------------------------------------

type selItem struct {
	key    string // field
	node   *tnode
	fragOn string // fragment (when != "")
	frag   []selItem
}

var tcImplements = map[string][]string{
	"Person": {"Owner"}, "Company": {"Owner"}, "Dog": {"Pet"}, "Cat": {"Pet"}, "House": {"Home"}, "Boat": {"Home"},
}

func typeApplies(rt, cond string) bool {
	if rt == "*" || rt == cond {
		return true
	}
	for _, i := range tcImplements[rt] {
		if i == cond {
			return true
		}
	}
	return false
}

func mergeNodes(a, b *tnode) *tnode {
	switch a.kind {
	case kList:
		c := *a
		c.item = mergeNodes(a.item, b.item)
		return &c
	case kObject:
		c := *a
		c.sels = append(append([]selItem(nil), a.sels...), b.sels...)
		c.merged = nil
		return &c
	}
	return a
}

func collectSel(items []selItem, rt string, topOnly bool, out *[]tfield) {
	for _, it := range items {
		if it.fragOn != "" {
			if !topOnly && typeApplies(rt, it.fragOn) {
				collectSel(it.frag, rt, topOnly, out)
			}
			continue
		}
		found := false
		for i := range *out {
			if (*out)[i].key == it.key {
				(*out)[i].node = mergeNodes((*out)[i].node, it.node)
				found = true
			}
		}
		if !found {
			(*out) = append(*out, tfield{key: it.key, node: it.node})
		}
	}
}

// selFields returns (and caches, so that node identities are stable) the
// fields selected for runtime type rt; "*" = every fragment applies, "-" = only
// the fields outside any fragment.
func (n *tnode) selFields(rt string) []tfield {
	if n.merged == nil {
		n.merged = map[string][]tfield{}
	}
	if f, ok := n.merged[rt]; ok {
		return f
	}
	var out []tfield
	collectSel(n.sels, strings.TrimPrefix(rt, "-"), rt == "-", &out)
	n.merged[rt] = out
	return out
}

// anyFields: the fields selected for at least one runtime type.
func (n *tnode) anyFields() []tfield {
	if n.sels != nil {
		return n.selFields("*")
	}
	return n.fields
}

// unconditionalFields: the fields selected whatever the runtime type is.
func (n *tnode) unconditionalFields() []tfield {
	if n.sels != nil {
		return n.selFields("-")
	}
	var out []tfield
	for _, f := range n.fields {
		if f.on == nil {
			out = append(out, f)
		}
	}
	return out
}

func fld(key string, node *tnode) selItem      { return selItem{key: key, node: node} }
func frag(on string, items ...selItem) selItem { return selItem{fragOn: on, frag: items} }
func selObj(typeName string, possible []string, items ...selItem) *tnode {
	return &tnode{kind: kObject, nullable: true, typeName: typeName, possible: possible, abstract: true, sels: items}
}

// order puts want first.
func order(want string, all ...string) []string {
	out := []string{want}
	for _, a := range all {
		if a != want {
			out = append(out, a)
		}
	}
	return out
}

// tcShapes: Wrap = type of age (T = Int, T! = Int!), Ctx = tc0 | tc1 | tc2
// (number of ancestor condition layers), Sel = plain (no own condition) |
// fragments (`... on Person`), RT = runtime types "owner,pet[,home]".
func tcShapes() []Shape {
	var out []Shape
	for _, layers := range []string{"tc0", "tc1", "tc2"} {
		for _, sel := range []string{"plain", "fragments"} {
			for _, wrap := range []string{"T", "T!"} {
				for _, owner := range []string{"Person", "Company"} {
					for _, pet := range []string{"Dog", "Cat"} {
						homes := []string{""}
						if layers == "tc2" {
							homes = []string{"House", "Boat"}
						}
						for _, home := range homes {
							rt := owner + "," + pet
							if home != "" {
								rt += "," + home
							}
							out = append(out, Shape{Named: "TC", Wrap: wrap, Ctx: layers, Sel: sel, RT: rt})
						}
					}
				}
			}
		}
	}
	return out
}

func (s Shape) tcTree() *tnode {
	rts := strings.Split(s.RT, ",")
	age := leaf("Int", s.Wrap == "T")
	ageSel := fld("age", age)
	if s.Sel == "fragments" {
		ageSel = frag("Person", fld("age", age))
	}
	owner := func(items ...selItem) *tnode {
		return selObj("Owner", order(rts[0], "Person", "Company"), items...)
	}
	pet := func(items ...selItem) *tnode { return selObj("Pet", order(rts[1], "Dog", "Cat"), items...) }
	root := &tnode{kind: kObject, typeName: "Query", possible: []string{"Query"}}
	switch s.Ctx {
	case "tc0":
		root.fields = []tfield{{key: "pet", node: pet(fld("owner", owner(fld("name", leaf("String", true)), ageSel)))}}
	case "tc1":
		root.fields = []tfield{{key: "pet", node: pet(
			fld("owner", owner(fld("name", leaf("String", true)))),
			frag("Dog", fld("owner", owner(ageSel))))}}
	case "tc2":
		home := selObj("Home", order(rts[2], "House", "Boat"),
			fld("pet", pet(fld("owner", owner(fld("name", leaf("String", true)))))),
			frag("House", fld("pet", pet(frag("Dog", fld("owner", owner(ageSel)))))))
		root.fields = []tfield{{key: "home", node: home}}
	}
	return root
}

func (s Shape) tcSDL() string {
	ageT := "Int"
	if s.Wrap == "T!" {
		ageT = "Int!"
	}
	ob := fmt.Sprintf("{ name: String age: %s }", ageT)
	return fmt.Sprintf("interface Owner %s\ntype Person implements Owner %s\ntype Company implements Owner %s\n"+
		"interface Pet { owner: Owner }\ntype Dog implements Pet { owner: Owner }\ntype Cat implements Pet { owner: Owner }\n"+
		"interface Home { pet: Pet }\ntype House implements Home { pet: Pet }\ntype Boat implements Home { pet: Pet }\n"+
		"type Query { pet: Pet home: Home }\n", ob, ob, ob)
}

func printSel(b *strings.Builder, items []selItem) {
	b.WriteString(" {")
	for _, it := range items {
		if it.fragOn != "" {
			b.WriteString(" ... on " + it.fragOn)
			printSel(b, it.frag)
			continue
		}
		b.WriteString(" " + it.key)
		n := it.node
		for n.kind == kList {
			n = n.item
		}
		if n.kind == kObject {
			printSel(b, n.sels)
		}
	}
	b.WriteString(" }")
}

func (s Shape) tcQuery() string {
	var b strings.Builder
	b.WriteString("query {")
	for _, f := range s.tcTree().fields {
		b.WriteString(" " + f.key)
		printSel(&b, f.node.sels)
	}
	b.WriteString(" }")
	return b.String()
}
