package c02

import (
	"bytes"
	"context"
	"fmt"
	"io"
	"net/http"
	"runtime"
	"strings"
	"sync"

	"github.com/wundergraph/graphql-go-tools/v2/pkg/ast"
	"github.com/wundergraph/graphql-go-tools/v2/pkg/astnormalization"
	"github.com/wundergraph/graphql-go-tools/v2/pkg/astparser"
	"github.com/wundergraph/graphql-go-tools/v2/pkg/asttransform"
	"github.com/wundergraph/graphql-go-tools/v2/pkg/astvalidation"
	"github.com/wundergraph/graphql-go-tools/v2/pkg/engine/datasource/graphql_datasource"
	"github.com/wundergraph/graphql-go-tools/v2/pkg/engine/plan"
	"github.com/wundergraph/graphql-go-tools/v2/pkg/engine/postprocess"
	"github.com/wundergraph/graphql-go-tools/v2/pkg/engine/resolve"
	"github.com/wundergraph/graphql-go-tools/v2/pkg/operationreport"
)

// ---------------------------------------------------------------------------
// Binding to the code under test: the REAL planner (normalize, validate, plan,
// postprocess exactly like execution/engine.ExecutionEngine.Execute) on a
// one-subgraph configuration (graphql_datasource) yields the
// resolve.GraphQLResponse; the payload is rendered through
// NewResolvable -> Init(ctx, payload) -> Resolve, i.e. what
// Resolver.ResolveGraphQLResponse does after the loader merged the subgraph's
// `data` into the (empty) root object.
// ---------------------------------------------------------------------------

type subgraph struct {
	mu   sync.Mutex
	body []byte
}

func (s *subgraph) RoundTrip(r *http.Request) (*http.Response, error) {
	s.mu.Lock()
	b := s.body
	s.mu.Unlock()
	return &http.Response{StatusCode: 200, Header: http.Header{"Content-Type": []string{"application/json"}},
		Body: io.NopCloser(bytes.NewReader(b)), Request: r}, nil
}

type binding struct {
	ctx      context.Context
	sub      *subgraph
	factory  *graphql_datasource.Factory[graphql_datasource.Configuration]
	resolver *resolve.Resolver            // default options
	optRes   map[string]*resolve.Resolver // per Shape.Opt
	plans    map[Shape]*planned
}

type planned struct {
	shape Shape
	sdl   string
	query string
	resp  *resolve.GraphQLResponse
	tree  *tnode
	err   error
}

func newBinding() (*binding, error) {
	ctx := context.Background()
	sub := &subgraph{}
	client := &http.Client{Transport: sub}
	sc := graphql_datasource.NewGraphQLSubscriptionClient(ctx, graphql_datasource.WithUpgradeClient(client), graphql_datasource.WithStreamingClient(client))
	factory, err := graphql_datasource.NewFactory(ctx, client, sc)
	if err != nil {
		return nil, err
	}
	return &binding{ctx: ctx, sub: sub, factory: factory, plans: map[Shape]*planned{},
		resolver: resolve.New(ctx, resolve.ResolverOptions{MaxConcurrency: 4})}, nil
}

func (b *binding) plan(s Shape) *planned {
	if p, ok := b.plans[s]; ok {
		return p
	}
	p := &planned{shape: s, sdl: s.sdl(), query: s.query(), tree: s.tree()}
	p.resp, p.err = b.planOne(p.sdl, p.query)
	if p.err == nil && s.Strip {
		p.resp = stripPossibleTypes(p.resp)
	}
	b.plans[s] = p
	return p
}

func (b *binding) planOne(sdl, query string) (resp *resolve.GraphQLResponse, err error) {
	defer func() {
		if r := recover(); r != nil {
			err = fmt.Errorf("planner panic: %v", r)
		}
	}()
	def, rep := astparser.ParseGraphqlDocumentString(sdl)
	if rep.HasErrors() {
		return nil, fmt.Errorf("schema: %s", rep.Error())
	}
	// root / child nodes of the single subgraph: every field of every type
	var roots, children []plan.TypeField
	for _, n := range def.RootNodes {
		switch n.Kind {
		case ast.NodeKindObjectTypeDefinition:
			name := def.ObjectTypeDefinitionNameString(n.Ref)
			var fields []string
			for _, fr := range def.ObjectTypeDefinitions[n.Ref].FieldsDefinition.Refs {
				fields = append(fields, def.FieldDefinitionNameString(fr))
			}
			if name == "Query" {
				roots = append(roots, plan.TypeField{TypeName: name, FieldNames: fields})
			} else {
				children = append(children, plan.TypeField{TypeName: name, FieldNames: fields})
			}
		case ast.NodeKindInterfaceTypeDefinition:
			name := def.InterfaceTypeDefinitionNameString(n.Ref)
			var fields []string
			for _, fr := range def.InterfaceTypeDefinitions[n.Ref].FieldsDefinition.Refs {
				fields = append(fields, def.FieldDefinitionNameString(fr))
			}
			children = append(children, plan.TypeField{TypeName: name, FieldNames: fields})
		}
	}
	if err := asttransform.MergeDefinitionWithBaseSchema(&def); err != nil {
		return nil, fmt.Errorf("schema merge: %w", err)
	}
	schemaCfg, err := graphql_datasource.NewSchemaConfiguration(sdl, nil)
	if err != nil {
		return nil, err
	}
	custom, err := graphql_datasource.NewConfiguration(graphql_datasource.ConfigurationInput{
		Fetch:               &graphql_datasource.FetchConfiguration{URL: "http://subgraph.local/graphql", Method: "POST"},
		SchemaConfiguration: schemaCfg,
	})
	if err != nil {
		return nil, err
	}
	ds, err := plan.NewDataSourceConfiguration[graphql_datasource.Configuration]("sg", b.factory,
		&plan.DataSourceMetadata{RootNodes: roots, ChildNodes: children}, custom)
	if err != nil {
		return nil, err
	}

	op, rep := astparser.ParseGraphqlDocumentString(query)
	if rep.HasErrors() {
		return nil, fmt.Errorf("query: %s", rep.Error())
	}
	var report operationreport.Report
	astnormalization.NewWithOpts(
		astnormalization.WithRemoveFragmentDefinitions(),
		astnormalization.WithRemoveUnusedVariables(),
		astnormalization.WithInlineFragmentSpreads(),
	).NormalizeOperation(&op, &def, &report)
	if report.HasErrors() {
		return nil, fmt.Errorf("normalize: %s", report.Error())
	}
	astvalidation.DefaultOperationValidator().Validate(&op, &def, &report)
	if report.HasErrors() {
		return nil, fmt.Errorf("validate: %s", report.Error())
	}
	astnormalization.NewWithOpts(astnormalization.WithExtractVariables()).NormalizeOperation(&op, &def, &report)
	if report.HasErrors() {
		return nil, fmt.Errorf("normalize(2): %s", report.Error())
	}
	planner, err := plan.NewPlanner(plan.Configuration{
		DefaultFlushIntervalMillis: 500,
		DataSources:                []plan.DataSource{ds},
		Fields:                     plan.FieldConfigurations{},
	})
	if err != nil {
		return nil, err
	}
	pl := planner.Plan(&op, &def, "", &report)
	if report.HasErrors() {
		return nil, fmt.Errorf("plan: %s", report.Error())
	}
	postprocess.NewProcessor().Process(pl)
	sp, ok := pl.(*plan.SynchronousResponsePlan)
	if !ok {
		return nil, fmt.Errorf("unexpected plan type %T", pl)
	}
	return sp.Response, nil
}

// stripPossibleTypes returns the response plan with a copy of the response tree
// in which no object restricts or names its runtime type - exactly the fields
// resolve.(*Object).Copy does not carry over.
func stripPossibleTypes(resp *resolve.GraphQLResponse) *resolve.GraphQLResponse {
	data := resp.Data.Copy().(*resolve.Object)
	var walk func(n resolve.Node)
	walk = func(n resolve.Node) {
		switch x := n.(type) {
		case *resolve.Object:
			x.PossibleTypes, x.InaccessibleTypes, x.TypeName, x.SourceName = nil, nil, "", ""
			for _, f := range x.Fields {
				walk(f.Value)
			}
		case *resolve.Array:
			walk(x.Item)
		}
	}
	walk(data)
	cp := *resp
	cp.Data = data
	return &cp
}

func resolvableOptions(opt string) resolve.ResolvableOptions {
	var o resolve.ResolvableOptions
	for _, f := range strings.Split(opt, "+") {
		switch f {
		case "vc":
			o.ApolloCompatibilityValueCompletionInExtensions = true
		case "tf":
			o.ApolloCompatibilityTruncateFloatValues = true
		}
	}
	return o
}

// rendered is what one run of the renderer produced.
type rendered struct {
	Out       []byte
	Err       error
	Panic     string // panic value, "" when none
	PanicSite string // innermost frame of the repository on the panicking stack
}

// render runs the narrow seam: NewResolvable -> Init(payload) -> Resolve.
func (p *planned) render(payload []byte) (r rendered) {
	defer func() {
		if v := recover(); v != nil {
			r.Panic = fmt.Sprint(v)
			r.PanicSite = panicSite()
		}
	}()
	rctx := resolve.NewContext(context.Background())
	res := resolve.NewResolvable(nil, resolvableOptions(p.shape.Opt))
	if err := res.Init(rctx, payload, p.resp.Info.OperationType); err != nil {
		r.Err = fmt.Errorf("Init: %w", err)
		return
	}
	var buf bytes.Buffer
	if err := res.Resolve(rctx.Context(), p.resp.Data, p.resp.Fetches, &buf); err != nil {
		r.Err = fmt.Errorf("Resolve: %w", err)
	}
	r.Out = buf.Bytes()
	return
}

// renderFull runs the whole public path Resolver.ResolveGraphQLResponse with a
// subgraph (http.RoundTripper) that answers {"data": payload}. Only used to
// confirm a violation found through the narrow seam.
func (b *binding) renderFull(p *planned, payload []byte) (r rendered) {
	defer func() {
		if v := recover(); v != nil {
			r.Panic = fmt.Sprint(v)
			r.PanicSite = panicSite()
		}
	}()
	b.sub.mu.Lock()
	b.sub.body = append(append([]byte(`{"data":`), payload...), '}')
	b.sub.mu.Unlock()
	rctx := resolve.NewContext(context.Background())
	// the public path runs WITH a (never matching) type name rename rule, the
	// narrow seam without any: both must give the same bytes
	rctx.RenameTypeNames = []resolve.RenameTypeName{{From: []byte("NoSuchType"), To: []byte("Renamed")}}
	var buf bytes.Buffer
	resolver := b.resolver
	if p.shape.Opt != "" {
		if b.optRes == nil {
			b.optRes = map[string]*resolve.Resolver{}
		}
		if b.optRes[p.shape.Opt] == nil {
			b.optRes[p.shape.Opt] = resolve.New(b.ctx, resolve.ResolverOptions{MaxConcurrency: 4, ResolvableOptions: resolvableOptions(p.shape.Opt)})
		}
		resolver = b.optRes[p.shape.Opt]
	}
	if _, err := resolver.ResolveGraphQLResponse(rctx, p.resp, nil, &buf); err != nil {
		r.Err = err
	}
	r.Out = buf.Bytes()
	return
}

// panicSite returns the innermost function of the repository on the current
// (panicking) stack, without line numbers so that it survives unrelated edits.
func panicSite() string {
	pcs := make([]uintptr, 64)
	n := runtime.Callers(3, pcs)
	frames := runtime.CallersFrames(pcs[:n])
	first := ""
	for {
		f, more := frames.Next()
		fn := f.Function
		if first == "" && !strings.HasPrefix(fn, "runtime.") {
			first = fn
		}
		if strings.Contains(fn, "github.com/wundergraph/graphql-go-tools/") {
			return strings.TrimPrefix(fn, "github.com/wundergraph/graphql-go-tools/")
		}
		if !more {
			break
		}
	}
	return first
}
