// Check C02: the rendered response is well-formed and type-safe whatever the
// subgraphs return. Engine E: every response shape (named type x list/non-null
// wrapping to list depth 2 x parent context x selection variant) is planned by
// the real planner; the well-typed baseline payload and every payload with <=1
// (quick) / <=2 (thorough) deviations from the menu is rendered by the real
// Resolvable and judged by the reference completion R5 (oracle_test.go).
// See DESIGN.md section 3 C02 and appendix A.4.
package c02

import (
	"fmt"
	"runtime/debug"
	"sort"
	"strings"
	"testing"

	"verif/internal/vk"
)

const maxListDepth = 2

// Case is one (shape, payload) pair; it is also the replay input.
type Case struct {
	Shape Shape       `json:"shape"`
	Devs  []Deviation `json:"deviations"`
}

func (c Case) describe() string {
	var parts []string
	for _, d := range c.Devs {
		parts = append(parts, d.Kind+" at "+roleString(d.Path))
	}
	if len(parts) == 0 {
		parts = []string{"baseline"}
	}
	return strings.Join(parts, " + ") + " | " + c.Shape.String()
}

type evaluation struct {
	payload   map[string]any
	raw       []byte
	r         rendered
	j         *judgement
	notJudged string
	verdicts  []verdict
}

type checker struct {
	run    *vk.Run
	b      *binding
	shapes []Shape
	scan1  *scan // all shapes x (baseline + single deviations)
	scan2  *scan // all shapes x sibling slice of deviation pairs
	bases  map[Shape]map[string]any
	single map[Shape][]Deviation
	// classes already offered to run.Sample (building a sample is not free)
	sampled map[string]bool
	// violations already built for a (clause, site) whose canonical case exists
	reported map[[3]string]*vk.Violation
}

func (c *checker) base(p *planned) (map[string]any, []Deviation) {
	if b, ok := c.bases[p.shape]; ok {
		return b, c.single[p.shape]
	}
	b := baseline(p.tree)
	s := p.shape.singlesOf(p.tree, b)
	c.bases[p.shape] = b
	c.single[p.shape] = s
	return b, s
}

// evaluate renders one case through the narrow seam and judges it.
func (c *checker) evaluate(p *planned, devs []Deviation, full bool) (*evaluation, error) {
	base, _ := c.base(p)
	payload, err := apply(base, devs)
	if err != nil {
		return nil, err
	}
	ev := &evaluation{payload: payload, raw: mustJSON(payload)}
	for _, d := range devs {
		if d.NotJudged != "" {
			ev.notJudged = d.NotJudged
		}
	}
	if full {
		ev.r = c.b.renderFull(p, ev.raw)
	} else {
		ev.r = p.render(ev.raw)
	}
	if ev.r.Panic != "" {
		ev.verdicts = []verdict{{Clause: clPanic, Site: ev.r.PanicSite, Detail: "panic: " + ev.r.Panic}}
		return ev, nil
	}
	if ev.r.Err != nil {
		ev.verdicts = []verdict{{Clause: clJSON, Site: "renderer returned an error instead of a response", Detail: ev.r.Err.Error() + "; bytes written: " + clip(string(ev.r.Out), 200)}}
		return ev, nil
	}
	ev.j = judge(p.tree, payload, ev.r.Out, ev.notJudged != "", strings.HasPrefix(p.shape.Opt, "vc"))
	ev.verdicts = ev.j.verdicts
	return ev, nil
}

func hasVerdict(vs []verdict, clause, site string) *verdict {
	for i := range vs {
		if vs[i].Clause == clause && vs[i].Site == site {
			return &vs[i]
		}
	}
	return nil
}

// scan is an incremental, indexed pass over a canonically ordered case space
// (independent of tier and shard). It records the FIRST case of every
// (clause, site) it meets, so that however many sites ask, the space is walked
// at most once per shard.
type scan struct {
	cases func(s Shape, sg []Deviation) [][]Deviation
	si    int // next shape
	ci    int // next case within that shape
	index map[[2]string]*Case
}

func singleCases(_ Shape, sg []Deviation) [][]Deviation {
	out := make([][]Deviation, 0, len(sg)+1)
	out = append(out, nil) // the baseline
	for _, d := range sg {
		out = append(out, []Deviation{d})
	}
	return out
}

// slicePairs: the sibling slice of the two-deviation space (see TestCheck).
func slicePairs(s Shape, sg []Deviation) [][]Deviation {
	var out [][]Deviation
	if s.Opt != "" || s.Named == "TC" {
		return nil // the option variants and the type-condition family are single-deviation spaces
	}
	for _, d1 := range sg {
		if !d1.underField(s) || !sliceKinds[d1.Kind] {
			continue
		}
		for _, d2 := range sg {
			if !d2.atSibling(s) || (d2.Kind != "null" && d2.Kind != "number-for-string") {
				continue
			}
			fd := s.fieldDepth()
			if d2.Path[fd] == "k" && d2.Kind == "null" {
				continue // k is nullable: a null there is no offence
			}
			if fd == 2 {
				// siblings of an EARLIER list element are rendered before d1 in any
				// case; the k of the same element is kept as the "before" control
				i1, _ := stepInt(d1.Path[1])
				i2, _ := stepInt(d2.Path[1])
				if i2 < i1 {
					continue
				}
			}
			out = append(out, []Deviation{d1, d2})
		}
	}
	return out
}

func (c *checker) advance(sc *scan, key [2]string) *Case {
	if cs, ok := sc.index[key]; ok {
		return cs
	}
	for sc.si < len(c.shapes) {
		s := c.shapes[sc.si]
		p := c.b.plan(s)
		if p.err != nil {
			sc.si, sc.ci = sc.si+1, 0
			continue
		}
		_, sg := c.base(p)
		cases := sc.cases(s, sg)
		for sc.ci < len(cases) {
			devs := cases[sc.ci]
			sc.ci++
			ev, err := c.evaluate(p, devs, false)
			if err != nil {
				continue
			}
			for _, v := range ev.verdicts {
				k := [2]string{v.Clause, v.Site}
				if _, ok := sc.index[k]; !ok {
					sc.index[k] = &Case{Shape: s, Devs: devs}
				}
			}
			if cs, ok := sc.index[key]; ok {
				return cs
			}
		}
		sc.si, sc.ci = sc.si+1, 0
	}
	return nil
}

// canonical finds the shrunk representative of a (clause, site): the first case
// that fails the same clause at the same site in the canonical simplest-first
// order over ALL shapes x single deviations and, if no single deviation does it,
// over ALL shapes x the sibling slice of deviation pairs. Thousands of failing
// inputs of one defect collapse onto it, whatever the tier and the shard.
func (c *checker) canonical(clause, site string) *Case {
	key := [2]string{clause, site}
	if cs := c.advance(c.scan1, key); cs != nil {
		return cs
	}
	return c.advance(c.scan2, key)
}

func (c *checker) report(orig Case, v verdict) {
	cs := c.canonical(v.Clause, v.Site)
	class := ""
	if cs == nil {
		// outside both canonical spaces: keep the failing case itself, classified
		// without the shape so that the variants of one defect still collapse
		cs = &orig
		var parts []string
		for _, d := range orig.Devs {
			parts = append(parts, d.Kind+" at "+roleString(d.Path))
		}
		class = "needs " + fmt.Sprint(len(orig.Devs)) + " deviations: " + strings.Join(parts, " + ")
	} else {
		class = cs.describe()
	}
	key := [3]string{v.Clause, v.Site, class}
	if viol, ok := c.reported[key]; ok {
		c.run.Violate(*viol) // same fingerprint: only counted
		return
	}
	viol := &vk.Violation{Clause: v.Clause, Site: v.Site, Class: class, Input: cs, Detail: c.detail(*cs, v.Clause, v.Site, orig)}
	c.reported[key] = viol
	c.run.Violate(*viol)
}

// detail re-runs the shrunk case and writes everything a reader needs.
func (c *checker) detail(cs Case, clause, site string, orig Case) string {
	p := c.b.plan(cs.Shape)
	var b strings.Builder
	fmt.Fprintf(&b, "shape: %s\nschema: %s\nquery: %s\n", cs.Shape, strings.ReplaceAll(strings.TrimSpace(p.sdl[max(0, strings.Index(p.sdl, "type O")):]), "\n", " "), p.query)
	ev, err := c.evaluate(p, cs.Devs, false)
	if err != nil {
		return b.String() + "cannot re-run: " + err.Error()
	}
	for _, d := range cs.Devs {
		fmt.Fprintf(&b, "deviation: %s\n", d)
	}
	fmt.Fprintf(&b, "subgraph data: %s\n", ev.raw)
	if ev.r.Panic != "" {
		fmt.Fprintf(&b, "observed: PANIC %s in %s\n", ev.r.Panic, ev.r.PanicSite)
	} else {
		fmt.Fprintf(&b, "observed: %s\n", clip(string(ev.r.Out), 600))
	}
	if v := hasVerdict(ev.verdicts, clause, site); v != nil {
		fmt.Fprintf(&b, "oracle: %s\n", v.Detail)
	}
	// confirmation through the whole public path
	fe, err := c.evaluate(p, cs.Devs, true)
	switch {
	case err != nil:
		fmt.Fprintf(&b, "full path: cannot run: %v\n", err)
	case hasVerdict(fe.verdicts, clause, site) != nil:
		what := clip(string(fe.r.Out), 300)
		if fe.r.Panic != "" {
			what = "PANIC " + fe.r.Panic
		}
		fmt.Fprintf(&b, "confirmed through Resolver.ResolveGraphQLResponse with a subgraph answering {\"data\":<payload>}: %s\n", what)
	default:
		fmt.Fprintf(&b, "NOT reproduced through Resolver.ResolveGraphQLResponse: %s (err=%v panic=%q)\n", clip(string(fe.r.Out), 300), fe.r.Err, fe.r.Panic)
	}
	if orig.describe() != cs.describe() {
		fmt.Fprintf(&b, "first met on: %s\n", orig.describe())
	}
	return b.String()
}

func clauseTag(cl string) string {
	switch cl {
	case clPanic:
		return "panic"
	case clJSON:
		return "json"
	case clTop:
		return "toplevel"
	case clKeys:
		return "keys"
	case clType:
		return "type"
	case clProp:
		return "propagation"
	case clErrPath:
		return "errorpath"
	case clProject:
		return "projection"
	case clErrShape:
		return "errorshape"
	}
	return "other"
}

// account records coverage counters and the outcome of one evaluation.
func (c *checker) account(cs Case, ev *evaluation) {
	run := c.run
	run.Eval(1)
	run.Count("payloads_with_"+fmt.Sprint(len(cs.Devs))+"_deviations", 1)
	if ev.notJudged != "" {
		run.Count("not_judged", 1)
	}
	if ev.r.Panic != "" {
		run.Count("panics", 1)
		run.Outcome("panic " + ev.r.PanicSite)
		return
	}
	j := ev.j
	if j == nil {
		return
	}
	if j.nErrors > 0 {
		run.Count("responses_with_errors", 1)
	}
	if ev.notJudged != "" {
		return
	}
	if j.raises == 0 {
		run.Count("payloads_well_typed", 1)
	} else {
		run.Count("payloads_with_raise", 1)
	}
	if j.dataNull {
		run.Count("responses_data_null", 1)
	}
	if j.sharedCatches > 0 {
		// one replacement caused by several raises: only one error is demanded
		run.Count("replacements_with_several_raises", int64(j.sharedCatches))
	}
	for _, ct := range j.catches {
		switch {
		case ct == "unreported":
			run.Count("catches_unreported", 1)
		case strings.HasSuffix(ct, "@0"):
			run.Count("catches_at_nearest", 1)
		default:
			run.Count("catches_above_nearest", 1)
		}
	}
	if len(ev.verdicts) == 0 {
		run.Count("judged_ok", 1)
	}
	key := j.outcomeKey()
	for _, v := range ev.verdicts {
		key += " !" + clauseTag(v.Clause)
	}
	run.Outcome(key)
	class := "well-typed"
	switch {
	case j.dataNull:
		class = "data-null"
	case j.raises >= 2:
		class = "two-raises"
	case j.nullRaises > 0:
		class = "null-raise"
	case j.illRaises > 0:
		class = "ill-typed-raise"
	}
	if !c.sampled[class] {
		c.sampled[class] = true
		run.Sample(class, map[string]any{"case": cs.describe(), "query": cs.Shape.query(), "subgraph_data": string(ev.raw), "response": string(ev.r.Out), "outcome": key})
	}
}

func (c *checker) runCase(p *planned, cs Case) {
	ev, err := c.evaluate(p, cs.Devs, false)
	if err != nil {
		c.run.Note("harness: %s: %v", cs.describe(), err)
		c.run.Count("harness_errors", 1)
		return
	}
	c.account(cs, ev)
	{
		// the harness assumption is checked, not trusted: the whole public path
		// (Resolver.ResolveGraphQLResponse, loader, http.RoundTripper subgraph) must
		// give byte-identical output (or the same panic) for every case
		fe, ferr := c.evaluate(p, cs.Devs, true)
		c.run.Count("cross_checked_with_public_path", 1)
		if ferr != nil || fe.r.Panic != ev.r.Panic || string(fe.r.Out) != string(ev.r.Out) || (fe.r.Err == nil) != (ev.r.Err == nil) {
			c.run.Count("seam_difference", 1)
			c.run.Violate(vk.Violation{Clause: "narrow seam and public path agree (harness assumption)", Site: "output differs", Class: cs.describe(), Input: cs,
				Detail: fmt.Sprintf("%s\nsubgraph data: %s\nResolvable: %s panic=%q err=%v\nResolver.ResolveGraphQLResponse: %s panic=%q err=%v", cs.describe(), ev.raw, ev.r.Out, ev.r.Panic, ev.r.Err, fe.r.Out, fe.r.Panic, fe.r.Err)})
		}
	}
	for _, v := range ev.verdicts {
		c.run.Count("failed:"+clauseTag(v.Clause), 1)
		c.report(cs, v)
	}
}

// orderedShapes: the whole shape space in canonical order: by list depth first
// (all families), then grid, plans without PossibleTypes, type-condition family,
// option variants. The shrunk representative of a defect is searched in this
// order, so a defect of a late family is still found among small shapes.
func orderedShapes() []Shape {
	all := append(allShapes(maxListDepth), extraShapes(maxListDepth)...)
	sort.SliceStable(all, func(i, j int) bool { return strings.Count(all[i].Wrap, "[") < strings.Count(all[j].Wrap, "[") })
	return all
}

func TestCheck(t *testing.T) {
	run := vk.Start("C02", "exploration")
	defer run.Finish()
	debug.SetGCPercent(800) // tiny live heap, many short-lived values
	b, err := newBinding()
	if err != nil {
		t.Fatal(err)
	}
	c := &checker{run: run, b: b, shapes: orderedShapes(), scan1: &scan{cases: singleCases, index: map[[2]string]*Case{}}, scan2: &scan{cases: slicePairs, index: map[[2]string]*Case{}}, bases: map[Shape]map[string]any{}, single: map[Shape][]Deviation{}, sampled: map[string]bool{}, reported: map[[3]string]*vk.Violation{}}

	if run.Replay != "" {
		var cs Case
		if err := run.ReplayInput(&cs); err != nil {
			t.Fatal(err)
		}
		p := b.plan(cs.Shape)
		if p.err != nil {
			t.Fatalf("planning %s: %v", cs.Shape, p.err)
		}
		ev, err := c.evaluate(p, cs.Devs, false)
		if err != nil {
			t.Fatal(err)
		}
		fmt.Printf("replay %s\n  subgraph data: %s\n  response: %s panic=%q\n", cs.describe(), ev.raw, ev.r.Out, ev.r.Panic)
		run.Eval(1)
		for _, v := range ev.verdicts {
			run.Violate(vk.Violation{Clause: v.Clause, Site: v.Site, Class: cs.describe(), Input: cs, Detail: c.detail(cs, v.Clause, v.Site, cs)})
		}
		return
	}

	maxDev := vk.Pick(run, 1, 2)
	run.Rule("every response shape (12 named types incl. an interface with ONE implementer and a union with ONE member x 14 list/non-null wrappings up to list depth 2 x 6 parent contexts (root, nullable / non-null object, [Obj], [Obj!]!, and a list of a union whose members are selected through `... on Interface`, which makes postprocess duplicate the field subtree with Node.Copy) x 2-3 selection variants; the field under test always has a sibling k: String rendered before it and z: String! rendered after it) is planned by the real planner; for each shape the well-typed baseline payload and every payload with <= max_deviations deviations at pairwise independent positions (every position of the baseline x the whole menu of that position, which includes the escaping alphabet at every position that renders subgraph text: String, ID, custom scalar, enum, __typename, and - as wrong kind, echoed in the error message - Int, Float, Boolean) is rendered by the real Resolvable and judged by R5; escaping deviations are single deviations in both tiers; the quick tier adds the sibling slice of the two-deviation space; the shapes that select __typename on a concrete object are additionally run with the same real plan stripped of PossibleTypes (what Object.Copy yields) x the string deviations of __typename; two further families, single-deviation spaces in quick: (a) type conditions - nested abstract objects home{pet{owner{age}}} whose leaf `age` (Int / Int!) sits under every combination of own condition {none, ... on Person} x ancestor conditions {none, ... on Dog, ... on House + ... on Dog}, always next to an unconditional twin so that the real postprocess mergeFields gives the leaf OnTypeNames and/or 1-2 layers of ParentOnTypeNames, one shape per combination of matching / non-matching runtime types, judged by a CollectFields over the selection set itself; (b) the grid shapes of enum (and String, interface, Float as controls) rendered with ApolloCompatibilityValueCompletionInExtensions (and TruncateFloatValues), where a replacement may be reported in extensions.valueCompletion instead of errors; distinct = distinct (number and kind of raises, where each was caught relative to the nearest nullable ancestor, data:null, number of errors, failed clauses)")
	run.Assume(
		"the single subgraph's `data` is merged unchanged into the response tree (Init(ctx, payload) == what the loader does for one root fetch) - checked, not trusted: every case is also run through Resolver.ResolveGraphQLResponse with an http.RoundTripper subgraph answering {\"data\":payload} and must give byte-identical output or the same panic (counter cross_checked_with_public_path, seam_difference)",
		"strictness table: custom scalar accepts any JSON; ID string or integer; Float any number; Int any integral number; Boolean, String, enum exact; an @inaccessible enum value is not a value of the client schema",
		"latitude (appendix A.4): a null at a non-null position must be caught at the nearest nullable ancestor, an ill-typed value at any nullable ancestor-or-self or by data:null; one error with the path of one caught raise per replacement, extra errors allowed; a __typename problem may be reported at the object or at its __typename key; an integer ID may be rendered as number or string",
		"not judged beyond valid JSON / top-level keys (counted as not_judged): Int outside 32 bit, non-integral number for ID",
		"every error path (also of additional errors) must walk the selected response shape: keys under objects, indices under lists within the subgraph's list length, nothing below a leaf; a trailing __typename is accepted under any object",
		"an abstract position with exactly one possible type (interface with one implementer, union with one member) needs a __typename naming that type, exactly like one with two possible types",
		"escaping: the subgraph body is valid JSON with escapes; the response must be strict JSON without duplicate keys and the DECODED value at each position must equal the decoded payload value (or be nulled with an error); subgraph `errors` / `extensions` pass-through is not part of this check",
		"the public path cross-check runs with a never-matching RenameTypeNames rule, the narrow seam without rules",
		"in the value completion mode `extensions` may hold exactly {valueCompletion: [...]}; its entries count like entries of `errors` (path requirement, path shape, none for well-typed data)",
		"Apollo compatibility flags only as listed in resolvable_option_variants; SuppressFetchErrors and ReplaceInvalidVarError do not touch rendering, no authorizer, no field renderer, no @defer, no aliases, no arguments",
	)
	run.Bound("max_deviations", maxDev)
	run.Bound("max_list_depth", maxListDepth)
	run.Bound("list_length", listLen)
	run.Bound("named_types", namedTypes)
	run.Bound("parent_contexts", contexts)
	run.Bound("shapes", len(c.shapes))
	run.Bound("escaping_alphabet", []string{`a"b`, `a\b`, "a\\n\\t\\rb", "a\\u0001\\u0000\\u001fb", "multi-byte UTF-8 incl. 4-byte, U+2028, <&>", `","k":"x","a":"x",... (looks like JSON structure)`})
	run.Bound("type_condition_shapes", len(tcShapes()))
	run.Bound("resolvable_option_variants", []string{"defaults (all shapes)", "vc = ApolloCompatibilityValueCompletionInExtensions (E, String, I)", "vc+tf = vc + ApolloCompatibilityTruncateFloatValues (Float)", "tf = ApolloCompatibilityTruncateFloatValues alone (Float)"})
	run.Bound("int_number_spellings", map[string][]string{"non-integral (ill-typed)": intNonIntegral, "integral (well-typed)": intIntegral})
	run.Bound("float_number_spellings", floatSpellings)
	run.Bound("siblings", "k: String before, z: String! after the field under test")
	if maxDev < 2 {
		run.Bound("quick_sibling_slice", "pairs {null, one wrong kind per node kind} at/below the field under test x {null, number-for-string} at z and number-for-string at k, for the siblings of the same and of later list elements")
	}

	var unit int64
	for _, s := range c.shapes {
		if run.Expired() {
			break
		}
		// the unit layout must be computable without planning
		tree := s.tree()
		base := baseline(tree)
		sg := s.singlesOf(tree, base)
		units := 1
		if maxDev >= 2 {
			units += len(sg)
		}
		first := unit
		unit += int64(units)
		mine := false
		for u := first; u < unit; u++ {
			if run.Mine(u) {
				mine = true
			}
		}
		if !mine {
			continue
		}
		p := b.plan(s)
		if p.err != nil {
			run.Violate(vk.Violation{Clause: "every shape can be planned (infrastructure)", Site: "planner", Class: s.String(), Detail: p.err.Error(), Input: Case{Shape: s}})
			continue
		}
		c.bases[s], c.single[s] = base, sg
		if run.Mine(first) {
			run.Count("shapes", 1)
			c.runCase(p, Case{Shape: s})
			for _, d := range sg {
				c.runCase(p, Case{Shape: s, Devs: []Deviation{d}})
			}
			if maxDev < 2 {
				// quick-tier slice of the two-deviation space: one representative
				// deviation (null / one wrong kind) at every position at or below the
				// field under test x {null, wrong kind} in every instance of the
				// sibling rendered before (k) and after (z) it. An error reported
				// AFTER an earlier failure was absorbed is only visible this way.
				for _, pair := range slicePairs(s, sg) {
					run.Count("quick_sibling_slice_pairs", 1)
					c.runCase(p, Case{Shape: s, Devs: pair})
				}
			}
		}
		if maxDev >= 2 {
			for i := range sg {
				if !run.Mine(first + 1 + int64(i)) {
					continue
				}
				if run.Expired() {
					break
				}
				for k := i + 1; k < len(sg); k++ {
					if sg[i].singleOnly() || sg[k].singleOnly() || !independent(sg[i].Path, sg[k].Path) {
						continue
					}
					c.runCase(p, Case{Shape: s, Devs: []Deviation{sg[i], sg[k]}})
				}
			}
		}
	}
}
