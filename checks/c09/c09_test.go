// Check C09: planning is deterministic; caching and plan optimizations are transparent.
package c09

import (
	"encoding/json"
	"fmt"
	"os"
	"sort"
	"strings"
	"sync"
	"testing"
	"testing/synctest"

	"github.com/vektah/gqlparser/v2"
	gast "github.com/vektah/gqlparser/v2/ast"

	"github.com/wundergraph/graphql-go-tools/execution/engine"
	"github.com/wundergraph/graphql-go-tools/v2/pkg/engine/postprocess"
	"github.com/wundergraph/graphql-go-tools/v2/pkg/vsync"

	"verif/internal/fedlab"
	"verif/internal/fedorders"
	"verif/internal/refexec"
	"verif/internal/vk"
)

type family struct {
	name   string
	s      *fedlab.Supergraph
	u      *fedlab.Universe
	schema *gast.Schema
	layout *fedlab.Layout
	ops    []*fedlab.Op
	alpha  []request
}

type request struct {
	name  string
	query string
	vars  string
}

func mustSchema(sdl string) *gast.Schema {
	s, err := gqlparser.LoadSchema(&gast.Source{Input: sdl})
	if err != nil {
		panic(err)
	}
	return s
}

func families(run *vk.Run) []*family {
	core, abs, req := fedlab.SCore(), fedlab.SAbs(), fedlab.SReq()
	fc := &family{name: "S-core", s: core, u: fedlab.SCoreUniverse(core), schema: mustSchema(core.SDL())}
	fc.layout = fedlab.ByType(core, 3, func(r fedlab.FieldRef) int {
		switch {
		case r.Type == "Product" || r.Field == "topProducts":
			return 1
		case r.Field == "reviews" || r.Field == "nick" || r.Field == "greeting":
			return 2
		}
		return 0
	}, "base3")
	fc.alpha = []request{
		{"var a=u1", `query Q($a: ID!) { user(id: $a) { name nick reviews { body author { name } } greeting } }`, `{"a":"u1"}`},
		{"renamed var x=u3", `query Q($x: ID!) { user(id: $x) { name nick reviews { body author { name } } greeting } }`, `{"x":"u3"}`},
		{"literal u2", `query Q { user(id: "u2") { name nick reviews { body author { name } } greeting } }`, ``},
		{"fragment F", `query Q($a: ID!) { user(id: $a) { ...F } } fragment F on User { name nick reviews { body author { name } } greeting }`, `{"a":"u3"}`},
		{"fragment G reordered", `query Q($a: ID!) { user(id: $a) { ...G } } fragment G on User { name nick reviews { body author { name } } greeting }`, `{"a":"u2"}`},
		{"unrelated", `{ topProducts { title seller { name nick } reviews { stars } } users { nick favorite { title } } }`, ``},
		{"arg default vs explicit", `query Q($t: Int) { me { greeting(times: $t) a: greeting(style: LOUD) friends { nick } } }`, `{"t":3}`},
		{"same, other value", `query Q($t: Int) { me { greeting(times: $t) a: greeting(style: LOUD) friends { nick } } }`, `{"t":null}`},
		// variable names that collide with the canonical names the mapper hands out
		{"two vars a,b in order", `query Q($a: Style, $b: Int) { me { greeting(style: $a, times: $b) } }`, `{"a":"LOUD","b":2}`},
		{"two vars declared b,a", `query Q($b: Style, $a: Int) { me { greeting(style: $b, times: $a) } }`, `{"b":"LOUD","a":2}`},
		{"literal then $a", `query Q($a: Int) { me { greeting(style: LOUD, times: $a) } }`, `{"a":2}`},
		// the SAME request text whose normalized operation differs: @skip / @include on
		// a variable that flips, one document sent with two operation names
		{"flag true", `query Q($s: Boolean!) { me { name nick @skip(if: $s) reviews @include(if: $s) { body } } }`, `{"s":true}`},
		{"flag false", `query Q($s: Boolean!) { me { name nick @skip(if: $s) reviews @include(if: $s) { body } } }`, `{"s":false}`},
		{"document, operation Long", `query Long { me { name nick reviews { body } } } query Short { me { name } }`, `{"__op":"Long"}`},
		{"document, operation Short", `query Long { me { name nick reviews { body } } } query Short { me { name } }`, `{"__op":"Short"}`},
		// two entity fetches to ONE subgraph at different paths (a multi-fetch merge
		// group), each forwarding a field argument bound to its own client variable
		{"merge group, two variables", `query Q($n: Int, $m: Int) { me { greeting(times: $n) } user(id: "u3") { friends { greeting(times: $m) } } }`, `{"n":2,"m":7}`},
		{"merge group, values swapped", `query Q($n: Int, $m: Int) { me { greeting(times: $n) } user(id: "u3") { friends { greeting(times: $m) } } }`, `{"n":7,"m":2}`},
		// one merged entry forwarding two client variables: the earlier one not provided
		// at all, the later one explicitly null (and the other way round)
		{"merge group, undefined then null", `query Q($n: Int, $m: Style) { me { greeting(times: $n, style: $m) } user(id: "u3") { friends { greeting(times: $n, style: $m) } } }`, `{"m":null}`},
		{"merge group, null then undefined", `query Q($n: Int, $m: Style) { me { greeting(times: $n, style: $m) } user(id: "u3") { friends { greeting(times: $n, style: $m) } } }`, `{"n":null}`},
		{"merge group, three members", `query Q($n: Int, $m: Style, $k: Int) { me { greeting(times: $n) } user(id: "u3") { friends { greeting(style: $m) } } users { nick greeting(times: $k) } }`, `{"n":2,"m":"LOUD","k":5}`},
	}
	fa := &family{name: "S-abs", s: abs, u: fedlab.SAbsUniverse(abs), schema: mustSchema(abs.SDL())}
	fa.layout = fedlab.ByType(abs, 2, func(r fedlab.FieldRef) int {
		if r.Type == "Book" || r.Field == "search" || r.String() == "Author.name" {
			return 1
		}
		return 0
	}, "base2")
	fa.alpha = []request{
		{"nodes", `{ nodes { id __typename ... on Author { name books { title } } ... on Book { title author { name } } } }`, ``},
		{"node var", `query Q($i: ID!) { node(id: $i) { id ... on Book { title related { __typename ... on Author { name } } } } }`, `{"i":"b1"}`},
		{"node renamed", `query Q($j: ID!) { node(id: $j) { id ... on Book { title related { __typename ... on Author { name } } } } }`, `{"j":"a1"}`},
		// the same entity field at one response path twice: directly on the interface
		// and again under a fragment on one implementer (de-duplication of a scoped
		// with an unscoped fetch)
		{"by twice", `{ feed { title by { name } ... on Post { by { name } } } }`, ``},
		{"by twice, on Clip", `{ feed { by { name } ... on Clip { by { name } } } }`, ``},
		// one subgraph operation > 140 bytes in which the same inline fragment occurs
		// three times (what the minifier turns into fragment spreads), the abstract
		// field first
		{"thrice, __typename first", `{ nodes { __typename ... on Author { name latest { title } books { title } } } a: nodes { __typename ... on Author { name latest { title } books { title } } } b: nodes { __typename ... on Author { name latest { title } books { title } } } }`, ``},
		{"thrice, id first", `{ nodes { id ... on Author { name latest { title } books { title } } ... on Book { title } } a: nodes { id ... on Author { name latest { title } books { title } } ... on Book { title } } b: nodes { id ... on Author { name latest { title } books { title } } ... on Book { title } } }`, ``},
		{"search+feed", `{ search { __typename ... on Author { name latest { title } } ... on Book { title } } feed { title ... on Post { text by { name } } } }`, ``},
	}
	fr := &family{name: "S-req", s: req, u: fedlab.SReqUniverse(req), schema: mustSchema(req.SDL())}
	// four subgraphs: the two @requires fields of subgraph 1 are fed by different
	// subgraphs (weight from 2, dims from 3), so their entity fetches share one
	// dependency (the root fetch) and differ in another
	fr.layout = fedlab.ByType(req, 4, func(r fedlab.FieldRef) int {
		switch r.String() {
		case "Item.shipping", "Item.volume", "Item.summary", "Query.boxes", "Box.size", "Box.content":
			return 1
		case "Item.weight", "Maker.label":
			return 2
		case "Item.dims":
			return 3
		}
		return 0
	}, "base4")
	fr.alpha = []request{
		{"items", `{ items { id shipping volume maker { label } } }`, ``},
		{"items both requires", `{ items { shipping volume summary } }`, ``},
		{"item var", `query Q($i: ID!) { item(id: $i) { sku shipping maker { items { volume } } } }`, `{"i":"i1"}`},
		{"item renamed", `query Q($k: ID!) { item(id: $k) { sku shipping maker { items { volume } } } }`, `{"k":"i2"}`},
		{"boxes", `{ boxes { size content { price shipping } } makers { label items { sku } } }`, ``},
	}
	// S-keys diamond: four subgraphs, no direct jump from the entry (sg0) to the
	// owner of stock (sg3), two equally short routes through different
	// intermediate subgraphs and different keys: sg0 -sku-> sg1 -upc-> sg3 and
	// sg0 -sku-> sg2 -"id sku"-> sg3 (a tie the planner must break the same way
	// every time)
	keys := fedlab.SKeys()
	fk := &family{name: "S-keys", s: keys, u: fedlab.SKeysUniverse(keys), schema: mustSchema(keys.SDL())}
	fk.layout = fedlab.ByType(keys, 4, func(r fedlab.FieldRef) int {
		switch r.String() {
		case "Query.newest":
			return 1
		case "Product.price":
			return 2
		case "Product.stock":
			return 3
		}
		return 0
	}, "diamond4")
	fk.layout.SetKeyUse("Product", 0, &fedlab.KeyUse{Keys: []string{"sku"}})
	fk.layout.SetKeyUse("Product", 1, &fedlab.KeyUse{Keys: []string{"sku", "upc"}})
	fk.layout.SetKeyUse("Product", 2, &fedlab.KeyUse{Keys: []string{"sku", "id sku"}})
	fk.layout.SetKeyUse("Product", 3, &fedlab.KeyUse{Keys: []string{"upc", "id sku"}})
	fk.alpha = []request{
		{"products stock", `{ products { name stock } }`, ``},
		{"product var", `query Q($s: String!) { product(sku: $s) { name price stock } }`, `{"s":"s2"}`},
		{"product renamed", `query Q($t: String!) { product(sku: $t) { name price stock } }`, `{"t":"s3"}`},
		{"newest", `{ newest { name stock price } }`, ``},
	}
	// S-areq: @requires field sets with arguments - the planner adds aliased copies
	// of the required fields next to the client's own selections (alias choice and
	// variable naming must not depend on map order or on what was planned before)
	areq := fedlab.SAReq()
	fq := &family{name: "S-areq", s: areq, u: fedlab.SAReqUniverse(areq), schema: mustSchema(areq.SDL())}
	fq.layout = fedlab.ByType(areq, 3, func(r fedlab.FieldRef) int {
		switch r.String() {
		case "Parcel.weight":
			return 1
		case "Parcel.shipping", "Parcel.box", "Parcel.label":
			return 2
		}
		return 0
	}, "base3")
	fq.alpha = []request{
		{"parcels other unit", `{ parcels { dims { size(unit: INCH) } shipping box } }`, ``},
		{"parcels same unit", `{ parcels { dims { size(unit: CM) kind } shipping label } }`, ``},
		{"parcel weight var", `query Q($u: WU) { parcel { weight(unit: $u) label shipping } }`, `{"u":"KG"}`},
		{"parcel weight renamed", `query Q($w: WU) { parcel { weight(unit: $w) label shipping } }`, `{"w":"G"}`},
	}
	// S-nreq: a @requires input that crosses an entity boundary
	nreq := fedlab.SNReq()
	fn := &family{name: "S-nreq", s: nreq, u: fedlab.SNReqUniverse(nreq), schema: mustSchema(nreq.SDL())}
	fn.layout = fedlab.ByType(nreq, 3, func(r fedlab.FieldRef) int {
		switch r.String() {
		case "Address.zip", "Address.city":
			return 1
		case "Account.label", "Account.badge":
			return 2
		}
		return 0
	}, "base3")
	fn.alpha = []request{
		{"accounts label", `{ accounts { label name } }`, ``},
		{"accounts both", `{ accounts { badge label address { city } note } }`, ``},
		{"account", `{ account { id label address { zip } } }`, ``},
	}
	for _, f := range []*family{fc, fa, fr, fk, fq, fn} {
		f.ops = fedlab.GenOps(fedlab.GenConfig{Schema: f.schema, Widths: vk.Pick(run, []int{1, 2, 1}, []int{1, 2, 2}), ArgMenu: func(t, fl string) [][]fedlab.ArgUse {
			switch t + "." + fl {
			case "Query.user", "Query.item":
				return [][]fedlab.ArgUse{{{Name: "id", Value: `"u3"`}}}
			case "Query.product":
				return [][]fedlab.ArgUse{{{Name: "sku", Value: `"s2"`}}}
			case "Query.node":
				return [][]fedlab.ArgUse{{{Name: "id", Value: `"b1"`}}}
			case "Dims.size":
				return [][]fedlab.ArgUse{nil, {{Name: "unit", Value: "INCH"}}}
			case "Parcel.weight":
				return [][]fedlab.ArgUse{nil, {{Name: "unit", Value: "G"}}}
			}
			return nil
		}}, "query")
	}
	return []*family{fc, fa, fr, fk, fq, fn}
}

// ---- controlled map order

var (
	orderMu  sync.Mutex
	mode     string          // "asc" | "desc" | "flip"
	flipSite string          // site flipped in mode "flip"
	sitesHit map[string]bool // sites that ranged over a map with >1 entries
)

func mapDesc(site string) bool {
	orderMu.Lock()
	defer orderMu.Unlock()
	if sitesHit != nil {
		sitesHit[site] = true
	}
	switch mode {
	case "desc":
		return true
	case "flip":
		return site == flipSite
	}
	return false
}

type observation struct {
	resp string
	reqs string
	err  string
}

func observe(f *family, q string, vars string, opts fedlab.LabOptions) observation {
	lab, err := fedlab.NewLab(f.layout, f.u, opts)
	if err != nil {
		return observation{err: "lab: " + err.Error()}
	}
	defer lab.Close()
	return observeOn(lab, q, vars)
}

// observeGated: like observeOn, but inside the bubble with every subgraph
// request parked and released in canonical order, so that a request that is
// issued before a dependency has completed is issued with the wrong body
// deterministically (and a wedge is detected).
func observeGated(lab *fedlab.Lab, q, vars string) observation {
	x := fedorders.RunOne(lab.Sim, nil, func() any { return observeOn(lab, q, vars) })
	if x.Stuck {
		return observation{err: "execution wedged"}
	}
	o, _ := x.Obs.(observation)
	return o
}

// splitOpName: the operation name of a request. A member "__op" of the
// variables text names it (and is removed); otherwise "Q" when the document
// has an operation of that name.
func splitOpName(q string, vars []byte) (string, []byte) {
	if len(vars) > 0 {
		var m map[string]json.RawMessage
		if json.Unmarshal(vars, &m) == nil {
			if raw, ok := m["__op"]; ok {
				var name string
				json.Unmarshal(raw, &name)
				delete(m, "__op")
				var out []byte
				if len(m) > 0 {
					out, _ = json.Marshal(m)
				}
				return name, out
			}
		}
	}
	if strings.Contains(q, "query Q") {
		return "Q", vars
	}
	return "", vars
}

func observeOn(lab *fedlab.Lab, q, vars string) observation {
	var vj []byte
	if vars != "" {
		vj = []byte(vars)
	}
	opName, vj := splitOpName(q, vj)
	out, reqs, err := lab.Exec(q, opName, vj)
	o := observation{}
	if err != nil {
		o.err = firstLine(err.Error())
		return o
	}
	o.resp = canonResp(out)
	var rs []string
	for _, r := range reqs {
		rs = append(rs, r.Canon())
	}
	sort.Strings(rs)
	o.reqs = strings.Join(rs, "\n")
	return o
}

func canonResp(b []byte) string {
	m, err := refexec.DecodeObject(b)
	if err != nil {
		return "INVALID JSON: " + string(b)
	}
	if es, ok := m["errors"].([]any); ok {
		var ss []string
		for _, e := range es {
			ss = append(ss, refexec.Canon(e))
		}
		sort.Strings(ss)
		m["errors"] = ss
	}
	return refexec.Canon(m)
}

func firstLine(s string) string {
	if i := strings.IndexByte(s, '\n'); i >= 0 {
		return s[:i]
	}
	return s
}

func optionSets() [][]string {
	names := []string{"multifetch", "schedule", "minify", "nodedup"}
	var out [][]string
	for m := 0; m < 1<<len(names); m++ {
		var s []string
		for i, n := range names {
			if m&(1<<i) != 0 {
				s = append(s, n)
			}
		}
		out = append(out, s)
	}
	return out
}

func labOptions(set []string) (fedlab.LabOptions, func(*fedlab.Lab)) {
	has := func(n string) bool {
		for _, x := range set {
			if x == n {
				return true
			}
		}
		return false
	}
	o := fedlab.LabOptions{Configure: func(conf *engine.Configuration) {
		if has("multifetch") {
			conf.EnableMultiFetch()
		}
		if has("schedule") {
			conf.EnableScheduleFetches()
		}
		if has("minify") {
			conf.VerifPlannerConfig().MinifySubgraphOperations = true
		}
	}}
	post := func(l *fedlab.Lab) {
		if has("nodedup") {
			l.Engine.VerifAddPostProcessorOptions(postprocess.DisableDeduplicateSingleFetches())
		}
	}
	return o, post
}

func TestCheck(t *testing.T) {
	run := vk.Start("C09", "exploration")
	defer run.Finish()
	synctest.Test(t, func(t *testing.T) { check(t, run) })
}

func check(t *testing.T, run *vk.Run) {
	run.Rule("(a) (layout, operation) x map iteration orders {all ascending, all descending, each range site that saw >1 keys flipped alone}; (b) request histories <= n over a plan-cache-colliding alphabet x all subsets of {multi-fetch, schedule-fetches, minify, single-fetch de-duplication off} on one shared engine; distinct = distinct observations (response, request multiset)")
	run.Assume("the only process-dependent input of planning is Go's map iteration order, which the overlay turns into a controlled input at every range-over-map site of plan, postprocess and astnormalization",
		"responses are compared as JSON values with errors as a multiset; request logs as multisets")
	vsync.MapDesc = mapDesc
	fams := families(run)
	var caseNo int64
	if run.Replay == "" && os.Getenv("VERIF_PLANNER_REUSE") != "" {
		// probe, not part of the check (DESIGN 8.6): a plan.Planner turned out to be
		// single-use in this tree and no documented entry point re-uses one
		plannerReuse(run, fams)
	}

	if run.Replay != "" {
		var in struct {
			Part    string   `json:"part"`
			Family  string   `json:"family"`
			Op      string   `json:"op"`
			Site    string   `json:"site"`
			Mode    string   `json:"mode"`
			Options []string `json:"options"`
			Hist    []int    `json:"hist"`
		}
		if err := run.ReplayInput(&in); err != nil {
			t.Fatal(err)
		}
		for _, f := range fams {
			if f.name != in.Family {
				continue
			}
			run.Eval(1)
			if in.Part == "a" {
				lo, _ := labOptions(in.Options)
				mode, flipSite = "asc", ""
				base := observe(f, in.Op, "", lo)
				mode, flipSite = in.Mode, in.Site
				got := observe(f, in.Op, "", lo)
				mode = "asc"
				fmt.Printf("op %s\nasc:  %+v\n%s/%s: %+v\n", in.Op, base, in.Mode, in.Site, got)
				if got != base {
					run.Violate(vk.Violation{Clause: "planning the same operation against the same configuration always yields the same subgraph requests and response", Site: in.Site, Class: f.name, Detail: "differs"})
				}
			} else {
				judgeHistory(run, f, in.Options, in.Hist, true)
			}
		}
		return
	}

	// ---- (a) determinism under map order
	for _, f := range fams {
		for _, op := range f.ops {
			caseNo++
			if !run.Mine(caseNo) {
				continue
			}
			if run.Expired() {
				return
			}
			q := op.String()
			for _, oset := range [][]string{nil, {"multifetch", "schedule", "minify"}} {
				lo, _ := labOptions(oset)
				orderMu.Lock()
				mode, flipSite, sitesHit = "asc", "", map[string]bool{}
				orderMu.Unlock()
				base := observe(f, q, "", lo)
				orderMu.Lock()
				hit := make([]string, 0, len(sitesHit))
				for s := range sitesHit {
					hit = append(hit, s)
				}
				sitesHit = nil
				orderMu.Unlock()
				sort.Strings(hit)
				run.Eval(1)
				if base.err != "" {
					run.Violate(vk.Violation{Clause: "planning never fails", Site: "engine error", Class: f.name, Detail: q + ": " + base.err, Input: map[string]any{"part": "a", "family": f.name, "op": q, "mode": "asc"}})
					continue
				}
				variants := [][2]string{{"desc", ""}}
				for _, s := range hit {
					variants = append(variants, [2]string{"flip", s})
				}
				for _, v := range variants {
					orderMu.Lock()
					mode, flipSite = v[0], v[1]
					orderMu.Unlock()
					got := observe(f, q, "", lo)
					run.Eval(1)
					run.Count("plans_under_alternative_order", 1)
					if got != base {
						what := "response"
						if got.reqs != base.reqs {
							what = "subgraph requests"
						}
						site := v[1]
						if site == "" {
							site = "all sites descending"
						}
						run.Violate(vk.Violation{Clause: "planning the same operation against the same configuration always yields the same subgraph requests and response", Site: what + " depend on map iteration order at " + site, Class: f.name,
							Detail: fmt.Sprintf("operation %s\nascending order:\n%s\n%s\n%s order:\n%s\n%s\n%s", q, base.resp, base.reqs, base.err, v[0]+" "+v[1], got.resp, got.reqs+got.err),
							Input:  map[string]any{"part": "a", "family": f.name, "op": q, "mode": v[0], "site": v[1], "options": oset}})
					}
				}
				orderMu.Lock()
				mode, flipSite = "asc", ""
				orderMu.Unlock()
				if run.Outcome("a|" + f.name + "|" + q + "|" + fmt.Sprint(len(hit), oset)) {
					run.Sample("determinism/"+f.name+fmt.Sprint(oset), map[string]any{"operation": q, "options": oset, "map_range_sites_with_several_keys": hit})
				}
			}
		}
	}

	// ---- (b) histories x option sets
	n := vk.Pick(run, 2, 3)
	run.Bound("history_length", n)
	for _, f := range fams {
		var hists [][]int
		var rec func(cur []int)
		rec = func(cur []int) {
			if len(cur) > 0 {
				hists = append(hists, append([]int(nil), cur...))
			}
			if len(cur) == n {
				return
			}
			for i := range f.alpha {
				rec(append(cur, i))
			}
		}
		rec(nil)
		for _, set := range optionSets() {
			for _, h := range hists {
				caseNo++
				if !run.Mine(caseNo) {
					continue
				}
				if run.Expired() {
					return
				}
				judgeHistory(run, f, set, h, false)
			}
		}
	}
}

var expectCache = map[string]observation{}

func expected(f *family, r request) observation {
	k := f.name + "|" + r.query + "|" + r.vars
	if o, ok := expectCache[k]; ok {
		return o
	}
	o := observe(f, r.query, r.vars, fedlab.LabOptions{})
	expectCache[k] = o
	return o
}

// referenceData: what a single server owning all data answers (R1) - the
// fresh default engine must agree with it, otherwise "equal to the fresh
// engine" would be satisfied by two equally wrong engines.
func referenceData(f *family, r request) (string, bool) {
	opName, rv := splitOpName(r.query, []byte(r.vars))
	doc, errs := gqlparser.LoadQuery(f.schema, r.query)
	if errs != nil {
		return "", false
	}
	vars := map[string]any{}
	if len(rv) > 0 {
		m, err := refexec.DecodeObject(rv)
		if err != nil {
			return "", false
		}
		vars = m
	}
	res := refexec.Execute(f.schema, doc, fedlab.Mono{U: f.u}, refexec.Options{OperationName: opName, Variables: vars, Root: fedlab.RootObj("Query")})
	return refexec.Canon(res.Data), true
}

func judgeHistory(run *vk.Run, f *family, set []string, h []int, verbose bool) {
	lo, post := labOptions(set)
	lab, err := fedlab.NewLab(f.layout, f.u, lo)
	if err != nil {
		run.Violate(vk.Violation{Clause: "engine can be built with the option set", Site: "NewLab", Class: strings.Join(set, "+"), Detail: err.Error()})
		return
	}
	post(lab)
	defer lab.Close()
	run.Eval(1)
	var names []string
	for _, i := range h {
		names = append(names, f.alpha[i].name)
	}
	for step, i := range h {
		r := f.alpha[i]
		want := expected(f, r)
		if step == 0 && len(h) == 1 && len(set) == 0 {
			if ref, ok := referenceData(f, r); ok && want.err == "" {
				if m, err := refexec.DecodeObject([]byte(want.resp)); err == nil && refexec.Canon(m["data"]) != ref {
					run.Violate(vk.Violation{Clause: "renaming variables or serving a cached plan never changes the response a client receives", Site: "the fresh default engine disagrees with the reference executor: " + r.name, Class: f.name,
						Detail: fmt.Sprintf("request %s variables %s\nfresh default engine: %s\nreference data: %s", r.query, r.vars, want.resp, ref),
						Input:  map[string]any{"part": "b", "family": f.name, "options": set, "hist": h}})
				}
			}
		}
		got := observeOn(lab, r.query, r.vars)
		if verbose {
			fmt.Printf("step %d %s\n  got:  %s %s\n  want: %s %s\n", step, r.name, got.resp, got.err, want.resp, want.err)
		}
		if got.resp != want.resp || got.err != want.err {
			prev := "first request"
			if step > 0 {
				prev = "after " + strings.Join(names[:step], ", ")
			}
			run.Violate(vk.Violation{Clause: "serving from the plan cache, renaming variables or switching optimizations never changes the response a client receives", Site: "response differs from a fresh default engine: " + r.name, Class: "options {" + strings.Join(set, ",") + "}",
				Detail: fmt.Sprintf("history %v, step %d (%s), options %v\nrequest %s variables %s\nshared engine: %s %s\nfresh default engine: %s %s", names, step, prev, set, r.query, r.vars, got.resp, got.err, want.resp, want.err),
				Input:  map[string]any{"part": "b", "family": f.name, "options": set, "hist": h}})
		}
	}
	if run.Outcome("b|" + f.name + "|" + strings.Join(set, "+") + "|" + fmt.Sprint(h)) {
		run.Sample("history/"+f.name+"/"+strings.Join(set, "+"), map[string]any{"history": names, "options": set})
	}
}
