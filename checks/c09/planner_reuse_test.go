package c09

import (
	"fmt"
	"strings"

	"github.com/wundergraph/graphql-go-tools/execution/engine"
	"github.com/wundergraph/graphql-go-tools/execution/graphql"
	"github.com/wundergraph/graphql-go-tools/v2/pkg/astnormalization"
	"github.com/wundergraph/graphql-go-tools/v2/pkg/engine/plan"
	"github.com/wundergraph/graphql-go-tools/v2/pkg/engine/postprocess"
	"github.com/wundergraph/graphql-go-tools/v2/pkg/engine/resolve"
	"github.com/wundergraph/graphql-go-tools/v2/pkg/operationreport"

	"verif/internal/fedlab"
	"verif/internal/vk"
)

// Part (c): ONE plan.Planner instance planning several operations in sequence
// ("independent of planner instance, previous plans"). Every ordered pair
// (first, second) of the family's alphabet plus two deferred operations is
// planned on one planner; the plan of `second` - the fetch tree as printed by
// the engine's own query plan printer and the response tree - must equal the
// plan a fresh planner makes for it.

var reusePool = map[string][]string{
	"S-core": {
		`{ me { name ... @defer { nick reviews { body } } } }`,
		`{ users { nick ... @defer { favorite { title } } ... @defer { greeting } } }`,
	},
	"S-req": {
		`{ items { id ... @defer { shipping } } }`,
	},
}

func planOn(p *plan.Planner, schema *graphql.Schema, q string) (string, error) {
	req := &graphql.Request{Query: q}
	if _, err := req.Normalize(schema,
		astnormalization.WithRemoveFragmentDefinitions(),
		astnormalization.WithRemoveUnusedVariables(),
		astnormalization.WithInlineFragmentSpreads(),
		astnormalization.WithEnableDefer(),
	); err != nil {
		return "", fmt.Errorf("normalize: %w", err)
	}
	opName := ""
	if i := strings.Index(q, "query "); i == 0 {
		rest := q[len("query "):]
		if j := strings.IndexAny(rest, " ({"); j > 0 {
			opName = rest[:j]
		}
	}
	var report operationreport.Report
	var out plan.Plan
	var perr error
	func() {
		defer func() {
			if r := recover(); r != nil {
				perr = fmt.Errorf("planner panics: %v", r)
			}
		}()
		out = p.Plan(req.Document(), schema.Document(), opName, &report)
	}()
	if perr != nil {
		return "", perr
	}
	if report.HasErrors() {
		return "", fmt.Errorf("plan: %s", report.Error())
	}
	postprocess.NewProcessor().Process(out)
	var sb strings.Builder
	switch pl := out.(type) {
	case *plan.SynchronousResponsePlan:
		dumpFetches(&sb, pl.Response.Fetches, 0)
		dumpNode(&sb, pl.Response.Data, 0)
	case *plan.DeferResponsePlan:
		dumpFetches(&sb, pl.Response.Response.Fetches, 0)
		dumpNode(&sb, pl.Response.Response.Data, 0)
		for _, g := range pl.Response.Defers {
			fmt.Fprintf(&sb, "defer group %d\n", g.DeferID)
			dumpFetches(&sb, g.Fetches, 1)
		}
	default:
		fmt.Fprintf(&sb, "%T", out)
	}
	return sb.String(), nil
}

func tmpl(it resolve.InputTemplate) string {
	var sb strings.Builder
	var rec func(segs []resolve.TemplateSegment)
	rec = func(segs []resolve.TemplateSegment) {
		for _, sg := range segs {
			if len(sg.Data) > 0 {
				sb.Write(sg.Data)
			} else {
				fmt.Fprintf(&sb, "<%v %v>", sg.VariableKind, sg.VariableSourcePath)
			}
			rec(sg.Segments)
		}
	}
	rec(it.Segments)
	return sb.String()
}

// dumpFetches: the fetch tree with what is sent (input templates), to whom, where
// the result goes and what each fetch waits for.
func dumpFetches(sb *strings.Builder, n *resolve.FetchTreeNode, depth int) {
	if n == nil {
		return
	}
	ind := strings.Repeat(" ", depth)
	fmt.Fprintf(sb, "%s%s\n", ind, n.Kind)
	if n.Item != nil && n.Item.Fetch != nil {
		dep := n.Item.Fetch.Dependencies()
		fmt.Fprintf(sb, "%s fetch %T id=%d after=%v at=%q\n", ind, n.Item.Fetch, dep.FetchID, dep.DependsOnFetchIDs, n.Item.ResponsePath)
		switch f := n.Item.Fetch.(type) {
		case *resolve.SingleFetch:
			fmt.Fprintf(sb, "%s  input %s\n", ind, tmpl(f.InputTemplate))
		case *resolve.EntityFetch:
			fmt.Fprintf(sb, "%s  input %s | %s | %s\n", ind, tmpl(f.Input.Header), tmpl(f.Input.Item), tmpl(f.Input.Footer))
		case *resolve.BatchEntityFetch:
			fmt.Fprintf(sb, "%s  input %s |", ind, tmpl(f.Input.Header))
			for _, it := range f.Input.Items {
				fmt.Fprintf(sb, " %s |", tmpl(it))
			}
			fmt.Fprintf(sb, " %s\n", tmpl(f.Input.Footer))
		}
	}
	for _, c := range n.ChildNodes {
		dumpFetches(sb, c, depth+1)
	}
}

func dumpNode(sb *strings.Builder, n resolve.Node, depth int) {
	ind := strings.Repeat(" ", depth)
	switch x := n.(type) {
	case *resolve.Object:
		fmt.Fprintf(sb, "%sobject path=%v nullable=%v\n", ind, x.Path, x.Nullable)
		for _, f := range x.Fields {
			d := 0
			if f.Defer != nil {
				d = f.Defer.DeferID
			}
			fmt.Fprintf(sb, "%s field %s on=%v defer=%d\n", ind, f.Name, f.OnTypeNames, d)
			dumpNode(sb, f.Value, depth+2)
		}
	case *resolve.Array:
		fmt.Fprintf(sb, "%sarray path=%v nullable=%v\n", ind, x.Path, x.Nullable)
		dumpNode(sb, x.Item, depth+2)
	case nil:
	default:
		fmt.Fprintf(sb, "%s%T path=%v\n", ind, n, n.NodePath())
	}
}

func plannerReuse(run *vk.Run, fams []*family) {
	if run.Shard() != 0 {
		return
	}
	for _, f := range fams {
		var pc *plan.Configuration
		lab, err := fedlab.NewLab(f.layout, f.u, fedlab.LabOptions{Configure: func(conf *engine.Configuration) { pc = conf.VerifPlannerConfig() }})
		if err != nil || pc == nil {
			panic(fmt.Sprint("lab: ", err))
		}
		schema, err := graphql.NewSchemaFromString(f.s.SDL())
		if err != nil {
			panic(err)
		}
		var pool []string
		for _, r := range f.alpha {
			if !strings.Contains(r.vars, "__op") {
				pool = append(pool, r.query)
			}
		}
		pool = append(pool, reusePool[f.name]...)
		fresh := map[string]string{}
		for _, q := range pool {
			p, _ := plan.NewPlanner(*pc)
			s, err := planOn(p, schema, q)
			if err != nil {
				s = "ERROR " + err.Error()
			}
			fresh[q] = s
		}
		for _, q1 := range pool {
			for _, q2 := range pool {
				run.Eval(1)
				run.Count("planner_reuse_pairs", 1)
				p, _ := plan.NewPlanner(*pc)
				if _, err := planOn(p, schema, q1); err != nil && !strings.HasPrefix(fresh[q1], "ERROR") {
					// the first plan on a fresh planner cannot differ from fresh[q1]
					continue
				}
				got, err := planOn(p, schema, q2)
				if err != nil {
					got = "ERROR " + err.Error()
				}
				if run.Outcome("reuse|" + f.name + "|" + q2 + "|" + fmt.Sprint(got == fresh[q2])) {
					run.Sample(f.name+"/planner-reuse", map[string]any{"first": q1, "second": q2, "same_as_fresh": got == fresh[q2]})
				}
				if got != fresh[q2] {
					cls := "plan differs"
					if strings.HasPrefix(got, "ERROR") {
						cls = "planning fails"
						if strings.Contains(got, "panics") {
							cls = "planner panics"
						}
					}
					run.Violate(vk.Violation{Clause: "planning the same normalized operation yields the same subgraph requests and response shape, independent of planner instance and previous plans", Site: "one plan.Planner, second operation: " + cls, Class: f.name + " / " + reuseClass(q1) + " then " + reuseClass(q2),
						Detail: fmt.Sprintf("layout %s\nfirst operation  %s\nsecond operation %s\nplan of the second operation on the re-used planner:\n%s\non a fresh planner:\n%s", f.layout.String(), q1, q2, clip(got, 1500), clip(fresh[q2], 1500)),
						Input:  map[string]any{"part": "planner-reuse", "family": f.name, "first": q1, "second": q2}})
				}
			}
		}
		lab.Close()
	}
}

func reuseClass(q string) string {
	if strings.Contains(q, "@defer") {
		return "deferred operation"
	}
	return "plain operation"
}

func clip(s string, n int) string {
	if len(s) > n {
		return s[:n] + "…"
	}
	return s
}
