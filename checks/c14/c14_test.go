// Check C14: denied fields never reach the client and denied mutations never
// reach a subgraph. fedlab: (layout, operation) x sets of protected
// coordinates x ALL decision functions x authorizer mode, judged against the
// reference executor in which every denied coordinate resolves to an error.
package c14

import (
	"context"
	"encoding/json"
	"errors"
	"fmt"
	"io"
	"sort"
	"strings"
	"sync"
	"testing"
	"time"

	"github.com/vektah/gqlparser/v2"
	gast "github.com/vektah/gqlparser/v2/ast"
	"github.com/vektah/gqlparser/v2/parser"

	"github.com/wundergraph/graphql-go-tools/execution/engine"
	"github.com/wundergraph/graphql-go-tools/v2/pkg/engine/plan"
	"github.com/wundergraph/graphql-go-tools/v2/pkg/engine/resolve"

	"verif/internal/fedlab"
	"verif/internal/refexec"
	"verif/internal/vk"
)

// ---- authorizer driven by a decision function

type authz struct {
	deny map[string]bool
	// errOnce: the FIRST post-fetch decision about a denied coordinate fails hard
	// (the policy service is briefly unavailable); later ones deny
	errOnce bool
	// errOn: post-fetch decisions about these coordinates ALWAYS fail hard
	errOn map[string]bool
	mu    sync.Mutex
	erred map[string]bool
}

func (a *authz) decide(c resolve.GraphCoordinate) *resolve.AuthorizationDeny {
	if a.deny[c.TypeName+"."+c.FieldName] {
		return &resolve.AuthorizationDeny{Reason: "denied " + c.TypeName + "." + c.FieldName}
	}
	return nil
}
func (a *authz) AuthorizePreFetch(ctx *resolve.Context, ds string, in json.RawMessage, c resolve.GraphCoordinate) (*resolve.AuthorizationDeny, error) {
	return a.decide(c), nil
}
func (a *authz) AuthorizeObjectField(ctx *resolve.Context, ds string, obj json.RawMessage, c resolve.GraphCoordinate) (*resolve.AuthorizationDeny, error) {
	if a.errOn[c.TypeName+"."+c.FieldName] {
		return nil, errors.New("policy service unavailable")
	}
	if k := c.TypeName + "." + c.FieldName; a.errOnce && a.deny[k] {
		a.mu.Lock()
		first := !a.erred[k]
		if a.erred == nil {
			a.erred = map[string]bool{}
		}
		a.erred[k] = true
		a.mu.Unlock()
		if first {
			return nil, errors.New("policy service unavailable")
		}
	}
	return a.decide(c), nil
}
func (a *authz) HasResponseExtensionData(ctx *resolve.Context) bool              { return false }
func (a *authz) RenderResponseExtension(ctx *resolve.Context, w io.Writer) error { return nil }
func (a *authz) AuthorizeFields(ctx *resolve.Context, cs []resolve.GraphCoordinate) ([]resolve.AuthorizationDecision, error) {
	out := make([]resolve.AuthorizationDecision, len(cs))
	for i, c := range cs {
		out[i] = resolve.AuthorizationDecision{Allowed: !a.deny[c.TypeName+"."+c.FieldName], Reason: "denied " + c.TypeName + "." + c.FieldName}
	}
	return out, nil
}

// ---- reference: denied coordinates resolve to an error

type denyResolver struct {
	inner refexec.Resolver
	deny  map[string]bool
	hit   map[string]bool
}

func (d *denyResolver) Resolve(pt *gast.Definition, parent refexec.Obj, f *gast.Field, args map[string]any, path []any) (any, error) {
	if d.deny[pt.Name+"."+f.Name] {
		d.hit[pathText(path)] = true
		return nil, fmt.Errorf("denied")
	}
	return d.inner.Resolve(pt, parent, f, args, path)
}

func pathText(p []any) string {
	b, _ := json.Marshal(p)
	return string(b)
}

type family struct {
	name      string
	s         *fedlab.Supergraph
	u         *fedlab.Universe
	schema    *gast.Schema
	layouts   []*fedlab.Layout
	ops       []*fedlab.Op
	protected [][]string // groups of coordinates that are protected / decided together (interface closure)
}

func mustSchema(sdl string) *gast.Schema {
	s, err := gqlparser.LoadSchema(&gast.Source{Input: sdl})
	if err != nil {
		panic(err)
	}
	return s
}

// plant replaces the string values of protected coordinates by unique sentinels.
func plant(u *fedlab.Universe, coords []string) map[string][]string {
	sent := map[string][]string{}
	seen := map[string]bool{}
	var walk func(v any)
	n := 0
	walk = func(v any) {
		switch x := v.(type) {
		case fedlab.Obj:
			key := fmt.Sprintf("%p", x)
			if seen[key] {
				return
			}
			seen[key] = true
			tn, _ := x["__typename"].(string)
			for _, c := range coords {
				parts := strings.SplitN(c, ".", 2)
				if parts[0] == tn {
					if s, ok := x[parts[1]].(string); ok && s != "" {
						n++
						x[parts[1]] = fmt.Sprintf("SENT%dx%s", n, parts[1])
						sent[c] = append(sent[c], x[parts[1]].(string))
					}
				}
			}
			for _, val := range x {
				walk(val)
			}
		case []any:
			for _, e := range x {
				walk(e)
			}
		}
	}
	for _, os := range u.Objs {
		for _, o := range os {
			walk(o)
		}
	}
	for _, r := range u.Root {
		for _, v := range r {
			walk(v)
		}
	}
	return sent
}

func families(run *vk.Run) []*family {
	core, abs := fedlab.SCore(), fedlab.SAbs()
	fc := &family{name: "S-core", s: core, u: fedlab.SCoreUniverse(core), schema: mustSchema(core.SDL()),
		protected: [][]string{{"User.nick"}, {"User.name"}, {"User.reviews"}, {"Review.body"}, {"Product.title"}, {"User.favorite"}, {"Query.topProducts"}, {"Mutation.touch"}, {"Receipt.note"}, {"Subscription.userUpdated"}}}
	fc.layouts = []*fedlab.Layout{
		fedlab.ByType(core, 2, func(r fedlab.FieldRef) int {
			if r.Type == "Product" || r.Field == "topProducts" || r.Field == "reviews" {
				return 1
			}
			return 0
		}, "base2"),
		fedlab.ByType(core, 3, func(r fedlab.FieldRef) int {
			switch {
			case r.Type == "Product" || r.Field == "topProducts":
				return 1
			case r.Field == "reviews" || r.Field == "nick" || r.Field == "favorite":
				return 2
			}
			return 0
		}, "base3"),
	}
	// the same protected coordinate served by two different subgraphs in one
	// operation: User.name is additionally resolvable (@shareable) in subgraph 1,
	// which owns Query.users and Product
	shared := fedlab.ByType(core, 2, func(r fedlab.FieldRef) int {
		if r.Type == "Product" || r.Field == "topProducts" || r.Field == "reviews" || r.Field == "users" {
			return 1
		}
		return 0
	}, "base2+sharedname")
	shared.Shared[fedlab.FieldRef{Type: "User", Field: "name"}] = []int{1}
	shared.Shared[fedlab.FieldRef{Type: "User", Field: "nick"}] = []int{1}
	fc.layouts = append(fc.layouts, shared)
	menu := func(t, f string) [][]fedlab.ArgUse {
		switch t + "." + f {
		case "Query.user":
			return [][]fedlab.ArgUse{{{Name: "id", Value: `"u3"`}}}
		case "Mutation.touch":
			return [][]fedlab.ArgUse{{{Name: "id", Value: `"u1"`}, {Name: "note", Value: `"SENTnote"`}}}
		}
		return nil
	}
	fc.ops = fedlab.GenOps(fedlab.GenConfig{Schema: fc.schema, Widths: vk.Pick(run, []int{1, 2, 1}, []int{1, 2, 2}), ArgMenu: menu}, "query")
	fc.ops = append(fc.ops, fedlab.GenOps(fedlab.GenConfig{Schema: fc.schema, Widths: []int{1, 2, 1}, ArgMenu: menu}, "mutation")...)
	subOps := fedlab.GenOps(fedlab.GenConfig{Schema: fc.schema, Widths: []int{1, 2, 1}, ArgMenu: menu}, "subscription")
	for _, op := range subOps {
		fc.ops = append(fc.ops, op)
		// and with the root field aliased
		al := op.Clone()
		al.Sel[0].Alias = "ev"
		fc.ops = append(fc.ops, al)
	}
	for _, q := range []string{`{me {name} users {name}}`, `{me {nick name} topProducts {seller {name nick}}}`, `{users {name} me {friends {name}}}`, `{me {name reviews {author {name}}}}`} {
		fc.ops = append(fc.ops, &fedlab.Op{Kind: "query", Raw: q})
	}

	fa := &family{name: "S-abs", s: abs, u: fedlab.SAbsUniverse(abs), schema: mustSchema(abs.SDL()),
		protected: [][]string{{"Author.name"}, {"Book.title"}, {"Media.title", "Clip.title", "Post.title"}, {"Post.text"}, {"Author.books"}, {"Query.search"}}}
	fa.layouts = []*fedlab.Layout{fedlab.ByType(abs, 2, func(r fedlab.FieldRef) int {
		if r.Type == "Book" || r.Field == "search" {
			return 1
		}
		return 0
	}, "base2")}
	fa.ops = fedlab.GenOps(fedlab.GenConfig{Schema: fa.schema, Widths: vk.Pick(run, []int{1, 2, 1}, []int{1, 2, 2}), ArgMenu: func(t, f string) [][]fedlab.ArgUse {
		if t+"."+f == "Query.node" {
			return [][]fedlab.ArgUse{{{Name: "id", Value: `"b1"`}}}
		}
		return nil
	}}, "query")
	// list shapes: protected fields below a list of lists / non-null wrappers,
	// once with everything in one subgraph besides the owners (the protected
	// field is NOT the root field of a fetch) and once behind an entity jump
	sh := fedlab.SShapes()
	fs := &family{name: "S-shapes", s: sh, u: fedlab.SShapesUniverse(sh), schema: mustSchema(sh.SDL()),
		protected: [][]string{{"Cell.secret"}, {"Owner.name"}, {"Cell.tags"}, {"Cell.owner"}, {"Query.grid"}}}
	fs.layouts = []*fedlab.Layout{
		fedlab.ByType(sh, 2, func(r fedlab.FieldRef) int {
			if r.Type == "Owner" {
				return 1
			}
			return 0
		}, "owners-remote"),
		fedlab.ByType(sh, 2, func(r fedlab.FieldRef) int {
			if r.Type == "Owner" || r.Field == "secret" || r.Field == "tags" {
				return 1
			}
			return 0
		}, "secret-remote"),
	}
	fs.ops = fedlab.GenOps(fedlab.GenConfig{Schema: fs.schema, Widths: vk.Pick(run, []int{1, 2, 1}, []int{1, 2, 2})}, "query")
	return []*family{fc, fa, fs}
}

type fail struct{ clause, site, detail string }

// rootCoords extracts the root field coordinates of a subgraph request.
func rootCoords(r *fedlab.Request) (coords []string, opType string) {
	doc, err := parser.ParseQuery(&gast.Source{Input: r.Query})
	if err != nil || len(doc.Operations) == 0 {
		return nil, ""
	}
	op := doc.Operations[0]
	rootType := map[gast.Operation]string{gast.Query: "Query", gast.Mutation: "Mutation", gast.Subscription: "Subscription"}[op.Operation]
	for _, s := range op.SelectionSet {
		f, ok := s.(*gast.Field)
		if !ok {
			continue
		}
		if f.Name == "_entities" {
			for _, es := range f.SelectionSet {
				if fr, ok := es.(*gast.InlineFragment); ok {
					for _, fs := range fr.SelectionSet {
						if ff, ok := fs.(*gast.Field); ok && ff.Name != "__typename" {
							coords = append(coords, fr.TypeCondition+"."+ff.Name)
						}
					}
				}
			}
			continue
		}
		if f.Name != "__typename" {
			coords = append(coords, rootType+"."+f.Name)
		}
	}
	return coords, string(op.Operation)
}

func authOptions(a *authz, mode string) []engine.ExecutionOptions {
	switch mode {
	case "post":
		return []engine.ExecutionOptions{engine.WithAuthorizer(a)}
	case "pre":
		return []engine.ExecutionOptions{engine.WithPreFetchFieldAuthorizer(a)}
	}
	return []engine.ExecutionOptions{engine.WithAuthorizer(a), engine.WithPreFetchFieldAuthorizer(a)}
}

// curatedDefer: operations that select one protected coordinate in two deferred
// fragments (siblings, and one nested in the other).
var curatedDefer = map[string][]string{
	"S-core": {
		`{ me { id ... @defer { nick } } user(id: "u3") { id ... @defer { nick } } }`,
		`{ me { id ... @defer { name } } users { id ... @defer { name } } }`,
		`{ me { id ... @defer { name friends { id ... @defer { name } } } } }`,
		`{ me { id ... @defer { reviews { body } } } users { id ... @defer { reviews { body } } } }`,
		`{ topProducts { upc ... @defer { title } } me { favorite { upc ... @defer { title } } } }`,
	},
}

// judgeDefer: the incremental delivery transport. Whatever the frames look like,
// none of them may carry a value of a denied coordinate.
func judgeDefer(lab *fedlab.Lab, q string, deny map[string]bool, mode string, sentinels map[string][]string, errOnce bool, keyFields map[string]bool) []fail {
	a := &authz{deny: deny, errOnce: errOnce}
	ctx, cancel := context.WithTimeout(context.Background(), 30*time.Second)
	defer cancel()
	w, reqs, err := lab.ExecStream(ctx, q, "", nil, authOptions(a, mode)...)
	var fails []fail
	// pre-fetch authorization holds for the fetches of deferred groups too: a
	// request whose root fields are all denied is never sent
	if mode != "post" {
		for _, r := range reqs {
			coords, opType := rootCoords(r)
			allDenied, n := true, 0
			for _, c := range coords {
				if keyFields[c] {
					continue
				}
				n++
				if !deny[c] {
					allDenied = false
				}
			}
			if n > 0 && allDenied {
				fails = append(fails, fail{"with pre-fetch authorization a subgraph request is not sent when all of its root fields are denied", "request sent: " + opType + " (deferred operation)", fmt.Sprintf("operation %s\n%s %s (root fields %v)", q, r.Host, r.Query, coords)})
			}
		}
	}
	if err != nil && !errOnce {
		return []fail{{"a response is returned", "Execute returned an error (deferred operation)", q + ": " + err.Error()}}
	}
	all := strings.Join(w.Frames, "\n") + strings.Join(w.Errors, "\n")
	for c := range deny {
		for _, s := range sentinels[c] {
			if strings.Contains(all, s) {
				fails = append(fails, fail{"a response never contains a non-null value at a position whose field coordinate was denied (incremental payload)", "sentinel of " + c + " in a frame of a deferred operation", fmt.Sprintf("operation %s\nsentinel %s found in\n%s", q, s, all)})
			}
		}
	}
	return fails
}

// judgeSub: the subscription transport. Every update frame is compared with the
// reference executor's answer for that event with denied coordinates erroring.
func judgeSub(f *family, lab *fedlab.Lab, q string, doc *gast.QueryDocument, deny map[string]bool, mode string, sentinels map[string][]string) (string, []fail) {
	var rootField string
	for _, sel := range doc.Operations[0].SelectionSet {
		if fd, ok := sel.(*gast.Field); ok {
			rootField = fd.Name
		}
	}
	a := &authz{deny: deny}
	ctx, cancel := context.WithTimeout(context.Background(), 30*time.Second)
	defer cancel()
	w, reqs, err := lab.ExecStream(ctx, q, "", nil, authOptions(a, mode)...)
	var fails []fail
	all := strings.Join(w.Frames, "\n") + strings.Join(w.Errors, "\n")
	for c := range deny {
		for _, s := range sentinels[c] {
			if strings.Contains(all, s) {
				fails = append(fails, fail{"a response never contains a non-null value at a position whose field coordinate was denied (subscription update)", "sentinel of " + c + " in a subscription frame", fmt.Sprintf("sentinel %s found in %s", s, all)})
			}
		}
	}
	rootDenied := deny["Subscription."+rootField]
	if mode != "post" && rootDenied {
		for _, r := range reqs {
			if r.OpType == "subscription" {
				fails = append(fails, fail{"with pre-fetch authorization a mutation or subscription request is not sent when any of its root fields is denied", "request sent: subscription", r.Host + " " + r.Query})
			}
		}
		return fmt.Sprintf("sub-root-denied frames=%d err=%v", len(w.Frames), err != nil), fails
	}
	if err != nil {
		return "engine-error", append(fails, fail{"a response is returned", "Execute returned an error (subscription)", err.Error()})
	}
	n := f.u.Events(rootField)
	if len(w.Frames) != n {
		fails = append(fails, fail{"every subscription update is delivered", "number of frames", fmt.Sprintf("%d frames for %d events: %v", len(w.Frames), n, w.Frames)})
		return "frames", fails
	}
	for i, fr := range w.Frames {
		dr := &denyResolver{inner: fedlab.Mono{U: f.u, Event: i}, deny: deny, hit: map[string]bool{}}
		ref := refexec.Execute(f.schema, doc, dr, refexec.Options{Root: fedlab.RootObj("Subscription")})
		m, derr := refexec.DecodeObject([]byte(fr))
		if derr != nil {
			fails = append(fails, fail{"a response is returned", "subscription frame is not JSON", fr})
			continue
		}
		if gw, want := refexec.Canon(m["data"]), refexec.Canon(ref.Data); gw != want {
			fails = append(fails, fail{"denied positions are null and null-propagate like any other null; everything else is unchanged", "subscription update differs from the reference with denied coordinates erroring", fmt.Sprintf("event %d\ngateway:   %s\nreference: %s", i, gw, want)})
			break
		}
	}
	return fmt.Sprintf("sub frames=%d reqs=%d", len(w.Frames), len(reqs)), fails
}

func judge(f *family, lab *fedlab.Lab, q string, deny map[string]bool, mode string, sentinels map[string][]string, keyFields map[string]bool) (string, []fail) {
	doc, errs := gqlparser.LoadQuery(f.schema, q)
	if errs != nil {
		return "invalid", []fail{{"harness", "generator", errs.Error()}}
	}
	if doc.Operations[0].Operation == gast.Subscription {
		return judgeSub(f, lab, q, doc, deny, mode, sentinels)
	}
	kind := "Query"
	if doc.Operations[0].Operation == gast.Mutation {
		kind = "Mutation"
	}
	dr := &denyResolver{inner: fedlab.Mono{U: f.u}, deny: deny, hit: map[string]bool{}}
	ref := refexec.Execute(f.schema, doc, dr, refexec.Options{Root: fedlab.RootObj(kind)})
	a := &authz{deny: deny}
	var opts []engine.ExecutionOptions
	switch mode {
	case "post":
		opts = append(opts, engine.WithAuthorizer(a))
	case "pre":
		opts = append(opts, engine.WithPreFetchFieldAuthorizer(a))
	case "both":
		opts = append(opts, engine.WithAuthorizer(a), engine.WithPreFetchFieldAuthorizer(a))
	}
	out, reqs, err := lab.Exec(q, "", nil, opts...)
	if err != nil {
		return "engine-error", []fail{{"a response is returned", "Execute returned an error", err.Error()}}
	}
	m, derr := refexec.DecodeObject(out)
	if derr != nil {
		return "bad-json", []fail{{"a response is returned", "response is not JSON", string(out)}}
	}
	var fails []fail
	// sentinel scan
	for c := range deny {
		for _, s := range sentinels[c] {
			if strings.Contains(string(out), s) {
				fails = append(fails, fail{"a response never contains a non-null value at a position whose field coordinate was denied", "sentinel of " + c + " in response bytes", fmt.Sprintf("sentinel %s found in %s", s, out)})
			}
		}
	}
	gw := refexec.Canon(m["data"])
	want := refexec.Canon(ref.Data)
	if gw != want {
		fails = append(fails, fail{"denied positions are null and null-propagate like any other null; everything else is unchanged", "data differs from the reference with denied coordinates erroring", fmt.Sprintf("gateway:   %s\nreference: %s", gw, want)})
	}
	// every denial that removed data is reported: a denied position that holds a
	// non-null value when everything is allowed needs an error with exactly its
	// path, unless it lies in a subtree that is nulled as a whole, in which case
	// one error for some denied position of that subtree suffices (an executor
	// may stop walking a subtree it is already discarding)
	ref0 := refexec.Execute(f.schema, doc, fedlab.Mono{U: f.u}, refexec.Options{Root: fedlab.RootObj(kind)})
	errPaths := map[string]bool{}
	if es, ok := m["errors"].([]any); ok {
		for _, e := range es {
			if em, ok := e.(map[string]any); ok {
				if p, ok := em["path"].([]any); ok {
					errPaths[refexec.Canon(p)] = true
				}
			}
		}
	}
	type scope struct {
		denied   []string
		reported bool
	}
	scopes := map[string]*scope{}
	for p := range dr.hit {
		var pv []any
		d := json.NewDecoder(strings.NewReader(p))
		d.UseNumber()
		d.Decode(&pv)
		for i, x := range pv {
			if n, ok := x.(json.Number); ok {
				k, _ := n.Int64()
				pv[i] = int(k)
			}
		}
		if v, ok := lookup(ref0.Data, pv); !ok || v == nil {
			continue // nothing was removed here
		}
		// the scope of a denial = the topmost position on its path that is null in the reference result
		top := pv
		for k := 1; k <= len(pv); k++ {
			if v, ok := lookup(ref.Data, pv[:k]); !ok || v == nil {
				top = pv[:k]
				break
			}
		}
		sk := refexec.Canon(top)
		if scopes[sk] == nil {
			scopes[sk] = &scope{}
		}
		scopes[sk].denied = append(scopes[sk].denied, p)
		if errPaths[refexec.Canon(pv)] {
			scopes[sk].reported = true
		}
	}
	var missing []string
	for sk, sc := range scopes {
		if !sc.reported {
			sort.Strings(sc.denied)
			missing = append(missing, fmt.Sprintf("nulled subtree %s (denied positions %v)", sk, sc.denied))
		}
	}
	sort.Strings(missing)
	if len(missing) > 0 {
		fails = append(fails, fail{"the denial is reported as an error at that position", "no error with the path of a denied position", fmt.Sprintf("%v\nresponse: %s", missing, out)})
	}
	// request-sent rule (pre-fetch authorization)
	if mode != "post" {
		for _, r := range reqs {
			coords, opType := rootCoords(r)
			allDenied, anyDenied, n := true, false, 0
			for _, c := range coords {
				if keyFields[c] {
					continue
				}
				n++
				if deny[c] {
					anyDenied = true
				} else {
					allDenied = false
				}
			}
			if n > 0 && allDenied {
				fails = append(fails, fail{"with pre-fetch authorization a subgraph request is not sent when all of its root fields are denied", "request sent: " + opType, fmt.Sprintf("%s %s (root fields %v)", r.Host, r.Query, coords)})
			}
			if opType != "query" && anyDenied {
				fails = append(fails, fail{"with pre-fetch authorization a mutation or subscription request is not sent when any of its root fields is denied", "request sent: " + opType, fmt.Sprintf("%s %s (root fields %v)", r.Host, r.Query, coords)})
			}
		}
	}
	return fmt.Sprintf("hit=%d reqs=%d", len(dr.hit), len(reqs)), fails
}

func lookup(v any, path []any) (any, bool) {
	cur := v
	for _, x := range path {
		switch c := cur.(type) {
		case map[string]any:
			n, ok := c[fmt.Sprint(x)]
			if !ok {
				return nil, false
			}
			cur = n
		case []any:
			i, ok := x.(int)
			if !ok || i >= len(c) {
				return nil, false
			}
			cur = c[i]
		default:
			return nil, false
		}
	}
	return cur, true
}

// involved names the denied coordinates a failure detail mentions.
func involved(detail string, deny []string) string {
	var out []string
	for _, c := range deny {
		f := strings.SplitN(c, ".", 2)[1]
		if strings.Contains(detail, c) || strings.Contains(detail, `"`+f+`"`) || strings.Contains(detail, " "+f+" ") || strings.Contains(detail, "x"+f) {
			out = append(out, c)
		}
	}
	if len(out) == 0 {
		return strings.Join(deny, ",")
	}
	return strings.Join(out, ",")
}

func subsets(n, max int) [][]int {
	var out [][]int
	var rec func(start int, cur []int)
	rec = func(start int, cur []int) {
		if len(cur) > 0 {
			out = append(out, append([]int(nil), cur...))
		}
		if len(cur) == max {
			return
		}
		for i := start; i < n; i++ {
			rec(i+1, append(cur, i))
		}
	}
	rec(0, nil)
	return out
}

func firstLines(s string, n int) string {
	parts := strings.SplitN(s, "\n", n+1)
	if len(parts) > n {
		parts = parts[:n]
	}
	return strings.Join(parts, "\n")
}

func keyFieldSet(s *fedlab.Supergraph) map[string]bool {
	out := map[string]bool{}
	for _, t := range s.Types {
		for _, f := range t.Fields {
			if f.Key {
				out[t.Name+"."+f.Name] = true
			}
		}
	}
	return out
}

func TestCheck(t *testing.T) {
	run := vk.Start("C14", "exploration")
	defer run.Finish()
	run.Rule("(layout, operation selecting a protected coordinate) x every set P of <= k protected coordinate groups x ALL decision functions P -> {allow, deny} x mode {post-fetch authorizer, pre-fetch batch authorizer, both}; distinct = distinct (operation, P, decision, mode, outcome)")
	run.Assume("protection and decisions are closed under the interface relation (I.f decided like every implementer's f)",
		"reference = R1 with every denied coordinate resolving to an error; protected coordinates are never keys; as @requires inputs they occur only in the required-only cases, where just the request clause is judged",
		"defer / subscription transports are exercised by C10 / not here")
	maxP := vk.Pick(run, 2, 3)
	run.Bound("max_protected_groups", maxP)
	var caseNo int64
	type replayIn struct {
		Family     string   `json:"family"`
		Layout     []int    `json:"layout"`
		LayoutName string   `json:"layout_name"`
		N          int      `json:"n"`
		Prot       []string `json:"protected"`
		Deny       []string `json:"deny"`
		Mode       string   `json:"mode"`
		Op         string   `json:"op"`
		// aborting-frame cases
		Aborting    bool   `json:"aborting"`
		First       string `json:"first"`
		FirstDenied bool   `json:"first_denied"`
		// required-only cases
		RequiredOnly  bool `json:"required_only"`
		InterfaceOnly bool `json:"interface_only"`
	}
	var rin *replayIn
	if run.Replay != "" {
		rin = &replayIn{}
		if err := run.ReplayInput(rin); err != nil {
			t.Fatal(err)
		}
	}
	for _, f0 := range families(run) {
		keyFields := keyFieldSet(f0.s)
		for _, l := range f0.layouts {
			for _, pset := range subsets(len(f0.protected), maxP) {
				var prot []string
				for _, gi := range pset {
					prot = append(prot, f0.protected[gi]...)
				}
				if rin != nil {
					if rin.Family != f0.name || fmt.Sprint(rin.Layout) != fmt.Sprint(l.OwnerVector()) || (rin.LayoutName != "" && rin.LayoutName != l.Name) || strings.Join(rin.Prot, ",") != strings.Join(prot, ",") {
						continue
					}
				}
				caseNo++
				if rin == nil && !run.Mine(caseNo) {
					continue
				}
				if run.Expired() {
					return
				}
				// fresh universe per protection set: sentinels are planted in it
				fams := families(run)
				var f *family
				for _, x := range fams {
					if x.name == f0.name {
						f = x
					}
				}
				sent := plant(f.u, prot)
				var fcs plan.FieldConfigurations
				for _, c := range prot {
					parts := strings.SplitN(c, ".", 2)
					fcs = append(fcs, plan.FieldConfiguration{TypeName: parts[0], FieldName: parts[1], HasAuthorizationRule: true})
				}
				ll := fedlab.NewLayout(f.s, l.N, l.OwnerVector(), l.Name)
				for k, v := range l.Shared {
					ll.Shared[k] = v
				}
				lab, err := fedlab.NewLab(ll, f.u, fedlab.LabOptions{Fields: fcs})
				if err != nil {
					t.Fatalf("lab: %v", err)
				}
				curatedRan := false
				for _, op := range f.ops {
					q := op.String()
					if rin != nil && rin.Op != q {
						continue
					}
					touches := false
					for _, c := range prot {
						if strings.Contains(q, strings.SplitN(c, ".", 2)[1]) {
							touches = true
						}
					}
					if !touches {
						continue
					}
					// all decision functions over the groups of P
					for mask := 0; mask < 1<<len(pset); mask++ {
						deny := map[string]bool{}
						var dl []string
						for bi, gi := range pset {
							if mask&(1<<bi) != 0 {
								for _, c := range f0.protected[gi] {
									deny[c] = true
									dl = append(dl, c)
								}
							}
						}
						for _, mode := range []string{"post", "pre", "both"} {
							if rin != nil && (rin.Mode != mode || strings.Join(rin.Deny, ",") != strings.Join(dl, ",")) {
								continue
							}
							run.Eval(1)
							outcome, fails := judge(f, lab, q, deny, mode, sent, keyFields)
							// the @defer transport: one protected group, denied; the operation with
							// @defer at every single field site; no frame may carry a sentinel of the
							// denied coordinates
							if len(pset) == 1 && mask == 1 && op.Kind == "query" && op.Raw == "" && rin == nil {
								for _, dv := range fedlab.DeferVariants(op, 1) {
									run.Eval(1)
									run.Count("defer_variants", 1)
									fails = append(fails, judgeDefer(lab, dv.String(), deny, mode, sent, false, keyFields)...)
								}
							}
							// the same protected coordinate in TWO deferred fragments, the first
							// post-fetch decision about it failing hard
							if len(pset) == 1 && mask == 1 && mode == "post" && rin == nil && !curatedRan {
								curatedRan = true
								for _, dq := range curatedDefer[f.name] {
									hit := false
									for c := range deny {
										if strings.Contains(dq, strings.SplitN(c, ".", 2)[1]) {
											hit = true
										}
									}
									if !hit {
										continue
									}
									for _, eo := range []bool{false, true} {
										run.Eval(1)
										run.Count("curated_defer_cases", 1)
										fails = append(fails, judgeDefer(lab, dq, deny, mode, sent, eo, keyFields)...)
									}
								}
							}
							if rin != nil {
								fmt.Printf("operation %s\nprotected %v deny %v mode %s\noutcome %s\n", q, prot, dl, mode, outcome)
								for _, r := range lab.Sim.Log() {
									fmt.Printf("  -> %s %s\n", r.Host, r.Query)
								}
							}
							if run.Outcome(fmt.Sprintf("%s|%v|%v|%s|%s", q, prot, dl, mode, outcome)) {
								run.Sample(f.name+"/"+mode, map[string]any{"layout": l.String(), "operation": q, "protected": prot, "deny": dl, "mode": mode, "outcome": outcome})
							}
							for _, fl := range fails {
								if rin != nil {
									fmt.Printf("FAILED %s [%s]\n%s\n", fl.clause, fl.site, fl.detail)
								}
								run.Violate(vk.Violation{Clause: fl.clause, Site: fl.site, Class: mode + " / " + involved(fl.site+" "+firstLines(fl.detail, 1), dl),
									Detail: fmt.Sprintf("layout %s\noperation %s\nprotected %v\ndeny %v\nmode %s\n%s", l.String(), q, prot, dl, mode, fl.detail),
									Input:  map[string]any{"family": f.name, "layout": l.OwnerVector(), "n": l.N, "layout_name": l.Name, "protected": prot, "deny": dl, "mode": mode, "op": q}})
							}
						}
					}
				}
				lab.Close()
			}
		}
	}
	if rin == nil || rin.InterfaceOnly {
		interfaceOnly(t, run, rin != nil)
	}
	if rin == nil {
		requiredOnly(t, run, "", "", "")
	} else if rin.RequiredOnly && len(rin.Deny) == 1 {
		requiredOnly(t, run, rin.Op, rin.Mode, rin.Deny[0])
	}
	if rin == nil {
		abortingFrames(t, run, nil)
	} else if rin.Aborting {
		abortingFrames(t, run, &abortReplay{rin.Layout, rin.Op, rin.Mode, rin.First, rin.FirstDenied})
	}
}

// abortingFrames: a frame whose validation walk ABORTS before it reaches a denied
// object field (an earlier sibling is a denied non-null root field that bubbles
// to the root, or its decision fails hard), with a nested @defer mounted below
// that object: the nested frame reaches the denied field only as a pass-through
// field. Nothing selected below the denied coordinate may appear in any frame.
// Generated: first sibling x denied object field with a nested @defer x outer
// fragment deferred or not x mode.
// interfaceOnly: the rule exists on the INTERFACE-level coordinate only
// (Media.title; Clip.title and Post.title carry none) and is denied. Wherever the
// operation selects title on the interface level - alone, before or after a
// type-conditioned selection of the same field under the same response key - the
// position is null for every runtime type and the denial is reported. Judged
// without the reference executor (whose denial is per runtime type): no feed
// item may carry a title.
func interfaceOnly(t *testing.T, run *vk.Run, replaying bool) {
	if !replaying && run.Shard() != 0 {
		return
	}
	abs := fedlab.SAbs()
	u := fedlab.SAbsUniverse(abs)
	l := fedlab.ByType(abs, 2, func(r fedlab.FieldRef) int {
		if r.Type == "Book" || r.Field == "search" {
			return 1
		}
		return 0
	}, "base2")
	lab, err := fedlab.NewLab(l, u, fedlab.LabOptions{Fields: plan.FieldConfigurations{{TypeName: "Media", FieldName: "title", HasAuthorizationRule: true}}})
	if err != nil {
		t.Fatalf("lab: %v", err)
	}
	defer lab.Close()
	frags := []string{`... on Clip { title }`, `... on Post { title }`, `... on Clip { title secs }`, `... on Clip { title } ... on Post { title }`}
	var ops []string
	ops = append(ops, `{ feed { title } }`, `{ feed { __typename title by { id } } }`)
	for _, fr := range frags {
		ops = append(ops, `{ feed { __typename `+fr+` title } }`, `{ feed { __typename title `+fr+` } }`, `{ feed { `+fr+` title __typename } }`)
	}
	for _, q := range ops {
		for _, mode := range []string{"post", "pre", "both"} {
			// the DECISION is closed under the interface relation (the post-fetch
			// authorizer is asked about the runtime type's coordinate); only the rule
			// declaration exists on the interface alone
			az := &authz{deny: map[string]bool{"Media.title": true, "Clip.title": true, "Post.title": true}}
			run.Eval(1)
			run.Count("interface_only_cases", 1)
			out, _, err := lab.Exec(q, "", nil, authOptions(az, mode)...)
			why := ""
			if err != nil {
				why = "Execute returned an error: " + err.Error()
			} else if m, derr := refexec.DecodeObject(out); derr != nil {
				why = "response is not JSON: " + string(out)
			} else {
				data, _ := m["data"].(map[string]any)
				feed, _ := data["feed"].([]any)
				for i, it := range feed {
					if o, ok := it.(map[string]any); ok && o["title"] != nil {
						why = fmt.Sprintf("feed[%d].title = %v although Media.title is denied", i, o["title"])
						break
					}
				}
				if why == "" && feed != nil && m["errors"] == nil {
					why = "no error reported for the denied position"
				}
			}
			if run.Outcome("ifaceonly|" + q + "|" + mode + "|" + why) {
				run.Sample("S-abs/interface-only/"+mode, map[string]any{"operation": q, "deny": "Media.title", "result": string(out)})
			}
			if why != "" {
				run.Violate(vk.Violation{Clause: "a response never contains a non-null value at a position whose field coordinate was denied", Site: "interface-level coordinate, rule on the interface only", Class: mode + " / Media.title",
					Detail: fmt.Sprintf("layout %s\noperation %s\nprotected and denied Media.title (no rule on Clip.title / Post.title)\nmode %s\n%s\nresponse %s", l.String(), q, mode, why, out),
					Input:  map[string]any{"family": "S-abs", "interface_only": true, "op": q, "mode": mode, "deny": []string{"Media.title"}}})
			}
		}
	}
}

// requiredOnly: a protected coordinate that the client does NOT select - it is
// fetched only because a field of another subgraph @requires it (S-req: weight,
// price, dims feed shipping / volume / summary; S-nreq: zip behind an entity
// boundary). With pre-fetch authorization the request that only fetches denied
// coordinates is never sent. Only this clause is judged here (what the dependant
// field should then be is not defined by the property).
func requiredOnly(t *testing.T, run *vk.Run, onlyOp, onlyMode, onlyDeny string) {
	if onlyOp == "" && run.Shard() != 0 {
		return
	}
	type rcase struct {
		s      *fedlab.Supergraph
		u      *fedlab.Universe
		where  map[string]int
		n      int
		prot   []string
		ops    []string
		family string
	}
	req, nreq := fedlab.SReq(), fedlab.SNReq()
	cases := []rcase{
		{req, fedlab.SReqUniverse(req), map[string]int{"Item.shipping": 1, "Item.volume": 1, "Item.summary": 1, "Query.boxes": 1, "Box.size": 1, "Box.content": 1, "Item.weight": 2, "Item.dims": 2, "Maker.label": 2, "Item.spec": 2, "Item.parts": 2}, 3,
			[]string{"Item.weight", "Item.dims", "Item.volume"},
			[]string{`{items {shipping}}`, `{items {id volume}}`, `{items {summary}}`, `{item(id: "i1") {shipping summary}}`, `{boxes {content {shipping}}}`}, "S-req"},
		{nreq, fedlab.SNReqUniverse(nreq), map[string]int{"Address.zip": 1, "Address.city": 1, "Account.label": 2, "Account.badge": 2}, 3,
			[]string{"Address.zip", "Address.city", "Account.address"},
			[]string{`{accounts {label}}`, `{accounts {badge name}}`, `{account {label badge}}`}, "S-nreq"},
	}
	for _, c := range cases {
		keyFields := keyFieldSet(c.s)
		l := fedlab.ByType(c.s, c.n, func(r fedlab.FieldRef) int { return c.where[r.String()] }, "base3")
		for _, p := range c.prot {
			parts := strings.SplitN(p, ".", 2)
			lab, err := fedlab.NewLab(l, c.u, fedlab.LabOptions{Fields: plan.FieldConfigurations{{TypeName: parts[0], FieldName: parts[1], HasAuthorizationRule: true}}})
			if err != nil {
				t.Fatalf("lab: %v", err)
			}
			for _, q := range c.ops {
				for _, mode := range []string{"pre", "both"} {
					if onlyOp != "" && (onlyOp != q || onlyMode != mode || onlyDeny != p) {
						continue
					}
					az := &authz{deny: map[string]bool{p: true}}
					run.Eval(1)
					run.Count("required_only_cases", 1)
					_, reqs, _ := lab.Exec(q, "", nil, authOptions(az, mode)...)
					sent := 0
					for _, r := range reqs {
						coords, opType := rootCoords(r)
						allDenied, n := true, 0
						for _, co := range coords {
							if keyFields[co] {
								continue
							}
							n++
							if co != p {
								allDenied = false
							}
						}
						if n > 0 && allDenied {
							sent++
							run.Violate(vk.Violation{Clause: "with pre-fetch authorization a subgraph request is not sent when all of its root fields are denied", Site: "request sent: " + opType + " (coordinate fetched only as a @requires input)", Class: mode + " / " + p,
								Detail: fmt.Sprintf("layout %s\noperation %s\nprotected and denied %s (not selected by the client)\nmode %s\n%s %s (root fields %v)", l.String(), q, p, mode, r.Host, r.Query, coords),
								Input:  map[string]any{"family": c.family, "required_only": true, "op": q, "mode": mode, "deny": []string{p}}})
						}
					}
					if run.Outcome(fmt.Sprintf("reqonly|%s|%s|%s|%d|%d", q, p, mode, len(reqs), sent)) {
						run.Sample(c.family+"/required-only/"+mode, map[string]any{"operation": q, "deny": p, "requests": len(reqs)})
					}
				}
			}
			lab.Close()
		}
	}
}

type abortReplay struct {
	layout      []int
	op, mode    string
	first       string
	firstDenied bool
}

func abortingFrames(t *testing.T, run *vk.Run, rp *abortReplay) {
	if rp == nil && run.Shard() != 0 {
		return
	}
	type first struct {
		sel   string
		prot  string
		deny  bool // denied (non-null: the null bubbles up) or failing hard
		label string
	}
	firsts := []first{
		{`users { id }`, "Query.users", true, "denied non-null root field"},
		{`users { id }`, "Query.users", false, "root field whose decision fails hard"},
		{`me { name }`, "User.name", false, "nested field whose decision fails hard"},
		{`me { name }`, "User.name", true, "denied non-null nested field"},
	}
	type second struct {
		sel       string
		prot      string
		forbidden []string
	}
	seconds := []second{
		{`topProducts { upc ... @defer { title } }`, "Query.topProducts", []string{`"title"`, `"upc"`}},
		{`topProducts { upc ... @defer { reviews { body } } }`, "Query.topProducts", []string{`"body"`, `"upc"`}},
		{`user(id: "u3") { id ... @defer { nick } }`, "Query.user", []string{`"nick"`}},
		{`user(id: "u3") { id ... @defer { favorite { ... @defer { title } } } }`, "Query.user", []string{`"title"`, `"favorite"`}},
	}
	var f *family
	for _, x := range families(run) {
		if x.name == "S-core" {
			f = x
		}
	}
	for _, l := range f.layouts {
		for _, a1 := range firsts {
			for _, a2 := range seconds {
				fcs := plan.FieldConfigurations{}
				for _, c := range []string{a1.prot, a2.prot} {
					parts := strings.SplitN(c, ".", 2)
					fcs = append(fcs, plan.FieldConfiguration{TypeName: parts[0], FieldName: parts[1], HasAuthorizationRule: true})
				}
				lab, err := fedlab.NewLab(fedlab.NewLayout(f.s, l.N, l.OwnerVector(), l.Name), f.u, fedlab.LabOptions{Fields: fcs})
				if err != nil {
					t.Fatalf("lab: %v", err)
				}
				for _, q := range []string{
					"{ ... @defer { " + a1.sel + " " + a2.sel + " } }",
					"{ " + a1.sel + " " + a2.sel + " }",
					"{ ... @defer { " + a2.sel + " " + a1.sel + " } }",
				} {
					for _, mode := range []string{"post", "both", "pre"} {
						if rp != nil && (fmt.Sprint(rp.layout) != fmt.Sprint(l.OwnerVector()) || rp.op != q || rp.mode != mode || rp.first != a1.prot || rp.firstDenied != a1.deny) {
							continue
						}
						az := &authz{deny: map[string]bool{a2.prot: true}}
						if a1.deny {
							az.deny[a1.prot] = true
						} else {
							az.errOn = map[string]bool{a1.prot: true}
						}
						run.Eval(1)
						run.Count("aborting_frame_cases", 1)
						ctx, cancel := context.WithTimeout(context.Background(), 30*time.Second)
						w, _, _ := lab.ExecStream(ctx, q, "", nil, authOptions(az, mode)...)
						cancel()
						all := strings.Join(w.Frames, "\n") + strings.Join(w.Errors, "\n")
						// only the DATA of the frames is searched (a pending entry may name the
						// path of a fragment below the denied field; that is not a value)
						var datas []string
						for _, fr := range w.Frames {
							var m map[string]any
							if json.Unmarshal([]byte(fr), &m) != nil {
								datas = append(datas, fr) // not JSON: search all of it
								continue
							}
							if d, ok := m["data"]; ok {
								b, _ := json.Marshal(d)
								datas = append(datas, string(b))
							}
							incs, _ := m["incremental"].([]any)
							for _, inc := range incs {
								if im, ok := inc.(map[string]any); ok {
									b, _ := json.Marshal(im["data"])
									datas = append(datas, string(b))
									if it, ok := im["items"]; ok {
										b, _ := json.Marshal(it)
										datas = append(datas, string(b))
									}
								}
							}
						}
						data := strings.Join(datas, "\n")
						if rp != nil {
							fmt.Printf("operation %s\nmode %s, denied %s, %s %s\n%s\n", q, mode, a2.prot, a1.label, a1.prot, all)
						}
						if run.Outcome("abort|" + q + "|" + mode + "|" + a1.label + "|" + fmt.Sprint(len(w.Frames))) {
							run.Sample("S-core/aborting-frame/"+mode, map[string]any{"layout": l.String(), "operation": q, "deny": a2.prot, "first": a1.label + " " + a1.prot, "frames": len(w.Frames)})
						}
						for _, fb := range a2.forbidden {
							if strings.Contains(data, fb) {
								run.Violate(vk.Violation{Clause: "a response never contains a non-null value at a position whose field coordinate was denied (incremental payload)",
									Site:   "data below a denied object field in a frame of a deferred operation",
									Class:  mode + " / " + a1.label + " before the denied object field",
									Detail: fmt.Sprintf("layout %s\noperation %s\ndenied %s, %s: %s\nmode %s\n%s found in\n%s", l.String(), q, a2.prot, a1.label, a1.prot, mode, fb, all),
									Input:  map[string]any{"family": "S-core", "aborting": true, "layout": l.OwnerVector(), "n": l.N, "op": q, "mode": mode, "deny": []string{a2.prot}, "first": a1.prot, "first_denied": a1.deny}})
								break
							}
						}
					}
				}
				lab.Close()
			}
		}
	}
}
