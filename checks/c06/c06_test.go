// Check C06: variable validation accepts exactly the coercible variable values.
//
// Engine E (bounded exhaustive enumeration). Seam: the engine's admission path
// for variables exactly as ExecutionEngine.Execute drives it (normalize,
// validate, normalize with variable extraction / list coercion / default
// extraction, variable remapping, VariablesValidator.ValidateWithRemap), plus
// the same validator with DisableExposingVariablesContent. Oracle: accept <=>
// coercible, where "coercible" is this package's own implementation of GraphQL
// input coercion (model_test.go, the label); structural clauses are
// cross-checked with gqlparser under the two-oracle rule. See DESIGN.md section
// 3 C06.
package c06

import (
	"fmt"
	"regexp"
	"runtime/debug"
	"sort"
	"strings"
	"testing"

	"verif/internal/vk"
)

// ---------------------------------------------------------------- clauses

const (
	cAccept    = "every coercible variable value is accepted"
	cForward   = "the variables after admission are the list-coerced form of the variables the client sent"
	cReject    = "every non-coercible variable value is rejected"
	cNameVar   = "a rejection names the offending variable"
	cNameField = "a rejection names the input field enclosing the fault"
	cNoEcho    = "with content exposure disabled a rejection never echoes variable content"
	cNoPanic   = "variable admission never panics"
	cHistory   = "a validator's verdict and message depend only on the current request, not on earlier requests"
)

// ---------------------------------------------------------------- space

type spaceCfg struct {
	Ctxs      []string
	MaxDepth  int
	Budget    int
	PairItems bool
	Combos    int // see genCfg.combos
	// FarDepth: list depth bound at the positions listfield and nested
	FarDepth int
	Double   int // pairs of field deviations in the probed input object: 0 never, 1 list depth 0 only, 2 list depth <= 1
}

type space struct {
	cfg    spaceCfg
	gen    *genCfg
	groups []group
	fam    map[string][]gval
	ctxs   map[string]*gctx
	// keepAll: cache every family (needed for random access by the shrinker)
	keepAll bool
}

func newSpace(cfg spaceCfg) *space {
	return &space{cfg: cfg, gen: &genCfg{u: baseUniverse(), pairItems: cfg.PairItems, combos: cfg.Combos},
		groups: groups(cfg.Ctxs, cfg.MaxDepth, cfg.FarDepth), fam: map[string][]gval{}, ctxs: map[string]*gctx{}}
}

// probes returns the value family of the probed position. The family does not
// depend on nullability, so it is cached by the type with every "!" erased; the
// enumeration spaces keep only the family used last (groups of one base type
// and list depth are adjacent), the shrink space keeps all.
func (sp *space) probes(t *typ) []gval {
	k := strings.ReplaceAll(t.String(), "!", "")
	if f, ok := sp.fam[k]; ok {
		return f
	}
	sp.gen.double = (sp.cfg.Double == 2 && t.listDepth() <= 1) || (sp.cfg.Double == 1 && t.listDepth() == 0)
	f := sp.gen.probes(t, sp.cfg.Budget)
	if !sp.keepAll {
		sp.fam = map[string][]gval{}
	}
	sp.fam[k] = f
	return f
}

// gctx is everything that is shared by the cases of one combination of groups
// (one group per variable): schema, operation.
type gctx struct {
	groups []group
	u      universe
	vars   []varDef
	sdlE   string // schema as the engine sees it
	sdlG   string // API-schema view for the second oracle
	query  string
}

func (sp *space) ctxFor(gs ...group) *gctx { return sp.ctxForNamed(nil, gs...) }

// ctxForNamed: names (optional) are the variable names in declaration order.
func (sp *space) ctxForNamed(names []string, gs ...group) *gctx {
	key := strings.Join(names, ",") + "#"
	for _, g := range gs {
		key += fmt.Sprintf("%s|%s|%v;", g.Ctx, g.T, g.Default)
	}
	if c, ok := sp.ctxs[key]; ok {
		return c
	}
	u := sp.gen.u.clone()
	c := &gctx{groups: gs, u: u}
	for i, g := range gs {
		sl := slot{Ctx: g.Ctx, Type: g.T.String(), Default: g.Default}
		if i < len(names) {
			sl.Name = names[i]
		}
		vd, _, err := sp.gen.build(u, sl, i)
		if err != nil {
			panic(err)
		}
		c.vars = append(c.vars, vd)
	}
	c.sdlE = u.sdl(c.vars, true)
	c.sdlG = u.sdl(c.vars, false)
	c.query = operationText(c.vars)
	if len(sp.ctxs) > 20000 {
		sp.ctxs = map[string]*gctx{}
	}
	sp.ctxs[key] = c
	return c
}

// tcase is one request: one value (possibly absent) per variable.
type tcase struct {
	gc   *gctx
	vals []gval
	// Doc is the form of the variables member when every variable is absent:
	// "object" ({}), "none" (no member), "null".
	Doc string
}

func (c *tcase) provided() provided {
	var p provided
	for i, v := range c.vals {
		if !v.Absent {
			p = append(p, jkv{c.gc.vars[i].Name, v.J})
		}
	}
	return p
}

func (c *tcase) varsJSON() string {
	switch c.Doc {
	case "none":
		return ""
	case "null":
		return "null"
	}
	o := &jv{K: jObj, O: c.provided()}
	return o.String()
}

func (c *tcase) tags() []string {
	var t []string
	for _, v := range c.vals {
		t = append(t, v.Tags...)
	}
	if c.Doc != "" && c.Doc != "object" {
		t = append(t, "variables member "+c.Doc)
	}
	return t
}

func (c *tcase) slots() []slot {
	out := make([]slot, len(c.vals))
	for i, v := range c.vals {
		g := c.gc.groups[i]
		out[i] = slot{Ctx: g.Ctx, Type: g.T.String(), Default: g.Default, Name: c.gc.vars[i].Name}
		if !v.Absent {
			out[i].Value = v.J.String()
		}
	}
	return out
}

func (c *tcase) describe() string {
	return fmt.Sprintf("schema: %s | operation: %s | variables: %s", strings.ReplaceAll(strings.TrimSpace(c.gc.sdlE), "\n", " "), c.gc.query, orNone(c.varsJSON()))
}

func orNone(s string) string {
	if s == "" {
		return "<no variables member>"
	}
	return s
}

// replayInput is Violation.Input.
type replayInput struct {
	Slots []slot   `json:"slots"`
	Doc   string   `json:"doc,omitempty"`
	Tags  []string `json:"tags,omitempty"`
	// History: requests the re-used validator instances saw before this one
	// (only recorded for the history clause: the last rejected request and the
	// request right before this one)
	History []replayInput `json:"history,omitempty"`
	// MultiOp: the case is run through ExecutionEngine.Execute and the menu of
	// multi-operation documents (execute_test.go)
	MultiOp bool `json:"multi_op,omitempty"`
}

func (c *tcase) replay() replayInput {
	return replayInput{Slots: c.slots(), Doc: c.Doc, Tags: c.tags()}
}

// ---------------------------------------------------------------- evaluation

type failure struct {
	Clause  string
	F       *fault // the fault the failure is about (nil for false rejections / panics)
	Hidden  bool   // observed on the validator with content exposure disabled
	Detail  string
	History []replayInput // history clause only
}

type evalResult struct {
	lab       labelResult
	adm       admission
	gq        string
	gqMsg     string
	gqRetried bool   // second opinion given on the []-for-null equivalent (see eval)
	status    string // judged | ambiguous | oracle_split
	alone     bool   // judged by the label alone (scalar leaf / oneOf)
	fails     []failure
}

type oracles struct {
	eng engineSchemas
	gq  gqSchemas
	// long-lived validator instances, re-used for every request of this process,
	// and what they saw
	ru          *reusePair
	lastRej     *tcase // last request the validator step rejected
	prev        *tcase // request right before the current one (validator step ran)
	prevVerdict int    // 0 none yet, 1 accepted, 2 rejected (fresh instance, validator step)
	nRA, nAR    int64  // reject->accept and accept->reject transitions seen by the re-used instances
	nCompared   int64
	nResets     int64
}

func newOracles() *oracles {
	return &oracles{eng: newEngineSchemas(), gq: newGqSchemas(), ru: newReusePair()}
}

func isIdent(b byte) bool {
	return b == '_' || (b >= '0' && b <= '9') || (b >= 'a' && b <= 'z') || (b >= 'A' && b <= 'Z')
}

// namesWord: w occurs in msg as a whole word.
func namesWord(msg, w string) bool {
	for i := 0; ; {
		j := strings.Index(msg[i:], w)
		if j < 0 {
			return false
		}
		s := i + j
		e := s + len(w)
		if (s == 0 || !isIdent(msg[s-1])) && (e == len(msg) || !isIdent(msg[e])) {
			return true
		}
		i = s + 1
	}
}

// namesVar: msg contains $name or "name".
func namesVar(msg, name string) bool {
	if strings.Contains(msg, `"`+name+`"`) {
		return true
	}
	for i := 0; ; {
		j := strings.Index(msg[i:], "$"+name)
		if j < 0 {
			return false
		}
		e := i + j + 1 + len(name)
		if e == len(msg) || !isIdent(msg[e]) {
			return true
		}
		i = i + j + 1
	}
}

var quotedRe = regexp.MustCompile(`"[^"]*"`)
var digitsRe = regexp.MustCompile(`[0-9]+`)

// msgKind reduces an error message to its template.
func msgKind(msg string) string {
	if i := strings.LastIndex(msg, "; "); i >= 0 {
		msg = msg[i+2:]
	}
	if i := strings.Index(msg, ": "); i >= 0 {
		msg = msg[:i]
	}
	msg = quotedRe.ReplaceAllString(msg, `"_"`)
	msg = digitsRe.ReplaceAllString(msg, "#")
	if len(msg) > 70 {
		msg = msg[:70]
	}
	return msg
}

func hasDigit(s string) bool { return strings.ContainsAny(s, "0123456789") }

// describedBy: does msg name the variable of f and (if f is inside an input
// object) the nearest enclosing input field?
func describedVar(msg string, f fault) bool { return namesVar(msg, f.Var) }
func describedField(msg string, f fault) bool {
	return f.Field == "" || namesWord(msg, f.Field)
}

func (o *oracles) eval(c *tcase) *evalResult {
	r := &evalResult{}
	prov := c.provided()
	vj := c.varsJSON()
	r.lab = coerceVariables(c.gc.u, c.gc.vars, prov)
	r.adm = admit(o.eng.get(c.gc.sdlE), c.gc.query, vj, o.ru)
	o.history(c, r)
	gs, gop := o.gq.get(c.gc.sdlG, c.gc.query)
	gqVars := vj
	if c.Doc == "none" || c.Doc == "null" {
		gqVars = ""
	}
	r.gq, r.gqMsg = gqVerdict(gs, gop, gqVars)
	if r.gq == "panic" && gqVars != "" {
		// gqlparser panics on a null item whose type is a nullable list. null and []
		// are both always valid there, so the second opinion is asked about the
		// verdict-equivalent value with [] in place of such nulls.
		o2 := &jv{K: jObj}
		for _, m := range prov {
			v := m.V
			for _, vd := range c.gc.vars {
				if vd.Name == m.Key {
					v = gqSanitize(c.gc.u, vd.T, v)
				}
			}
			o2.O = append(o2.O, jkv{m.Key, v})
		}
		if v2, m2 := gqVerdict(gs, gop, o2.String()); v2 != "panic" {
			r.gq, r.gqMsg, r.gqRetried = v2, m2, true
		}
	}

	if r.adm.Stage == "panic" {
		r.fails = append(r.fails, failure{Clause: cNoPanic, Detail: "panic: " + r.adm.Msg})
	}

	// which oracle judges
	switch {
	case !r.lab.judged():
		r.status = "ambiguous"
	case r.lab.coercible():
		switch {
		case r.gq == "accept":
			r.status = "judged"
		case r.gq == "reject" && gqScalarComplaint(r.gqMsg):
			r.status, r.alone = "judged", true
		default:
			r.status = "oracle_split"
		}
	default:
		structural := false
		for _, f := range r.lab.Faults {
			if f.Group == "structural" {
				structural = true
			}
		}
		switch {
		case r.gq == "reject":
			r.status = "judged"
		case !structural:
			r.status, r.alone = "judged", true
		default:
			r.status = "oracle_split"
		}
	}

	if r.status == "judged" && r.adm.Stage != "panic" {
		want := r.lab.coercible()
		if r.adm.Accepted != want {
			if want {
				r.fails = append(r.fails, failure{Clause: cAccept, Detail: fmt.Sprintf("rejected at stage %s: %s", r.adm.Stage, r.adm.Msg)})
			} else {
				for i := range r.lab.Faults {
					r.fails = append(r.fails, failure{Clause: cReject, F: &r.lab.Faults[i], Detail: "accepted; final variables " + r.adm.FinalVars})
				}
			}
		} else if r.adm.HiddenRan && r.adm.HiddenAccepted != want {
			if want {
				r.fails = append(r.fails, failure{Clause: cAccept, Hidden: true, Detail: "rejected only with content exposure disabled: " + r.adm.HiddenMsg})
			} else {
				for i := range r.lab.Faults {
					r.fails = append(r.fails, failure{Clause: cReject, F: &r.lab.Faults[i], Hidden: true, Detail: "accepted only with content exposure disabled"})
				}
			}
		}
	}

	// forwarded value: label and engine agree on acceptance
	if r.status == "judged" && r.lab.coercible() && r.adm.Accepted && r.adm.Stage != "panic" {
		if d := forwardedDiff(c, prov, r.adm.FinalVars); d != "" {
			r.fails = append(r.fails, failure{Clause: cForward, Detail: "variables after admission: " + r.adm.FinalVars + " | " + d})
		}
	}

	// message clauses: whenever label and engine agree on rejection
	if r.status == "judged" && !r.lab.coercible() {
		check := func(msg string, hidden bool) {
			okVar, okField := false, false
			for _, f := range r.lab.Faults {
				if describedVar(msg, f) {
					okVar = true
					if describedField(msg, f) {
						okField = true
					}
				}
			}
			// one failure per fault: the message is about one of them, the shrinker finds out which
			for i := range r.lab.Faults {
				if !okVar {
					r.fails = append(r.fails, failure{Clause: cNameVar, F: &r.lab.Faults[i], Hidden: hidden, Detail: "message: " + msg})
				} else if !okField {
					r.fails = append(r.fails, failure{Clause: cNameField, F: &r.lab.Faults[i], Hidden: hidden, Detail: "message: " + msg})
				}
			}
		}
		if !r.adm.Accepted && r.adm.Stage != "panic" {
			check(r.adm.Msg, false)
		}
		if r.adm.HiddenRan && !r.adm.HiddenAccepted {
			check(r.adm.HiddenMsg, true)
		}
	}
	// never echo: on every rejection of the hidden-content validator, judged or not
	if r.adm.HiddenRan && !r.adm.HiddenAccepted {
		toks := map[string]bool{}
		for _, m := range prov {
			m.V.leafTokens(4, toks)
		}
		var names []string
		for t := range toks {
			if hasDigit(t) {
				names = append(names, t)
			}
		}
		sort.Strings(names)
		for _, t := range names {
			if strings.Contains(r.adm.HiddenMsg, t) {
				var f *fault
				if len(r.lab.Faults) > 0 {
					f = &r.lab.Faults[0]
				}
				r.fails = append(r.fails, failure{Clause: cNoEcho, F: f, Hidden: true, Detail: fmt.Sprintf("token %q of the variables occurs in the message: %s", t, r.adm.HiddenMsg)})
				break
			}
		}
	}
	return r
}

// gqSanitize replaces null ITEMS whose type is a nullable list by [].
func gqSanitize(u universe, t *typ, v *jv) *jv {
	switch {
	case t.isList() && v.K == jArr:
		out := &jv{K: jArr}
		for _, it := range v.A {
			if it.K == jNull && t.Elem.isList() && !t.Elem.NonNull {
				out.A = append(out.A, jarr())
				continue
			}
			out.A = append(out.A, gqSanitize(u, t.Elem, it))
		}
		return out
	case t.isList():
		return gqSanitize(u, t.Elem, v)
	case v.K == jObj:
		d := u[t.Name]
		if d == nil || d.Kind != kInput {
			return v
		}
		out := &jv{K: jObj}
		for _, m := range v.O {
			if f := d.field(m.Key); f != nil {
				out.O = append(out.O, jkv{m.Key, gqSanitize(u, f.T, m.V)})
			} else {
				out.O = append(out.O, m)
			}
		}
		return out
	}
	return v
}

// forwardedDiff compares the variables after admission with the list-coerced
// form of the provided ones ("" = they match). Members added for absent
// variables / input fields that declare a default are admissible.
func forwardedDiff(c *tcase, prov provided, final string) string {
	got := jobj()
	if final != "" && final != "null" {
		g, err := parseJV(final)
		if err != nil || g.K != jObj {
			return "not a JSON object"
		}
		got = g
	}
	for _, vd := range c.gc.vars {
		pv, has := prov.get(vd.Name)
		gv, ghas := got.get(vd.Name)
		switch {
		case has && !ghas:
			return "variable " + vd.Name + " is missing"
		case has:
			if d := forwardedMatches(c.gc.u, vd.T, coercedValue(c.gc.u, vd.T, pv), gv, vd.Name); d != "" {
				return d
			}
		case ghas && vd.Default == "":
			return "variable " + vd.Name + " was added"
		}
	}
	for _, m := range got.O {
		known := false
		for _, vd := range c.gc.vars {
			if vd.Name == m.Key {
				known = true
			}
		}
		if !known {
			return "member " + m.Key + " was added"
		}
	}
	return ""
}

// history compares the re-used validator instances with the fresh ones on the
// same input and keeps track of what the re-used instances have seen.
func (o *oracles) history(c *tcase, r *evalResult) {
	a := r.adm
	if a.Stage == "panic" {
		// a panic may leave a re-used instance in any state: start over
		o.ru, o.prevVerdict, o.lastRej, o.prev = newReusePair(), 0, nil, nil
		o.nResets++
		return
	}
	if !a.ReuseRan {
		return
	}
	o.nCompared++
	var diffs []string
	cmp := func(which string, fa bool, fm string, ra bool, rm string) {
		switch {
		case fa != ra:
			diffs = append(diffs, fmt.Sprintf("%s: fresh instance accepted=%v (%q), re-used instance accepted=%v (%q)", which, fa, fm, ra, rm))
		case fm != rm:
			diffs = append(diffs, fmt.Sprintf("%s: same verdict, fresh instance says %q, re-used instance says %q", which, fm, rm))
		}
	}
	cmp("content exposed", a.Accepted, a.Msg, a.ReuseAccepted, a.ReuseMsg)
	cmp("content exposure disabled", a.HiddenAccepted, a.HiddenMsg, a.ReuseHiddenAccepted, a.ReuseHiddenMsg)
	if len(diffs) > 0 {
		fl := failure{Clause: cHistory, Detail: strings.Join(diffs, " | ")}
		if o.lastRej != nil {
			fl.Detail += " | last request rejected before: " + o.lastRej.describe()
			fl.History = append(fl.History, o.lastRej.replay())
		}
		if o.prev != nil && o.prev != o.lastRej {
			fl.Detail += " | request right before: " + o.prev.describe()
			fl.History = append(fl.History, o.prev.replay())
		}
		r.fails = append(r.fails, fl)
		// start over so that every report is an independent occurrence
		o.ru, o.prevVerdict, o.lastRej, o.prev = newReusePair(), 0, nil, nil
		o.nResets++
		return
	}
	v := 1
	if !a.Accepted {
		v = 2
		o.lastRej = c
	}
	if o.prevVerdict == 2 && v == 1 {
		o.nRA++
	} else if o.prevVerdict == 1 && v == 2 {
		o.nAR++
	}
	o.prevVerdict = v
	o.prev = c
}

// ---------------------------------------------------------------- classification

// leafMatters: fault kinds whose detection depends on the expected named type.
func leafMatters(kind string) bool {
	switch kind {
	case fAbsentNonNull, fNullNonNull, fMissingField, fNullFieldDflt, fUnknownField, fOneOfCount, fOneOfNull:
		return false
	}
	return true
}

func faultSig(f fault) string {
	if leafMatters(f.Kind) {
		return f.Kind + " / " + f.Leaf
	}
	return f.Kind
}

func probePos(ctx string) string {
	if ctx == "top" {
		return "variable"
	}
	return "input field"
}

// wrapperTags describe how a value is wrapped, not what is special about it;
// they are ignored when candidates for a representative are looked up.
var wrapperTags = map[string]bool{"as list item": true, "as second list item": true, "second object of list": true, "single value for list": true}

func coreTags(tags []string) []string {
	seen := map[string]bool{}
	var t []string
	for _, x := range tags {
		if !wrapperTags[x] && !seen[x] {
			seen[x] = true
			t = append(t, x)
		}
	}
	sort.Strings(t)
	return t
}

func coreTagClass(tags []string) string {
	var t []string
	for _, x := range tags {
		if !wrapperTags[x] {
			t = append(t, x)
		}
	}
	return tagClass(t)
}

var multiTags = map[string]bool{"several items": true, "null item first of two": true, "null item second of two": true, "as second list item": true, "second object of list": true}

// feat are the features of a failing case that a simpler representative must
// not add (a representative R stands for a case C only if R <= C).
type feat struct {
	Pos          string
	FieldDefault bool
	VarDefault   bool
	NoDoc        bool
	Multi        bool
}

func featOf(c *tcase, fl failure) feat {
	var f feat
	vi := 0
	if fl.F != nil {
		f.Pos = fl.F.Pos
		f.FieldDefault = fl.F.FieldDefault
		for i, vd := range c.gc.vars {
			if vd.Name == fl.F.Var {
				vi = i
			}
		}
		f.VarDefault = c.gc.vars[vi].Default != ""
	} else {
		for _, g := range c.gc.groups {
			if g.Default && g.Ctx == "top" {
				f.VarDefault = true
			}
			if g.Default && g.Ctx != "top" {
				f.FieldDefault = true
			}
		}
	}
	f.NoDoc = c.Doc == "none" || c.Doc == "null"
	for _, t := range c.tags() {
		if multiTags[t] {
			f.Multi = true
		}
	}
	return f
}

func posLE(a, b string) bool {
	if a == b || a == "" || a == "variable" {
		return true
	}
	return b == "list item in input field" && (a == "list item" || a == "input field")
}

func (r feat) le(c feat) bool {
	return posLE(r.Pos, c.Pos) && (!r.FieldDefault || c.FieldDefault) && (!r.VarDefault || c.VarDefault) && r.NoDoc == c.NoDoc && (!r.Multi || c.Multi)
}

func (f feat) key() string {
	return fmt.Sprintf("%s|%v|%v|%v|%v", f.Pos, f.FieldDefault, f.VarDefault, f.NoDoc, f.Multi)
}

func baseClasses(c *tcase) string {
	var b []string
	for _, g := range c.gc.groups {
		b = append(b, leafClass(c.gc.u, named(g.T.base())))
	}
	return strings.Join(b, ",")
}

func failMsg(r *evalResult, fl failure) string {
	if fl.Hidden {
		return r.adm.HiddenMsg
	}
	return r.adm.Msg
}

// msgSite is the site of a message clause: the message template of the
// variables validator, or the stage when an earlier stage rejected with an
// internal error.
func msgSite(r *evalResult, fl failure) string {
	if !fl.Hidden && r.adm.Stage != "variables" {
		return "stage " + r.adm.Stage + " rejects with an internal error"
	}
	return "message: " + msgKind(failMsg(r, fl))
}

// sameDefect: failure b (on case cb) is taken to show the same defect as failure a.
func sameDefect(ca *tcase, ra *evalResult, a failure, cb *tcase, rb *evalResult, b failure) bool {
	if a.Clause != b.Clause {
		return false
	}
	switch a.Clause {
	case cReject:
		return a.Hidden == b.Hidden && a.F != nil && b.F != nil && faultSig(*a.F) == faultSig(*b.F)
	case cAccept:
		return a.Hidden == b.Hidden && ra.adm.Stage == rb.adm.Stage
	case cForward:
		return true
	case cNoPanic:
		return ra.adm.PanicSite == rb.adm.PanicSite
	case cNoEcho:
		return msgSite(ra, a) == msgSite(rb, b) && (a.F == nil) == (b.F == nil) && (a.F == nil || faultSig(*a.F) == faultSig(*b.F))
	default:
		return msgSite(ra, a) == msgSite(rb, b)
	}
}

// classify derives (site, class) of a failure from the (shrunk) case alone.
func classify(c *tcase, r *evalResult, fl failure) (site, class string) {
	ft := featOf(c, fl)
	pre := ""
	if fl.Hidden && (fl.Clause == cReject || fl.Clause == cAccept) {
		pre = "content exposure disabled; "
	}
	if ft.NoDoc {
		pre += "request without variables object; "
	}
	suffix := ""
	if ft.FieldDefault {
		suffix += ", field has default"
	}
	if ft.VarDefault {
		suffix += ", variable has default"
	}
	multi := ""
	if ft.Multi {
		multi = " (list with sibling items)"
	}
	if len(c.vals) > 1 {
		pre += "two variables; "
	}
	switch fl.Clause {
	case cNoPanic:
		return "panic in " + r.adm.PanicSite, tagClass(c.tags()) + " @ " + baseClasses(c)
	case cAccept:
		var parts []string
		for _, g := range c.gc.groups {
			parts = append(parts, probePos(g.Ctx)+" expecting "+leafClass(c.gc.u, named(g.T.base())))
		}
		return pre + "stage " + r.adm.Stage + "; " + strings.Join(parts, " and ") + suffix, tagClass(c.tags())
	case cForward:
		var parts []string
		for _, g := range c.gc.groups {
			parts = append(parts, probePos(g.Ctx)+" expecting "+leafClass(c.gc.u, named(g.T.base())))
		}
		return pre + strings.Join(parts, " and ") + suffix, tagClass(c.tags())
	case cReject:
		f := *fl.F
		s := f.Pos
		if leafMatters(f.Kind) {
			s += " expecting " + f.Leaf
		}
		return pre + s + suffix, f.Kind + multi
	case cNoEcho:
		k := "value the label does not fault"
		if fl.F != nil {
			k = fl.F.Kind
		}
		return pre + msgSite(r, fl), k
	default: // cNameVar, cNameField
		return pre + msgSite(r, fl), "fault at " + fl.F.Pos
	}
}

// ---------------------------------------------------------------- enumeration

// caseRef addresses one case of a single-variable space.
type caseRef struct {
	gi, pi  int32
	ei, doc int8
}

var docForms = []string{"object", "none", "null"}

func (sp *space) materialize(ref caseRef) *tcase {
	g := sp.groups[ref.gi]
	gc := sp.ctxFor(g)
	x := sp.probes(g.T)[ref.pi]
	v := embed(g.Ctx, x, sp.okBox(gc))[ref.ei]
	c := &tcase{gc: gc, vals: []gval{v}}
	if v.Absent {
		c.Doc = docForms[ref.doc]
	}
	return c
}

func (sp *space) okBox(gc *gctx) *jv {
	if gc.groups[0].Ctx == "top" {
		return nil
	}
	g := &genCfg{u: gc.u}
	return g.minValid(named("Box0"))
}

// forEachSingle enumerates the single-variable space in simplest-first order.
// fn returns false to stop.
func (sp *space) forEachSingle(fn func(ref caseRef, c *tcase) bool) {
	for gi, g := range sp.groups {
		gc := sp.ctxFor(g)
		ok := sp.okBox(gc)
		for pi, x := range sp.probes(g.T) {
			for ei, v := range embed(g.Ctx, x, ok) {
				ref := caseRef{gi: int32(gi), pi: int32(pi), ei: int8(ei)}
				if v.Absent {
					for d, doc := range docForms {
						ref.doc = int8(d)
						if !fn(ref, &tcase{gc: gc, vals: []gval{v}, Doc: doc}) {
							return
						}
					}
					continue
				}
				if !fn(ref, &tcase{gc: gc, vals: []gval{v}}) {
					return
				}
			}
		}
	}
}

// ---------------------------------------------------------------- shrinking

// The shrinker replaces a failing case by a simplest case of the (tier
// independent) single-variable space that shows the same defect and adds no
// feature the failing case does not have. The space is indexed once per process
// by the label alone: signature -> feature class -> cases, simplest first. Per
// feature class only a few candidates are run through the engine (the first of
// the failing case's base type and the first overall), so a search costs at
// most a few hundred evaluations. A fingerprint is a function of the feature
// class of the representative, not of the representative itself.
type shrinker struct {
	sp      *space
	o       *oracles
	built   bool
	byFault map[string]*candList // faultSig -> cases whose label has exactly that one fault
	byTags  map[string]*candList // core tag class -> all cases (any base type)
	tagSets map[string][]string  // core tag class -> its tags
	byBase  map[string][]caseRef // base -> all cases (panic search)
	memo    map[string]*shrunk
	evals   int
}

type candList struct {
	byClass map[string][]caseRef
	classes []feat
}

func (l *candList) add(f feat, ref caseRef) {
	k := f.key()
	if _, ok := l.byClass[k]; !ok {
		l.classes = append(l.classes, f)
	}
	l.byClass[k] = append(l.byClass[k], ref)
}

func (f feat) rank() int {
	r := map[string]int{"": 0, "variable": 0, "list item": 1, "input field": 2, "list item in input field": 3}[f.Pos] * 4
	for _, b := range []bool{f.FieldDefault, f.VarDefault, f.Multi} {
		if b {
			r++
		}
	}
	return r
}

type shrunk struct {
	c  *tcase
	r  *evalResult
	fl failure
}

func (s *shrinker) build() {
	if s.built {
		return
	}
	s.built = true
	s.byFault = map[string]*candList{}
	s.byTags = map[string]*candList{}
	s.tagSets = map[string][]string{}
	s.byBase = map[string][]caseRef{}
	size := map[caseRef]int{}
	get := func(m map[string]*candList, k string) *candList {
		l := m[k]
		if l == nil {
			l = &candList{byClass: map[string][]caseRef{}}
			m[k] = l
		}
		return l
	}
	s.sp.forEachSingle(func(ref caseRef, c *tcase) bool {
		size[ref] = len(c.varsJSON())
		s.byBase[baseClasses(c)] = append(s.byBase[baseClasses(c)], ref)
		lab := coerceVariables(c.gc.u, c.gc.vars, c.provided())
		if len(lab.Faults) == 1 {
			get(s.byFault, faultSig(lab.Faults[0])).add(featOf(c, failure{F: &lab.Faults[0]}), ref)
		}
		tk := coreTagClass(c.tags())
		if _, ok := s.tagSets[tk]; !ok {
			s.tagSets[tk] = coreTags(c.tags())
		}
		get(s.byTags, tk).add(featOf(c, failure{}), ref)
		return true
	})
	// simplest first: group order (position, list depth, base type, non-nulls, default), then size of the variables
	less := func(l []caseRef) func(i, j int) bool {
		return func(i, j int) bool {
			if l[i].gi != l[j].gi {
				return l[i].gi < l[j].gi
			}
			return size[l[i]] < size[l[j]]
		}
	}
	for _, m := range []map[string]*candList{s.byFault, s.byTags} {
		for _, cl := range m {
			for _, l := range cl.byClass {
				sort.SliceStable(l, less(l))
			}
			sort.SliceStable(cl.classes, func(i, j int) bool {
				if cl.classes[i].rank() != cl.classes[j].rank() {
					return cl.classes[i].rank() < cl.classes[j].rank()
				}
				return cl.classes[i].key() < cl.classes[j].key()
			})
		}
	}
	for _, l := range s.byBase {
		sort.SliceStable(l, less(l))
	}
}

const picksPerClass = 4

// representative finds a simplest single-variable case showing the same defect
// as failure fl of case c (nil if none is found below c).
func (s *shrinker) representative(c *tcase, r *evalResult, fl failure) *shrunk {
	s.build()
	ft := featOf(c, fl)
	base := baseClasses(c)
	var lists []*candList
	sig := ""
	if fl.F != nil {
		sig = "F|" + faultSig(*fl.F)
		if cl := s.byFault[faultSig(*fl.F)]; cl != nil {
			lists = append(lists, cl)
		}
	} else {
		// every tag class whose tags are a subset of the failing case's, fewest tags first
		sig = "T|" + coreTagClass(c.tags())
		mine := map[string]bool{}
		for _, t := range coreTags(c.tags()) {
			mine[t] = true
		}
		var keys []string
		for k, ts := range s.tagSets {
			sub := true
			for _, t := range ts {
				if !mine[t] {
					sub = false
					break
				}
			}
			if sub {
				keys = append(keys, k)
			}
		}
		sort.Slice(keys, func(i, j int) bool {
			if len(s.tagSets[keys[i]]) != len(s.tagSets[keys[j]]) {
				return len(s.tagSets[keys[i]]) < len(s.tagSets[keys[j]])
			}
			return keys[i] < keys[j]
		})
		for _, k := range keys {
			lists = append(lists, s.byTags[k])
		}
	}
	extra := ""
	switch fl.Clause {
	case cAccept:
		extra = r.adm.Stage
	case cNoPanic:
		extra = r.adm.PanicSite
		sig = "B|"
	case cNameVar, cNameField, cNoEcho:
		extra = msgSite(r, fl)
	}
	key := fmt.Sprintf("%s|%v|%s|%s|%s|%s", fl.Clause, fl.Hidden, sig, extra, ft.key(), base)
	if m, ok := s.memo[key]; ok {
		return m
	}
	var found *shrunk
	try := func(ref caseRef, limit feat, checkFeat bool) bool {
		rc := s.sp.materialize(ref)
		s.evals++
		rr := s.o.eval(rc)
		for _, rfl := range rr.fails {
			if sameDefect(c, r, fl, rc, rr, rfl) && (!checkFeat || featOf(rc, rfl).le(limit)) {
				found = &shrunk{rc, rr, rfl}
				return true
			}
		}
		return false
	}
	if fl.Clause == cNoPanic {
		// the simplest case of the same base type that panics at the same site
		for i, ref := range s.byBase[base] {
			if i >= 3000 || try(ref, ft, false) {
				break
			}
		}
	} else {
	lists:
		for _, cl := range lists {
			for _, f := range cl.classes {
				if !f.le(ft) {
					continue
				}
				refs := cl.byClass[f.key()]
				var picks []caseRef
				for i, ref := range refs { // the first overall ...
					if i >= picksPerClass {
						break
					}
					picks = append(picks, ref)
				}
				nb := 0
				for _, ref := range refs { // ... and the first of the same base type
					if leafClass(s.sp.gen.u, named(s.sp.groups[ref.gi].T.base())) != base {
						continue
					}
					dup := false
					for _, p := range picks {
						if p == ref {
							dup = true
						}
					}
					if !dup {
						picks = append(picks, ref)
					}
					if nb++; nb >= picksPerClass {
						break
					}
				}
				for _, ref := range picks {
					if try(ref, ft, true) {
						break lists
					}
				}
			}
		}
	}
	s.memo[key] = found
	return found
}

// ---------------------------------------------------------------- the check

func report(run *vk.Run, c *tcase, r *evalResult, fl failure, shrunkFrom string) {
	site, class := classify(c, r, fl)
	detail := fmt.Sprintf("%s | label: %s | engine: accepted=%v stage=%q msg=%q | hidden-content validator: ran=%v accepted=%v msg=%q | %s",
		c.describe(), labelText(r.lab), r.adm.Accepted, r.adm.Stage, r.adm.Msg, r.adm.HiddenRan, r.adm.HiddenAccepted, r.adm.HiddenMsg, fl.Detail)
	if shrunkFrom != "" {
		detail += " | first seen on: " + shrunkFrom
	}
	run.Violate(vk.Violation{Clause: fl.Clause, Site: site, Class: class, Detail: detail,
		Input: replayInput{Slots: c.slots(), Doc: c.Doc, Tags: c.tags()}})
}

// reportHistory: the fingerprint of a history dependence does not depend on
// the pair of requests that showed it.
func reportHistory(run *vk.Run, c *tcase, fl failure) {
	in := c.replay()
	in.History = fl.History
	run.Violate(vk.Violation{Clause: cHistory, Site: "VariablesValidator instance re-used across requests",
		Class:  "differs from a fresh instance on the same input",
		Detail: c.describe() + " | " + fl.Detail, Input: in})
}

func labelText(l labelResult) string {
	if l.coercible() {
		if len(l.Ambiguous) > 0 {
			return "not judged (" + strings.Join(l.Ambiguous, "; ") + ")"
		}
		return "coercible"
	}
	var p []string
	for _, f := range l.Faults {
		p = append(p, f.String())
	}
	return "NOT coercible: " + strings.Join(p, "; ")
}

func clauseKey(fl failure) string {
	if fl.Clause == cReject || fl.Clause == cAccept {
		return fmt.Sprintf("%s|%v", fl.Clause, fl.Hidden)
	}
	return fl.Clause
}

// handle records the failures of one evaluated case, each shrunk first.
// single(i) builds the request with only variable i (two-variable cases).
func handle(run *vk.Run, sh *shrinker, c *tcase, r *evalResult, single func(i int) *tcase) {
	done := map[string]bool{}
	for _, fl := range r.fails {
		ck := clauseKey(fl)
		if done[ck] {
			continue
		}
		if fl.Clause == cHistory {
			reportHistory(run, c, fl)
			done[ck] = true
			continue
		}
		if len(c.vals) > 1 {
			// does one of the variables alone show the same clause failing?
			for i := range c.vals {
				sc := single(i)
				sr := sh.o.eval(sc)
				hit := false
				for _, sfl := range sr.fails {
					if clauseKey(sfl) == ck {
						hit = true
					}
				}
				if hit {
					handle(run, sh, sc, sr, nil)
					done[ck] = true
					break
				}
			}
			if !done[ck] {
				report(run, c, r, fl, "")
				done[ck] = true
			}
			continue
		}
		// try this failure and, for several faults, the other faults of the same clause
		var rep *shrunk
		for _, alt := range r.fails {
			if clauseKey(alt) != ck {
				continue
			}
			if rep = sh.representative(c, r, alt); rep != nil {
				break
			}
		}
		done[ck] = true
		switch {
		case rep != nil:
			report(run, rep.c, rep.r, rep.fl, c.describe())
		case fl.Clause == cReject && len(r.lab.Faults) > 1:
			kinds := map[string]bool{}
			for _, f := range r.lab.Faults {
				kinds[f.Kind] = true
			}
			var ks []string
			for k := range kinds {
				ks = append(ks, k)
			}
			sort.Strings(ks)
			detail := fmt.Sprintf("%s | label: %s | engine accepted (final variables %s); no case with only one of these faults is accepted", c.describe(), labelText(r.lab), r.adm.FinalVars)
			run.Violate(vk.Violation{Clause: fl.Clause, Site: "combination of faults", Class: strings.Join(ks, " + "), Detail: detail,
				Input: replayInput{Slots: c.slots(), Doc: c.Doc, Tags: c.tags()}})
		default:
			report(run, c, r, fl, "")
		}
	}
}

var splitSeen = map[string]bool{}

func account(run *vk.Run, c *tcase, r *evalResult) {
	run.Eval(1)
	if r.adm.Accepted {
		run.Count("engine_accepted", 1)
	} else {
		run.Count("engine_rejected", 1)
		run.Count("engine_rejected_at_"+r.adm.Stage, 1)
	}
	switch r.status {
	case "judged":
		if r.lab.coercible() {
			run.Count("judged_coercible", 1)
		} else {
			run.Count("judged_not_coercible", 1)
		}
		if r.alone {
			run.Count("judged_by_label_alone", 1)
		}
	case "ambiguous":
		run.Count("not_judged", 1)
		for _, a := range r.lab.Ambiguous {
			run.Count("not_judged: "+a, 1)
		}
	case "oracle_split":
		run.Count("oracle_split", 1)
	}
	if r.adm.HiddenRan && !r.adm.HiddenAccepted {
		run.Count("hidden_content_rejections_checked", 1)
	}
	if r.gqRetried {
		run.Count("gqlparser_asked_about_[]_for_null_equivalent_after_panic", 1)
	}
	first := "coercible"
	if len(r.lab.Faults) > 0 {
		first = r.lab.Faults[0].Kind
	}
	key := fmt.Sprintf("%s|%v|%s|%s", first, r.adm.Accepted, r.adm.Stage, msgKind(r.adm.Msg))
	if run.Outcome(key) {
		run.Sample(key, map[string]any{"operation": c.gc.query, "variables": orNone(c.varsJSON()), "label": labelText(r.lab),
			"engine_accepted": r.adm.Accepted, "engine_message": r.adm.Msg, "gqlparser": r.gq, "status": r.status})
	}
	if r.status == "oracle_split" {
		k := "oracle_split: label says " + first + ", gqlparser " + r.gq + " " + msgKind(r.gqMsg)
		run.Count(k, 1)
		if !splitSeen[k] {
			splitSeen[k] = true
			run.Note("%s | e.g. %s %s | gqlparser: %s", k, c.gc.query, orNone(c.varsJSON()), r.gqMsg)
		}
		run.Sample("oracle_split "+first+" "+r.gq, map[string]any{"schema": c.gc.sdlG, "operation": c.gc.query, "variables": orNone(c.varsJSON()),
			"label": labelText(r.lab), "gqlparser": r.gq, "gqlparser_message": r.gqMsg})
	}
}

func tierSpace(thorough bool) spaceCfg {
	if thorough {
		return spaceCfg{Ctxs: ctxOrder, MaxDepth: 2, FarDepth: 2, Budget: 3, PairItems: true, Double: 2, Combos: 2}
	}
	return spaceCfg{Ctxs: ctxOrder, MaxDepth: 2, FarDepth: 1, Budget: 2, PairItems: true, Double: 0, Combos: 1}
}

// shrinkSpace is the (tier independent) space in which representatives are
// searched: the thorough single-variable space, with pairs of field deviations
// only where the probed type is not a list.
func shrinkSpace() spaceCfg {
	c := tierSpace(true)
	c.Double = 1
	return c
}

func TestCheck(t *testing.T) {
	run := vk.Start("C06", "exploration")
	defer run.Finish()
	debug.SetGCPercent(300) // the engine allocates a lot per request; the families are a large live heap
	if err := labelSelfTest(); err != nil {
		t.Fatalf("INFRA: %v", err)
	}
	o := newOracles()
	// which edition of the list coercion table the implementation follows for a
	// non-list item inside a list of lists: taken from the simplest such input,
	// then demanded everywhere (label, model_test.go nestedItemMode)
	switch p := admit(o.eng.get("type Query { probe(arg: [[Int]]): String }\n"), "query($xa: [[Int]]) { probe(arg: $xa) }", `{"xa":[7731]}`, nil); {
	case p.Stage == "panic":
		run.Bound("nested_list_item_reading", "not judged (the probe panicked)")
	case p.Accepted:
		nestedItemMode = nestedWrap
		run.Bound("nested_list_item_reading", "September 2025 / graphql-js: [[Int]] <- [7731] is wrapped to [[7731]] (taken from the implementation, demanded everywhere)")
	default:
		nestedItemMode = nestedError
		run.Bound("nested_list_item_reading", "October 2021: [[Int]] <- [7731] is an error (taken from the implementation, demanded everywhere)")
	}
	sh := &shrinker{sp: newSpace(shrinkSpace()), o: o, memo: map[string]*shrunk{}}
	sh.sp.keepAll = true
	defer func() {
		run.Count("shrink_candidate_evaluations", int64(sh.evals))
		run.Count("reused_validator_comparisons", o.nCompared)
		run.Count("reused_validator_reject_to_accept_transitions", o.nRA)
		run.Count("reused_validator_accept_to_reject_transitions", o.nAR)
		run.Count("reused_validator_restarts", o.nResets)
	}()

	if run.Replay != "" {
		var in replayInput
		if err := run.ReplayInput(&in); err != nil {
			t.Fatalf("replay input: %v", err)
		}
		c, err := caseFromSlots(sh.sp, in)
		if err != nil {
			t.Fatalf("replay input: %v", err)
		}
		if in.MultiOp {
			re, err := newRealEngine(execSDL(c.gc.sdlE))
			if err != nil {
				t.Fatalf("replay: engine: %v", err)
			}
			defer re.close()
			multiOpCase(run, re, c, admit(o.eng.get(c.gc.sdlE), c.gc.query, c.varsJSON(), nil))
			return
		}
		for _, h := range in.History {
			hc, err := caseFromSlots(sh.sp, h)
			if err != nil {
				t.Fatalf("replay input (history): %v", err)
			}
			o.eval(hc)
		}
		r := o.eval(c)
		account(run, c, r)
		for _, fl := range r.fails {
			if fl.Clause == cHistory {
				reportHistory(run, c, fl)
				continue
			}
			report(run, c, r, fl, "")
		}
		fmt.Printf("replay: %s\n  label: %s\n  engine: accepted=%v stage=%q msg=%q\n  hidden: ran=%v accepted=%v msg=%q\n  gqlparser: %s %s\n  status: %s\n",
			c.describe(), labelText(r.lab), r.adm.Accepted, r.adm.Stage, r.adm.Msg, r.adm.HiddenRan, r.adm.HiddenAccepted, r.adm.HiddenMsg, r.gq, r.gqMsg, r.status)
		return
	}

	cfg := tierSpace(run.Thorough())
	sp := newSpace(cfg)
	run.Rule("every (position, declared type, default, JSON value) below the bounds. Positions: the variable itself, field fld of an input object, fld of an object inside a list (first and second object), fld of a nested object. Declared type: 9 base types (Int, Float, String, Boolean, ID, enum with one @inaccessible value, custom scalar, input object with required/optional/defaulted-required/list/nested-object fields, oneOf input object) x every list/non-null wrapper pattern up to the list depth. Default: none / valid literal (variable default at the variable position, input field default elsewhere). Value: the type-directed family - absent (variables {} / no variables member / variables null), null, valid values, every wrong JSON kind, boundary and fractional numbers, single value for list, list for single, empty list, null items (alone, first of two, second of two), every deviant item as only and as second item, one nesting level too deep, every single-field deviation of an input object (absent, null, each member of the field's family, unknown field; thorough: every pair of field deviations up to list depth 1 and full leaf families one object level deeper), oneOf shapes. Two variables at once: every case of a smaller single-variable space combined with each partner variable in both orders. A case is distinct by (first label fault, engine verdict, rejecting stage, message template).")
	run.Assume(
		"the label (this package's implementation of spec input coercion) is right wherever gqlparser agrees with it; disagreements are oracle_split and not judged",
		"scalar leaves and oneOf are judged by the label alone and only for the pairs the spec text settles (DESIGN.md C06 table); 1.0/1e3 for Int and ID, numbers beyond 2^53 / not finite, and a non-list item inside a list of lists are not judged",
		"variable and input-field default literals are valid (generated valid, checked by operation validation of both implementations)",
		"variables are used at a position of exactly their declared type",
		"a non-list item inside a list of lists is an error in the October 2021 edition and wrapped in the September 2025 edition: the reading is taken from the implementation's verdict on [[Int]] <- [7731] and then demanded for every type, position and item index",
		"forwarded-value clause: for accepted coercible requests the variables after normalization must equal the provided ones with single values wrapped wherever a list is expected; members added for absent variables / input fields that declare a default are admissible and their value is not judged",
		"history clause: per process one VariablesValidator with and one without DisableExposingVariablesContent are re-used for every request (also the shrinker's) right after the fresh instances; verdict and full message text must equal the fresh instance's on the same input; after a mismatch or a panic the re-used instances are replaced; the enumeration alternates acceptable and unacceptable inputs (transitions counted in the evidence)",
		"the admission sequence replayed through exported APIs equals ExecutionEngine.Execute up to ValidateWithRemap (default engine options)",
	)
	run.Bound("positions", cfg.Ctxs)
	run.Bound("base_types", baseTypes)
	run.Bound("max_list_depth", cfg.MaxDepth)
	run.Bound("max_list_depth_at_positions_listfield_nested", cfg.FarDepth)
	run.Bound("wrapper_patterns_per_base_type", len(wrappers("Int", cfg.MaxDepth)))
	run.Bound("input_object_deviation_budget", cfg.Budget)
	run.Bound("list_pair_items", cfg.PairItems)
	run.Bound("list_item_combinations", map[int]string{0: "none", 1: "length 2 over {null, plain, items needing (inner) coercion, wrong kind}, length 3 over {null, plain, item needing coercion}, every order", 2: "lengths 2 and 3 over {null, plain, items needing (inner) coercion, wrong kind}, every order"}[cfg.Combos])
	run.Bound("groups", len(sp.groups))
	run.Bound("max_simultaneous_field_deviations", map[int]string{0: "1", 1: "2 where the probed type is not a list, else 1", 2: "2 up to list depth 1, else 1"}[cfg.Double])

	// ---- single variable
	stop := false
	var n int64
	sp.forEachSingle(func(ref caseRef, c *tcase) bool {
		if !run.Mine(int64(ref.gi)) {
			return true
		}
		n++
		if n%512 == 0 && run.Expired() {
			stop = true
			return false
		}
		r := o.eval(c)
		account(run, c, r)
		if len(r.fails) > 0 {
			handle(run, sh, c, r, nil)
		}
		return true
	})
	run.Bound("variables_per_request", 1)

	// ---- two variables at once
	if !stop {
		run.Bound("variables_per_request", 2)
		pairCfg := spaceCfg{Ctxs: []string{"top", "field"}, MaxDepth: 1, FarDepth: 1, Budget: 0, PairItems: false}
		if run.Thorough() {
			pairCfg = tierSpace(false)
			pairCfg.MaxDepth, pairCfg.FarDepth, pairCfg.PairItems, pairCfg.Combos = 1, 1, false, 0
		}
		pairs(run, sh, o, pairCfg)
	}

	// ---- request documents with several operations, through the real ExecutionEngine.Execute
	if !run.Expired() {
		multiOps(run, o, spaceCfg{Ctxs: []string{"top", "field"}, MaxDepth: 1, FarDepth: 1, Budget: 0, PairItems: false})
	}
}

func caseFromSlots(sp *space, in replayInput) (*tcase, error) {
	var gs []group
	for _, s := range in.Slots {
		gs = append(gs, group{Ctx: s.Ctx, T: parseTyp(s.Type), Default: s.Default})
	}
	var names []string
	for _, s := range in.Slots {
		if s.Name != "" {
			names = append(names, s.Name)
		}
	}
	if len(names) != len(in.Slots) {
		names = nil
	}
	c := &tcase{gc: sp.ctxForNamed(names, gs...), Doc: in.Doc}
	for _, s := range in.Slots {
		if s.Value == "" {
			c.vals = append(c.vals, gval{Absent: true})
			continue
		}
		v, err := parseJV(s.Value)
		if err != nil {
			return nil, err
		}
		c.vals = append(c.vals, gval{J: v})
	}
	if len(c.vals) > 0 {
		c.vals[0].Tags = in.Tags
	}
	return c, nil
}

// pairs: every case of a reduced single-variable space combined with every
// partner variable, partner first and partner second.
func pairs(run *vk.Run, sh *shrinker, o *oracles, cfg spaceCfg) {
	red := newSpace(cfg)
	type partner struct {
		g group
		v gval
	}
	mk := func(ctx, ty string, def bool, val string, tags ...string) partner {
		p := partner{g: group{Ctx: ctx, T: parseTyp(ty), Default: def}}
		if val == "" {
			p.v = gval{Absent: true, Tags: append([]string{"partner absent"}, tags...)}
		} else {
			j, err := parseJV(val)
			if err != nil {
				panic(err)
			}
			p.v = gval{J: j, Tags: append([]string{"partner"}, tags...)}
		}
		return p
	}
	partners := []partner{
		mk("top", "String", false, `"pstrZq9"`),
		mk("top", "String!", false, ``, "required absent"),
		mk("top", "String!", false, `null`, "null for non-null"),
		mk("top", "[Boolean!]", false, `true`, "single for list"),
		mk("top", "In", false, `{"req":8151}`),
		mk("top", "In", false, `{"req":8151,"zzUnk":1}`, "unknown field"),
		// thorough only
		mk("top", "String", false, ``),
		mk("top", "String", false, `8151`, "wrong kind"),
		mk("top", "Int!", true, ``, "default used"),
		mk("top", "[Boolean!]", false, `[true,null]`, "null item"),
		mk("top", "In!", false, `{}`, "missing required field"),
		mk("top", "One", false, `{"inta":8151,"strb":"pstrZq9"}`, "two oneOf members"),
	}
	if !run.Thorough() {
		partners = partners[:6]
	}
	run.Bound("pair_partners", len(partners))
	run.Bound("pair_space", fmt.Sprintf("every single-variable case of positions %v, list depth <= %d, deviation budget %d, list pair items %v, combined with every partner variable: case first, partner first, and case first with the variables named $b,$a (crossing the canonical names of the engine's variable remapping)", cfg.Ctxs, cfg.MaxDepth, cfg.Budget, cfg.PairItems))
	var idx int64
	red.forEachSingle(func(ref caseRef, c *tcase) bool {
		if c.Doc == "none" || c.Doc == "null" || !run.Mine(int64(ref.gi)) {
			return true
		}
		for _, p := range partners {
			// order 0: case first; 1: partner first; 2: case first with the variables
			// named $b, $a - the canonical names the engine's variable remapping
			// hands out in the opposite order (remap-aware lookup)
			for order := 0; order < 3; order++ {
				idx++
				if idx%512 == 0 && run.Expired() {
					return false
				}
				var gs []group
				var vals []gval
				var names []string
				if order == 1 {
					gs, vals = []group{p.g, c.gc.groups[0]}, []gval{p.v, c.vals[0]}
				} else {
					gs, vals = []group{c.gc.groups[0], p.g}, []gval{c.vals[0], p.v}
				}
				if order == 2 {
					names = []string{"b", "a"}
				}
				pc := &tcase{gc: sh.sp.ctxForNamed(names, gs...), vals: vals}
				r := o.eval(pc)
				account(run, pc, r)
				run.Count("pair_cases", 1)
				if len(r.fails) > 0 {
					handle(run, sh, pc, r, func(i int) *tcase {
						return &tcase{gc: sh.sp.ctxFor(gs[i]), vals: []gval{vals[i]}}
					})
				}
			}
		}
		return true
	})
}
