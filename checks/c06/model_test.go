package c06

// The type model, the JSON value representation and the LABEL: an independent
// implementation of GraphQL input coercion for variable values (spec sections
// 3.5 - 3.13 Input Coercion paragraphs and 6.1.2 CoerceVariableValues). Nothing
// in this file imports the repository under test or gqlparser.

import (
	"bytes"
	"encoding/json"
	"fmt"
	"io"
	"math"
	"math/big"
	"sort"
	"strconv"
	"strings"
)

// ---------------------------------------------------------------- JSON values

type jkind int

const (
	jNull jkind = iota
	jBool
	jNum
	jStr
	jArr
	jObj
)

// jv is a JSON value that keeps number literals as written and object members
// in order (duplicates never generated).
type jv struct {
	K jkind
	S string // string content, or the number literal exactly as written
	B bool
	A []*jv
	O []jkv
}

type jkv struct {
	Key string
	V   *jv
}

func jnull() *jv            { return &jv{K: jNull} }
func jbool(b bool) *jv      { return &jv{K: jBool, B: b} }
func jnum(lit string) *jv   { return &jv{K: jNum, S: lit} }
func jstr(s string) *jv     { return &jv{K: jStr, S: s} }
func jarr(items ...*jv) *jv { return &jv{K: jArr, A: items} }
func jobj(kv ...any) *jv {
	o := &jv{K: jObj}
	for i := 0; i+1 < len(kv); i += 2 {
		o.O = append(o.O, jkv{kv[i].(string), kv[i+1].(*jv)})
	}
	return o
}

func (v *jv) get(key string) (*jv, bool) {
	for _, m := range v.O {
		if m.Key == key {
			return m.V, true
		}
	}
	return nil, false
}

// with returns a copy of object v with key set to x (x == nil removes the key).
func (v *jv) with(key string, x *jv) *jv {
	o := &jv{K: jObj}
	done := false
	for _, m := range v.O {
		if m.Key == key {
			done = true
			if x != nil {
				o.O = append(o.O, jkv{key, x})
			}
			continue
		}
		o.O = append(o.O, m)
	}
	if !done && x != nil {
		o.O = append(o.O, jkv{key, x})
	}
	return o
}

func (v *jv) write(b *bytes.Buffer) {
	switch v.K {
	case jNull:
		b.WriteString("null")
	case jBool:
		if v.B {
			b.WriteString("true")
		} else {
			b.WriteString("false")
		}
	case jNum:
		b.WriteString(v.S)
	case jStr:
		q, _ := json.Marshal(v.S)
		b.Write(q)
	case jArr:
		b.WriteByte('[')
		for i, x := range v.A {
			if i > 0 {
				b.WriteByte(',')
			}
			x.write(b)
		}
		b.WriteByte(']')
	case jObj:
		b.WriteByte('{')
		for i, m := range v.O {
			if i > 0 {
				b.WriteByte(',')
			}
			q, _ := json.Marshal(m.Key)
			b.Write(q)
			b.WriteByte(':')
			m.V.write(b)
		}
		b.WriteByte('}')
	}
}

func (v *jv) String() string {
	var b bytes.Buffer
	v.write(&b)
	return b.String()
}

// leafTokens collects the scalar tokens (string contents and number literals)
// of at least minLen bytes that occur as VALUES (never keys) in v.
func (v *jv) leafTokens(minLen int, out map[string]bool) {
	switch v.K {
	case jNum, jStr:
		if len(v.S) >= minLen {
			out[v.S] = true
		}
	case jArr:
		for _, x := range v.A {
			x.leafTokens(minLen, out)
		}
	case jObj:
		for _, m := range v.O {
			m.V.leafTokens(minLen, out)
		}
	}
}

// parseJV parses JSON text into a jv (order and number literals preserved).
func parseJV(text string) (*jv, error) {
	d := json.NewDecoder(strings.NewReader(text))
	d.UseNumber()
	v, err := parseJVTok(d)
	if err != nil {
		return nil, err
	}
	if _, err := d.Token(); err != io.EOF {
		return nil, fmt.Errorf("trailing data after JSON value")
	}
	return v, nil
}

func parseJVTok(d *json.Decoder) (*jv, error) {
	t, err := d.Token()
	if err != nil {
		return nil, err
	}
	switch x := t.(type) {
	case nil:
		return jnull(), nil
	case bool:
		return jbool(x), nil
	case json.Number:
		return jnum(string(x)), nil
	case string:
		return jstr(x), nil
	case json.Delim:
		switch x {
		case '[':
			a := &jv{K: jArr}
			for d.More() {
				e, err := parseJVTok(d)
				if err != nil {
					return nil, err
				}
				a.A = append(a.A, e)
			}
			_, err := d.Token()
			return a, err
		case '{':
			o := &jv{K: jObj}
			for d.More() {
				kt, err := d.Token()
				if err != nil {
					return nil, err
				}
				k, _ := kt.(string)
				e, err := parseJVTok(d)
				if err != nil {
					return nil, err
				}
				o.O = append(o.O, jkv{k, e})
			}
			_, err := d.Token()
			return o, err
		}
	}
	return nil, fmt.Errorf("unexpected token %v", t)
}

// ---------------------------------------------------------------- types

type typ struct {
	Name    string // named type (Elem == nil)
	Elem    *typ   // list item type
	NonNull bool
}

func named(n string) *typ     { return &typ{Name: n} }
func listOf(e *typ) *typ      { return &typ{Elem: e} }
func nonNull(t *typ) *typ     { c := *t; c.NonNull = true; return &c }
func (t *typ) nullable() *typ { c := *t; c.NonNull = false; return &c }
func (t *typ) isList() bool   { return t.Elem != nil }
func (t *typ) base() string {
	for t.Elem != nil {
		t = t.Elem
	}
	return t.Name
}
func (t *typ) listDepth() int {
	n := 0
	for t.Elem != nil {
		n++
		t = t.Elem
	}
	return n
}
func (t *typ) String() string {
	s := t.Name
	if t.Elem != nil {
		s = "[" + t.Elem.String() + "]"
	}
	if t.NonNull {
		s += "!"
	}
	return s
}

// parseTyp parses "[[Int!]]!" notation.
func parseTyp(s string) *typ {
	s = strings.TrimSpace(s)
	nn := strings.HasSuffix(s, "!")
	if nn {
		s = s[:len(s)-1]
	}
	var t *typ
	if strings.HasPrefix(s, "[") {
		t = listOf(parseTyp(s[1 : len(s)-1]))
	} else {
		t = named(s)
	}
	t.NonNull = nn
	return t
}

type nkind int

const (
	kScalar nkind = iota // built-in or custom scalar
	kEnum
	kInput
)

type fieldDef struct {
	Name    string
	T       *typ
	Default string // GraphQL literal; "" = no default
}

type enumVal struct {
	Name         string
	Inaccessible bool
}

type namedType struct {
	Name   string
	Kind   nkind
	Fields []fieldDef
	OneOf  bool
	Values []enumVal
}

func (n *namedType) field(name string) *fieldDef {
	for i := range n.Fields {
		if n.Fields[i].Name == name {
			return &n.Fields[i]
		}
	}
	return nil
}

type universe map[string]*namedType

var builtinScalars = map[string]bool{"Int": true, "Float": true, "String": true, "Boolean": true, "ID": true}

// baseUniverse is the fixed part of every schema of this check.
func baseUniverse() universe {
	u := universe{}
	for s := range builtinScalars {
		u[s] = &namedType{Name: s, Kind: kScalar}
	}
	u["Any"] = &namedType{Name: "Any", Kind: kScalar}
	u["Color"] = &namedType{Name: "Color", Kind: kEnum, Values: []enumVal{{"RED", false}, {"GREEN", false}, {"HIDDEN", true}}}
	u["Nest"] = &namedType{Name: "Nest", Kind: kInput, Fields: []fieldDef{
		{Name: "flag", T: parseTyp("Boolean!")},
		{Name: "col", T: parseTyp("Color")},
	}}
	u["In"] = &namedType{Name: "In", Kind: kInput, Fields: []fieldDef{
		{Name: "req", T: parseTyp("Int!")},
		{Name: "opt", T: parseTyp("String")},
		{Name: "dfl", T: parseTyp("Int!"), Default: "5"},
		{Name: "lst", T: parseTyp("[Int!]")},
		{Name: "nst", T: parseTyp("Nest")},
	}}
	u["One"] = &namedType{Name: "One", Kind: kInput, OneOf: true, Fields: []fieldDef{
		{Name: "inta", T: parseTyp("Int")},
		{Name: "strb", T: parseTyp("String")},
		{Name: "nsto", T: parseTyp("Nest")},
	}}
	return u
}

func (u universe) clone() universe {
	c := universe{}
	for k, v := range u {
		c[k] = v
	}
	return c
}

// closure returns the names of the non-built-in types reachable from roots, sorted.
func (u universe) closure(roots []*typ) []string {
	seen := map[string]bool{}
	var visit func(n string)
	visit = func(n string) {
		if seen[n] || builtinScalars[n] {
			return
		}
		seen[n] = true
		if d := u[n]; d != nil {
			for _, f := range d.Fields {
				visit(f.T.base())
			}
		}
	}
	for _, r := range roots {
		visit(r.base())
	}
	out := make([]string, 0, len(seen))
	for n := range seen {
		out = append(out, n)
	}
	sort.Strings(out)
	return out
}

// sdl renders the schema for the variable definitions of a case. forEngine:
// declares @oneOf/@inaccessible and keeps inaccessible enum values; otherwise
// (the API-schema view handed to the second oracle) inaccessible values are
// dropped and no directive is declared (gqlparser's prelude has @oneOf).
func (u universe) sdl(vars []varDef, forEngine bool) string {
	var b strings.Builder
	roots := make([]*typ, len(vars))
	b.WriteString("type Query { probe(")
	for i, v := range vars {
		roots[i] = v.T
		if i > 0 {
			b.WriteString(", ")
		}
		fmt.Fprintf(&b, "%s: %s", argName(i), v.T)
	}
	b.WriteString("): String }\n")
	if forEngine {
		b.WriteString("directive @oneOf on INPUT_OBJECT\ndirective @inaccessible on ENUM_VALUE\n")
	}
	for _, n := range u.closure(roots) {
		d := u[n]
		switch d.Kind {
		case kScalar:
			fmt.Fprintf(&b, "scalar %s\n", n)
		case kEnum:
			fmt.Fprintf(&b, "enum %s {", n)
			for _, v := range d.Values {
				if v.Inaccessible {
					if forEngine {
						fmt.Fprintf(&b, " %s @inaccessible", v.Name)
					}
					continue
				}
				fmt.Fprintf(&b, " %s", v.Name)
			}
			b.WriteString(" }\n")
		case kInput:
			fmt.Fprintf(&b, "input %s", n)
			if d.OneOf {
				b.WriteString(" @oneOf")
			}
			b.WriteString(" {")
			for _, f := range d.Fields {
				fmt.Fprintf(&b, " %s: %s", f.Name, f.T)
				if f.Default != "" {
					fmt.Fprintf(&b, " = %s", f.Default)
				}
			}
			b.WriteString(" }\n")
		}
	}
	return b.String()
}

func argName(i int) string { return string(rune('a'+i)) + "rg" }

// varDef is one variable definition of the operation.
type varDef struct {
	Name    string
	T       *typ
	Default string // GraphQL literal, "" = none
}

func operationText(vars []varDef) string {
	var b strings.Builder
	b.WriteString("query(")
	for i, v := range vars {
		if i > 0 {
			b.WriteString(", ")
		}
		fmt.Fprintf(&b, "$%s: %s", v.Name, v.T)
		if v.Default != "" {
			fmt.Fprintf(&b, " = %s", v.Default)
		}
	}
	b.WriteString(") { probe(")
	for i, v := range vars {
		if i > 0 {
			b.WriteString(", ")
		}
		fmt.Fprintf(&b, "%s: $%s", argName(i), v.Name)
	}
	b.WriteString(") }")
	return b.String()
}

// ---------------------------------------------------------------- the label

// fault is one reason why a value is not coercible.
type fault struct {
	Kind  string   // stable fault kind (see the constants below)
	Group string   // "structural" | "scalar" | "oneof"
	Leaf  string   // class of the type expected at the fault location, e.g. "Int", "enum", "input object", "list"
	Pos   string   // position class: where the offending value sits
	Path  []string // variable name, then keys / "[i]"
	Field string   // nearest enclosing input field name ("" = the fault is not inside an input object)
	Var   string
	Sub   string // finer description (not part of any fingerprint)
	// FieldDefault: the nearest enclosing input field declares a default value
	FieldDefault bool
}

func (f fault) String() string {
	k := f.Kind
	if f.Sub != "" {
		k += " [" + f.Sub + "]"
	}
	return fmt.Sprintf("%s at %s (%s, expected %s)", k, strings.Join(f.Path, "."), f.Pos, f.Leaf)
}

const (
	fAbsentNonNull   = "required variable not provided"
	fNullNonNull     = "null for non-null"
	fMissingField    = "required input field missing"
	fNullFieldDflt   = "explicit null for non-null input field with default"
	fUnknownField    = "unknown input field"
	fListForSingle   = "list where a non-list type is expected"
	fNotObject       = "non-object where an input object is expected"
	fEnumUnknown     = "string naming no (accessible) enum value"
	fEnumHidden      = "string naming an @inaccessible enum value"
	fEnumKind        = "non-string for enum"
	fScalarKind      = "wrong JSON kind for scalar"
	fIntNot32        = "number that is not a 32-bit integer for Int"
	fIDFraction      = "fractional number for ID"
	fOneOfCount      = "oneOf object without exactly one key"
	fOneOfNull       = "oneOf object whose member is null"
	ambIntegralFloat = "integral number not written as an integer literal"
	ambBeyond2p53    = "number beyond 2^53 or not finite"
	ambItemNotList   = "non-list item inside a list of lists (spec editions differ)"
	fItemNotList     = "non-list item inside a list of lists (October 2021 reading)"
)

// verdict of the label for a whole request.
type labelResult struct {
	Faults    []fault  // definite reasons for rejection
	Ambiguous []string // things the spec text does not settle; only relevant when Faults is empty
}

func (l labelResult) coercible() bool { return len(l.Faults) == 0 }
func (l labelResult) judged() bool    { return len(l.Faults) > 0 || len(l.Ambiguous) == 0 }

// provided is a variables object: name -> value (absent = no member).
type provided []jkv

func (p provided) get(name string) (*jv, bool) {
	for _, m := range p {
		if m.Key == name {
			return m.V, true
		}
	}
	return nil, false
}

type coercer struct {
	u   universe
	res *labelResult
	v   string
	fd  bool // the input field currently being coerced declares a default
}

// coerceVariables is spec 6.1.2 CoerceVariableValues. Default values are
// assumed valid (they are generated valid and checked by operation validation).
func coerceVariables(u universe, vars []varDef, values provided) labelResult {
	res := labelResult{}
	for _, d := range vars {
		c := &coercer{u: u, res: &res, v: d.Name}
		val, has := values.get(d.Name)
		if !has && d.Default != "" {
			continue // default is used
		}
		if d.T.NonNull && !has {
			c.add(fault{Kind: fAbsentNonNull, Group: "structural", Leaf: leafClass(u, d.T), Pos: "variable", Path: []string{d.Name}})
			continue
		}
		if !has {
			continue
		}
		c.coerce(d.T, val, []string{d.Name}, "variable", "")
	}
	return res
}

func (c *coercer) add(f fault) {
	f.Var = c.v
	if f.Field != "" {
		f.FieldDefault = c.fd
	}
	c.res.Faults = append(c.res.Faults, f)
}

func (c *coercer) amb(what string) {
	for _, a := range c.res.Ambiguous {
		if a == what {
			return
		}
	}
	c.res.Ambiguous = append(c.res.Ambiguous, what)
}

func leafClass(u universe, t *typ) string {
	if t.isList() {
		return "list"
	}
	d := u[t.Name]
	if d == nil {
		return t.Name
	}
	switch d.Kind {
	case kEnum:
		return "enum"
	case kInput:
		if d.OneOf {
			return "oneOf input object"
		}
		return "input object"
	}
	if builtinScalars[t.Name] {
		return t.Name
	}
	return "custom scalar"
}

func copyPath(p []string, more ...string) []string {
	out := make([]string, 0, len(p)+len(more))
	out = append(out, p...)
	return append(out, more...)
}

// coerce implements the Input Coercion paragraphs of 3.12 Non-Null, 3.11 List,
// 3.10 Input Objects (incl. OneOf), 3.9 Enums and 3.5 Scalars.
// pos is the position class of v ("variable", "list item", "input field",
// "list item in input field"); field is the nearest enclosing input field.
func (c *coercer) coerce(t *typ, v *jv, path []string, pos, field string) {
	if v.K == jNull {
		if t.NonNull {
			c.add(fault{Kind: fNullNonNull, Group: "structural", Leaf: leafClass(c.u, t), Pos: pos, Path: path, Field: field})
		}
		return
	}
	if t.isList() {
		itemPos := "list item"
		if field != "" {
			itemPos = "list item in input field"
		}
		if v.K != jArr {
			// a single value is coerced to a list of one (recursively for nested lists)
			c.coerce(t.Elem, v, path, pos, field)
			return
		}
		for i, it := range v.A {
			if t.Elem.isList() && it.K != jArr && it.K != jNull {
				// October 2021: error; September 2025 / graphql-js: wrapped. Either
				// edition is admissible, but one of them consistently (nestedItemMode).
				switch nestedItemMode {
				case nestedWrap:
				case nestedError:
					c.add(fault{Kind: fItemNotList, Group: "structural", Leaf: "list", Pos: itemPos, Path: copyPath(path, fmt.Sprintf("[%d]", i)), Field: field})
					continue
				default:
					c.amb(ambItemNotList)
				}
			}
			c.coerce(t.Elem, it, copyPath(path, fmt.Sprintf("[%d]", i)), itemPos, field)
		}
		return
	}
	d := c.u[t.Name]
	leaf := leafClass(c.u, t)
	switch d.Kind {
	case kScalar:
		c.scalar(t.Name, v, path, pos, field, leaf)
	case kEnum:
		if v.K == jArr {
			c.add(fault{Kind: fListForSingle, Group: "structural", Leaf: leaf, Pos: pos, Path: path, Field: field})
			return
		}
		if v.K != jStr {
			c.add(fault{Kind: fEnumKind, Group: "structural", Leaf: leaf, Pos: pos, Path: path, Field: field})
			return
		}
		for _, ev := range d.Values {
			if ev.Name == v.S {
				if ev.Inaccessible {
					c.add(fault{Kind: fEnumHidden, Group: "structural", Leaf: leaf, Pos: pos, Path: path, Field: field})
				}
				return
			}
		}
		c.add(fault{Kind: fEnumUnknown, Group: "structural", Leaf: leaf, Pos: pos, Path: path, Field: field})
	case kInput:
		if v.K == jArr {
			c.add(fault{Kind: fListForSingle, Group: "structural", Leaf: leaf, Pos: pos, Path: path, Field: field})
			return
		}
		if v.K != jObj {
			c.add(fault{Kind: fNotObject, Group: "structural", Leaf: leaf, Pos: pos, Path: path, Field: field})
			return
		}
		for _, m := range v.O {
			if d.field(m.Key) == nil {
				// the enclosing field of an unknown key is the field that holds the object
				c.add(fault{Kind: fUnknownField, Group: "structural", Leaf: leaf, Pos: pos, Path: copyPath(path, m.Key), Field: field})
			}
		}
		for i := range d.Fields {
			f := &d.Fields[i]
			fv, has := v.get(f.Name)
			fpath := copyPath(path, f.Name)
			saved := c.fd
			c.fd = f.Default != ""
			switch {
			case !has:
				if f.Default == "" && f.T.NonNull {
					c.add(fault{Kind: fMissingField, Group: "structural", Leaf: leafClass(c.u, f.T), Pos: "input field", Path: fpath, Field: f.Name})
				}
			case fv.K == jNull && f.T.NonNull && f.Default != "":
				c.add(fault{Kind: fNullFieldDflt, Group: "structural", Leaf: leafClass(c.u, f.T), Pos: "input field", Path: fpath, Field: f.Name})
			default:
				c.coerce(f.T, fv, fpath, "input field", f.Name)
			}
			c.fd = saved
		}
		if d.OneOf {
			if len(v.O) != 1 {
				c.add(fault{Kind: fOneOfCount, Group: "oneof", Leaf: leaf, Pos: pos, Path: path, Field: field})
			} else if v.O[0].V.K == jNull {
				c.add(fault{Kind: fOneOfNull, Group: "oneof", Leaf: leaf, Pos: pos, Path: copyPath(path, v.O[0].Key), Field: field})
			}
		}
	}
}

// numClass classifies a JSON number literal.
type numInfo struct {
	intSyntax bool // written as -?digits
	integral  bool // mathematically an integer
	in32      bool // integral and within [-2^31, 2^31)
	beyond53  bool // |x| > 2^53, or not finite as float64
}

func classifyNumber(lit string) numInfo {
	var n numInfo
	n.intSyntax = !strings.ContainsAny(lit, ".eE")
	r, ok := new(big.Rat).SetString(lit)
	if !ok {
		n.beyond53 = true
		return n
	}
	n.integral = r.IsInt()
	lim := new(big.Rat).SetInt(new(big.Int).Lsh(big.NewInt(1), 53))
	abs := new(big.Rat).Abs(r)
	if abs.Cmp(lim) > 0 {
		n.beyond53 = true
	}
	if f, err := strconv.ParseFloat(lit, 64); err != nil || math.IsInf(f, 0) {
		n.beyond53 = true
	}
	if n.integral {
		lo := new(big.Rat).SetInt64(-(1 << 31))
		hi := new(big.Rat).SetInt64(1 << 31)
		n.in32 = r.Cmp(lo) >= 0 && r.Cmp(hi) < 0
	}
	return n
}

// scalar implements the unambiguous table of DESIGN.md C06; everything the
// spec text does not settle is reported as ambiguous and not judged.
func (c *coercer) scalar(name string, v *jv, path []string, pos, field, leaf string) {
	bad := func(kind string) {
		c.add(fault{Kind: kind, Group: "scalar", Leaf: leaf, Pos: pos, Path: path, Field: field})
	}
	if !builtinScalars[name] {
		return // custom scalar: anything
	}
	if v.K == jArr {
		c.add(fault{Kind: fListForSingle, Group: "structural", Leaf: leaf, Pos: pos, Path: path, Field: field})
		return
	}
	switch name {
	case "Int":
		if v.K != jNum {
			bad(fScalarKind)
			return
		}
		n := classifyNumber(v.S)
		switch {
		case !n.integral:
			c.add(fault{Kind: fIntNot32, Sub: "fractional", Group: "scalar", Leaf: leaf, Pos: pos, Path: path, Field: field})
		case !n.in32: // out of range however it is written
			c.add(fault{Kind: fIntNot32, Sub: "outside [-2^31, 2^31)", Group: "scalar", Leaf: leaf, Pos: pos, Path: path, Field: field})
		case !n.intSyntax:
			c.amb(ambIntegralFloat)
		}
	case "Float":
		if v.K != jNum {
			bad(fScalarKind)
			return
		}
		if f, err := strconv.ParseFloat(v.S, 64); err != nil || math.IsInf(f, 0) {
			c.amb(ambBeyond2p53)
		}
	case "String":
		if v.K != jStr {
			bad(fScalarKind)
		}
	case "Boolean":
		if v.K != jBool {
			bad(fScalarKind)
		}
	case "ID":
		switch v.K {
		case jStr:
		case jNum:
			n := classifyNumber(v.S)
			switch {
			case n.beyond53:
				c.amb(ambBeyond2p53)
			case !n.integral:
				bad(fIDFraction)
			case !n.intSyntax:
				c.amb(ambIntegralFloat)
			}
		default:
			bad(fScalarKind)
		}
	}
}

// nestedItemMode: how a non-list, non-null item inside a list of lists is
// labelled. The October 2021 edition makes it an error, the September 2025
// edition (and graphql-js) wraps it. Unknown: not judged. The check sets the
// mode from the implementation's behaviour on the simplest such input and then
// demands that reading everywhere.
const (
	nestedUnknown = iota
	nestedWrap
	nestedError
)

var nestedItemMode = nestedUnknown

// coercedValue is the value after list input coercion alone: single values are
// wrapped wherever a list is expected (recursively), nothing else changes;
// defaults are NOT filled in. Only meaningful for coercible values.
func coercedValue(u universe, t *typ, v *jv) *jv {
	if v.K == jNull {
		return v
	}
	if t.isList() {
		if v.K != jArr {
			return jarr(coercedValue(u, t.Elem, v))
		}
		out := &jv{K: jArr}
		for _, it := range v.A {
			out.A = append(out.A, coercedValue(u, t.Elem, it))
		}
		return out
	}
	d := u[t.Name]
	if d == nil || d.Kind != kInput || v.K != jObj {
		return v
	}
	out := &jv{K: jObj}
	for _, m := range v.O {
		if f := d.field(m.Key); f != nil {
			out.O = append(out.O, jkv{m.Key, coercedValue(u, f.T, m.V)})
		} else {
			out.O = append(out.O, m)
		}
	}
	return out
}

// forwardedMatches: got (the variables after admission) is want (coercedValue)
// except that members may have been ADDED for absent input fields that declare
// a default (the engine injects defaults; their value is not judged). Returns
// "" or a description of the first difference.
func forwardedMatches(u universe, t *typ, want, got *jv, path string) string {
	if want.K != got.K {
		return fmt.Sprintf("at %s: expected %s, got %s", path, want, got)
	}
	switch want.K {
	case jBool:
		if want.B != got.B {
			return fmt.Sprintf("at %s: expected %s, got %s", path, want, got)
		}
	case jNum, jStr:
		if want.S != got.S {
			return fmt.Sprintf("at %s: expected %s, got %s", path, want, got)
		}
	case jArr:
		if len(want.A) != len(got.A) {
			return fmt.Sprintf("at %s: expected %d items %s, got %d items %s", path, len(want.A), want, len(got.A), got)
		}
		et := t
		if t != nil && t.isList() {
			et = t.Elem
		} else {
			et = nil // list inside a custom scalar: compared as plain JSON
		}
		for i := range want.A {
			if d := forwardedMatches(u, et, want.A[i], got.A[i], fmt.Sprintf("%s[%d]", path, i)); d != "" {
				return d
			}
		}
	case jObj:
		var d *namedType
		if t != nil && !t.isList() {
			if nd := u[t.Name]; nd != nil && nd.Kind == kInput {
				d = nd
			}
		}
		for _, m := range want.O {
			g, ok := got.get(m.Key)
			if !ok {
				return fmt.Sprintf("at %s: member %q is missing", path, m.Key)
			}
			var ft *typ
			if d != nil {
				if f := d.field(m.Key); f != nil {
					ft = f.T
				}
			}
			if df := forwardedMatches(u, ft, m.V, g, path+"."+m.Key); df != "" {
				return df
			}
		}
		for _, m := range got.O {
			if _, ok := want.get(m.Key); ok {
				continue
			}
			if d != nil {
				if f := d.field(m.Key); f != nil && f.Default != "" {
					continue // injected default
				}
			}
			return fmt.Sprintf("at %s: member %q was added", path, m.Key)
		}
	}
	return ""
}
